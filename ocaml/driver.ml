(* driver.ml — generic glue: each input line is "<tag> <comp> <int> <int> ...";
   prints "<tag> <int> <int> ..." = Model.run_case comp ints.
   All logic lives in the extracted Coq code; this file only converts decimal <-> N. *)
open Model

let rec pos_of_int (n : int) : positive =
  if n = 1 then XH
  else if n land 1 = 0 then XO (pos_of_int (n lsr 1))
  else XI (pos_of_int (n lsr 1))

let n_of_int (n : int) : n = if n = 0 then N0 else Npos (pos_of_int n)

let rec int_of_pos (p : positive) : int =
  match p with
  | XH -> 1
  | XO q -> 2 * int_of_pos q
  | XI q -> 2 * int_of_pos q + 1

let int_of_n (x : n) : int = match x with N0 -> 0 | Npos p -> int_of_pos p

let () =
  let buf = Buffer.create 65536 in
  (try
     while true do
       let line = input_line stdin in
       match String.split_on_char ' ' (String.trim line) with
       | tag :: comp :: rest ->
         let ints = List.filter_map (fun s -> if s = "" then None else Some (n_of_int (int_of_string s))) rest in
         let out = run_case (n_of_int (int_of_string comp)) ints in
         Buffer.add_string buf tag;
         List.iter (fun x -> Buffer.add_char buf ' '; Buffer.add_string buf (string_of_int (int_of_n x))) out;
         Buffer.add_char buf '\n';
         if Buffer.length buf > 60000 then (print_string (Buffer.contents buf); Buffer.clear buf)
       | _ -> ()
     done
   with End_of_file -> ());
  print_string (Buffer.contents buf)
