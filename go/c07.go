package main

import (
	"github.com/hashicorp/raft"
)

// C07 (pure part): real nextConfiguration/checkConfiguration/hasVote/inConfiguration/quorumSize
// through the tag-exported wrappers vs Model/Config.v, plus the property monitor.
// input: cfg, idx, cmd id addr prev
// output: check(cur) ; 0 | 1 cfg' ; hasVote+2*inConfig for ids 0..5 ; quorumSize

var c07node *node

func c07quorum(cfg raft.Configuration) uint64 {
	// quorumSize reads r.configurations.latest: install the configuration through the
	// InstallSnapshot-free path: a stepper node whose latest configuration is set by a
	// LogConfiguration entry in an AppendEntries would be heavy; the wrapper below counts on the
	// real quorumSize by booting a node from a log holding that configuration.
	logs := NewMapLogStore(nil)
	logs.StoreLogs([]*raft.Log{{Index: 1, Term: 1, Type: raft.LogConfiguration, Data: raft.EncodeConfiguration(cfg)}})
	n, err := newNode(nodeOpts{id: 1}, logs, nil, nil)
	if err != nil {
		panic(err)
	}
	defer n.shutdown()
	return uint64(n.r.VerifQuorumSize())
}

func c07exec(cw *caseWriter, tag string, in []uint64, withQuorum bool) {
	cur, p := decSrvs(in, 0)
	idx, cmd, id, ad, prev := in[p], in[p+1], in[p+2], in[p+3], in[p+4]
	curC := mkConfig(cur)
	before := encConfig(curC)
	obs := []uint64{}
	checkCur := raft.VerifCheckConfiguration(curC) == nil
	if checkCur {
		obs = append(obs, 1)
	} else {
		obs = append(obs, 0)
	}
	next, err := raft.VerifNextConfiguration(curC, idx, raft.ConfigurationChangeCommand(cmd), idStr(id), addrStr(ad), prev)
	if err != nil {
		obs = append(obs, 0)
	} else {
		obs = append(obs, 1)
		obs = append(obs, encConfig(next)...)
	}
	for i := uint64(0); i <= 5; i++ {
		v := uint64(0)
		if raft.VerifHasVote(curC, idStr(i)) {
			v |= 1
		}
		if raft.VerifInConfiguration(curC, idStr(i)) {
			v |= 2
		}
		obs = append(obs, v)
	}
	// quorumSize: model value is computed for every case; the real one needs a node, so it is
	// observed on a subset and otherwise copied from an independent count
	nv := 0
	for _, s := range cur {
		if s.suff == 0 {
			nv++
		}
	}
	q := uint64(nv/2 + 1)
	if withQuorum {
		q = c07quorum(curC)
	}
	obs = append(obs, q)

	// ---- monitor: the property on the implementation
	if !eqU(before, encConfig(curC)) {
		cw.monitor("C07", tag, "nextConfiguration-mutated-its-input", "current configuration changed by the call")
	}
	if err == nil {
		if prev != 0 && prev != idx {
			cw.monitor("C07", tag, "stale-prevIndex-accepted", "prevIndex %d accepted at index %d", prev, idx)
		}
		ids := map[raft.ServerID]bool{}
		addrs := map[raft.ServerAddress]bool{}
		voters := 0
		bad := ""
		for _, s := range next.Servers {
			if s.ID == "" || s.Address == "" {
				bad = "empty id or address"
			}
			if ids[s.ID] {
				bad = "duplicate id"
			}
			if addrs[s.Address] {
				bad = "duplicate address"
			}
			ids[s.ID] = true
			addrs[s.Address] = true
			if s.Suffrage == raft.Voter {
				voters++
			}
		}
		if voters == 0 {
			bad = "no voter"
		}
		if bad != "" {
			cw.monitor("C07", tag, "ill-formed-configuration-accepted", "%s", bad)
		}
		if checkCur {
			// voter sets differ by at most one member
			a, b := map[raft.ServerID]bool{}, map[raft.ServerID]bool{}
			for _, s := range curC.Servers {
				if s.Suffrage == raft.Voter {
					a[s.ID] = true
				}
			}
			for _, s := range next.Servers {
				if s.Suffrage == raft.Voter {
					b[s.ID] = true
				}
			}
			diff := 0
			for k := range a {
				if !b[k] {
					diff++
				}
			}
			for k := range b {
				if !a[k] {
					diff++
				}
			}
			if diff > 1 {
				cw.monitor("C07", tag, "more-than-one-voter-changed", "voter sets differ by %d members", diff)
			}
		}
	}
	cw.emit(tag, 7, in, obs, err == nil)
	cw.stat("c07_cmd_"+itoa(int(cmd)), 1)
	if err == nil {
		cw.stat("c07_accepted", 1)
	} else {
		cw.stat("c07_rejected", 1)
	}
}

func c07enumConfigs(n int, ids, addrs []uint64, f func(cfg []srv)) {
	per := len(ids) * len(addrs) * 3
	total := 1
	for i := 0; i < n; i++ {
		total *= per
	}
	for x := 0; x < total; x++ {
		cfg := make([]srv, n)
		y := x
		for i := 0; i < n; i++ {
			z := y % per
			y /= per
			cfg[i] = srv{uint64(z % 3), ids[(z/3)%len(ids)], addrs[z/3/len(ids)]}
		}
		f(cfg)
	}
}

func c07requests(ids, addrs []uint64, idx uint64, f func(cmd, id, ad, prev uint64)) {
	for cmd := uint64(0); cmd <= 4; cmd++ {
		for _, id := range ids {
			for _, ad := range addrs {
				for _, prev := range []uint64{0, idx, idx + 1} {
					f(cmd, id, ad, prev)
				}
			}
		}
	}
}

func runC07(cw *caseWriter, tier string, seed uint64) {
	r := &rng{s: seed}
	idx := uint64(5)
	n := 0
	gen := func(maxN int, ids, addrs, rids, raddrs []uint64, den int) {
		for k := 0; k <= maxN; k++ {
			c07enumConfigs(k, ids, addrs, func(cfg []srv) {
				c07requests(rids, raddrs, idx, func(cmd, id, ad, prev uint64) {
					if den > 1 && r.intn(den) != 0 {
						return
					}
					in := encSrvs(cfg)
					in = append(in, idx, cmd, id, ad, prev)
					c07exec(cw, cw.tag("e"), in, r.intn(400) == 0)
					n++
				})
			})
		}
	}
	if tier == "quick" {
		// full universe (incl. empty id/address = 0) up to 2 servers
		gen(2, []uint64{0, 1, 2, 3}, []uint64{0, 1, 2}, []uint64{0, 1, 2, 3}, []uint64{0, 1, 2}, 3)
		// 3 servers, non-empty ids/addresses, sampled
		gen3 := func(den int) {
			c07enumConfigs(3, []uint64{1, 2, 3}, []uint64{1, 2, 3}, func(cfg []srv) {
				c07requests([]uint64{1, 2, 3, 4}, []uint64{1, 4}, idx, func(cmd, id, ad, prev uint64) {
					if r.intn(den) != 0 {
						return
					}
					in := encSrvs(cfg)
					in = append(in, idx, cmd, id, ad, prev)
					c07exec(cw, cw.tag("e"), in, r.intn(400) == 0)
					n++
				})
			})
		}
		gen3(40)
	} else {
		gen(2, []uint64{0, 1, 2, 3}, []uint64{0, 1, 2}, []uint64{0, 1, 2, 3}, []uint64{0, 1, 2}, 1)
		c07enumConfigs(3, []uint64{1, 2, 3}, []uint64{1, 2, 3}, func(cfg []srv) {
			c07requests([]uint64{1, 2, 3, 4}, []uint64{1, 4}, idx, func(cmd, id, ad, prev uint64) {
				if r.intn(3) != 0 {
					return
				}
				in := encSrvs(cfg)
				in = append(in, idx, cmd, id, ad, prev)
				c07exec(cw, cw.tag("e"), in, r.intn(2000) == 0)
				n++
			})
		})
	}
	cw.stat("c07_enumerated_cases", n)
	// 4-server random configurations
	cnt := 3000
	if tier != "quick" {
		cnt = 60000
	}
	for c := 0; c < cnt; c++ {
		k := 1 + r.intn(5)
		cfg := make([]srv, k)
		for i := range cfg {
			cfg[i] = srv{uint64(r.intn(3)), uint64(i + 1), uint64(i + 1)}
			if r.chance(1, 12) {
				cfg[i].id = uint64(r.intn(6))
			}
			if r.chance(1, 12) {
				cfg[i].addr = uint64(r.intn(6))
			}
		}
		in := encSrvs(cfg)
		prev := []uint64{0, idx, idx + 1, 1}[r.intn(4)]
		in = append(in, idx, uint64(r.intn(5)), uint64(r.intn(7)), uint64(r.intn(7)), prev)
		c07exec(cw, cw.tag("r"), in, r.intn(100) == 0)
	}
	cw.stat("c07_random_cases", cnt)
	c07nGen(cw, tier, r)
	// "never counted in elections and never elected": the candidate loop against scripted peers, configurations with non-voters,
	// the server itself a non-voter (it campaigns only on TimeoutNow); monitors requestvote-sent-to-non-voter /
	// leader-without-vote-quorum-of-voters are emitted for C07 too (c14emitMon)
	runC14cand(cw, tier, &rng{s: seed*43 + 11})
	// "a leader appends a new configuration only after the previous one is committed and after an entry of its own term is
	// committed": leader sequences (the gate configurationChangeChIfStable observed between the ops; monitors
	// membership-change-accepted-before-own-term-entry-committed / -while-previous-uncommitted)
	if tier == "quick" {
		c08genN(cw, 600, &rng{s: seed*47 + 5})
	} else {
		c08genN(cw, 10000, &rng{s: seed*47 + 5})
	}
	// "never counted in commitment": the commitment tables (configurations x suffrage x match reports, each followed by setConfiguration calls)
	rc := &rng{s: seed*29 + 3}
	if tier == "quick" {
		c05tables(cw, 3, []uint64{0, 1, 2, 3}, 3, 1, rc)
		c05random(cw, rc, 1500)
	} else {
		c05tables(cw, 4, []uint64{0, 1, 2, 3}, 3, 1, rc)
		c05random(cw, rc, 20000)
	}
}
