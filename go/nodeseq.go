package main

import (
	"bytes"
	"errors"
	"fmt"
	"sort"
	"strings"
	"sync"
	"time"

	"github.com/hashicorp/raft"
)

// "node sequence" component (model: Model/NodeCodec.v run_nodeseq, component 6):
// a real server is booted with NewRaft from a durable image and fed RPCs / stimuli through
// processRPC on one goroutine; every durable store call and FSM call is recorded in order;
// an event may be cut by a crash after its k-th durable operation, followed by a restart.

type nsCase struct {
	self, mono, track, trailing, maxapp uint64
	cfgtab                              map[uint64][]srv
	cfgbytes                            map[string]uint64
	rc                                  uint64
	term, vterm, vcand                  uint64
	entries                             [][4]uint64
	pcommit                             uint64
	snaps                               []nsSnap
	events                              []uint64 // raw remainder
}

type nsSnap struct {
	idx, term uint64
	cfg       []srv
	cfgidx    uint64
	data      []uint64
	ok        bool
}

type image struct {
	logs   *MapLogStore
	stable *MapStable
	snaps  *SnapStore
}

func (c *nsCase) payload(ty, id uint64) []byte {
	if ty == 5 {
		if cfg, ok := c.cfgtab[id]; ok {
			return raft.EncodeConfiguration(mkConfig(cfg))
		}
	}
	return dataOf(id)
}

func (c *nsCase) idOfLog(l *raft.Log) uint64 {
	if l.Type == raft.LogConfiguration {
		if id, ok := c.cfgbytes[string(l.Data)]; ok {
			return id
		}
		return 0 // a configuration outside the case's table
	}
	return idOf(l.Data)
}

func nsDecode(in []uint64) *nsCase {
	c := &nsCase{cfgtab: map[uint64][]srv{}, cfgbytes: map[string]uint64{}}
	c.self, c.mono, c.track, c.trailing, c.maxapp = in[0], in[1], in[2], in[3], in[4]
	p := 5
	ntab := int(in[p])
	p++
	for i := 0; i < ntab; i++ {
		id := in[p]
		var cfg []srv
		cfg, p = decSrvs(in, p+1)
		c.cfgtab[id] = cfg
		c.cfgbytes[string(raft.EncodeConfiguration(mkConfig(cfg)))] = id
	}
	c.rc, c.term, c.vterm, c.vcand = in[p], in[p+1], in[p+2], in[p+3]
	p += 4
	ne := int(in[p])
	p++
	for i := 0; i < ne; i++ {
		c.entries = append(c.entries, [4]uint64{in[p], in[p+1], in[p+2], in[p+3]})
		p += 4
	}
	c.pcommit = in[p]
	nsn := int(in[p+1])
	p += 2
	for i := 0; i < nsn; i++ {
		var s nsSnap
		s.idx, s.term = in[p], in[p+1]
		s.cfg, p = decSrvs(in, p+2)
		s.cfgidx = in[p]
		nd := int(in[p+1])
		p += 2
		s.data = append([]uint64(nil), in[p:p+nd]...)
		p += nd
		s.ok = in[p] != 0
		p++
		c.snaps = append(c.snaps, s)
	}
	c.events = in[p:]
	return c
}

func (c *nsCase) buildImage() *image {
	img := &image{logs: NewMapLogStore(nil), stable: NewMapStable(), snaps: NewSnapStore()}
	if c.term != 0 {
		img.stable.kvInt["CurrentTerm"] = c.term
	}
	if c.vterm != 0 {
		img.stable.kvInt["LastVoteTerm"] = c.vterm
	}
	if c.vcand != 0 {
		img.stable.kv["LastVoteCand"] = []byte(addrStr(c.vcand - 1))
	}
	for _, e := range c.entries {
		img.logs.m[e[0]] = &raft.Log{Index: e[0], Term: e[1], Type: raft.LogType(e[2]), Data: c.payload(e[2], e[3])}
	}
	img.logs.pcommit, img.logs.staged = c.pcommit, c.pcommit
	for _, s := range c.snaps {
		img.snaps.seq++
		sn := &snap{seq: img.snaps.seq, unreadable: !s.ok, data: encState(s.data)}
		sn.meta = raft.SnapshotMeta{Version: 1, ID: fmt.Sprintf("snap-%d-%d-%d", s.term, s.idx, sn.seq), Index: s.idx, Term: s.term,
			Configuration: mkConfig(s.cfg), ConfigurationIndex: s.cfgidx, Size: int64(len(sn.data))}
		img.snaps.snaps = append(img.snaps.snaps, sn)
	}
	return img
}

// recorder: one ordered list of trace items (encoded like Model enc_ev), plus the crash cut
type recorder struct {
	mu      sync.Mutex
	items   [][]uint64
	durable int
	cutAt   int
	cutImg  *image
	n       *nsNode
}

func (r *recorder) add(item []uint64, durable bool) {
	r.mu.Lock()
	defer r.mu.Unlock()
	r.items = append(r.items, item)
	if durable {
		r.durable++
		if r.cutAt > 0 && r.durable == r.cutAt && r.cutImg == nil {
			r.cutImg = &image{logs: r.n.logs.Clone(), stable: r.n.stable.Clone(), snaps: r.n.snaps.Clone()}
		}
	}
}

func (r *recorder) reset(cut int) {
	r.mu.Lock()
	defer r.mu.Unlock()
	r.items, r.durable, r.cutAt, r.cutImg = nil, 0, cut, nil
}

func (r *recorder) encode() []uint64 {
	r.mu.Lock()
	defer r.mu.Unlock()
	out := []uint64{uint64(len(r.items))}
	for _, it := range r.items {
		out = append(out, it...)
	}
	return out
}

func b2u(b bool) uint64 {
	if b {
		return 1
	}
	return 0
}

type nsNode struct {
	*node
	c   *nsCase
	rec *recorder
	orc *oracle
	up  bool
}

func (c *nsCase) boot(img *image) (*nsNode, []uint64) {
	nn := &nsNode{c: c, orc: &oracle{}}
	rec := &recorder{n: nn}
	nn.rec = rec
	img.logs.orc, img.stable.orc, img.snaps.orc = nn.orc, nn.orc, nn.orc
	img.logs.ops, img.stable.ops, img.snaps.ops = nil, nil, nil
	img.stable.onOp = func(op stableOp) {
		switch op.key {
		case "CurrentTerm":
			rec.add([]uint64{1, op.u64, b2u(!op.failed)}, true)
		case "LastVoteTerm":
			rec.add([]uint64{2, op.u64, b2u(!op.failed)}, true)
		case "LastVoteCand":
			rec.add([]uint64{3, addrNum(raft.ServerAddress(op.val)), b2u(!op.failed)}, true)
		}
	}
	img.logs.onOp = func(op storeOp) {
		if op.kind == "store" {
			it := []uint64{4, uint64(len(op.logs))}
			for _, l := range op.logs {
				it = append(it, l.Index, l.Term, uint64(l.Type), c.idOfLog(l))
			}
			it = append(it, b2u(!op.failed))
			rec.add(it, true)
		} else {
			rec.add([]uint64{5, op.lo, op.hi, b2u(!op.failed)}, true)
		}
	}
	img.logs.onStage = func(v uint64) { rec.add([]uint64{6, v}, false) }
	img.snaps.onOp = func(idx, term uint64, ok bool) { rec.add([]uint64{7, idx, term, b2u(ok)}, true) }
	o := nodeOpts{id: c.self, trailing: c.trailing, maxAppend: int(c.maxapp), monotonic: c.mono != 0,
		restoreCommit: c.rc != 0, track: c.track != 0}
	// NewRaft may panic or block (findings F3/F4): run it under a watchdog
	type res struct {
		n   *node
		err error
		pan interface{}
	}
	ch := make(chan res, 1)
	var fsmHook = func(f *RecFSM) {
		f.idOfLog = c.idOfLog
		f.onEvent = func(e fsmEvent) {
			switch e.kind {
			case 1:
				rec.add([]uint64{8, e.index, e.term, e.ty, e.id}, false)
			case 2:
				rec.add(append([]uint64{10, uint64(len(e.state))}, e.state...), false)
			case 3:
				rec.add([]uint64{9, e.index}, false)
			}
		}
	}
	nsFsmHook = fsmHook
	go func() {
		defer func() {
			if p := recover(); p != nil {
				ch <- res{pan: p}
			}
		}()
		n, err := newNode(o, img.logs, img.stable, img.snaps)
		ch <- res{n: n, err: err}
	}()
	var r res
	select {
	case r = <-ch:
	case <-time.After(2 * time.Second):
		nn.node = &node{logs: img.logs, stable: img.stable, snaps: img.snaps}
		return nn, []uint64{4} // blocks
	}
	nsFsmHook = nil
	if r.pan != nil {
		nn.node = &node{logs: img.logs, stable: img.stable, snaps: img.snaps}
		return nn, []uint64{3}
	}
	if r.err != nil {
		nn.node = r.n
		if nn.node == nil {
			nn.node = &node{}
		}
		nn.node.logs, nn.node.stable, nn.node.snaps = img.logs, img.stable, img.snaps
		return nn, []uint64{2}
	}
	nn.node = r.n
	nn.up = true
	nn.r.VerifStartFSM()
	nn.waitFSM(0, true)
	out := []uint64{1}
	out = append(out, rec.encode()...)
	out = append(out, nn.encState()...)
	return nn, out
}

// set by boot so that newNode can install the FSM callbacks before NewRaft runs
var nsFsmHook func(f *RecFSM)

// expected number of FSM calls for the entries in (from, to] of the store
func (n *nsNode) expectedFSM(from, to uint64) int {
	cnt := 0
	for _, l := range n.logs.Entries() {
		if l.Index > from && l.Index <= to && (l.Type == raft.LogCommand || l.Type == raft.LogConfiguration) {
			cnt++
		}
	}
	return cnt
}

// wait until the FSM goroutine has consumed what processLogs handed over
func (n *nsNode) waitFSM(oldApplied uint64, boot bool) {
	if oldApplied == ^uint64(0) {
		return
	}
	st := n.r.VerifNodeState()
	from := oldApplied
	if boot {
		from = st.LastSnapshotIndex
	}
	if st.LastApplied <= from {
		return
	}
	want := n.expectedFSM(from, st.LastApplied)
	deadline := time.Now().Add(3 * time.Second)
	for time.Now().Before(deadline) {
		n.rec.mu.Lock()
		got := 0
		for _, it := range n.rec.items {
			if it[0] == 8 || it[0] == 9 {
				got++
			}
		}
		n.rec.mu.Unlock()
		if got >= want {
			return
		}
		time.Sleep(50 * time.Microsecond)
	}
}

func (n *nsNode) encState() []uint64 {
	st := n.r.VerifNodeState()
	t, vt, vc := n.stable.Triple()
	_, hasCand := n.stable.kv["LastVoteCand"]
	vcand := uint64(0)
	if hasCand {
		vcand = vc + 1
	}
	out := []uint64{uint64(st.Role), st.Term, t, vt, vcand, st.CommitIndex, st.LastApplied,
		st.LastLogIndex, st.LastLogTerm, st.LastSnapshotIndex, st.LastSnapshotTerm,
		st.LatestIndex, st.CommittedIndex, addrNum(st.LeaderAddr), idNum(st.LeaderID), b2u(st.TransferFlag)}
	out = append(out, encConfig(st.Latest)...)
	out = append(out, encConfig(st.Committed)...)
	n.fsm.mu.Lock()
	out = append(out, uint64(len(n.fsm.state)))
	out = append(out, n.fsm.state...)
	n.fsm.mu.Unlock()
	es := n.logs.Entries()
	out = append(out, uint64(len(es)))
	for _, l := range es {
		out = append(out, l.Index, l.Term, uint64(l.Type), n.c.idOfLog(l))
	}
	n.logs.mu.Lock()
	out = append(out, n.logs.pcommit)
	n.logs.mu.Unlock()
	n.snaps.mu.Lock()
	ss := n.snaps.sorted()
	out = append(out, uint64(len(ss)))
	for _, s := range ss {
		out = append(out, s.meta.Index, s.meta.Term, s.meta.ConfigurationIndex, uint64(len(s.data)/8))
		out = append(out, encConfig(s.meta.Configuration)...)
	}
	n.snaps.mu.Unlock()
	return out
}

func (n *nsNode) kill() {
	if n.node != nil && n.r != nil {
		n.r.Shutdown()
	}
	if n.node != nil && n.trans != nil {
		n.trans.Close()
	}
	n.up = false
}

func header(id, addr uint64) raft.RPCHeader {
	h := raft.RPCHeader{ProtocolVersion: raft.ProtocolVersionMax}
	if id != 0 {
		h.ID = []byte(idStr(id))
	}
	if addr != 0 {
		h.Addr = []byte(addrStr(addr))
	}
	return h
}

// run one handler under panic capture; returns response ints or panicked
func (n *nsNode) handle(cmd interface{}, body []byte, enc func(resp interface{}, err error) []uint64) (out []uint64, panicked bool) {
	defer func() {
		if p := recover(); p != nil {
			panicked = true
		}
	}()
	var rd *bytes.Reader
	if body != nil {
		rd = bytes.NewReader(body)
	}
	var resp interface{}
	var err error
	if rd != nil {
		resp, err = n.r.VerifProcessRPC(cmd, rd)
	} else {
		resp, err = n.r.VerifProcessRPC(cmd, nil)
	}
	return enc(resp, err), false
}

func nsExec(in []uint64) (obs []uint64, info map[string]int) {
	info = map[string]int{}
	c := nsDecode(in)
	n, out := c.boot(c.buildImage())
	obs = append(obs, uint64(len(out)))
	obs = append(obs, out...)
	ev := c.events
	p := 0
	readTail := func() (cut int, fails []bool) {
		cut = int(ev[p])
		nf := int(ev[p+1])
		p += 2
		for i := 0; i < nf; i++ {
			fails = append(fails, ev[p] != 0)
			p++
		}
		return
	}
	emit := func(o []uint64) {
		obs = append(obs, uint64(len(o)))
		obs = append(obs, o...)
	}
	// finish a handler: normal result, crash at the cut, or panic
	finish := func(resp []uint64, panicked bool, cut int, oldApplied uint64) {
		if panicked {
			info["panics"]++
			img := &image{logs: n.logs.Clone(), stable: n.stable.Clone(), snaps: n.snaps.Clone()}
			n.kill()
			var o []uint64
			n, o = c.boot(img)
			emit(append([]uint64{30}, o...))
			return
		}
		if cut > 0 && n.rec.cutImg != nil {
			info["crash_cuts"]++
			img := n.rec.cutImg
			n.kill()
			var o []uint64
			n, o = c.boot(img)
			emit(append([]uint64{20}, o...))
			return
		}
		n.waitFSM(oldApplied, false)
		o := append([]uint64{10}, resp...)
		o = append(o, n.rec.encode()...)
		o = append(o, n.encState()...)
		emit(o)
	}
	for p < len(ev) {
		kind := ev[p]
		info[fmt.Sprintf("ev_%d", kind)]++
		switch kind {
		case 1, 2:
			term, id, ad, li, lt := ev[p+1], ev[p+2], ev[p+3], ev[p+4], ev[p+5]
			tr := false
			if kind == 1 {
				tr = ev[p+6] != 0
				p += 7
			} else {
				p += 6
			}
			cut, fails := readTail()
			if !n.up {
				emit([]uint64{0})
				continue
			}
			n.orc.bits = fails
			n.rec.reset(cut)
			old := n.r.VerifNodeState().LastApplied
			if kind == 1 {
				req := &raft.RequestVoteRequest{RPCHeader: header(id, ad), Term: term, LastLogIndex: li, LastLogTerm: lt, LeadershipTransfer: tr}
				resp, pan := n.handle(req, nil, func(r interface{}, err error) []uint64 {
					rr := r.(*raft.RequestVoteResponse)
					if rr.Granted {
						info["votes_granted"]++
					}
					return []uint64{rr.Term, b2u(rr.Granted)}
				})
				finish(resp, pan, cut, old)
			} else {
				req := &raft.RequestPreVoteRequest{RPCHeader: header(id, ad), Term: term, LastLogIndex: li, LastLogTerm: lt}
				resp, pan := n.handle(req, nil, func(r interface{}, err error) []uint64 {
					rr := r.(*raft.RequestPreVoteResponse)
					return []uint64{rr.Term, b2u(rr.Granted)}
				})
				finish(resp, pan, 0, old)
			}
		case 3:
			term, ad, id, pi, pt := ev[p+1], ev[p+2], ev[p+3], ev[p+4], ev[p+5]
			ne := int(ev[p+6])
			p += 7
			var es []*raft.Log
			for i := 0; i < ne; i++ {
				es = append(es, &raft.Log{Index: ev[p], Term: ev[p+1], Type: raft.LogType(ev[p+2]), Data: c.payload(ev[p+2], ev[p+3])})
				p += 4
			}
			lc := ev[p]
			p++
			cut, fails := readTail()
			if !n.up {
				emit([]uint64{0})
				continue
			}
			n.orc.bits = fails
			n.rec.reset(cut)
			old := n.r.VerifNodeState().LastApplied
			req := &raft.AppendEntriesRequest{RPCHeader: header(id, ad), Term: term, PrevLogEntry: pi, PrevLogTerm: pt, Entries: es, LeaderCommitIndex: lc}
			resp, pan := n.handle(req, nil, func(r interface{}, err error) []uint64 {
				rr := r.(*raft.AppendEntriesResponse)
				if rr.Success {
					info["append_success"]++
				}
				return []uint64{rr.Term, rr.LastLog, b2u(rr.Success), b2u(rr.NoRetryBackoff), b2u(err != nil)}
			})
			finish(resp, pan, cut, old)
		case 4:
			term, ad, id, li, lt := ev[p+1], ev[p+2], ev[p+3], ev[p+4], ev[p+5]
			var cfg []srv
			cfg, p = decSrvs(ev, p+6)
			ci := ev[p]
			nd := int(ev[p+1])
			p += 2
			data := append([]uint64(nil), ev[p:p+nd]...)
			p += nd
			short := ev[p] != 0
			p++
			cut, fails := readTail()
			if !n.up {
				emit([]uint64{0})
				continue
			}
			n.orc.bits = fails
			n.rec.reset(cut)
			old := n.r.VerifNodeState().LastApplied
			body := encState(data)
			size := int64(len(body))
			if short {
				size += 8
			}
			if body == nil {
				body = []byte{}
			}
			req := &raft.InstallSnapshotRequest{RPCHeader: header(id, ad), SnapshotVersion: 1, Term: term, LastLogIndex: li, LastLogTerm: lt,
				Configuration: raft.EncodeConfiguration(mkConfig(cfg)), ConfigurationIndex: ci, Size: size}
			resp, pan := n.handle(req, body, func(r interface{}, err error) []uint64 {
				rr := r.(*raft.InstallSnapshotResponse)
				return []uint64{rr.Term, b2u(rr.Success), b2u(err != nil)}
			})
			_ = old
			// the FSM restore is synchronous: nothing to wait for
			finish(resp, pan, cut, ^uint64(0))
		case 5:
			p++
			readTail()
			if !n.up {
				emit([]uint64{0})
				continue
			}
			n.rec.reset(0)
			n.handle(&raft.TimeoutNowRequest{RPCHeader: header(0, 0)}, nil, func(r interface{}, err error) []uint64 { return nil })
			o := append([]uint64{10}, n.rec.encode()...)
			emit(append(o, n.encState()...))
		case 6:
			p++
			cut, fails := readTail()
			if !n.up {
				emit([]uint64{0})
				continue
			}
			n.orc.bits = fails
			n.rec.reset(cut)
			old := n.r.VerifNodeState().LastApplied
			var resp []uint64
			pan := false
			func() {
				defer func() {
					if x := recover(); x != nil {
						pan = true
					}
				}()
				st0 := n.r.VerifNodeState()
				ok, ch := n.r.VerifElectSelf()
				st := n.r.VerifNodeState()
				self := uint64(1)
				if !ok {
					self = 0
				} else {
					nv := 0
					for _, sv := range st0.Latest.Servers {
						if sv.Suffrage == raft.Voter {
							nv++
						}
					}
					vs := raft.VerifDrainVotes(ch, nv, 200*time.Millisecond)
					self = 1
					for _, v := range vs {
						if v.VoterID == idStr(c.self) && v.Granted {
							self = 2
						}
					}
				}
				li, lt := st.LastLogIndex, st.LastLogTerm
				if st.LastSnapshotIndex > li {
					li, lt = st.LastSnapshotIndex, st.LastSnapshotTerm
				}
				resp = []uint64{st0.Term + 1, li, lt, b2u(st.TransferFlag), self}
			}()
			finish(resp, pan, cut, old)
		case 7:
			p++
			readTail()
			img := &image{logs: n.logs.Clone(), stable: n.stable.Clone(), snaps: n.snaps.Clone()}
			n.kill()
			var o []uint64
			n, o = c.boot(img)
			emit(o)
		case 8:
			p++
			readTail()
			if !n.up {
				emit([]uint64{0})
				continue
			}
			emit([]uint64{10, uint64(n.r.VerifFollowerTimeoutDecision())})
		case 9:
			// takeSnapshot (the snapshot goroutine's work), with the main loop's answer to configurationsCh served
			p++
			cut, fails := readTail()
			if !n.up {
				emit([]uint64{0})
				continue
			}
			n.orc.bits = fails
			n.rec.reset(cut)
			stop := make(chan struct{})
			go n.r.VerifServeConfigurations(stop)
			_, err := n.r.VerifTakeSnapshot()
			close(stop)
			code := uint64(0)
			if err != nil {
				msg := err.Error()
				switch {
				case errors.Is(err, raft.ErrNothingNewToSnapshot):
					code = 2
				case strings.Contains(msg, "cannot take snapshot now"):
					code = 3
				case strings.Contains(msg, "compaction failed"), strings.Contains(msg, "first log index"):
					code = 5
				default:
					code = 4
				}
			}
			info["snapshots_taken"] += int(b2u(code == 0))
			finish([]uint64{code}, false, cut, ^uint64(0))
		default:
			p = len(ev)
		}
	}
	n.kill()
	return obs, info
}

// sorted keys helper for deterministic stats output
func sortedKeys(m map[string]int) []string {
	var ks []string
	for k := range m {
		ks = append(ks, k)
	}
	sort.Strings(ks)
	return ks
}
