package main

import (
	"errors"
	"io"
	"net"
	"os"
	"sync"
	"time"

	"github.com/hashicorp/raft"
)

// C16 stream layers: an in-memory buffered duplex connection (deterministic, no kernel
// resources) and loopback TCP. Both record every dialed connection so that the harness can
// kill "the underlying net.Conn" of a pipeline or of a pooled connection.

// ---------- in-memory connection ----------

type c16addr string

func (a c16addr) Network() string { return "c16mem" }
func (a c16addr) String() string  { return string(a) }

// one direction of a duplex connection
type c16half struct {
	mu      sync.Mutex
	cond    *sync.Cond
	buf     []byte
	wclosed bool // writing end closed: reader drains, then EOF
	rclosed bool // reading end closed: writer gets ErrClosedPipe
}

func newC16half() *c16half {
	h := &c16half{}
	h.cond = sync.NewCond(&h.mu)
	return h
}

type c16memConn struct {
	rd, wr        *c16half
	local, remote net.Addr
	dmu           sync.Mutex
	rdl, wdl      time.Time
}

func c16memPair(a, b net.Addr) (*c16memConn, *c16memConn) {
	x, y := newC16half(), newC16half()
	return &c16memConn{rd: x, wr: y, local: a, remote: b}, &c16memConn{rd: y, wr: x, local: b, remote: a}
}

func (c *c16memConn) Read(p []byte) (int, error) {
	h := c.rd
	h.mu.Lock()
	defer h.mu.Unlock()
	for {
		if h.rclosed {
			return 0, io.ErrClosedPipe
		}
		if len(h.buf) > 0 {
			n := copy(p, h.buf)
			h.buf = h.buf[n:]
			if len(h.buf) == 0 {
				h.buf = nil
			}
			return n, nil
		}
		if h.wclosed {
			return 0, io.EOF
		}
		c.dmu.Lock()
		dl := c.rdl
		c.dmu.Unlock()
		var t *time.Timer
		if !dl.IsZero() {
			d := time.Until(dl)
			if d <= 0 {
				return 0, os.ErrDeadlineExceeded
			}
			t = time.AfterFunc(d, func() {
				h.mu.Lock()
				h.cond.Broadcast()
				h.mu.Unlock()
			})
		}
		h.cond.Wait()
		if t != nil {
			t.Stop()
		}
	}
}

func (c *c16memConn) Write(p []byte) (int, error) {
	h := c.wr
	h.mu.Lock()
	defer h.mu.Unlock()
	if h.wclosed || h.rclosed {
		return 0, io.ErrClosedPipe
	}
	c.dmu.Lock()
	dl := c.wdl
	c.dmu.Unlock()
	if !dl.IsZero() && time.Until(dl) <= 0 {
		return 0, os.ErrDeadlineExceeded
	}
	h.buf = append(h.buf, p...)
	h.cond.Broadcast()
	return len(p), nil
}

// Close closes this end: local reads and writes fail, the peer drains what was already
// written and then reads EOF, the peer's writes fail.
func (c *c16memConn) Close() error {
	c.rd.mu.Lock()
	c.rd.rclosed = true
	c.rd.buf = nil
	c.rd.cond.Broadcast()
	c.rd.mu.Unlock()
	c.wr.mu.Lock()
	c.wr.wclosed = true
	c.wr.cond.Broadcast()
	c.wr.mu.Unlock()
	return nil
}
func (c *c16memConn) LocalAddr() net.Addr  { return c.local }
func (c *c16memConn) RemoteAddr() net.Addr { return c.remote }
func (c *c16memConn) SetDeadline(t time.Time) error {
	c.SetReadDeadline(t)
	c.SetWriteDeadline(t)
	return nil
}
func (c *c16memConn) SetReadDeadline(t time.Time) error {
	c.dmu.Lock()
	c.rdl = t
	c.dmu.Unlock()
	c.rd.mu.Lock()
	c.rd.cond.Broadcast()
	c.rd.mu.Unlock()
	return nil
}
func (c *c16memConn) SetWriteDeadline(t time.Time) error {
	c.dmu.Lock()
	c.wdl = t
	c.dmu.Unlock()
	return nil
}

// ---------- the network: registry of in-memory listeners ----------

type c16network struct {
	mu    sync.Mutex
	lst   map[string]*c16layer
	count int
}

func newC16network() *c16network { return &c16network{lst: map[string]*c16layer{}} }

// c16layer implements raft.StreamLayer, either in memory or over loopback TCP.
type c16layer struct {
	nw     *c16network
	tcp    net.Listener // nil for the in-memory layer
	addr   net.Addr
	accept chan net.Conn
	done   chan struct{}
	once   sync.Once

	mu      sync.Mutex
	dialed  []net.Conn // connections dialed through this layer, in order
	ndialed int
}

var errC16closed = errors.New("c16 layer closed")

func (nw *c16network) newLayer(useTCP bool) *c16layer {
	l := &c16layer{nw: nw, accept: make(chan net.Conn, 64), done: make(chan struct{})}
	if useTCP {
		ln, err := net.Listen("tcp", "127.0.0.1:0")
		if err != nil {
			panic(err)
		}
		l.tcp = ln
		l.addr = ln.Addr()
		return l
	}
	nw.mu.Lock()
	nw.count++
	l.addr = c16addr("mem-" + itoa(nw.count))
	nw.lst[l.addr.String()] = l
	nw.mu.Unlock()
	return l
}

func (l *c16layer) Accept() (net.Conn, error) {
	if l.tcp != nil {
		return l.tcp.Accept()
	}
	select {
	case c := <-l.accept:
		return c, nil
	case <-l.done:
		return nil, errC16closed
	}
}

func (l *c16layer) Close() error {
	l.once.Do(func() {
		close(l.done)
		if l.tcp != nil {
			l.tcp.Close()
		} else {
			l.nw.mu.Lock()
			delete(l.nw.lst, l.addr.String())
			l.nw.mu.Unlock()
		}
	})
	return nil
}

func (l *c16layer) Addr() net.Addr { return l.addr }

func (l *c16layer) Dial(address raft.ServerAddress, timeout time.Duration) (net.Conn, error) {
	var c net.Conn
	if l.tcp != nil {
		d, err := net.DialTimeout("tcp", string(address), timeout)
		if err != nil {
			return nil, err
		}
		c = d
	} else {
		l.nw.mu.Lock()
		peer := l.nw.lst[string(address)]
		l.nw.mu.Unlock()
		if peer == nil {
			return nil, errors.New("c16: connection refused: " + string(address))
		}
		a, b := c16memPair(l.addr, peer.addr)
		select {
		case peer.accept <- b:
		case <-peer.done:
			return nil, errors.New("c16: connection refused (closed): " + string(address))
		}
		c = a
	}
	l.mu.Lock()
	l.dialed = append(l.dialed, c)
	l.ndialed++
	l.mu.Unlock()
	return c, nil
}

// lastDialed returns the most recently dialed connection (nil if none since the last reset).
func (l *c16layer) lastDialed() net.Conn {
	l.mu.Lock()
	defer l.mu.Unlock()
	if len(l.dialed) == 0 {
		return nil
	}
	return l.dialed[len(l.dialed)-1]
}

func (l *c16layer) resetDialed() {
	l.mu.Lock()
	l.dialed = nil
	l.mu.Unlock()
}

func (l *c16layer) dialCount() int {
	l.mu.Lock()
	defer l.mu.Unlock()
	return l.ndialed
}

// killAll closes every connection dialed through this layer since the last reset.
func (l *c16layer) killAll() {
	l.mu.Lock()
	cs := append([]net.Conn(nil), l.dialed...)
	l.mu.Unlock()
	for _, c := range cs {
		c.Close()
	}
}
