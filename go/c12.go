package main

// C12 (node level): catch-up makes progress. A follower in any stale / divergent / compacted
// state is given the leader's snapshot and then the AppendEntries that follows it
// (previous entry = the snapshot's last entry). Monitor: once InstallSnapshot succeeded, that
// AppendEntries must succeed - otherwise the leader backs off below its own first index and sends
// the same snapshot again, for ever.

func c12monitor(cw *caseWriter) func(tag string, in, obs []uint64) {
	return func(tag string, in, obs []uint64) {
		parts := nsSplit(obs)
		evs := nsEvents(in)
		var snapOK bool
		var sIdx, sTerm, sLeaderTerm uint64
		for i, e := range evs {
			if i+1 >= len(parts) {
				break
			}
			o := parts[i+1]
			if len(o) == 0 || o[0] != 10 {
				snapOK = false
				continue
			}
			switch e.kind {
			case 4:
				resp := o[1:4]
				snapOK = resp[1] == 1
				sIdx, sTerm, sLeaderTerm = e.li, e.lt, e.term
			case 3:
				ae := c04events(in)[i]
				resp := o[1:6]
				if snapOK && ae.pi == sIdx && ae.pt == sTerm && ae.term == sLeaderTerm && resp[2] != 1 {
					cw.monitor("C12", tag, "append-after-installed-snapshot-rejected",
						"event %d: the follower installed snapshot (%d,%d) but rejects AppendEntries whose previous entry is (%d,%d): the leader will send the same snapshot again", i, sIdx, sTerm, ae.pi, ae.pt)
				}
				snapOK = false
			default:
			}
		}
	}
}

func c12nGen(cw *caseWriter, tier string, r *rng) {
	mk := func(idx, term, ty, id uint64) [4]uint64 { return [4]uint64{idx, term, ty, id} }
	n := 0
	for _, mono := range []uint64{0, 1} {
		for _, trailing := range []uint64{0, 1, 100} {
			for flen := uint64(1); flen <= 6; flen++ { // follower log 1..flen, tail terms 2 (stale) from index 3
				for s := uint64(2); s <= 7; s++ { // snapshot index, term 3 (the follower's entry there, if any, has term <= 2 unless matching)
					for _, match := range []bool{false, true} {
						g := &nsGen{self: 1, mono: mono, trailing: trailing, maxapp: 4, cfgtab: [][]srv{cfgSAB}}
						g.term = 3
						g.entries = [][4]uint64{mk(1, 1, 5, 9000)}
						for i := uint64(2); i <= flen; i++ {
							t := uint64(2)
							if match { // the follower's log agrees with the leader's (term 3) from index 2 on
								t = 3
							}
							g.entries = append(g.entries, mk(i, t, 0, 100*t+i))
						}
						data := []uint64{}
						for i := uint64(2); i <= s; i++ {
							data = append(data, 300+i)
						}
						g.events = nil
						if (flen+s)%3 == 0 && len(data) > 1 {
							// a first transfer that breaks off early (half the content, Size says more): refused without trace
							g.events = append(g.events, evInstall(3, 3, 3, s, 3, cfgSAB, 1, data[:len(data)/2], true, 0, nil))
						}
						g.events = append(g.events,
							evInstall(3, 3, 3, s, 3, cfgSAB, 1, data, false, 0, nil),
							evAppend(3, 3, 3, s, 3, [][4]uint64{mk(s+1, 3, 0, 300+s+1)}, s+1, 0, nil),
							evAppend(3, 3, 3, s+1, 3, nil, s+1, 0, nil),
							evRestart(), evDecision(),
						)
						nsRun(cw, cw.tag("p"), g.encode(), func(tag string, in, obs []uint64) {
							c12monitor(cw)(tag, in, obs)
							c10monitor(cw)(tag, in, obs)
							c04monitor(cw)(tag, in, obs)
						})
						n++
					}
				}
			}
		}
	}
	// a snapshot at or below the cached last log index whose entry was compacted away (the log starts above it): GetLog fails,
	// the tail counts as stale and is dropped; also the neighbouring shapes (entry present with the same / another term, snapshot above the log)
	for _, trailing := range []uint64{0, 1, 100} {
		for _, first := range []uint64{9, 10, 11, 12} { // the log holds first..13, terms 3; the local snapshot sits at first-1
			for _, s := range []uint64{9, 10, 11, 13, 14} { // index of the snapshot that arrives
				for _, st := range []uint64{3, 4} {
					g := &nsGen{self: 1, trailing: trailing, maxapp: 4, cfgtab: [][]srv{cfgSAB}}
					g.term = 4
					for i := first; i <= 13; i++ {
						g.entries = append(g.entries, mk(i, 3, 0, 300+i))
					}
					g.snaps = []nsSnap{{idx: first - 1, term: 3, cfg: cfgSAB, cfgidx: 1, data: []uint64{5}, ok: true}}
					data := []uint64{5, 300 + s}
					g.events = [][]uint64{
						evInstall(4, 3, 3, s, st, cfgSAB, 1, data, false, 0, nil),
						evAppend(4, 3, 3, s, st, [][4]uint64{mk(s+1, 4, 0, 400+s+1)}, s+1, 0, nil),
						evAppend(4, 3, 3, s+1, 4, nil, s+1, 0, nil),
						evRestart(), evDecision(),
					}
					nsRun(cw, cw.tag("q"), g.encode(), func(tag string, in, obs []uint64) {
						c12monitor(cw)(tag, in, obs)
						c10monitor(cw)(tag, in, obs)
						c04monitor(cw)(tag, in, obs)
					})
					n++
				}
			}
		}
	}
	cw.stat("c12n_cases", n)
}

func runC12(cw *caseWriter, tier string, seed uint64) {
	runC11race(cw, tier, seed) // a snapshot racing applies must leave the log contiguous above it, or catch-up repeats the same transfer
	runC12repl(cw, tier, &rng{s: seed*31 + 5})
	runC12converge(cw, tier, &rng{s: seed*37 + 3})
	r := &rng{s: seed}
	c12nGen(cw, tier, r)
	if tier == "quick" {
		runScenarios(cw, 7, seed*100000, 24, 12)
		runScenarios(cw, 8, seed*100000, 8, 4)
		runScenarios(cw, 15, seed*100000, 6, 3) // a lagging voter exactly one term ahead: the electable server must still win
	} else {
		runScenarios(cw, 15, seed*100000, 80, 3)
		runScenarios(cw, 7, seed*100000, 400, 12)
		runScenarios(cw, 8, seed*100000, 120, 4)
	}
	runC104(cw, tier, seed, 0) // snapshot transfer inside the composed cluster system (Model/ClusterSnap.v)
	// leadership transfers: round trips and a target that acknowledges TimeoutNow and is cut off (family 16)
	if tier == "quick" {
		runScenarios(cw, 16, seed*100000, 8, 4)
	} else {
		runScenarios(cw, 16, seed*100000, 150, 4)
	}
}
