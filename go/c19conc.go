package main

import (
	"sync"
	"time"

	"github.com/hashicorp/raft"
)

// component 1019 (monitored only) — LogCache with a read in flight while the log is truncated and
// rewritten (a deposed leader's replication goroutine is still inside GetLog when the main loop,
// now a follower, deletes a conflicting suffix and stores the new leader's entries).
// After every call has returned, the cache must again answer exactly like the wrapped store.
type c19stall struct {
	*MapLogStore
	mu      sync.Mutex
	stallAt uint64
	reached chan struct{}
	release chan struct{}
}

func (s *c19stall) GetLog(idx uint64, l *raft.Log) error {
	err := s.MapLogStore.GetLog(idx, l)
	s.mu.Lock()
	st := s.stallAt == idx && s.reached != nil
	var reached, release chan struct{}
	if st {
		reached, release = s.reached, s.release
		s.reached = nil
	}
	s.mu.Unlock()
	if st {
		close(reached) // the backend has answered; the caller is held before it can act on the answer
		<-release
	}
	return err
}

func c19concCase(cw *caseWriter, tag string, r *rng) {
	capacity := 2 + r.intn(4)
	back := &c19stall{MapLogStore: NewMapLogStore(nil)}
	cache, err := raft.NewLogCache(capacity, back)
	if err != nil {
		return
	}
	n := uint64(capacity + 2 + r.intn(6))
	var logs []*raft.Log
	for i := uint64(1); i <= n; i++ {
		logs = append(logs, mkLog(i, 1, 0, 100+i))
	}
	cache.StoreLogs(logs)
	// an index that is no longer cached (older than the ring), read while the suffix from `from` on is rewritten
	i := uint64(1 + r.intn(int(n)-capacity))
	from := uint64(1 + r.intn(int(i)))
	back.mu.Lock()
	back.stallAt, back.reached, back.release = i, make(chan struct{}), make(chan struct{})
	reached, release := back.reached, back.release
	back.mu.Unlock()
	done := make(chan struct{})
	go func() {
		var l raft.Log
		cache.GetLog(i, &l)
		close(done)
	}()
	select {
	case <-reached:
	case <-time.After(2 * time.Second):
		close(release)
		return
	}
	cache.DeleteRange(from, n)
	rewrite := r.chance(2, 3)
	if rewrite {
		var nl []*raft.Log
		for k := from; k <= from+uint64(r.intn(3)); k++ {
			nl = append(nl, mkLog(k, 2, 0, 200+k))
		}
		cache.StoreLogs(nl)
	}
	close(release)
	<-done
	bad := uint64(0)
	for k := uint64(1); k <= n+3; k++ {
		var a, b raft.Log
		ea := cache.GetLog(k, &a)
		eb := back.MapLogStore.GetLog(k, &b)
		if (ea == nil) != (eb == nil) || (ea == nil && (a.Term != b.Term || idOf(a.Data) != idOf(b.Data))) {
			cw.monitor("C19", tag, "cache-differs-from-store-after-a-read-raced-a-truncation", "capacity %d, %d entries, GetLog(%d) in flight while [%d,%d] was deleted (rewritten: %v): afterwards GetLog(%d) gives (err %v, term %d), the store (err %v, term %d)",
				capacity, n, i, from, n, rewrite, k, ea != nil, a.Term, eb != nil, b.Term)
			bad = k
			break
		}
	}
	cw.emit(tag, 1019, []uint64{uint64(capacity), n, i, from, b2u(rewrite)}, []uint64{bad}, true)
}

func runC19conc(cw *caseWriter, tier string, seed uint64) {
	cnt := 200
	if tier != "quick" {
		cnt = 5000
	}
	r := &rng{s: seed*61 + 17}
	for k := 0; k < cnt; k++ {
		c19concCase(cw, cw.tag("y"), r)
	}
	cw.stat("c19_concurrent_read_cases", cnt)
}
