// paths.go: control-flow paths of a statement list, as lists of events, for the case bodies of the
// main loops and for the API constructors.  Events (strings):
//
//	respond:<var>:<arg>   <var>.respond(<arg>) or <var>[i].respond(<arg>)
//	call:<name>           r.<name>(...)   (methods of the Raft receiver; logger/metrics calls are skipped)
//	send:<chan>           a select case or statement `r.<chan> <- x`
//	T:<cond> / F:<cond>   the branch of an `if` taken
//	ret:<expr>            return <expr>      (ends the path)
//	continue | break      of the ENCLOSING main loop (ends the path); inner loops are unrolled 0 and 1 times
//	end                   the body ran to its end
//
// Inner `for`/`range` loops contribute two alternatives (skipped, body once); a `break`/`continue`
// that targets an inner loop just ends that iteration.  `select`/`switch` contribute one alternative
// per clause.  The enumeration is syntactic (no feasibility analysis): the theorems quantify over
// every listed path, which over-approximates the executions of the case body.
package main

import (
	"go/ast"
	"go/token"
	"strings"
)

type path struct {
	ev   []string
	done bool   // ended by return / continue / break of the enclosing main loop
	brk  bool   // ended by a break/continue of an inner loop (consumed by that loop)
	lbl  string // the label of that break ("" = innermost statement)
}

// labels declared inside the body being enumerated (they name inner loops)
var innerLabels = map[string]bool{}

func cp(p path, more ...string) path {
	q := path{ev: append(append([]string{}, p.ev...), more...), done: p.done, brk: p.brk, lbl: p.lbl}
	return q
}

const maxPaths = 400

// events of the calls inside an expression, in source order
func exprEvents(e ast.Node) []string {
	var out []string
	if e == nil {
		return out
	}
	ast.Inspect(e, func(n ast.Node) bool {
		if _, ok := n.(*ast.FuncLit); ok {
			return false
		}
		c, ok := n.(*ast.CallExpr)
		if !ok {
			return true
		}
		sel, ok := c.Fun.(*ast.SelectorExpr)
		if !ok {
			return true
		}
		if sel.Sel.Name == "respond" && len(c.Args) == 1 {
			base := sel.X
			if ix, ok := base.(*ast.IndexExpr); ok {
				base = ix.X
			}
			out = append(out, "respond:"+exprString(base)+":"+exprString(c.Args[0]))
			return true
		}
		if id, ok := sel.X.(*ast.Ident); ok && id.Name == "r" {
			out = append(out, "call:"+sel.Sel.Name)
		}
		return true
	})
	return out
}

func stmtsPaths(ss []ast.Stmt, in []path, inner int) []path {
	cur := in
	for _, s := range ss {
		cur = stmtPaths(s, cur, inner)
		if len(cur) > maxPaths {
			cur = cur[:maxPaths]
		}
	}
	return cur
}

// inner = nesting depth of inner loops/switches that capture an unlabeled break/continue
func stmtPaths(s ast.Stmt, in []path, inner int) []path {
	var out []path
	live := func() []path {
		var l []path
		for _, p := range in {
			if p.done || p.brk {
				out = append(out, p)
			} else {
				l = append(l, p)
			}
		}
		return l
	}
	switch x := s.(type) {
	case *ast.BlockStmt:
		return stmtsPaths(x.List, in, inner)
	case *ast.LabeledStmt:
		return stmtPaths(x.Stmt, in, inner)
	case *ast.IfStmt:
		l := live()
		var pre []path
		for _, p := range l {
			q := p
			if x.Init != nil {
				q = cp(q, exprEvents(x.Init)...)
			}
			q = cp(q, exprEvents(x.Cond)...)
			pre = append(pre, q)
		}
		c := exprString(x.Cond)
		var tps, fps []path
		for _, p := range pre {
			tps = append(tps, cp(p, "T:"+c))
			fps = append(fps, cp(p, "F:"+c))
		}
		out = append(out, stmtsPaths(x.Body.List, tps, inner)...)
		if x.Else != nil {
			out = append(out, stmtPaths(x.Else, fps, inner)...)
		} else {
			out = append(out, fps...)
		}
		return out
	case *ast.ForStmt, *ast.RangeStmt:
		l := live()
		var body *ast.BlockStmt
		var hdr []string
		if f, ok := x.(*ast.ForStmt); ok {
			body = f.Body
			hdr = append(hdr, exprEvents(f.Init)...)
			hdr = append(hdr, exprEvents(f.Cond)...)
		} else {
			r := x.(*ast.RangeStmt)
			body = r.Body
			hdr = append(hdr, exprEvents(r.X)...)
		}
		var pre []path
		for _, p := range l {
			pre = append(pre, cp(p, hdr...))
		}
		// zero iterations
		out = append(out, pre...)
		// one iteration
		for _, p := range stmtsPaths(body.List, pre, inner+1) {
			p.brk, p.lbl = false, ""
			out = append(out, p)
		}
		return out
	case *ast.SelectStmt:
		l := live()
		for _, c := range x.Body.List {
			cc := c.(*ast.CommClause)
			var ev []string
			if cc.Comm != nil {
				if snd, ok := cc.Comm.(*ast.SendStmt); ok {
					ev = append(ev, "send:"+chanName(snd.Chan))
				} else {
					ev = append(ev, "recv:"+recvName(cc.Comm))
				}
			} else {
				ev = append(ev, "default")
			}
			var pre []path
			for _, p := range l {
				pre = append(pre, cp(p, ev...))
			}
			for _, p := range stmtsPaths(cc.Body, pre, inner+1) {
				// an unlabeled break inside a select leaves the select only
				if p.lbl == "" {
					p.brk = false
				}
				out = append(out, p)
			}
		}
		return out
	case *ast.SwitchStmt:
		l := live()
		for _, c := range x.Body.List {
			cc := c.(*ast.CaseClause)
			var pre []path
			for _, p := range l {
				pre = append(pre, cp(p, "case"))
			}
			for _, p := range stmtsPaths(cc.Body, pre, inner+1) {
				if p.lbl == "" {
					p.brk = false
				}
				out = append(out, p)
			}
		}
		return out
	case *ast.TypeSwitchStmt:
		l := live()
		for _, c := range x.Body.List {
			cc := c.(*ast.CaseClause)
			var pre []path
			for _, p := range l {
				pre = append(pre, cp(p, "case"))
			}
			for _, p := range stmtsPaths(cc.Body, pre, inner+1) {
				if p.lbl == "" {
					p.brk = false
				}
				out = append(out, p)
			}
		}
		return out
	case *ast.ReturnStmt:
		l := live()
		for _, p := range l {
			var r []string
			for _, e := range x.Results {
				p = cp(p, exprEvents(e)...)
				r = append(r, retString(e))
			}
			q := cp(p, "ret:"+strings.Join(r, ","))
			q.done = true
			out = append(out, q)
		}
		return out
	case *ast.BranchStmt:
		l := live()
		for _, p := range l {
			q := p
			switch {
			case x.Tok == token.GOTO || x.Tok == token.FALLTHROUGH:
				q = cp(p, "goto")
				q.done = true
			case x.Label != nil:
				// a labeled break/continue: the label names an inner loop of the case body (GROUP_COMMIT_LOOP)
				// or the main loop; inner labels end the inner iteration
				if innerLabels[x.Label.Name] {
					q = cp(p, strings.ToLower(x.Tok.String())+":"+x.Label.Name)
					q.brk, q.lbl = true, x.Label.Name
				} else {
					q = cp(p, strings.ToLower(x.Tok.String()))
					q.done = true
				}
			case inner > 0:
				q = cp(p)
				q.brk = true
			default:
				q = cp(p, strings.ToLower(x.Tok.String()))
				q.done = true
			}
			out = append(out, q)
		}
		return out
	case *ast.SendStmt:
		l := live()
		for _, p := range l {
			out = append(out, cp(p, "send:"+chanName(x.Chan)))
		}
		return out
	case *ast.GoStmt, *ast.DeferStmt:
		return in
	default:
		l := live()
		ev := exprEvents(s)
		for _, p := range l {
			out = append(out, cp(p, ev...))
		}
		return out
	}
}

func recvName(s ast.Stmt) string {
	switch c := s.(type) {
	case *ast.AssignStmt:
		if u, ok := c.Rhs[0].(*ast.UnaryExpr); ok && u.Op == token.ARROW {
			return chanName(u.X)
		}
	case *ast.ExprStmt:
		if u, ok := c.X.(*ast.UnaryExpr); ok && u.Op == token.ARROW {
			return chanName(u.X)
		}
	}
	return "?"
}

func retString(e ast.Expr) string {
	if cl, ok := e.(*ast.CompositeLit); ok {
		var as []string
		for _, a := range cl.Elts {
			as = append(as, exprString(a))
		}
		return exprString(cl.Type) + "{" + strings.Join(as, ",") + "}"
	}
	return exprString(e)
}

func bodyPaths(ss []ast.Stmt) [][]string {
	innerLabels = map[string]bool{}
	for _, s := range ss {
		ast.Inspect(s, func(n ast.Node) bool {
			if l, ok := n.(*ast.LabeledStmt); ok {
				innerLabels[l.Label.Name] = true
			}
			return true
		})
	}
	ps := stmtsPaths(ss, []path{{}}, 0)
	var out [][]string
	seen := map[string]bool{}
	for _, p := range ps {
		ev := p.ev
		if !p.done {
			ev = append(append([]string{}, ev...), "end")
		}
		k := strings.Join(ev, "\x00")
		if !seen[k] {
			seen[k] = true
			out = append(out, ev)
		}
	}
	return out
}

// the case bodies of the outermost for { select } of a loop function, by queue
func loopCaseBodies(fd *ast.FuncDecl) map[string][]ast.Stmt {
	out := map[string][]ast.Stmt{}
	var sel *ast.SelectStmt
	ast.Inspect(fd.Body, func(n ast.Node) bool {
		if sel != nil {
			return false
		}
		if f, ok := n.(*ast.ForStmt); ok {
			for _, s := range f.Body.List {
				if x, ok := s.(*ast.SelectStmt); ok {
					sel = x
					return false
				}
			}
		}
		return true
	})
	if sel == nil {
		return out
	}
	for _, c := range sel.Body.List {
		cc := c.(*ast.CommClause)
		if cc.Comm == nil {
			continue
		}
		out[recvName(cc.Comm)] = cc.Body
	}
	return out
}

func coqStr(s string) string {
	return "\"" + strings.ReplaceAll(s, "\"", "'") + "\""
}

func coqEvent(e string) string {
	k, a, b := e, "", ""
	if strings.HasPrefix(e, "respond:") {
		p := strings.SplitN(e, ":", 3)
		k, a, b = p[0], p[1], p[2]
	} else if i := strings.Index(e, ":"); i >= 0 {
		k, a = e[:i], e[i+1:]
	}
	return "(" + coqStr(k) + ", " + coqStr(a) + ", " + coqStr(b) + ")"
}

func coqPaths(ps [][]string) string {
	var rows []string
	for _, p := range ps {
		var es []string
		for _, e := range p {
			es = append(es, coqEvent(e))
		}
		rows = append(rows, "["+strings.Join(es, "; ")+"]")
	}
	return "[" + strings.Join(rows, ";\n      ") + "]"
}
