// gotables: translator from /repo's Go source (go/ast) to Coq tables used by the C17/C18/C10
// theorems.  Regenerated on every run; a change of the loops, of an API constructor, or of a
// constant changes the table and the theorems are re-checked against it.
//
//	gotables <repo dir> <coq Model dir>   (writes LoopTable.v there, only when its text changes)
package main

import (
	"fmt"
	"go/ast"
	"go/parser"
	"go/token"
	"os"
	"path/filepath"
	"sort"
	"strings"
)

var fset = token.NewFileSet()

func parse(dir, name string) *ast.File {
	f, err := parser.ParseFile(fset, filepath.Join(dir, name), nil, 0)
	if err != nil {
		fmt.Fprintln(os.Stderr, "gotables:", err)
		os.Exit(2)
	}
	return f
}

func funcs(files []*ast.File) map[string]*ast.FuncDecl {
	m := map[string]*ast.FuncDecl{}
	for _, f := range files {
		for _, d := range f.Decls {
			if fd, ok := d.(*ast.FuncDecl); ok && fd.Body != nil {
				name := fd.Name.Name
				if fd.Recv != nil && len(fd.Recv.List) == 1 {
					t := fd.Recv.List[0].Type
					if s, ok := t.(*ast.StarExpr); ok {
						t = s.X
					}
					if id, ok := t.(*ast.Ident); ok {
						name = id.Name + "." + name
					}
				}
				m[name] = fd
			}
		}
	}
	return m
}

// r.<name> or r.<name>() (configurationChangeChIfStable) or r.leaderState.<name>
func chanName(e ast.Expr) string {
	switch x := e.(type) {
	case *ast.SelectorExpr:
		return x.Sel.Name
	case *ast.CallExpr:
		if s, ok := x.Fun.(*ast.SelectorExpr); ok {
			n := s.Sel.Name
			return strings.TrimSuffix(n, "IfStable")
		}
	case *ast.Ident:
		return x.Name
	}
	return "?"
}

// does the statement list use identifier `v` (x.respond(..), f(x), append(.., x), ...)?
func uses(body []ast.Stmt, v string) bool {
	found := false
	for _, s := range body {
		ast.Inspect(s, func(n ast.Node) bool {
			if id, ok := n.(*ast.Ident); ok && id.Name == v {
				found = true
			}
			return !found
		})
	}
	return found
}

// does every path through the body that does not hand the future on call v.respond?  We only
// classify: 2 = v.respond(...) occurs, 1 = v is used some other way (handed on), 0 = dropped
func usage(body []ast.Stmt, v string) int {
	if v == "" || v == "_" {
		return 0
	}
	responds := false
	for _, s := range body {
		ast.Inspect(s, func(n ast.Node) bool {
			if c, ok := n.(*ast.CallExpr); ok {
				if sel, ok := c.Fun.(*ast.SelectorExpr); ok && sel.Sel.Name == "respond" {
					if id, ok := sel.X.(*ast.Ident); ok && id.Name == v {
						responds = true
					}
				}
			}
			return true
		})
	}
	if responds {
		return 2
	}
	if uses(body, v) {
		return 1
	}
	return 0
}

type loopRow struct {
	q     string
	usage int
	args  []string // the arguments of <v>.respond(...) in the case body, as written
}

func respondArgs(body []ast.Stmt, v string) []string {
	var out []string
	for _, s := range body {
		ast.Inspect(s, func(n ast.Node) bool {
			if c, ok := n.(*ast.CallExpr); ok {
				if sel, ok := c.Fun.(*ast.SelectorExpr); ok && sel.Sel.Name == "respond" && len(c.Args) == 1 {
					if id, ok := sel.X.(*ast.Ident); ok && id.Name == v {
						out = append(out, exprString(c.Args[0]))
					}
				}
			}
			return true
		})
	}
	return out
}

// the outermost for { select { ... } } of a loop function
func loopTable(fd *ast.FuncDecl) (rows []loopRow, shutdown bool) {
	var sel *ast.SelectStmt
	ast.Inspect(fd.Body, func(n ast.Node) bool {
		if sel != nil {
			return false
		}
		if f, ok := n.(*ast.ForStmt); ok {
			for _, s := range f.Body.List {
				if x, ok := s.(*ast.SelectStmt); ok {
					sel = x
					return false
				}
			}
		}
		return true
	})
	if sel == nil {
		return nil, false
	}
	for _, c := range sel.Body.List {
		cc := c.(*ast.CommClause)
		if cc.Comm == nil {
			continue
		}
		var recv ast.Expr
		v := ""
		switch s := cc.Comm.(type) {
		case *ast.AssignStmt:
			if u, ok := s.Rhs[0].(*ast.UnaryExpr); ok && u.Op == token.ARROW {
				recv = u.X
				if id, ok := s.Lhs[0].(*ast.Ident); ok {
					v = id.Name
				}
			}
		case *ast.ExprStmt:
			if u, ok := s.X.(*ast.UnaryExpr); ok && u.Op == token.ARROW {
				recv = u.X
			}
		}
		if recv == nil {
			continue
		}
		name := chanName(recv)
		if name == "shutdownCh" {
			shutdown = true
			// the case must leave the loop
			continue
		}
		rows = append(rows, loopRow{name, usage(cc.Body, v), respondArgs(cc.Body, v)})
	}
	return rows, shutdown
}

type apiRow struct {
	fn, fut, queue               string
	escape                       string // the channel assigned to <fut>.ShutdownCh ("" = none)
	selShutdown, setsShutdownCh  bool
	otherEscape, respondedInline bool
}

// every `<x>.init()` in a function: a future is being built
func apiRows(name string, fd *ast.FuncDecl) []apiRow {
	var futs []string
	ast.Inspect(fd.Body, func(n ast.Node) bool {
		if c, ok := n.(*ast.CallExpr); ok {
			if s, ok := c.Fun.(*ast.SelectorExpr); ok && s.Sel.Name == "init" && len(c.Args) == 0 {
				if id, ok := s.X.(*ast.Ident); ok {
					futs = append(futs, id.Name)
				}
			}
		}
		return true
	})
	var out []apiRow
	for _, f := range futs {
		row := apiRow{fn: name, fut: f}
		ast.Inspect(fd.Body, func(n ast.Node) bool {
			switch x := n.(type) {
			case *ast.AssignStmt:
				for _, l := range x.Lhs {
					if s, ok := l.(*ast.SelectorExpr); ok && s.Sel.Name == "ShutdownCh" {
						if id, ok := s.X.(*ast.Ident); ok && id.Name == f {
							row.setsShutdownCh = true
							if len(x.Rhs) == 1 {
								row.escape = chanName(x.Rhs[0])
							}
						}
					}
				}
			case *ast.SelectStmt:
				mine := false
				sh, other := false, false
				q := ""
				for _, c := range x.Body.List {
					cc := c.(*ast.CommClause)
					if cc.Comm == nil {
						other = true // default
						continue
					}
					switch s := cc.Comm.(type) {
					case *ast.SendStmt:
						if id, ok := s.Value.(*ast.Ident); ok && id.Name == f {
							mine = true
							q = chanName(s.Chan)
						}
					case *ast.ExprStmt:
						if u, ok := s.X.(*ast.UnaryExpr); ok && u.Op == token.ARROW {
							if chanName(u.X) == "shutdownCh" {
								sh = true
							} else {
								other = true
							}
						}
					}
				}
				if mine {
					row.queue, row.selShutdown, row.otherEscape = q, sh, other
				}
			}
			return true
		})
		if row.queue == "" {
			// not enqueued through a select: responded inline? (GetConfiguration)
			row.respondedInline = usage(fd.Body.List, f) == 2
		}
		out = append(out, row)
	}
	return out
}

// capacities of the channels made in NewRaft
func chanCaps(fd *ast.FuncDecl) map[string]string {
	caps := map[string]string{}
	locals := map[string]string{}
	capOf := func(e ast.Expr) (string, bool) {
		c, ok := e.(*ast.CallExpr)
		if !ok {
			return "", false
		}
		if id, ok := c.Fun.(*ast.Ident); !ok || id.Name != "make" {
			return "", false
		}
		if _, ok := c.Args[0].(*ast.ChanType); !ok {
			return "", false
		}
		if len(c.Args) == 1 {
			return "0", true
		}
		if l, ok := c.Args[1].(*ast.BasicLit); ok {
			return l.Value, true
		}
		return "1", true // a configuration-dependent positive capacity: treated as buffered
	}
	ast.Inspect(fd.Body, func(n ast.Node) bool {
		switch x := n.(type) {
		case *ast.AssignStmt:
			if len(x.Lhs) == 1 && len(x.Rhs) == 1 {
				if id, ok := x.Lhs[0].(*ast.Ident); ok {
					if c, ok := capOf(x.Rhs[0]); ok {
						// the largest capacity assigned anywhere wins (applyCh is re-made buffered under BatchApplyCh)
						if old, seen := locals[id.Name]; !seen || old == "0" {
							locals[id.Name] = c
						}
					}
				}
			}
		case *ast.KeyValueExpr:
			if k, ok := x.Key.(*ast.Ident); ok {
				if c, ok := capOf(x.Value); ok {
					caps[k.Name] = c
				} else if id, ok := x.Value.(*ast.Ident); ok {
					if c, ok := locals[id.Name]; ok {
						caps[k.Name] = c
					}
				}
			}
		}
		return true
	})
	return caps
}

func constants(files []*ast.File, names []string) map[string]string {
	out := map[string]string{}
	for _, f := range files {
		ast.Inspect(f, func(n ast.Node) bool {
			if vs, ok := n.(*ast.ValueSpec); ok {
				for i, id := range vs.Names {
					for _, want := range names {
						if id.Name == want && i < len(vs.Values) {
							out[want] = exprString(vs.Values[i])
						}
					}
				}
			}
			return true
		})
	}
	return out
}

func exprString(e ast.Expr) string {
	switch x := e.(type) {
	case *ast.BasicLit:
		return x.Value
	case *ast.BinaryExpr:
		return exprString(x.X) + x.Op.String() + exprString(x.Y)
	case *ast.SelectorExpr:
		return exprString(x.X) + "." + x.Sel.Name
	case *ast.Ident:
		return x.Name
	case *ast.CallExpr:
		var as []string
		for _, a := range x.Args {
			as = append(as, exprString(a))
		}
		return exprString(x.Fun) + "(" + strings.Join(as, ",") + ")"
	}
	return "?"
}

func b(x bool) string {
	if x {
		return "true"
	}
	return "false"
}

func main() {
	if len(os.Args) < 3 {
		fmt.Fprintln(os.Stderr, "usage: gotables <repo> <out.v>")
		os.Exit(2)
	}
	dir := os.Args[1]
	var files []*ast.File
	for _, n := range []string{"raft.go", "api.go", "snapshot.go", "fsm.go", "future.go", "util.go", "replication.go"} {
		files = append(files, parse(dir, n))
	}
	fm := funcs(files)
	var sb strings.Builder
	sb.WriteString("(* GENERATED by /verif/go/gotables from the Go sources of /repo (go/ast) - regenerated on every run, do not edit. *)\n")
	sb.WriteString("From Coq Require Import List NArith String Bool.\nImport ListNotations.\nOpen Scope string_scope.\nOpen Scope N_scope.\n\n")

	// loops
	sb.WriteString("(* (loop function, leaves on shutdownCh, [(queue received from, usage of the received value:\n   2 = <v>.respond(..) occurs in the case body, 1 = handed on some other way, 0 = no value / dropped,\n   the arguments of those respond calls as written)]) *)\n")
	sb.WriteString("Definition loops : list (string * bool * list (string * N * list string)) := [\n")
	loopFns := []string{"Raft.runFollower", "Raft.runCandidate", "Raft.leaderLoop", "Raft.runSnapshots", "Raft.runFSM"}
	for i, ln := range loopFns {
		fd := fm[ln]
		var rows []loopRow
		sh := false
		if fd != nil {
			rows, sh = loopTable(fd)
		}
		var cells []string
		for _, r := range rows {
			var as []string
			for _, a := range r.args {
				as = append(as, "\""+a+"\"")
			}
			cells = append(cells, fmt.Sprintf("(\"%s\", %d, [%s])", r.q, r.usage, strings.Join(as, "; ")))
		}
		sep := ";"
		if i == len(loopFns)-1 {
			sep = ""
		}
		fmt.Fprintf(&sb, "  (\"%s\", %s, [%s])%s\n", strings.TrimPrefix(ln, "Raft."), b(sh), strings.Join(cells, "; "), sep)
	}
	sb.WriteString("].\n\n")

	// runLeader's deferred step-down: which tracked sets are answered
	flush := []string{}
	if fd := fm["Raft.runLeader"]; fd != nil {
		ast.Inspect(fd.Body, func(n ast.Node) bool {
			if d, ok := n.(*ast.DeferStmt); ok {
				if fl, ok := d.Call.Fun.(*ast.FuncLit); ok {
					ast.Inspect(fl.Body, func(m ast.Node) bool {
						if rs, ok := m.(*ast.RangeStmt); ok {
							if usageRespond(rs.Body) {
								flush = append(flush, chanName(rs.X))
							}
						}
						if fs, ok := m.(*ast.ForStmt); ok {
							if usageRespond(fs.Body) {
								// for e := r.leaderState.inflight.Front(); ...
								name := "?"
								if as, ok := fs.Init.(*ast.AssignStmt); ok {
									if c, ok := as.Rhs[0].(*ast.CallExpr); ok {
										if s, ok := c.Fun.(*ast.SelectorExpr); ok {
											name = chanName(s.X)
										}
									}
								}
								flush = append(flush, name)
							}
						}
						return true
					})
				}
			}
			return true
		})
	}
	sort.Strings(flush)
	var fl []string
	for _, x := range flush {
		fl = append(fl, "\""+x+"\"")
	}
	sb.WriteString("(* tracked sets whose futures the deferred step-down code of runLeader answers *)\n")
	fmt.Fprintf(&sb, "Definition stepdown_flushes : list string := [%s].\n\n", strings.Join(fl, "; "))

	// API constructors
	sb.WriteString("(* (function, future variable, queue it is sent to (\"\" = none), enqueue select has a shutdownCh case,\n   the channel assigned to the future's ShutdownCh (\"\" = none), the select has another escape (timer/default), responded inline) *)\n")
	sb.WriteString("Definition apis : list (string * string * string * bool * string * bool * bool) := [\n")
	apiFns := []string{"Raft.ApplyLog", "Raft.Barrier", "Raft.VerifyLeader", "Raft.requestConfigChange", "Raft.BootstrapCluster",
		"Raft.Snapshot", "Raft.Restore", "Raft.initiateLeadershipTransfer", "Raft.GetConfiguration", "Raft.takeSnapshot"}
	var lines []string
	for _, an := range apiFns {
		fd := fm[an]
		if fd == nil {
			continue
		}
		for _, r := range apiRows(strings.TrimPrefix(an, "Raft."), fd) {
			lines = append(lines, fmt.Sprintf("  (\"%s\", \"%s\", \"%s\", %s, \"%s\", %s, %s)", r.fn, r.fut, r.queue, b(r.selShutdown), r.escape, b(r.otherEscape), b(r.respondedInline)))
		}
	}
	sb.WriteString(strings.Join(lines, ";\n"))
	sb.WriteString("\n].\n\n")

	// capacities
	caps := map[string]string{}
	if fd := fm["NewRaft"]; fd != nil {
		caps = chanCaps(fd)
	}
	var keys []string
	for k := range caps {
		keys = append(keys, k)
	}
	sort.Strings(keys)
	sb.WriteString("(* capacities of the channels made in NewRaft: 0 = unbuffered; a configuration-dependent capacity is written 1 *)\n")
	sb.WriteString("Definition chan_caps : list (string * N) := [\n")
	var cl []string
	for _, k := range keys {
		cl = append(cl, fmt.Sprintf("  (\"%s\", %s)", k, caps[k]))
	}
	sb.WriteString(strings.Join(cl, ";\n"))
	sb.WriteString("\n].\n\n")

	// deferError.Error(): does it select on ShutdownCh?
	errSel := false
	if fd := fm["deferError.Error"]; fd != nil {
		ast.Inspect(fd.Body, func(n ast.Node) bool {
			if s, ok := n.(*ast.SelectStmt); ok {
				for _, c := range s.Body.List {
					cc := c.(*ast.CommClause)
					if es, ok := cc.Comm.(*ast.ExprStmt); ok {
						if u, ok := es.X.(*ast.UnaryExpr); ok && u.Op == token.ARROW && chanName(u.X) == "ShutdownCh" {
							errSel = true
						}
					}
				}
			}
			return true
		})
	}
	fmt.Fprintf(&sb, "(* deferError.Error() waits on errCh or on its ShutdownCh *)\nDefinition error_selects_shutdown : bool := %s.\n\n", b(errSel))

	// runLeader's notifications: on entry (function body) and on exit (the deferred function)
	type note struct {
		ch  string
		val string
	}
	collect := func(n ast.Node, skip ast.Node) []note {
		var out []note
		add := func(x note) {
			if len(out) > 0 && out[len(out)-1] == x {
				return // the best-effort repeat of the same send under <-shutdownCh
			}
			out = append(out, x)
		}
		ast.Inspect(n, func(m ast.Node) bool {
			if m == skip {
				return false
			}
			switch x := m.(type) {
			case *ast.CallExpr:
				if id, ok := x.Fun.(*ast.Ident); ok && id.Name == "overrideNotifyBool" && len(x.Args) == 2 {
					add(note{chanName(x.Args[0]), exprString(x.Args[1])})
				}
			case *ast.SendStmt:
				if id, ok := x.Chan.(*ast.Ident); ok && id.Name == "notify" {
					add(note{"notify", exprString(x.Value)})
				}
			}
			return true
		})
		return out
	}
	var entryNotes, exitNotes []note
	if fd := fm["Raft.runLeader"]; fd != nil {
		var deferred ast.Node
		for _, st := range fd.Body.List {
			if d, ok := st.(*ast.DeferStmt); ok {
				if fl, ok := d.Call.Fun.(*ast.FuncLit); ok && deferred == nil {
					// the step-down defer is the one that contains notifications
					if len(collect(fl, nil)) > 0 {
						deferred = d
						exitNotes = collect(fl, nil)
					}
				}
			}
		}
		entryNotes = collect(fd.Body, deferred)
	}
	fmtNotes := func(ns []note) string {
		var xs []string
		for _, n := range ns {
			xs = append(xs, fmt.Sprintf("(\"%s\", %s)", n.ch, n.val))
		}
		return "[" + strings.Join(xs, "; ") + "]"
	}
	sb.WriteString("(* runLeader: notifications sent on entry and, by the deferred step-down code, on exit: (channel, value) in program order *)\n")
	fmt.Fprintf(&sb, "Definition runleader_entry : list (string * bool) := %s.\nDefinition runleader_exit : list (string * bool) := %s.\n\n", fmtNotes(entryNotes), fmtNotes(exitNotes))

	// setState clears the advertised leader
	clears := false
	if fd := fm["Raft.setState"]; fd != nil {
		ast.Inspect(fd.Body, func(n ast.Node) bool {
			if c, ok := n.(*ast.CallExpr); ok && strings.HasSuffix(exprString(c.Fun), ".setLeader") && len(c.Args) == 2 {
				if exprString(c.Args[0]) == "\"\"" && exprString(c.Args[1]) == "\"\"" {
					clears = true
				}
			}
			return true
		})
	}
	fmt.Fprintf(&sb, "(* setState calls setLeader(\"\", \"\") *)\nDefinition setstate_clears_leader : bool := %s.\n\n", b(clears))

	// is stoppedCh closed only after waitShutdown() (every goroutine has exited)?
	stoppedAfterWait := false
	if fd := fm["Raft.Shutdown"]; fd != nil {
		ast.Inspect(fd.Body, func(n ast.Node) bool {
			if fl, ok := n.(*ast.FuncLit); ok {
				waited := false
				for _, st := range fl.Body.List {
					if es, ok := st.(*ast.ExprStmt); ok {
						if c, ok := es.X.(*ast.CallExpr); ok {
							name := exprString(c.Fun)
							if strings.HasSuffix(name, ".waitShutdown") {
								waited = true
							}
							if name == "close" && len(c.Args) == 1 && chanName(c.Args[0]) == "stoppedCh" && waited {
								stoppedAfterWait = true
							}
						}
					}
				}
			}
			return true
		})
	}
	fmt.Fprintf(&sb, "(* Shutdown() closes stoppedCh in a goroutine, after waitShutdown() returned *)\nDefinition stopped_closed_after_wait : bool := %s.\n\n", b(stoppedAfterWait))

	// control-flow paths of the case bodies that receive a client future, and of the API constructors
	sb.WriteString("(* control-flow paths (go/gotables/paths.go) of the loop case bodies: (loop, queue, paths as lists of events (kind, a, b):\n   respond v arg | call name | send chan | recv chan | T cond | F cond | ret expr | continue | break | end) *)\n")
	sb.WriteString("Definition case_paths : list (string * string * list (list (string * string * string))) := [\n")
	var cps []string
	for _, ln := range []string{"Raft.runFollower", "Raft.runCandidate", "Raft.leaderLoop"} {
		fd := fm[ln]
		if fd == nil {
			continue
		}
		bodies := loopCaseBodies(fd)
		for _, q := range []string{"applyCh", "configurationChangeCh", "userRestoreCh", "verifyCh", "leadershipTransferCh"} {
			if body, ok := bodies[q]; ok {
				cps = append(cps, fmt.Sprintf("  (\"%s\", \"%s\",\n     %s)", strings.TrimPrefix(ln, "Raft."), q, coqPaths(bodyPaths(body))))
			}
		}
	}
	sb.WriteString(strings.Join(cps, ";\n"))
	sb.WriteString("\n].\n\n")
	sb.WriteString("(* control-flow paths of the API constructors: (function, paths) *)\n")
	sb.WriteString("Definition api_paths : list (string * list (list (string * string * string))) := [\n")
	var aps []string
	for _, an := range []string{"Raft.ApplyLog", "Raft.Barrier", "Raft.requestConfigChange", "Raft.VerifyLeader"} {
		if fd := fm[an]; fd != nil {
			aps = append(aps, fmt.Sprintf("  (\"%s\",\n     %s)", strings.TrimPrefix(an, "Raft."), coqPaths(bodyPaths(fd.Body.List))))
		}
	}
	sb.WriteString(strings.Join(aps, ";\n"))
	sb.WriteString("\n].\n\n")

	// constants
	cs := constants(files, []string{"minCheckInterval", "oldestLogGaugeInterval", "rpcMaxPipeline", "maxFailureScale", "failureWait"})
	var ck []string
	for k := range cs {
		ck = append(ck, k)
	}
	sort.Strings(ck)
	sb.WriteString("(* constants as written in the source (text) *)\nDefinition go_consts : list (string * string) := [\n")
	var cc []string
	for _, k := range ck {
		cc = append(cc, fmt.Sprintf("  (\"%s\", \"%s\")", k, cs[k]))
	}
	sb.WriteString(strings.Join(cc, ";\n"))
	sb.WriteString("\n].\n")

	// decision trees of the handler-style functions (trees.go)
	gt := genTrees(fm, []string{"Raft.requestVote", "Raft.requestPreVote", "Raft.persistVote", "Raft.configurationChangeChIfStable",
		"Raft.timeoutNow", "Raft.setCurrentTerm", "Raft.compactLogsWithTrailing", "Raft.quorumSize", "Raft.checkRPCHeader"},
		map[string]bool{})
	gx := genTreesShared(fm, []string{"Raft.appendEntries", "Raft.installSnapshot"})
	gxout := filepath.Join(os.Args[2], "GenTreesAE.v")
	if old, _ := os.ReadFile(gxout); string(old) != gx {
		if err := os.WriteFile(gxout, []byte(gx), 0o644); err != nil {
			fmt.Fprintln(os.Stderr, err)
			os.Exit(2)
		}
		fmt.Printf("GenTreesAE.v regenerated from %s: CHANGED\n", dir)
	} else {
		fmt.Printf("GenTreesAE.v regenerated from %s: unchanged\n", dir)
	}
	gout := filepath.Join(os.Args[2], "GenTrees.v")
	gold, _ := os.ReadFile(gout)
	if string(gold) != gt {
		if err := os.WriteFile(gout, []byte(gt), 0o644); err != nil {
			fmt.Fprintln(os.Stderr, err)
			os.Exit(2)
		}
		fmt.Printf("GenTrees.v regenerated from %s: CHANGED\n", dir)
	} else {
		fmt.Printf("GenTrees.v regenerated from %s: unchanged\n", dir)
	}

	out := filepath.Join(os.Args[2], "LoopTable.v")
	old, _ := os.ReadFile(out)
	if string(old) == sb.String() {
		fmt.Printf("LoopTable.v regenerated from %s: unchanged (%d loop rows, %d API rows)\n", dir, len(loopFns), len(lines))
		return
	}
	if err := os.WriteFile(out, []byte(sb.String()), 0o644); err != nil {
		fmt.Fprintln(os.Stderr, err)
		os.Exit(2)
	}
	fmt.Printf("LoopTable.v regenerated from %s: CHANGED (%d loop rows, %d API rows)\n", dir, len(loopFns), len(lines))
}

func usageRespond(b *ast.BlockStmt) bool {
	found := false
	ast.Inspect(b, func(n ast.Node) bool {
		if c, ok := n.(*ast.CallExpr); ok {
			if sel, ok := c.Fun.(*ast.SelectorExpr); ok && sel.Sel.Name == "respond" {
				found = true
			}
		}
		return true
	})
	return found
}
