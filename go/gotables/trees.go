// trees.go: the DECISION TREE of a handler-style function (straight-line code with early returns),
// regenerated from the Go source on every run into Model/GenTrees.v.
//
//	tree ::= TRet                      return (or the end of the body)
//	       | TEv (kind, a, b) tree     an effect, then the rest:
//	             ("call", name, args)    r.<name>(args) or r.<field>.<name>(args)   (logger / metrics / observe skipped)
//	             ("assign", lhs, rhs)    <x>.<field> = rhs   (assignments to fields: resp.Granted, resp.Term, ...)
//	             ("defer", callee, args) a deferred call (func literals: the calls inside)
//	             ("loop", header, "")    a for/range statement (opaque: its body is not expanded)
//	       | TIf cond tree tree        an if; the condition as written (an `if x := f(); c` carries "x:=f();c"),
//	                                   a condition that occurs again on the way is numbered: "c#2"
//
// The statements that follow an `if` are the continuation of BOTH branches, so the tree is the
// function's complete decision structure. Conditions and arguments are printed without spaces.
package main

import (
	"fmt"
	"go/ast"
	"go/token"
	"strings"
)

type tnode struct {
	kind    string // "ret" | "ev" | "if"
	a, b, c string
	t, f, k *tnode
}

var skipRecv = map[string]bool{"logger": true, "metrics": true}
var skipCalls = map[string]bool{"observe": true}

func fullExpr(e ast.Expr) string {
	switch x := e.(type) {
	case nil:
		return ""
	case *ast.BasicLit:
		return x.Value
	case *ast.BinaryExpr:
		return fullExpr(x.X) + x.Op.String() + fullExpr(x.Y)
	case *ast.UnaryExpr:
		return x.Op.String() + fullExpr(x.X)
	case *ast.ParenExpr:
		return "(" + fullExpr(x.X) + ")"
	case *ast.StarExpr:
		return "*" + fullExpr(x.X)
	case *ast.SelectorExpr:
		return fullExpr(x.X) + "." + x.Sel.Name
	case *ast.Ident:
		return x.Name
	case *ast.IndexExpr:
		return fullExpr(x.X) + "[" + fullExpr(x.Index) + "]"
	case *ast.SliceExpr:
		return fullExpr(x.X) + "[" + fullExpr(x.Low) + ":" + fullExpr(x.High) + "]"
	case *ast.CallExpr:
		var as []string
		for _, a := range x.Args {
			as = append(as, fullExpr(a))
		}
		return fullExpr(x.Fun) + "(" + strings.Join(as, ",") + ")"
	case *ast.CompositeLit:
		var as []string
		for _, a := range x.Elts {
			as = append(as, fullExpr(a))
		}
		return fullExpr(x.Type) + "{" + strings.Join(as, ",") + "}"
	case *ast.KeyValueExpr:
		return fullExpr(x.Key) + ":" + fullExpr(x.Value)
	case *ast.ArrayType:
		return "[]" + fullExpr(x.Elt)
	case *ast.FuncLit:
		return "func"
	}
	return "?"
}

// the effect events of the calls inside a node, in source order
func callEvents(n ast.Node) [][3]string {
	var out [][3]string
	if n == nil {
		return out
	}
	ast.Inspect(n, func(m ast.Node) bool {
		if _, ok := m.(*ast.FuncLit); ok {
			return false
		}
		c, ok := m.(*ast.CallExpr)
		if !ok {
			return true
		}
		sel, ok := c.Fun.(*ast.SelectorExpr)
		if !ok {
			return true
		}
		var as []string
		for _, a := range c.Args {
			as = append(as, fullExpr(a))
		}
		recv := fullExpr(sel.X)
		switch {
		case recv == "r":
			if !skipCalls[sel.Sel.Name] {
				out = append(out, [3]string{"call", sel.Sel.Name, strings.Join(as, ",")})
			}
		case strings.HasPrefix(recv, "r."):
			f := strings.TrimPrefix(recv, "r.")
			if !skipRecv[f] {
				out = append(out, [3]string{"call", f + "." + sel.Sel.Name, strings.Join(as, ",")})
			}
		case recv == "rpc":
			out = append(out, [3]string{"call", "rpc." + sel.Sel.Name, strings.Join(as, ",")})
		}
		return true
	})
	return out
}

func evChain(evs [][3]string, k *tnode) *tnode {
	for i := len(evs) - 1; i >= 0; i-- {
		k = &tnode{kind: "ev", a: evs[i][0], b: evs[i][1], c: evs[i][2], k: k}
	}
	return k
}

// build the tree of `ss` followed by the continuation `rest` (statements after the enclosing block);
// seen counts the conditions met on the way (for the #n suffix)
func buildTree(ss []ast.Stmt, rest [][]ast.Stmt, seen map[string]int) *tnode {
	if len(ss) == 0 {
		if len(rest) == 0 {
			return &tnode{kind: "ret"}
		}
		return buildTree(rest[0], rest[1:], seen)
	}
	s, tail := ss[0], ss[1:]
	cont := func(seen map[string]int) *tnode { return buildTree(tail, rest, seen) }
	switch x := s.(type) {
	case *ast.BlockStmt:
		return buildTree(x.List, append([][]ast.Stmt{tail}, rest...), seen)
	case *ast.ReturnStmt:
		var evs [][3]string
		for _, e := range x.Results {
			evs = append(evs, callEvents(e)...)
		}
		var rs []string
		for _, e := range x.Results {
			rs = append(rs, fullExpr(e))
		}
		return evChain(evs, &tnode{kind: "ret", a: strings.Join(rs, ",")})
	case *ast.IfStmt:
		var evs [][3]string
		// variables defined by the if's init statement are renamed <var>@<rhs> inside the condition
		ren := map[string]string{}
		if x.Init != nil {
			evs = append(evs, callEvents(x.Init)...)
			if as, ok := x.Init.(*ast.AssignStmt); ok && len(as.Rhs) == 1 {
				for _, e := range as.Lhs {
					if id, ok := e.(*ast.Ident); ok && id.Name != "_" {
						ren[id.Name] = id.Name + "@" + fullExpr(as.Rhs[0])
					}
				}
			}
		}
		evs = append(evs, callEvents(x.Cond)...)
		name := coqExpr(x.Cond, ren)
		s2 := seen
		nrest := append([][]ast.Stmt{tail}, rest...)
		t := buildTree(x.Body.List, nrest, s2)
		var f *tnode
		switch e := x.Else.(type) {
		case nil:
			f = buildTree(tail, rest, s2)
		case *ast.BlockStmt:
			f = buildTree(e.List, nrest, s2)
		default:
			f = buildTree([]ast.Stmt{e}, nrest, s2)
		}
		return evChain(evs, &tnode{kind: "if", a: name, t: t, f: f})
	case *ast.ForStmt:
		hdr := "for " + fullExprStmt(x.Init) + ";" + fullExpr(x.Cond) + ";" + fullExprStmt(x.Post)
		if expandLoops {
			return loopTree(hdr, x.Body.List, tail, rest, seen)
		}
		return &tnode{kind: "ev", a: "loop", b: hdr, k: cont(seen)}
	case *ast.RangeStmt:
		hdr := "range " + fullExpr(x.X)
		if expandLoops {
			return loopTree(hdr, x.Body.List, tail, rest, seen)
		}
		return &tnode{kind: "ev", a: "loop", b: hdr, k: cont(seen)}
	case *ast.BranchStmt:
		// break / continue of an expanded loop: on to what follows the loop (the body is taken at most once)
		if (x.Tok == token.BREAK || x.Tok == token.CONTINUE) && x.Label == nil && len(loopConts) > 0 {
			lc := loopConts[len(loopConts)-1]
			return buildTree(lc.tail, lc.rest, seen)
		}
		return &tnode{kind: "ev", a: "branch", b: x.Tok.String(), k: cont(seen)}
	case *ast.DeferStmt:
		var evs [][3]string
		if fl, ok := x.Call.Fun.(*ast.FuncLit); ok {
			for _, e := range callEvents(fl.Body) {
				evs = append(evs, [3]string{"defer", e[1], e[2]})
			}
		} else {
			for _, e := range callEvents(x.Call) {
				evs = append(evs, [3]string{"defer", e[1], e[2]})
			}
		}
		return evChain(evs, cont(seen))
	case *ast.AssignStmt:
		// a local definition by a pure arithmetic expression (no calls but min/max): TLet
		if x.Tok == token.DEFINE && len(x.Lhs) == 1 && len(x.Rhs) == 1 && len(callEvents(x)) == 0 && pureArith(x.Rhs[0]) {
			if id, ok := x.Lhs[0].(*ast.Ident); ok {
				return &tnode{kind: "let", a: id.Name, b: coqExpr(x.Rhs[0], nil), k: cont(seen)}
			}
		}
		evs := callEvents(x)
		if x.Tok == token.ASSIGN {
			for i, l := range x.Lhs {
				if _, ok := l.(*ast.SelectorExpr); ok && i < len(x.Rhs) {
					evs = append(evs, [3]string{"assign", fullExpr(l), fullExpr(x.Rhs[i])})
				}
			}
		}
		return evChain(evs, cont(seen))
	case *ast.SwitchStmt, *ast.TypeSwitchStmt, *ast.SelectStmt:
		return &tnode{kind: "ev", a: "loop", b: "switch/select", k: cont(seen)}
	case *ast.GoStmt:
		return &tnode{kind: "ev", a: "go", b: fullExpr(x.Call.Fun), k: cont(seen)}
	case *ast.ExprStmt:
		// panic(...) ends the function: the process dies there
		if c, ok := x.X.(*ast.CallExpr); ok {
			if id, ok := c.Fun.(*ast.Ident); ok && id.Name == "panic" {
				return evChain(callEvents(s), &tnode{kind: "ret", a: "panic"})
			}
		}
		return evChain(callEvents(s), cont(seen))
	default:
		return evChain(callEvents(s), cont(seen))
	}
}

// expanded loops: TIf (EAtom "loop:<header>") <body once, then what follows> <what follows>
var expandLoops = false

type loopCont struct {
	tail []ast.Stmt
	rest [][]ast.Stmt
}

var loopConts []loopCont

func loopTree(hdr string, body []ast.Stmt, tail []ast.Stmt, rest [][]ast.Stmt, seen map[string]int) *tnode {
	loopConts = append(loopConts, loopCont{tail, rest})
	t := buildTree(body, append([][]ast.Stmt{tail}, rest...), seen)
	loopConts = loopConts[:len(loopConts)-1]
	f := buildTree(tail, rest, seen)
	return &tnode{kind: "if", a: "(EAtom " + coqStr("loop:"+hdr) + ")", t: t, f: f}
}

func fullExprStmt(s ast.Stmt) string {
	switch x := s.(type) {
	case *ast.AssignStmt:
		var l, r []string
		for _, e := range x.Lhs {
			l = append(l, fullExpr(e))
		}
		for _, e := range x.Rhs {
			r = append(r, fullExpr(e))
		}
		return strings.Join(l, ",") + x.Tok.String() + strings.Join(r, ",")
	case *ast.IncDecStmt:
		return fullExpr(x.X) + x.Tok.String()
	case *ast.ExprStmt:
		return fullExpr(x.X)
	}
	return ""
}

func treeSize(t *tnode) int {
	if t == nil {
		return 0
	}
	return 1 + treeSize(t.t) + treeSize(t.f) + treeSize(t.k)
}

func coqTree(t *tnode, sb *strings.Builder, ind int) {
	pad := strings.Repeat(" ", ind)
	switch t.kind {
	case "ret":
		sb.WriteString(pad + "(TRet " + coqStr(t.a) + ")")
	case "ev":
		// chains of events are printed flat
		sb.WriteString(pad + "(TEv (" + coqStr(t.a) + ", " + coqStr(t.b) + ", " + coqStr(t.c) + ")\n")
		coqTree(t.k, sb, ind)
		sb.WriteString(")")
	case "let":
		sb.WriteString(pad + "(TLet " + coqStr(t.a) + " " + t.b + "\n")
		coqTree(t.k, sb, ind)
		sb.WriteString(")")
	case "if":
		sb.WriteString(pad + "(TIf " + t.a + "\n")
		coqTree(t.t, sb, ind+1)
		sb.WriteString("\n")
		coqTree(t.f, sb, ind+1)
		sb.WriteString(")")
	}
}

// GenTrees.v: the decision trees of the named functions
func genTrees(fm map[string]*ast.FuncDecl, names []string, expand map[string]bool) string {
	var sb strings.Builder
	sb.WriteString("(* GENERATED by /verif/go/gotables (trees.go) from the Go sources of /repo (go/ast) - regenerated on every run, do not edit.\n")
	sb.WriteString("   The decision tree of each function: TIf cond then else | TEv (kind, a, b) rest | TRet; see go/gotables/trees.go. *)\n")
	sb.WriteString("From Coq Require Import List String NArith.\nImport ListNotations.\nOpen Scope string_scope.\n\n")
	sb.WriteString("(* conditions: comparisons and boolean connectives are structure, everything else is an atom named by its source text *)\n")
	sb.WriteString("Inductive expr := EAtom (s : string) | ENum (n : N) | ENil | EBin (op : string) (a b : expr) | ENot (a : expr) | EMin (a b : expr) | EMax (a b : expr).\n")
	sb.WriteString("Inductive tree := TRet (v : string) | TEv (e : string * string * string) (k : tree) | TLet (x : string) (e : expr) (k : tree) | TIf (c : expr) (t f : tree).\n\n")
	var present []string
	for _, n := range names {
		fd := fm[n]
		short := n[strings.Index(n, ".")+1:]
		if fd == nil || fd.Body == nil {
			continue
		}
		expandLoops = expand[n]
		loopConts = nil
		t := buildTree(fd.Body.List, nil, map[string]int{})
		expandLoops = false
		if treeSize(t) > 20000 {
			t = &tnode{kind: "ev", a: "toolarge", b: short, k: &tnode{kind: "ret"}}
		}
		fmt.Fprintf(&sb, "Definition gen_%s : tree :=\n", short)
		coqTree(t, &sb, 1)
		sb.WriteString(".\n\n")
		present = append(present, short)
	}
	sb.WriteString("Definition gen_functions : list string := [")
	for i, p := range present {
		if i > 0 {
			sb.WriteString("; ")
		}
		sb.WriteString(coqStr(p))
	}
	sb.WriteString("].\n")
	return sb.String()
}

// a condition as a Coq term of type expr
func coqExpr(e ast.Expr, ren map[string]string) string {
	switch x := e.(type) {
	case *ast.ParenExpr:
		return coqExpr(x.X, ren)
	case *ast.BinaryExpr:
		switch x.Op {
		case token.LAND, token.LOR, token.EQL, token.NEQ, token.LSS, token.GTR, token.LEQ, token.GEQ, token.ADD, token.SUB:
			return "(EBin " + coqStr(x.Op.String()) + " " + coqExpr(x.X, ren) + " " + coqExpr(x.Y, ren) + ")"
		}
	case *ast.UnaryExpr:
		if x.Op == token.NOT {
			return "(ENot " + coqExpr(x.X, ren) + ")"
		}
	case *ast.BasicLit:
		if x.Kind == token.INT {
			return "(ENum " + x.Value + "%N)"
		}
		if x.Kind == token.STRING && (x.Value == "\"\"" || x.Value == "``") {
			return "ENil"
		}
	case *ast.Ident:
		if x.Name == "nil" {
			return "ENil"
		}
		if r, ok := ren[x.Name]; ok {
			return "(EAtom " + coqStr(r) + ")"
		}
	case *ast.CallExpr:
		if id, ok := x.Fun.(*ast.Ident); ok && (id.Name == "min" || id.Name == "max") && len(x.Args) == 2 {
			c := "EMin"
			if id.Name == "max" {
				c = "EMax"
			}
			return "(" + c + " " + coqExpr(x.Args[0], ren) + " " + coqExpr(x.Args[1], ren) + ")"
		}
	}
	return "(EAtom " + coqStr(fullExpr(e)) + ")"
}

// arithmetic over identifiers, literals, + - and min/max only
func pureArith(e ast.Expr) bool {
	switch x := e.(type) {
	case *ast.ParenExpr:
		return pureArith(x.X)
	case *ast.BinaryExpr:
		return (x.Op == token.ADD || x.Op == token.SUB) && pureArith(x.X) && pureArith(x.Y)
	case *ast.BasicLit:
		return x.Kind == token.INT
	case *ast.Ident:
		return x.Name != "nil" && x.Name != "true" && x.Name != "false"
	case *ast.CallExpr:
		if id, ok := x.Fun.(*ast.Ident); ok && (id.Name == "min" || id.Name == "max") && len(x.Args) == 2 {
			return pureArith(x.Args[0]) && pureArith(x.Args[1])
		}
	}
	return false
}

// hash-consed printing: a subtree whose text is long and occurs again is emitted once as its own Definition
type sharer struct {
	names map[string]string
	defs  []string
	pref  string
}

func (sh *sharer) expr(t *tnode) string {
	var e string
	switch t.kind {
	case "ret":
		return "(TRet " + coqStr(t.a) + ")"
	case "ev":
		e = "(TEv (" + coqStr(t.a) + ", " + coqStr(t.b) + ", " + coqStr(t.c) + ") " + sh.expr(t.k) + ")"
	case "let":
		e = "(TLet " + coqStr(t.a) + " " + t.b + " " + sh.expr(t.k) + ")"
	case "if":
		e = "(TIf " + t.a + " " + sh.expr(t.t) + " " + sh.expr(t.f) + ")"
	}
	if len(e) < 200 {
		return e
	}
	if n, ok := sh.names[e]; ok {
		return n
	}
	n := fmt.Sprintf("%s_%d", sh.pref, len(sh.defs)+1)
	sh.names[e] = n
	sh.defs = append(sh.defs, "Definition "+n+" : tree := "+e+".")
	return n
}

// GenTreesAE.v: functions with loops, expanded (body once or not at all), with shared subtrees
func genTreesShared(fm map[string]*ast.FuncDecl, names []string) string {
	var sb strings.Builder
	sb.WriteString("(* GENERATED by /verif/go/gotables (trees.go) from the Go sources of /repo - regenerated on every run, do not edit.\n")
	sb.WriteString("   Decision trees of functions WITH loops: a loop is TIf (EAtom \"loop:<header>\") <body once, then what follows> <what follows>;\n")
	sb.WriteString("   break/continue go on to what follows the loop. Subtrees that occur several times are emitted once (s_<n>). *)\n")
	sb.WriteString("From Coq Require Import List String NArith.\nFrom RaftModel Require Import GenTrees.\nImport ListNotations.\nOpen Scope string_scope.\n\n")
	for _, n := range names {
		fd := fm[n]
		short := n[strings.Index(n, ".")+1:]
		if fd == nil || fd.Body == nil {
			continue
		}
		expandLoops = true
		loopConts = nil
		t := buildTree(fd.Body.List, nil, map[string]int{})
		expandLoops = false
		sh := &sharer{names: map[string]string{}, pref: "s_" + short}
		top := sh.expr(t)
		for _, d := range sh.defs {
			sb.WriteString(d + "\n")
		}
		fmt.Fprintf(&sb, "Definition genx_%s : tree := %s.\n\n", short, top)
	}
	return sb.String()
}
