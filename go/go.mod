module verifharness

go 1.24.0

require (
	github.com/hashicorp/go-hclog v1.6.3
	github.com/hashicorp/raft v0.0.0
)

require (
	github.com/armon/go-metrics v0.4.1 // indirect
	github.com/fatih/color v1.13.0 // indirect
	github.com/hashicorp/go-immutable-radix v1.0.0 // indirect
	github.com/hashicorp/go-metrics v0.5.4 // indirect
	github.com/hashicorp/go-msgpack/v2 v2.1.5 // indirect
	github.com/hashicorp/golang-lru v0.5.0 // indirect
	github.com/mattn/go-colorable v0.1.12 // indirect
	github.com/mattn/go-isatty v0.0.14 // indirect
	golang.org/x/sys v0.13.0 // indirect
)

replace github.com/hashicorp/raft => /repo
