package main

import (
	"bytes"
	"errors"
	"sort"
	"time"

	"github.com/hashicorp/raft"
)

// "leader sequence" component (model: Model/LeaderCodec.v run_leaderseq, component 8): a real
// server booted from an image, put into Leader state through setState + setupLeaderState (no
// replication goroutines), then driven from one goroutine through dispatchLogs, commitment.match,
// the commit processing of leaderLoop, appendConfigurationEntry, restoreUserSnapshot, verifyLeader.

// optional hook of /repo's verif_hooks.go (not there yet): has the verify future been handed to the leader
// loop (vote() sent it on notifyCh) or answered at once?  When it is missing only the counters are observed.
type verifResolved interface{ Resolved() bool }

func haveVerifResolved() bool {
	_, ok := interface{}((*raft.VerifVerify)(nil)).(verifResolved)
	return ok
}

type lsFuture struct {
	fid      uint64
	f        raft.Future
	resolved chan struct{} // closed by the single waiter goroutine
	err      error
	reported bool
}

func newLsFuture(fid uint64, f raft.Future) *lsFuture {
	x := &lsFuture{fid: fid, f: f, resolved: make(chan struct{})}
	go func() {
		x.err = f.Error()
		close(x.resolved)
	}()
	return x
}

func futCode(err error) uint64 {
	switch {
	case err == nil:
		return 0
	case errors.Is(err, errInjected), err != nil && bytes.Contains([]byte(err.Error()), []byte("injected")):
		return 7
	case errors.Is(err, raft.ErrAbortedByRestore):
		return 6
	case errors.Is(err, raft.ErrLeadershipLost):
		return 2
	}
	return 8
}

func lsExec(in []uint64, batching bool) (obs []uint64, info map[string]int) {
	info = map[string]int{}
	c := nsDecode(in)
	img := c.buildImage()
	nn := &nsNode{c: c, orc: &oracle{}}
	rec := &recorder{n: nn}
	nn.rec = rec
	img.logs.orc, img.stable.orc, img.snaps.orc = nn.orc, nn.orc, nn.orc
	img.stable.onOp = func(op stableOp) {
		switch op.key {
		case "CurrentTerm":
			rec.add([]uint64{1, op.u64, b2u(!op.failed)}, true)
		case "LastVoteTerm":
			rec.add([]uint64{2, op.u64, b2u(!op.failed)}, true)
		case "LastVoteCand":
			rec.add([]uint64{3, addrNum(raft.ServerAddress(op.val)), b2u(!op.failed)}, true)
		}
	}
	img.logs.onOp = func(op storeOp) {
		if op.kind == "store" {
			it := []uint64{4, uint64(len(op.logs))}
			for _, l := range op.logs {
				it = append(it, l.Index, l.Term, uint64(l.Type), c.idOfLog(l))
			}
			it = append(it, b2u(!op.failed))
			rec.add(it, true)
		} else {
			rec.add([]uint64{5, op.lo, op.hi, b2u(!op.failed)}, true)
		}
	}
	img.logs.onStage = func(v uint64) { rec.add([]uint64{6, v}, false) }
	img.snaps.onOp = func(idx, term uint64, ok bool) { rec.add([]uint64{7, idx, term, b2u(ok)}, true) }
	nsFsmHook = func(f *RecFSM) {
		f.idOfLog = c.idOfLog
		f.onEvent = func(e fsmEvent) {
			switch e.kind {
			case 1:
				rec.add([]uint64{8, e.index, e.term, e.ty, e.id}, false)
			case 2:
				rec.add(append([]uint64{10, uint64(len(e.state))}, e.state...), false)
			case 3:
				rec.add([]uint64{9, e.index}, false)
			}
		}
	}
	o := nodeOpts{id: c.self, trailing: c.trailing, maxAppend: int(c.maxapp), monotonic: c.mono != 0,
		restoreCommit: c.rc != 0, track: c.track != 0, batching: batching}
	n, err := newNode(o, img.logs, img.stable, img.snaps)
	nsFsmHook = nil
	if err != nil {
		return []uint64{1, 0}, info
	}
	nn.node = n
	nn.up = true
	defer nn.kill()
	n.r.VerifStartFSM()
	nn.waitFSM(0, true)
	// become leader
	n.r.VerifSetState(raft.Leader)
	n.r.VerifSetLeader(addrStr(c.self), idStr(c.self))
	n.r.VerifSetupLeaderState()
	for _, s := range n.r.VerifNodeState().Latest.Servers {
		if s.ID != idStr(c.self) {
			n.r.VerifAddReplState(s, time.Now())
		}
	}
	encL := func() []uint64 {
		out := nn.encState()
		st := n.r.VerifNodeState()
		out = append(out, st.LeaderCommit, st.StartIndex)
		ids := make([]uint64, 0, len(st.Match))
		for id := range st.Match {
			ids = append(ids, idNum(id))
		}
		sort.Slice(ids, func(i, j int) bool { return ids[i] < ids[j] })
		out = append(out, uint64(len(ids)))
		for _, id := range ids {
			out = append(out, id, st.Match[idStr(id)])
		}
		out = append(out, uint64(len(st.Inflight)))
		out = append(out, st.Inflight...)
		return out
	}
	emit := func(o []uint64) {
		obs = append(obs, uint64(len(o)))
		obs = append(obs, o...)
	}
	emit(append([]uint64{1}, encL()...))
	var futs []*lsFuture
	var lastVerify *raft.VerifVerify
	// collect futures resolved by now (FSM answers arrive asynchronously: wait a little for those expected)
	// collect futures resolved by now; `expect` = how many resolutions this step must produce
	// (the FSM goroutine answers asynchronously): poll until they are there (bounded)
	collectN := func(expect int) []uint64 {
		type r struct{ fid, idx, code, resp uint64 }
		var rs []r
		deadline := time.Now().Add(200 * time.Millisecond)
		for {
			for _, f := range futs {
				if f.reported {
					continue
				}
				select {
				case <-f.resolved:
					f.reported = true
					x := r{fid: f.fid, code: futCode(f.err)}
					if ix, ok := f.f.(raft.IndexFuture); ok {
						x.idx = ix.Index()
					}
					if x.code == 8 {
						x.idx = 0
					}
					if af, ok := f.f.(raft.ApplyFuture); ok && f.err == nil {
						if v, ok := af.Response().(uint64); ok {
							x.resp = v
						}
					}
					rs = append(rs, x)
				default:
				}
			}
			if len(rs) >= expect || time.Now().After(deadline) {
				break
			}
			time.Sleep(50 * time.Microsecond)
		}
		sort.Slice(rs, func(i, j int) bool { return rs[i].fid < rs[j].fid })
		out := []uint64{uint64(len(rs))}
		for _, x := range rs {
			out = append(out, x.fid, x.idx, x.code, x.resp)
		}
		return out
	}
	ev := c.events
	p := 0
	readFails := func() []bool {
		nf := int(ev[p])
		p++
		var fs []bool
		for i := 0; i < nf; i++ {
			fs = append(fs, ev[p] != 0)
			p++
		}
		return fs
	}
	dead := false
	for p < len(ev) && !dead {
		kind := ev[p]
		info["lop_"+itoa(int(kind))]++
		switch kind {
		case 1:
			nreq := int(ev[p+1])
			p += 2
			var tys []raft.LogType
			var datas [][]byte
			var fids []uint64
			for i := 0; i < nreq; i++ {
				tys = append(tys, raft.LogType(ev[p]))
				datas = append(datas, c.payload(ev[p], ev[p+1]))
				fids = append(fids, ev[p+2])
				p += 3
			}
			nn.orc.bits = readFails()
			rec.reset(0)
			fs := n.r.VerifDispatch(tys, datas)
			for i, f := range fs {
				futs = append(futs, newLsFuture(fids[i], f))
			}
			exp := 0
			if n.r.State() != raft.Leader { // the store failed: every future of the batch was answered
				exp = len(fs)
			}
			o := append([]uint64{1}, collectN(exp)...)
			o = append(o, rec.encode()...)
			emit(append(o, encL()...))
		case 2:
			n.r.VerifMatch(idStr(ev[p+1]), ev[p+2])
			p += 3
			emit(append([]uint64{2}, encL()...))
		case 3:
			p++
			rec.reset(0)
			st0 := n.r.VerifNodeState()
			old := st0.LastApplied
			pan := false
			func() {
				defer func() {
					if x := recover(); x != nil {
						pan = true
					}
				}()
				n.r.VerifLeaderCommit()
			}()
			if pan {
				info["panics"]++
				emit([]uint64{39})
				dead = true
				break
			}
			nn.waitFSM(old, false)
			st := n.r.VerifNodeState()
			popped := len(st0.Inflight) - len(st.Inflight)
			if st.LastApplied == old {
				popped = 0 // "skipping application of old log": nothing is answered
			}
			o := append([]uint64{3}, collectN(popped)...)
			o = append(o, rec.encode()...)
			emit(append(o, encL()...))
		case 4:
			cmd, id, ad, prev, fid := ev[p+1], ev[p+2], ev[p+3], ev[p+4], ev[p+5]
			p += 6
			nn.orc.bits = readFails()
			rec.reset(0)
			f := n.r.VerifAppendConfigurationEntry(raft.ConfigurationChangeCommand(cmd), idStr(id), addrStr(ad), prev)
			futs = append(futs, newLsFuture(fid, f))
			o := append([]uint64{4}, collectN(0)...)
			o = append(o, rec.encode()...)
			emit(append(o, encL()...))
		case 5:
			mi := ev[p+1]
			nd := int(ev[p+2])
			p += 3
			data := append([]uint64(nil), ev[p:p+nd]...)
			p += nd
			sizeOk := ev[p] != 0
			p++
			nn.orc.bits = readFails()
			rec.reset(0)
			body := encState(data)
			size := int64(len(body))
			if !sizeOk {
				size++
			}
			meta := &raft.SnapshotMeta{Version: 1, ID: "user", Index: mi, Term: 1, Size: size}
			inflBefore := len(n.r.VerifNodeState().Inflight)
			err := n.r.VerifRestoreUserSnapshot(meta, bytes.NewReader(body))
			code := uint64(0)
			if err != nil {
				if bytes.Contains([]byte(err.Error()), []byte("cannot restore snapshot now")) {
					code = 1
				} else {
					code = 2
				}
			}
			exp5 := inflBefore // every in-flight future is answered ErrAbortedByRestore
			if code == 1 {
				exp5 = 0
			}
			o := append([]uint64{5, code}, collectN(exp5)...)
			o = append(o, rec.encode()...)
			emit(append(o, encL()...))
		case 6:
			p++
			v := n.r.VerifVerifyLeader()
			lastVerify = v
			votes, q := v.Counters()
			reg := n.r.VerifVerifyRegistered(v)
			ids := make([]uint64, 0, len(reg))
			for _, id := range reg {
				ids = append(ids, idNum(id))
			}
			// the model lists the peers in configuration order
			order := map[uint64]int{}
			for i, s := range n.r.VerifNodeState().Latest.Servers {
				order[idNum(s.ID)] = i
			}
			sort.Slice(ids, func(i, j int) bool { return order[ids[i]] < order[ids[j]] })
			now := uint64(0)
			if q == 1 {
				now = 1
			}
			if vr, ok := interface{}(v).(verifResolved); ok {
				now = b2u(vr.Resolved()) // read from the future itself when /repo's hooks offer it
			}
			o := []uint64{6, uint64(votes), uint64(q), now, uint64(len(ids))}
			emit(append(o, ids...))
		case 8:
			// a replication goroutine's verdict on the last verify future: (*verifyFuture).vote
			leader, withRes := ev[p+1] != 0, ev[p+2] != 0
			p += 3
			if lastVerify == nil {
				emit([]uint64{8})
				break
			}
			lastVerify.Vote(leader)
			votes, q := lastVerify.Counters()
			o := []uint64{8, uint64(votes), uint64(q)}
			if withRes {
				// 0 still collecting, 1 handed to the leader loop with a quorum (or answered at once), 2 handed over on a denial:
				// what the leader loop reads off the future it receives (votes < quorumSize => ErrNotLeader)
				res := uint64(9)
				if vr, ok := interface{}(lastVerify).(verifResolved); ok {
					switch {
					case !vr.Resolved():
						res = 0
					case votes >= q:
						res = 1
					default:
						res = 2
					}
				}
				o = append(o, res)
			}
			info["verify_votes"]++
			emit(o)
		case 7:
			p++
			emit([]uint64{7, b2u(n.r.VerifConfigGateOpen())})
		default:
			p = len(ev)
		}
	}
	return obs, info
}
