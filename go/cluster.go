package main

import (
	"bytes"
	"errors"
	"fmt"
	"io"
	"sort"
	"sync"
	"sync/atomic"
	"time"

	"github.com/hashicorp/raft"
)

// Mode B: real servers with their real goroutines (main, fsm, snapshots, replication), all timers
// one hour unless a scenario asks otherwise, on a transport that routes every RPC through a
// scriptable network (deliver / drop / hold / duplicate / lose the response).  Everything that
// crosses a boundary is logged under one mutex with a global sequence number.

// ---------------------------------------------------------------- history
type hev struct {
	seq           uint64
	kind          string // state leaderobs send resp store del setterm voteterm votecand snap stage apply conf restore call ret note
	node          uint64
	inst          int
	a, b, c, d, e uint64
	ents          [][4]uint64
	s             string
}

type history struct {
	mu  sync.Mutex
	seq uint64
	evs []hev
}

func (h *history) add(e hev) uint64 {
	h.mu.Lock()
	defer h.mu.Unlock()
	h.seq++
	e.seq = h.seq
	h.evs = append(h.evs, e)
	return e.seq
}

func (h *history) snapshot() []hev {
	h.mu.Lock()
	defer h.mu.Unlock()
	return append([]hev(nil), h.evs...)
}

// ---------------------------------------------------------------- network
const (
	linkUp = iota
	linkDown
	linkHold     // block the caller until released
	linkDup      // deliver the request twice, return the first response
	linkLoseResp // deliver the request, let the handler run, fail the caller
	linkHoldResp // deliver the request, let the handler run, hold the response until released
)

type cnet struct {
	mu      sync.Mutex
	c       *cluster
	links   map[[2]uint64]int
	gates   map[[2]uint64]chan bool                  // hold gates: true = deliver, false = fail
	filters map[[2]uint64]func(cmd interface{}) bool // per-link content filter: false = the call fails like a down link
	rpcTO   time.Duration
	holdTO  time.Duration
}

func (n *cnet) mode(from, to uint64) int {
	n.mu.Lock()
	defer n.mu.Unlock()
	return n.links[[2]uint64{from, to}]
}

func (n *cnet) set(from, to uint64, mode int) {
	n.mu.Lock()
	defer n.mu.Unlock()
	n.links[[2]uint64{from, to}] = mode
	if mode == linkHold || mode == linkHoldResp {
		if _, ok := n.gates[[2]uint64{from, to}]; !ok {
			n.gates[[2]uint64{from, to}] = make(chan bool, 1024)
		}
	}
}

func (n *cnet) setBoth(a, b uint64, mode int) {
	n.set(a, b, mode)
	n.set(b, a, mode)
}

// release one held call on a link
func (n *cnet) release(from, to uint64, deliver bool) {
	n.mu.Lock()
	g := n.gates[[2]uint64{from, to}]
	n.mu.Unlock()
	if g != nil {
		g <- deliver
	}
}

func (n *cnet) setFilter(from, to uint64, f func(cmd interface{}) bool) {
	n.mu.Lock()
	defer n.mu.Unlock()
	if n.filters == nil {
		n.filters = map[[2]uint64]func(cmd interface{}) bool{}
	}
	if f == nil {
		delete(n.filters, [2]uint64{from, to})
	} else {
		n.filters[[2]uint64{from, to}] = f
	}
}

func (n *cnet) filterOf(from, to uint64) func(cmd interface{}) bool {
	n.mu.Lock()
	defer n.mu.Unlock()
	return n.filters[[2]uint64{from, to}]
}

// tokens released on a link that no held call has consumed yet
func (n *cnet) pendingTokens(from, to uint64) int {
	n.mu.Lock()
	defer n.mu.Unlock()
	if g := n.gates[[2]uint64{from, to}]; g != nil {
		return len(g)
	}
	return 0
}

var errLink = errors.New("link down")

// ---------------------------------------------------------------- transport
type ctrans struct {
	c        *cluster
	id       uint64
	inst     int
	consumer chan raft.RPC
	dead     int32
}

func (t *ctrans) Consumer() <-chan raft.RPC                                { return t.consumer }
func (t *ctrans) LocalAddr() raft.ServerAddress                            { return addrStr(t.id) }
func (t *ctrans) EncodePeer(id raft.ServerID, a raft.ServerAddress) []byte { return []byte(a) }
func (t *ctrans) DecodePeer(b []byte) raft.ServerAddress                   { return raft.ServerAddress(b) }
func (t *ctrans) SetHeartbeatHandler(cb func(rpc raft.RPC))                {}
func (t *ctrans) AppendEntriesPipeline(id raft.ServerID, target raft.ServerAddress) (raft.AppendPipeline, error) {
	if !t.c.o.pipeline {
		return nil, raft.ErrPipelineReplicationNotSupported
	}
	p := &cpipe{t: t, target: target, in: make(chan *cfut, 128), done: make(chan raft.AppendFuture, 128), shut: make(chan struct{})}
	go p.run()
	atomic.AddInt64(&t.c.pipesOpened, 1)
	return p, nil
}

// cpipe: an AppendPipeline over the cluster network (same links, gates, filters and history as the
// plain calls): requests are executed one after the other, answers are handed to the consumer in send order
type cpipe struct {
	t      *ctrans
	target raft.ServerAddress
	in     chan *cfut
	done   chan raft.AppendFuture
	shut   chan struct{}
	once   sync.Once
}

type cfut struct {
	start time.Time
	args  *raft.AppendEntriesRequest
	resp  *raft.AppendEntriesResponse
	err   error
	ready chan struct{}
}

func (f *cfut) Error() error                          { <-f.ready; return f.err }
func (f *cfut) Start() time.Time                      { return f.start }
func (f *cfut) Request() *raft.AppendEntriesRequest   { return f.args }
func (f *cfut) Response() *raft.AppendEntriesResponse { return f.resp }

func (p *cpipe) run() {
	for {
		select {
		case f := <-p.in:
			r, err := p.t.call(p.target, f.args, nil)
			if err != nil {
				f.err = err
			} else {
				*f.resp = *(r.(*raft.AppendEntriesResponse))
			}
			close(f.ready)
			atomic.AddInt64(&p.t.c.pipeCalls, 1)
			select {
			case p.done <- f:
			case <-p.shut:
				return
			}
		case <-p.shut:
			return
		}
	}
}

func (p *cpipe) AppendEntries(args *raft.AppendEntriesRequest, resp *raft.AppendEntriesResponse) (raft.AppendFuture, error) {
	f := &cfut{start: time.Now(), args: args, resp: resp, ready: make(chan struct{})}
	select {
	case p.in <- f:
		return f, nil
	case <-p.shut:
		return nil, raft.ErrPipelineShutdown
	}
}
func (p *cpipe) Consumer() <-chan raft.AppendFuture { return p.done }
func (p *cpipe) Close() error {
	p.once.Do(func() { close(p.shut) })
	return nil
}

func rpcKindOf(cmd interface{}) (kind uint64, term uint64) {
	switch c := cmd.(type) {
	case *raft.RequestVoteRequest:
		return 1, c.Term
	case *raft.RequestPreVoteRequest:
		return 2, c.Term
	case *raft.AppendEntriesRequest:
		return 3, c.Term
	case *raft.InstallSnapshotRequest:
		return 4, c.Term
	case *raft.TimeoutNowRequest:
		return 5, 0
	}
	return 0, 0
}

func (t *ctrans) call(target raft.ServerAddress, cmd interface{}, body io.Reader) (interface{}, error) {
	if atomic.LoadInt32(&t.dead) != 0 {
		return nil, errLink
	}
	c := t.c
	to := addrNum(target)
	kind, term := rpcKindOf(cmd)
	ev := hev{kind: "send", node: t.id, inst: t.inst, a: to, b: kind, c: term}
	if ae, ok := cmd.(*raft.AppendEntriesRequest); ok {
		ev.d = ae.PrevLogEntry
		ev.e = ae.LeaderCommitIndex
		for _, l := range ae.Entries {
			ev.ents = append(ev.ents, [4]uint64{l.Index, l.Term, uint64(l.Type), c.idOfLog(l)})
		}
	}
	if is, ok := cmd.(*raft.InstallSnapshotRequest); ok {
		ev.d = is.LastLogIndex
		ev.e = is.LastLogTerm
	}
	sendSeq := c.h.add(ev)
	mode := c.net.mode(t.id, to)
	if f := c.net.filterOf(t.id, to); f != nil && !f(cmd) {
		return nil, errLink
	}
	switch mode {
	case linkDown:
		return nil, errLink
	case linkHold:
		c.net.mu.Lock()
		g := c.net.gates[[2]uint64{t.id, to}]
		c.net.mu.Unlock()
		select {
		case ok := <-g:
			if !ok {
				return nil, errLink
			}
		case <-time.After(c.net.holdTO):
			return nil, errLink
		}
	}
	var data []byte
	if body != nil {
		data, _ = io.ReadAll(body)
	}
	deliver := func() (interface{}, error) {
		tn := c.node(to)
		if tn == nil {
			return nil, errLink
		}
		tt := tn.curTrans()
		if tt == nil || atomic.LoadInt32(&tt.dead) != 0 {
			return nil, errLink
		}
		ch := make(chan raft.RPCResponse, 1)
		rpc := raft.RPC{Command: cmd, RespChan: ch}
		if body != nil {
			rpc.Reader = bytes.NewReader(data)
		}
		select {
		case tt.consumer <- rpc:
		case <-time.After(c.net.rpcTO):
			return nil, errors.New("rpc enqueue timeout")
		}
		select {
		case r := <-ch:
			rk := hev{kind: "resp", node: to, inst: tt.inst, a: t.id, b: kind, c: term, s: fmt.Sprint(sendSeq)}
			switch rr := r.Response.(type) {
			case *raft.RequestVoteResponse:
				rk.d, rk.e = rr.Term, b2u(rr.Granted)
			case *raft.RequestPreVoteResponse:
				rk.d, rk.e = rr.Term, b2u(rr.Granted)
			case *raft.AppendEntriesResponse:
				rk.d, rk.e = rr.Term, b2u(rr.Success)
			case *raft.InstallSnapshotResponse:
				rk.d, rk.e = rr.Term, b2u(rr.Success)
			}
			c.h.add(rk)
			return r.Response, r.Error
		case <-time.After(c.net.rpcTO):
			return nil, errors.New("rpc timeout")
		}
	}
	resp, err := deliver()
	if mode == linkDup && err == nil {
		deliver()
	}
	if mode == linkLoseResp {
		return nil, errLink
	}
	if mode == linkHoldResp {
		c.net.mu.Lock()
		g := c.net.gates[[2]uint64{t.id, to}]
		c.net.mu.Unlock()
		select {
		case ok := <-g:
			if !ok {
				return nil, errLink
			}
			if err == nil {
				c.h.add(hev{kind: "dlv", node: t.id, inst: t.inst, a: to, b: kind, s: fmt.Sprint(sendSeq)})
			}
			return resp, err
		case <-time.After(c.net.holdTO):
			return nil, errLink
		}
	}
	if atomic.LoadInt32(&t.dead) != 0 {
		return nil, errLink
	}
	// a response that arrives after the link went down is lost
	if c.net.mode(t.id, to) == linkDown || c.net.mode(to, t.id) == linkDown {
		return nil, errLink
	}
	if err == nil {
		// the caller is handed the answer now
		c.h.add(hev{kind: "dlv", node: t.id, inst: t.inst, a: to, b: kind, s: fmt.Sprint(sendSeq)})
	}
	return resp, err
}

func (t *ctrans) AppendEntries(id raft.ServerID, target raft.ServerAddress, args *raft.AppendEntriesRequest, resp *raft.AppendEntriesResponse) error {
	r, err := t.call(target, args, nil)
	if err != nil {
		return err
	}
	*resp = *(r.(*raft.AppendEntriesResponse))
	return nil
}
func (t *ctrans) RequestVote(id raft.ServerID, target raft.ServerAddress, args *raft.RequestVoteRequest, resp *raft.RequestVoteResponse) error {
	r, err := t.call(target, args, nil)
	if err != nil {
		return err
	}
	*resp = *(r.(*raft.RequestVoteResponse))
	return nil
}
func (t *ctrans) RequestPreVote(id raft.ServerID, target raft.ServerAddress, args *raft.RequestPreVoteRequest, resp *raft.RequestPreVoteResponse) error {
	r, err := t.call(target, args, nil)
	if err != nil {
		return err
	}
	*resp = *(r.(*raft.RequestPreVoteResponse))
	return nil
}
func (t *ctrans) InstallSnapshot(id raft.ServerID, target raft.ServerAddress, args *raft.InstallSnapshotRequest, resp *raft.InstallSnapshotResponse, data io.Reader) error {
	r, err := t.call(target, args, data)
	if err != nil {
		return err
	}
	*resp = *(r.(*raft.InstallSnapshotResponse))
	return nil
}
func (t *ctrans) TimeoutNow(id raft.ServerID, target raft.ServerAddress, args *raft.TimeoutNowRequest, resp *raft.TimeoutNowResponse) error {
	_, err := t.call(target, args, nil)
	return err
}

// ---------------------------------------------------------------- nodes
type cnode struct {
	c          *cluster
	id         uint64
	mu         sync.Mutex
	inst       int
	r          *raft.Raft
	trans      *ctrans
	logs       *MapLogStore
	stable     *MapStable
	snaps      *SnapStore
	fsm        *RecFSM
	alive      bool
	ops        int64 // durable ops of the current instance
	freeze     int64 // freeze the instance at this durable op (0 = never)
	frozen     chan struct{}
	frozenImg  *image
	notifyCh   chan bool
	notifySeen []bool
	obs        *raft.Observer
}

func (n *cnode) curTrans() *ctrans {
	n.mu.Lock()
	defer n.mu.Unlock()
	if !n.alive {
		return nil
	}
	return n.trans
}

type clusterOpts struct {
	voters, nonvoters int
	trailing          uint64
	maxAppend         int
	monotonic         bool
	track             bool // commit tracking + RestoreCommittedLogs
	batchApply        bool
	timeouts          time.Duration // 0 = 1h
	lease             time.Duration // 0 = same as timeouts
	prevoteOff        bool
	notify            bool
	snapThreshold     uint64
	commitTimeout     time.Duration
	fsmDelay          time.Duration
	spares            int  // extra servers with empty stores, not part of the initial configuration
	pipeline          bool // the transport offers AppendEntriesPipeline (replication switches to pipeline mode after the first success)
}

type cluster struct {
	pipesOpened, pipeCalls int64
	o                      clusterOpts
	h                      *history
	net                    *cnet
	nodes                  map[uint64]*cnode
	ids                    []uint64
	cfg                    raft.Configuration
	cfgBytes               map[string]uint64
	cfgMu                  sync.Mutex
	nextCfgID              uint64
	calls                  uint64
	spareIDs               []uint64
}

func (c *cluster) node(id uint64) *cnode { return c.nodes[id] }

// payload id of a log entry; configuration entries get ids 9000.. by content
func (c *cluster) idOfLog(l *raft.Log) uint64 {
	if l.Type == raft.LogConfiguration {
		c.cfgMu.Lock()
		defer c.cfgMu.Unlock()
		if id, ok := c.cfgBytes[string(l.Data)]; ok {
			return id
		}
		c.nextCfgID++
		c.cfgBytes[string(l.Data)] = c.nextCfgID
		return c.nextCfgID
	}
	return idOf(l.Data)
}

func newCluster(o clusterOpts) *cluster {
	c := &cluster{o: o, h: &history{}, nodes: map[uint64]*cnode{}, cfgBytes: map[string]uint64{}, nextCfgID: 9000}
	c.net = &cnet{c: c, links: map[[2]uint64]int{}, gates: map[[2]uint64]chan bool{}, rpcTO: 120 * time.Millisecond, holdTO: 3 * time.Second}
	for i := 1; i <= o.voters+o.nonvoters; i++ {
		id := uint64(i)
		c.ids = append(c.ids, id)
		suff := raft.Voter
		if i > o.voters {
			suff = raft.Nonvoter
		}
		c.cfg.Servers = append(c.cfg.Servers, raft.Server{Suffrage: suff, ID: idStr(id), Address: addrStr(id)})
	}
	for i := 1; i <= o.spares; i++ {
		c.spareIDs = append(c.spareIDs, uint64(o.voters+o.nonvoters+i))
	}
	for _, id := range append(append([]uint64(nil), c.ids...), c.spareIDs...) {
		n := &cnode{c: c, id: id, logs: NewMapLogStore(nil), stable: NewMapStable(), snaps: NewSnapStore()}
		c.nodes[id] = n
	}
	return c
}

func (c *cluster) config(id uint64) *raft.Config {
	o := c.o
	cf := baseConfig(nodeOpts{id: id, trailing: o.trailing, maxAppend: o.maxAppend, prevoteOff: o.prevoteOff,
		restoreCommit: o.track, timeouts: o.timeouts})
	if o.lease != 0 {
		cf.LeaderLeaseTimeout = o.lease
	}
	cf.BatchApplyCh = o.batchApply
	// idle replication rounds carry the leader's commit index to the followers
	cf.CommitTimeout = 3 * time.Millisecond
	if o.commitTimeout != 0 {
		cf.CommitTimeout = o.commitTimeout
	}
	if o.snapThreshold != 0 {
		cf.SnapshotThreshold = o.snapThreshold
	}
	return cf
}

// bootstrap every node's stores with the initial configuration (entry 1, term 1)
func (c *cluster) bootstrap() {
	for _, id := range c.ids {
		n := c.nodes[id]
		_, tr := raft.NewInmemTransport(addrStr(id))
		if err := raft.BootstrapCluster(c.config(id), n.logs, n.stable, n.snaps, tr, c.cfg); err != nil {
			panic(err)
		}
		tr.Close()
		var l raft.Log
		n.logs.GetLog(1, &l)
		c.h.add(hev{kind: "store", node: id, b: 1, ents: [][4]uint64{{1, 1, uint64(l.Type), c.idOfLog(&l)}}})
	}
}

// start (or restart) a node from its stores
func (n *cnode) start() error {
	c := n.c
	n.mu.Lock()
	n.inst++
	inst := n.inst
	n.ops = 0
	n.freeze = 0
	n.frozen = make(chan struct{})
	n.frozenImg = nil
	n.logs.monotonic = c.o.monotonic
	n.logs.orc, n.stable.orc, n.snaps.orc = &oracle{}, &oracle{}, &oracle{}
	n.trans = &ctrans{c: c, id: n.id, inst: inst, consumer: make(chan raft.RPC, 64)}
	fsm := &RecFSM{idOfLog: c.idOfLog, delay: c.o.fsmDelay}
	n.fsm = fsm
	n.mu.Unlock()
	durable := func() {
		k := atomic.AddInt64(&n.ops, 1)
		if f := atomic.LoadInt64(&n.freeze); f != 0 && k == f {
			// crash point: capture the durable image and stop this instance for good
			n.frozenImg = &image{logs: n.logs.Clone(), stable: n.stable.Clone(), snaps: n.snaps.Clone()}
			atomic.StoreInt32(&n.trans.dead, 1)
			close(n.frozen)
			select {} // the main goroutine of this instance never continues
		}
	}
	n.stable.onOp = func(op stableOp) {
		k := map[string]string{"CurrentTerm": "setterm", "LastVoteTerm": "voteterm", "LastVoteCand": "votecand"}[op.key]
		v := op.u64
		if op.key == "LastVoteCand" {
			v = addrNum(raft.ServerAddress(op.val))
		}
		c.h.add(hev{kind: k, node: n.id, inst: inst, a: v, b: b2u(!op.failed)})
		durable()
	}
	n.logs.onOp = func(op storeOp) {
		if op.kind == "store" {
			e := hev{kind: "store", node: n.id, inst: inst, b: b2u(!op.failed)}
			for _, l := range op.logs {
				e.ents = append(e.ents, [4]uint64{l.Index, l.Term, uint64(l.Type), c.idOfLog(l)})
			}
			// decision-time values of the membership gate (main goroutine, inside StoreLogs)
			if n.r != nil {
				g := n.r.VerifGateSnapshot()
				e.c, e.d, e.e = g.CommitIndex, g.CommittedIndex, g.StartIndex
				e.a = g.LatestIndex
				if g.IsLeader {
					e.s = "leader"
				}
			}
			c.h.add(e)
		} else {
			c.h.add(hev{kind: "del", node: n.id, inst: inst, a: op.lo, b: op.hi, c: b2u(!op.failed)})
		}
		durable()
	}
	n.logs.onStage = func(v uint64) { c.h.add(hev{kind: "stage", node: n.id, inst: inst, a: v}) }
	n.snaps.onOp = func(idx, term uint64, ok bool) {
		c.h.add(hev{kind: "snap", node: n.id, inst: inst, a: idx, b: term, c: b2u(ok)})
		durable()
	}
	fsm.onEvent = func(e fsmEvent) {
		switch e.kind {
		case 1:
			c.h.add(hev{kind: "apply", node: n.id, inst: inst, a: e.index, b: e.term, c: e.ty, d: e.id})
		case 2:
			c.h.add(hev{kind: "restore", node: n.id, inst: inst, ents: nil, s: fmt.Sprint(e.state)})
		case 3:
			c.h.add(hev{kind: "conf", node: n.id, inst: inst, a: e.index})
		}
	}
	cf := c.config(n.id)
	if c.o.notify {
		n.notifyCh = make(chan bool, 1024)
		cf.NotifyCh = n.notifyCh
	}
	var ls raft.LogStore = n.logs
	if c.o.track {
		ls = TrackLogStore{n.logs}
	}
	type res struct {
		r   *raft.Raft
		err error
		pan interface{}
	}
	ch := make(chan res, 1)
	go func() {
		defer func() {
			if p := recover(); p != nil {
				ch <- res{pan: p}
			}
		}()
		r, err := raft.NewRaft(cf, fsm, ls, n.stable, n.snaps, n.trans)
		ch <- res{r: r, err: err}
	}()
	var rr res
	select {
	case rr = <-ch:
	case <-time.After(newRaftWatchdog(inst)):
		c.h.add(hev{kind: "note", node: n.id, inst: inst, s: "newraft-blocks"})
		return errors.New("NewRaft blocks")
	}
	if rr.pan != nil {
		c.h.add(hev{kind: "note", node: n.id, inst: inst, s: "newraft-panics"})
		return fmt.Errorf("NewRaft panics: %v", rr.pan)
	}
	if rr.err != nil {
		c.h.add(hev{kind: "note", node: n.id, inst: inst, s: "newraft-error"})
		return rr.err
	}
	n.mu.Lock()
	n.r = rr.r
	n.alive = true
	n.mu.Unlock()
	// observer: the filter runs synchronously on the observing goroutine (decision-time values)
	n.obs = raft.NewObserver(nil, false, func(o *raft.Observation) bool {
		switch d := o.Data.(type) {
		case raft.RaftState:
			c.h.add(hev{kind: "state", node: n.id, inst: inst, a: uint64(d), b: o.Raft.CurrentTerm()})
		case raft.LeaderObservation:
			c.h.add(hev{kind: "leaderobs", node: n.id, inst: inst, a: idNum(d.LeaderID), b: o.Raft.CurrentTerm()})
		}
		return false
	})
	rr.r.RegisterObserver(n.obs)
	c.h.add(hev{kind: "note", node: n.id, inst: inst, s: "started", a: rr.r.CurrentTerm(), b: rr.r.LastIndex(), c: rr.r.AppliedIndex()})
	return nil
}

// stop a node: Shutdown, keep its stores (a clean stop is a crash after the last durable op)
func (n *cnode) stop() {
	n.mu.Lock()
	r, t := n.r, n.trans
	was := n.alive
	n.alive = false
	n.mu.Unlock()
	if !was {
		return
	}
	atomic.StoreInt32(&t.dead, 1)
	n.c.h.add(hev{kind: "note", node: n.id, inst: n.inst, s: "stopped"})
	done := make(chan struct{})
	go func() { r.Shutdown().Error(); close(done) }()
	select {
	case <-done:
	case <-time.After(400 * time.Millisecond):
	}
	// the stores must not be touched by the dead instance any more: work on clones
	n.logs, n.stable, n.snaps = n.logs.Clone(), n.stable.Clone(), n.snaps.Clone()
}

// arm a crash at the k-th durable operation from now
func (n *cnode) crashAtOp(k int64) { atomic.StoreInt64(&n.freeze, atomic.LoadInt64(&n.ops)+k) }

// wait for the armed crash; then the node is dead and its stores are the captured image
func (n *cnode) awaitCrash(d time.Duration) bool {
	select {
	case <-n.frozen:
	case <-time.After(d):
		atomic.StoreInt64(&n.freeze, 0)
		return false
	}
	n.mu.Lock()
	n.alive = false
	img := n.frozenImg
	r := n.r
	n.mu.Unlock()
	n.c.h.add(hev{kind: "note", node: n.id, inst: n.inst, s: "crashed"})
	// the frozen main goroutine never returns: close the shutdown channel so helpers stop
	go func() { r.Shutdown() }()
	n.logs, n.stable, n.snaps = img.logs, img.stable, img.snaps
	return true
}

// how long NewRaft may take before it counts as blocked: the first boot works on a bootstrap image of
// one entry and cannot block by construction - a long wait there only absorbs a starved machine
func newRaftWatchdog(inst int) time.Duration {
	if inst <= 1 {
		return 60 * time.Second
	}
	return 5 * time.Second
}

// ---------------------------------------------------------------- cluster helpers
func (c *cluster) startAll() {
	for _, id := range c.ids {
		if err := c.nodes[id].start(); err != nil {
			panic(err)
		}
	}
	// spares join the id list once started (monitors and partitions see them)
	for _, id := range c.spareIDs {
		if err := c.nodes[id].start(); err != nil {
			panic(err)
		}
	}
	c.ids = append(c.ids, c.spareIDs...)
}

func (c *cluster) shutdown() {
	for _, id := range c.ids {
		c.nodes[id].stop()
	}
}

func waitFor(d time.Duration, f func() bool) bool {
	deadline := time.Now().Add(d)
	for {
		if f() {
			return true
		}
		if time.Now().After(deadline) {
			return false
		}
		time.Sleep(100 * time.Microsecond)
	}
}

func (c *cluster) leader() *cnode {
	var best *cnode
	for _, id := range c.ids {
		n := c.nodes[id]
		if n.alive && n.r.State() == raft.Leader {
			if best == nil || n.r.CurrentTerm() > best.r.CurrentTerm() {
				best = n
			}
		}
	}
	return best
}

// make node id start an election now (the real heartbeat-timeout path) and wait for the outcome
func (c *cluster) elect(id uint64, d time.Duration) bool {
	n := c.nodes[id]
	if !n.alive {
		return false
	}
	n.r.VerifFireHeartbeatTimeout()
	return waitFor(d, func() bool { return n.r.State() == raft.Leader })
}

// force a candidate's election timer to fire: shorten ElectionTimeout until its term moved
func (c *cluster) kickCandidate(id uint64) {
	n := c.nodes[id]
	if !n.alive {
		return
	}
	t0 := n.r.CurrentTerm()
	n.r.VerifSetElectionTimeout(time.Millisecond)
	waitFor(30*time.Millisecond, func() bool { return n.r.CurrentTerm() > t0 || n.r.State() != raft.Candidate })
	to := c.o.timeouts
	if to == 0 {
		to = time.Hour
	}
	n.r.VerifSetElectionTimeout(to)
}

func (c *cluster) partition(groups ...[]uint64) {
	g := map[uint64]int{}
	for i, gr := range groups {
		for _, id := range gr {
			g[id] = i + 1
		}
	}
	for _, a := range c.ids {
		for _, b := range c.ids {
			if a == b {
				continue
			}
			if g[a] != 0 && g[a] == g[b] {
				c.net.set(a, b, linkUp)
			} else {
				c.net.set(a, b, linkDown)
			}
		}
	}
}

func (c *cluster) heal() {
	for _, a := range c.ids {
		for _, b := range c.ids {
			if a != b {
				c.net.set(a, b, linkUp)
			}
		}
	}
}

// ---------------------------------------------------------------- client calls
type ccall struct {
	id     uint64
	node   uint64
	kind   string
	pay    uint64
	start  uint64
	done   chan struct{}
	err    error
	index  uint64
	resp   uint64
	endSeq uint64
}

func errCode(err error) uint64 {
	switch {
	case err == nil:
		return 0
	case errors.Is(err, raft.ErrNotLeader):
		return 1
	case errors.Is(err, raft.ErrLeadershipLost):
		return 2
	case errors.Is(err, raft.ErrRaftShutdown):
		return 3
	case errors.Is(err, raft.ErrEnqueueTimeout):
		return 4
	case errors.Is(err, raft.ErrLeadershipTransferInProgress):
		return 5
	case errors.Is(err, raft.ErrAbortedByRestore):
		return 6
	}
	return 9
}

// issue an API call asynchronously; the result is logged when the future resolves
func (c *cluster) call(id uint64, kind string, pay uint64, arg uint64) *ccall {
	n := c.nodes[id]
	cc := &ccall{id: atomic.AddUint64(&c.calls, 1), node: id, kind: kind, pay: pay, done: make(chan struct{})}
	r := n.r
	cc.start = c.h.add(hev{kind: "call", node: id, inst: n.inst, a: cc.id, d: pay, s: kind})
	go func() {
		defer close(cc.done)
		switch kind {
		case "apply":
			f := r.Apply(dataOf(pay), 50*time.Millisecond)
			cc.err = f.Error()
			if cc.err == nil {
				cc.index = f.Index()
				if v, ok := f.Response().(uint64); ok {
					cc.resp = v
				}
			}
		case "barrier":
			f := r.Barrier(50 * time.Millisecond)
			cc.err = f.Error()
			if ix, ok := f.(raft.IndexFuture); ok && cc.err == nil {
				cc.index = ix.Index()
			}
		case "verify":
			cc.err = r.VerifyLeader().Error()
		case "addvoter":
			f := r.AddVoter(idStr(arg), addrStr(arg), 0, 50*time.Millisecond)
			cc.err = f.Error()
			if cc.err == nil {
				cc.index = f.Index()
			}
		case "addnonvoter":
			f := r.AddNonvoter(idStr(arg), addrStr(arg), 0, 50*time.Millisecond)
			cc.err = f.Error()
			if cc.err == nil {
				cc.index = f.Index()
			}
		case "demote":
			f := r.DemoteVoter(idStr(arg), 0, 50*time.Millisecond)
			cc.err = f.Error()
			if cc.err == nil {
				cc.index = f.Index()
			}
		case "remove":
			f := r.RemoveServer(idStr(arg), 0, 50*time.Millisecond)
			cc.err = f.Error()
			if cc.err == nil {
				cc.index = f.Index()
			}
		case "transfer":
			if arg == 0 {
				cc.err = r.LeadershipTransfer().Error()
			} else {
				cc.err = r.LeadershipTransferToServer(idStr(arg), addrStr(arg)).Error()
			}
		case "snapshot":
			cc.err = r.Snapshot().Error()
		case "restore":
			// arg = index recorded in the user snapshot's metadata; content = two payload ids derived from pay
			body := encState([]uint64{pay, pay + 1})
			meta := &raft.SnapshotMeta{Version: 1, ID: "user", Index: arg, Term: 1, Size: int64(len(body))}
			cc.err = r.Restore(meta, bytes.NewReader(body), 100*time.Millisecond)
		case "getconfig":
			cc.err = r.GetConfiguration().Error()
		}
		cc.endSeq = c.h.add(hev{kind: "ret", node: id, a: cc.id, b: errCode(cc.err), c: cc.index, d: pay, e: cc.resp, s: kind})
	}()
	return cc
}

func (cc *ccall) wait(d time.Duration) bool {
	select {
	case <-cc.done:
		return true
	case <-time.After(d):
		return false
	}
}

// wait until every alive node reachable from the leader has applied the leader's last index
func (c *cluster) settle(d time.Duration) bool {
	return waitFor(d, func() bool {
		l := c.leader()
		if l == nil {
			return false
		}
		li := l.r.LastIndex()
		if l.r.AppliedIndex() < li {
			return false
		}
		for _, id := range c.ids {
			n := c.nodes[id]
			if !n.alive || n == l {
				continue
			}
			if c.net.mode(l.id, id) != linkUp || c.net.mode(id, l.id) != linkUp {
				continue
			}
			inCfg := false
			for _, s := range l.r.GetConfiguration().Configuration().Servers {
				if s.ID == idStr(id) {
					inCfg = true
				}
			}
			if inCfg && n.r.AppliedIndex() < li {
				return false
			}
		}
		return true
	})
}

// durable image summary of a node's log for monitors
func logOf(st *MapLogStore, c *cluster) [][4]uint64 {
	var out [][4]uint64
	for _, l := range st.Entries() {
		out = append(out, [4]uint64{l.Index, l.Term, uint64(l.Type), c.idOfLog(l)})
	}
	return out
}

func sortedIDs(m map[uint64]bool) []uint64 {
	var out []uint64
	for k := range m {
		out = append(out, k)
	}
	sort.Slice(out, func(i, j int) bool { return out[i] < out[j] })
	return out
}
