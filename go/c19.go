package main

import (
	"github.com/hashicorp/raft"
)

// C19: real raft.LogCache over MapLogStore vs bare MapLogStore vs the Coq model.

type c19op struct {
	kind   int // 1 get, 2 store, 3 delete, 4 first, 5 last
	i, hi  uint64
	logs   []*raft.Log
	mutate bool
}

func c19encode(cap int, fails []bool, ops []c19op) []uint64 {
	in := []uint64{uint64(cap), uint64(len(fails))}
	for _, f := range fails {
		if f {
			in = append(in, 1)
		} else {
			in = append(in, 0)
		}
	}
	for _, o := range ops {
		switch o.kind {
		case 1:
			in = append(in, 1, o.i)
		case 2:
			in = append(in, 2, uint64(len(o.logs)))
			for _, l := range o.logs {
				in = append(in, encLog(l)...)
			}
		case 3:
			in = append(in, 3, o.i, o.hi)
		case 4:
			in = append(in, 4)
		case 5:
			in = append(in, 5)
		}
	}
	return in
}

func c19run(st raft.LogStore, ops []c19op) []uint64 {
	var out []uint64
	for _, o := range ops {
		switch o.kind {
		case 1:
			var l raft.Log
			if err := st.GetLog(o.i, &l); err != nil {
				out = append(out, 0)
			} else {
				out = append(out, 2)
				out = append(out, encLog(&l)...)
			}
		case 2:
			// hand the store fresh copies (LogCache keeps the pointers)
			cp := make([]*raft.Log, len(o.logs))
			for i, l := range o.logs {
				c := *l
				cp[i] = &c
			}
			if err := st.StoreLogs(cp); err != nil {
				out = append(out, 0)
			} else {
				out = append(out, 1)
			}
		case 3:
			if err := st.DeleteRange(o.i, o.hi); err != nil {
				out = append(out, 0)
			} else {
				out = append(out, 1)
			}
		case 4:
			v, err := st.FirstIndex()
			if err != nil {
				out = append(out, 0)
			} else {
				out = append(out, 3, v)
			}
		case 5:
			v, err := st.LastIndex()
			if err != nil {
				out = append(out, 0)
			} else {
				out = append(out, 3, v)
			}
		}
	}
	return out
}

func eqU(a, b []uint64) bool {
	if len(a) != len(b) {
		return false
	}
	for i := range a {
		if a[i] != b[i] {
			return false
		}
	}
	return true
}

// decode the flat input back into ops (inverse of c19encode; used by generation and replay)
func c19decode(in []uint64) (cap int, fails []bool, ops []c19op) {
	cap = int(in[0])
	nf := int(in[1])
	p := 2
	for k := 0; k < nf; k++ {
		fails = append(fails, in[p] != 0)
		p++
	}
	for p < len(in) {
		switch in[p] {
		case 1:
			ops = append(ops, c19op{kind: 1, i: in[p+1]})
			p += 2
		case 2:
			n := int(in[p+1])
			p += 2
			var ls []*raft.Log
			for j := 0; j < n; j++ {
				ls = append(ls, mkLog(in[p], in[p+1], in[p+2], in[p+3]))
				p += 4
			}
			ops = append(ops, c19op{kind: 2, logs: ls, mutate: true})
		case 3:
			ops = append(ops, c19op{kind: 3, i: in[p+1], hi: in[p+2], mutate: true})
			p += 3
		case 4:
			ops = append(ops, c19op{kind: 4})
			p++
		case 5:
			ops = append(ops, c19op{kind: 5})
			p++
		default:
			return
		}
	}
	return
}

func c19exec(cw *caseWriter, tag string, in []uint64) {
	cap, fails, ops := c19decode(in)
	c19case(cw, tag, cap, fails, ops)
}

func c19case(cw *caseWriter, tag string, cap int, fails []bool, ops []c19op) {
	in := c19encode(cap, fails, ops)
	back := NewMapLogStore(append([]bool(nil), fails...))
	cache, err := raft.NewLogCache(cap, back)
	if err != nil {
		panic(err)
	}
	obsCache := c19run(cache, ops)
	bare := NewMapLogStore(append([]bool(nil), fails...))
	obsBare := c19run(bare, ops)
	// the property itself, on the implementation
	if !eqU(obsCache, obsBare) {
		cw.monitor("C19", tag+"c", "logcache-differs-from-wrapped-store", "LogCache answered %v, the wrapped store alone answers %v", obsCache, obsBare)
	}
	// statistics: non-trivial = a GetLog follows a store (the ring can answer)
	hit := false
	stored := false
	nontriv := false
	for _, o := range ops {
		if o.kind == 2 {
			stored = true
		}
		if o.kind == 1 && stored {
			hit = true
		}
		if o.kind == 3 && stored {
			nontriv = true
		}
	}
	cw.emit(tag+"c", 19, in, obsCache, hit)
	cw.emit(tag+"b", 1900, in, obsBare, hit)
	if hit {
		cw.stat("c19_get_after_store", 1)
	}
	if hit && nontriv {
		cw.stat("c19_get_store_delete", 1)
	}
	cw.stat("c19_ops", len(ops))
	for _, f := range fails {
		if f {
			cw.stat("c19_cases_with_failure", 1)
			break
		}
	}
}

// alphabet for exhaustive enumeration over indices 1..maxIdx, terms 1..2
func c19alphabet(maxIdx uint64) []c19op {
	var a []c19op
	for i := uint64(1); i <= maxIdx; i++ {
		a = append(a, c19op{kind: 1, i: i})
	}
	for i := uint64(1); i <= maxIdx; i++ {
		for t := uint64(1); t <= 2; t++ {
			a = append(a, c19op{kind: 2, logs: []*raft.Log{mkLog(i, t, 0, 0)}, mutate: true})
		}
	}
	for i := uint64(1); i+1 <= maxIdx; i++ {
		a = append(a, c19op{kind: 2, logs: []*raft.Log{mkLog(i, 2, 0, 0), mkLog(i+1, 2, 0, 0)}, mutate: true})
	}
	for lo := uint64(1); lo <= maxIdx; lo++ {
		for hi := lo; hi <= maxIdx; hi++ {
			a = append(a, c19op{kind: 3, i: lo, hi: hi, mutate: true})
		}
	}
	a = append(a, c19op{kind: 4}, c19op{kind: 5})
	return a
}

// give every stored entry a payload id unique within the case, so a stale entry is visible
func c19stamp(ops []c19op) []c19op {
	out := make([]c19op, len(ops))
	id := uint64(100)
	for k, o := range ops {
		out[k] = o
		if o.kind == 2 {
			ls := make([]*raft.Log, len(o.logs))
			for j, l := range o.logs {
				id++
				ls[j] = mkLog(l.Index, l.Term, uint64(l.Type), id)
			}
			out[k].logs = ls
		}
	}
	return out
}

func c19exhaustive(cw *caseWriter, maxIdx uint64, length int, caps []int, withFail bool) int {
	alpha := c19alphabet(maxIdx)
	n := 0
	idx := make([]int, length)
	for {
		ops := make([]c19op, length)
		nmut := 0
		for k := 0; k < length; k++ {
			ops[k] = alpha[idx[k]]
			if ops[k].mutate {
				nmut++
			}
		}
		ops = c19stamp(ops)
		// append a full read-back so that every stale slot becomes visible
		for i := uint64(1); i <= maxIdx; i++ {
			ops = append(ops, c19op{kind: 1, i: i})
		}
		failPatterns := 1
		if withFail {
			failPatterns = 1 << nmut
		}
		for _, cap := range caps {
			for fp := 0; fp < failPatterns; fp++ {
				fails := make([]bool, nmut)
				for b := 0; b < nmut; b++ {
					fails[b] = fp&(1<<b) != 0
				}
				c19case(cw, cw.tag("e"), cap, fails, ops)
				n++
			}
		}
		// next
		k := length - 1
		for k >= 0 {
			idx[k]++
			if idx[k] < len(alpha) {
				break
			}
			idx[k] = 0
			k--
		}
		if k < 0 {
			break
		}
	}
	return n
}

func c19random(cw *caseWriter, r *rng, count int, maxLen int) {
	for c := 0; c < count; c++ {
		cap := 1 + r.intn(8)
		maxIdx := uint64(2 + r.intn(14))
		n := 1 + r.intn(maxLen)
		var ops []c19op
		var fails []bool
		id := uint64(1000)
		for k := 0; k < n; k++ {
			switch x := r.intn(100); {
			case x < 40:
				ops = append(ops, c19op{kind: 1, i: uint64(r.intn(int(maxIdx) + 2))})
			case x < 75:
				cnt := 1 + r.intn(4)
				start := uint64(1 + r.intn(int(maxIdx)))
				var ls []*raft.Log
				for j := 0; j < cnt; j++ {
					id++
					ix := start + uint64(j)
					if r.chance(1, 10) { // gaps / duplicates inside one batch
						ix = uint64(1 + r.intn(int(maxIdx)))
					}
					ls = append(ls, mkLog(ix, uint64(1+r.intn(3)), uint64(r.intn(6)), id))
				}
				ops = append(ops, c19op{kind: 2, logs: ls, mutate: true})
				fails = append(fails, r.chance(1, 6))
			case x < 90:
				lo := uint64(r.intn(int(maxIdx) + 1))
				hi := lo + uint64(r.intn(4))
				ops = append(ops, c19op{kind: 3, i: lo, hi: hi, mutate: true})
				fails = append(fails, r.chance(1, 8))
			case x < 95:
				ops = append(ops, c19op{kind: 4})
			default:
				ops = append(ops, c19op{kind: 5})
			}
		}
		c19case(cw, cw.tag("r"), cap, fails, ops)
	}
}

func runC19(cw *caseWriter, tier string, seed uint64) {
	r := &rng{s: seed}
	if tier == "quick" {
		n := c19exhaustive(cw, 3, 2, []int{1, 2, 3}, true)
		n += c19exhaustive(cw, 3, 3, []int{2}, false)
		cw.stat("c19_exhaustive_cases", n)
		c19random(cw, r, 3000, 40)
		cw.stat("c19_random_cases", 3000)
	} else {
		n := c19exhaustive(cw, 3, 3, []int{1, 2, 3}, true)
		n += c19exhaustive(cw, 4, 3, []int{1, 2, 3}, false)
		cw.stat("c19_exhaustive_cases", n)
		c19random(cw, r, 40000, 60)
		cw.stat("c19_random_cases", 40000)
	}
	runC19conc(cw, tier, seed)
}
