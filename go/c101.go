package main

import (
	"bufio"
	"bytes"
	"fmt"
	"os"
	"os/exec"
	"sort"
	"strconv"
	"strings"
	"sync"
	"time"

	"github.com/hashicorp/raft"
)

// component 101 — replication scripts on a REAL cluster, compared with Model/ClusterLog.v (lstep).
// The cluster of component 1 (real servers, scripted RequestVote exchange, restarts) plus:
//
//	7 i data        Apply(data) at leader i (dispatchLogs stores the entry in its own log)
//	8 i j next last the request leader i's replication to j builds for (nextIndex, lastIndex):
//	                the REAL setupAppendEntries on the real log (hook VerifSetupAppendEntries)
//	9 i j           a heartbeat of leader i for j (Term and Leader only, as replication.go heartbeat)
//	10 k            the k-th request built so far is executed by its target's real handler
//
// Requests are kept for ever: they can be executed late, repeatedly, out of order, after the
// sender was deposed.  The answers are dropped (the model does not constrain nextIndex), and the
// AppendEntries of the servers' own replication goroutines never arrive.
// observed per op: 1 ; per server: role term voteTerm voteCand+1 lastIndex nlog (idx term type data)* ;
// Leader transitions ; number of requests ; the newest request: term prevIdx prevTerm commit n (idx term)*
type lgMsg struct {
	from, to uint64
	req      *raft.AppendEntriesRequest
}

type lgAns struct {
	req  int
	resp *raft.AppendEntriesResponse
}

type lgCluster struct {
	*evCluster
	msgs   []lgMsg
	commit bool // component 102: answers are kept and can be processed by the sender (commitment)
	ans    []lgAns
	hb     map[int]bool
	snap   bool // component 103: takeSnapshot ops, the newest snapshot in the state dump
	inst   bool // component 104: replicateTo may send the newest snapshot (InstallSnapshot requests, answers)
	smsgs  []lgSMsg
	sans   []lgSAns
	sout   map[[2]uint64]int
	calls  map[[2]uint64]*evDriven // component 102: the replicateTo call in progress per (leader, follower)
	out    map[[2]uint64]int       // ... and the request it waits for
	futs   []*lgFut                // component 102: the Apply calls issued, in order
}

type lgSMsg struct {
	from, to uint64
	req      *raft.InstallSnapshotRequest
	data     []byte
}

type lgSAns struct {
	req  int
	resp *raft.InstallSnapshotResponse
}

// make the blocked transport call of d fail (whichever kind of request it is waiting with)
func (d *evDriven) fail() {
	if d.sreq != nil {
		d.sverdict <- nil
	} else {
		d.verdict <- nil
	}
}

// an Apply call and what became of it
type lgFut struct {
	data     uint64
	f        raft.ApplyFuture
	done     chan struct{}
	err      error
	idx      uint64
	reported bool
}

// the Apply calls acknowledged without error since the last observation: (index, payload), by index
func (c *lgCluster) newAcks() []uint64 {
	var got [][2]uint64
	for _, x := range c.futs {
		if x.reported {
			continue
		}
		select {
		case <-x.done:
			x.reported = true
			if x.err == nil {
				got = append(got, [2]uint64{x.idx, x.data})
			}
		default:
		}
	}
	sort.Slice(got, func(a, b int) bool { return got[a][0] < got[b][0] })
	out := []uint64{uint64(len(got))}
	for _, g := range got {
		out = append(out, g[0], g[1])
	}
	return out
}

// start the REAL replicateTo(j, last) at leader i in its own goroutine; returns once it has
// built a request (now waiting in the transport) or has returned without sending
func (c *lgCluster) startRepl(i, j, last uint64) *evDriven {
	n := c.nodes[i]
	d := &evDriven{from: i, to: j, last: last, inst: n.inst, parked: make(chan struct{}, 1), verdict: make(chan *raft.AppendEntriesResponse, 1), done: make(chan struct{}),
		snapsOK: c.inst, sverdict: make(chan *raft.InstallSnapshotResponse, 1)}
	started := make(chan struct{})
	go func() {
		id := goid()
		c.mu.Lock()
		c.driven[id] = d
		c.mu.Unlock()
		close(started)
		defer func() {
			recover() // the leadership state may be gone (nil map): the call simply ends
			c.mu.Lock()
			delete(c.driven, id)
			c.mu.Unlock()
			close(d.done)
		}()
		n.r.VerifReplicateTo(idStr(j), last)
	}()
	<-started
	select {
	case <-d.parked:
		return d
	case <-d.done:
		return nil
	case <-time.After(2 * time.Second):
		return nil
	}
}

// after an answer was handed back: replicateTo either builds the next request or returns
func (c *lgCluster) afterVerdict(d *evDriven) bool {
	select {
	case <-d.parked:
		return true
	case <-d.done:
		return false
	case <-time.After(2 * time.Second):
		return false
	}
}

// calls of a leadership that is over never get an answer
func (c *lgCluster) dropDeadCalls() {
	for k, d := range c.calls {
		n := c.nodes[k[0]]
		term := uint64(0)
		if d.sreq != nil {
			term = d.sreq.Term
		} else if d.req != nil {
			term = d.req.Term
		}
		if n.inst != d.inst || n.r.State() != raft.Leader || n.r.CurrentTerm() != term {
			d.fail()
			<-d.done
			delete(c.calls, k)
			delete(c.out, k)
			delete(c.sout, k)
		}
	}
}

func newLgCluster(extras []uint64, commit bool) *lgCluster { return newLgClusterT(extras, commit, 0) }

func newLgClusterT(extras []uint64, commit bool, trail uint64) *lgCluster {
	c := &lgCluster{evCluster: newEvClusterT(extras, trail), commit: commit, snap: trail != 0, calls: map[[2]uint64]*evDriven{}, out: map[[2]uint64]int{}, sout: map[[2]uint64]int{}}
	if commit {
		c.driven = map[uint64]*evDriven{}
	}
	return c
}

func (c *lgCluster) closeAll() {
	for k, d := range c.calls {
		d.fail()
		select {
		case <-d.done:
		case <-time.After(time.Second):
		}
		delete(c.calls, k)
	}
	c.close()
}

func lgData(l *raft.Log) uint64 {
	if l.Type == raft.LogConfiguration {
		return 1 // the one configuration of these runs (Cluster.mk_image)
	}
	return idOf(l.Data)
}

func (c *lgCluster) observe() []uint64 {
	if len(c.calls) > 0 {
		c.settle()
		c.dropDeadCalls()
	}
	base := c.settle() // per server 5 values, then the number of Leader transitions
	var out []uint64
	for i := 0; i < c.n; i++ {
		out = append(out, base[5*i:5*i+5]...)
		if c.commit {
			nd := c.nodes[uint64(i+1)]
			nd.fsm.mu.Lock()
			st := append([]uint64(nil), nd.fsm.state...)
			nd.fsm.mu.Unlock()
			out = append(out, nd.r.CommitIndex(), nd.r.AppliedIndex(), uint64(len(st)))
			out = append(out, st...)
		}
		es := c.nodes[uint64(i+1)].logs.Entries()
		sort.Slice(es, func(a, b int) bool { return es[a].Index < es[b].Index })
		out = append(out, uint64(len(es)))
		for _, l := range es {
			out = append(out, l.Index, l.Term, uint64(l.Type), lgData(l))
		}
		if c.commit {
			// a leader: the nextIndex of every other server
			nd := c.nodes[uint64(i+1)]
			if nd.r.State() == raft.Leader {
				out = append(out, uint64(c.n-1))
				for j := 1; j <= c.n; j++ {
					if j != i+1 {
						nx, _ := nd.r.VerifReplNext(idStr(uint64(j)))
						out = append(out, nx)
					}
				}
			} else {
				out = append(out, 0)
			}
			if c.snap {
				// the server's last snapshot as it records it (after an InstallSnapshot of an older snapshot this is
				// that one, not the newest in the store); read at quiescence
				st := nd.r.VerifNodeState()
				out = append(out, st.LastSnapshotIndex, st.LastSnapshotTerm)
			}
		}
	}
	out = append(out, base[5*c.n], uint64(len(c.msgs)))
	if c.commit {
		out = append(out, uint64(len(c.ans)))
	}
	if len(c.msgs) > 0 {
		q := c.msgs[len(c.msgs)-1].req
		out = append(out, q.Term, q.PrevLogEntry, q.PrevLogTerm, q.LeaderCommitIndex, uint64(len(q.Entries)))
		for _, l := range q.Entries {
			out = append(out, l.Index, l.Term)
		}
	}
	if c.inst {
		out = append(out, uint64(len(c.smsgs)), uint64(len(c.sans)))
	}
	if c.commit {
		out = append(out, c.newAcks()...)
	}
	return out
}

func (c *lgCluster) doRepl(op []uint64) bool {
	switch op[0] {
	case 7:
		n := c.nodes[op[1]]
		if n.r.State() != raft.Leader {
			return false
		}
		li := n.r.LastIndex()
		f := n.r.Apply(dataOf(op[2]), 0)
		if c.commit {
			x := &lgFut{data: op[2], f: f, done: make(chan struct{})}
			c.futs = append(c.futs, x)
			go func() { x.err = f.Error(); x.idx = f.Index(); close(x.done) }()
		}
		return c17wait(func() bool { return n.r.LastIndex() > li || n.r.State() != raft.Leader }, 2*time.Second)
	case 8:
		n := c.nodes[op[1]]
		if n.r.State() != raft.Leader || op[1] == op[2] {
			return false
		}
		if c.commit {
			// replicateTo's START with the follower's real nextIndex (op[3] is what it turned out to be)
			k := [2]uint64{op[1], op[2]}
			d := c.calls[k]
			if d == nil {
				if nx, _ := n.r.VerifReplNext(idStr(op[2])); nx != op[3] {
					return false
				}
				if d = c.startRepl(op[1], op[2], op[4]); d == nil {
					return false
				}
				if d.sreq != nil {
					// the call turned to sendLatestSnapshot: not this op
					d.fail()
					<-d.done
					return false
				}
				c.calls[k] = d
			} else if _, waiting := c.out[k]; waiting || d.req == nil || d.last != op[4] || d.req.PrevLogEntry+1 != op[3] {
				return false
			}
			c.out[k] = len(c.msgs)
			c.msgs = append(c.msgs, lgMsg{op[1], op[2], d.req})
			return true
		}
		req, err := n.r.VerifSetupAppendEntries(idStr(op[2]), op[3], op[4])
		if err != nil {
			return false
		}
		c.msgs = append(c.msgs, lgMsg{op[1], op[2], req})
	case 9:
		n := c.nodes[op[1]]
		if n.r.State() != raft.Leader || op[1] == op[2] {
			return false
		}
		req := &raft.AppendEntriesRequest{RPCHeader: raft.RPCHeader{ProtocolVersion: 3, ID: []byte(idStr(op[1])), Addr: []byte(addrStr(op[1]))}, Term: n.r.CurrentTerm()}
		if c.hb == nil {
			c.hb = map[int]bool{}
		}
		c.hb[len(c.msgs)] = true
		c.msgs = append(c.msgs, lgMsg{op[1], op[2], req})
	case 10:
		if op[1] >= uint64(len(c.msgs)) {
			return false
		}
		m := c.msgs[op[1]]
		out, err := c.execute(m.to, m.req)
		if c.commit && err == nil {
			if resp, ok := out.(*raft.AppendEntriesResponse); ok {
				c.ans = append(c.ans, lgAns{int(op[1]), resp})
			}
		}
	case 12:
		// the answer to the outstanding call returns to the REAL replicateTo, which processes it
		// (handleStaleTerm / updateLastAppended -> commitment.match / nextIndex) and either builds the next
		// request (recorded by the caller as a further op 8) or returns
		if !c.commit || op[1] >= uint64(len(c.ans)) {
			return false
		}
		a := c.ans[op[1]]
		m := c.msgs[a.req]
		k := [2]uint64{m.from, m.to}
		d := c.calls[k]
		if w, ok := c.out[k]; d == nil || !ok || w != a.req {
			return false
		}
		n := c.nodes[m.from]
		if n.r.State() != raft.Leader || n.r.CurrentTerm() != m.req.Term {
			return false
		}
		delete(c.out, k)
		d.verdict <- a.resp
		if !c.afterVerdict(d) {
			delete(c.calls, k)
		}
	case 11:
		// takeSnapshot (the snapshot goroutine, asked by the user API): FSM snapshot, sink, compactLogs
		if !c.snap {
			return false
		}
		n := c.nodes[op[1]]
		done := make(chan struct{})
		go func() { n.r.Snapshot().Error(); close(done) }()
		select {
		case <-done:
		case <-time.After(3 * time.Second):
			c.lost = true
			return false
		}
	case 15:
		// replicateTo(j, last) finds an entry it needs compacted away and sends the newest snapshot
		if !c.inst || op[1] == op[2] || c.nodes[op[1]].r.State() != raft.Leader {
			return false
		}
		k := [2]uint64{op[1], op[2]}
		d := c.calls[k]
		if d == nil {
			if d = c.startRepl(op[1], op[2], op[3]); d == nil {
				return false
			}
			if d.sreq == nil {
				d.fail()
				<-d.done
				return false
			}
			c.calls[k] = d
		} else {
			_, w1 := c.out[k]
			_, w2 := c.sout[k]
			if w1 || w2 || d.sreq == nil || d.last != op[3] {
				return false
			}
		}
		c.sout[k] = len(c.smsgs)
		c.smsgs = append(c.smsgs, lgSMsg{op[1], op[2], d.sreq, d.sdata})
	case 16:
		if !c.inst || op[1] >= uint64(len(c.smsgs)) {
			return false
		}
		m := c.smsgs[op[1]]
		out, err := c.executeR(m.to, m.req, bytes.NewReader(m.data))
		if err == nil {
			if resp, ok := out.(*raft.InstallSnapshotResponse); ok {
				c.sans = append(c.sans, lgSAns{int(op[1]), resp})
			}
		}
	case 17:
		if !c.inst || op[1] >= uint64(len(c.sans)) {
			return false
		}
		a := c.sans[op[1]]
		m := c.smsgs[a.req]
		k := [2]uint64{m.from, m.to}
		d := c.calls[k]
		if w, ok := c.sout[k]; d == nil || !ok || w != a.req {
			return false
		}
		n := c.nodes[m.from]
		if n.r.State() != raft.Leader || n.r.CurrentTerm() != m.req.Term {
			return false
		}
		delete(c.sout, k)
		d.sverdict <- a.resp
		if !c.afterVerdict(d) {
			delete(c.calls, k)
		}
	case 18:
		k := [2]uint64{op[1], op[2]}
		d := c.calls[k]
		if _, ok := c.sout[k]; d == nil || !ok {
			return false
		}
		delete(c.sout, k)
		delete(c.calls, k)
		d.sverdict <- nil
		<-d.done
	case 14:
		// the leader loop consumed commitCh: it has happened by the time the cluster is quiet
		return c.commit
	case 13:
		k := [2]uint64{op[1], op[2]}
		d := c.calls[k]
		if _, ok := c.out[k]; d == nil || !ok || c.nodes[op[1]].r.State() != raft.Leader {
			return false
		}
		delete(c.out, k)
		delete(c.calls, k)
		d.verdict <- nil
		<-d.done
	default:
		return c.do(op)
	}
	return true
}

var lgOpLen = map[uint64]int{1: 2, 2: 3, 3: 3, 4: 6, 5: 2, 7: 3, 8: 5, 9: 3, 10: 2, 11: 2, 12: 2, 13: 3, 14: 2, 15: 4, 16: 2, 17: 2, 18: 3}

func c101Gen(r *rng, n int, steps int, commit bool) (in []uint64, obs []uint64, leaders int) {
	return c101GenT(r, n, steps, commit, 0)
}

func c101GenT(r *rng, n int, steps int, commit bool, trail uint64) (in []uint64, obs []uint64, leaders int) {
	return c101GenI(r, n, steps, commit, trail, false)
}

func c101GenI(r *rng, n int, steps int, commit bool, trail uint64, inst bool) (in []uint64, obs []uint64, leaders int) {
	extras := make([]uint64, n)
	for i := range extras {
		extras[i] = uint64(r.intn(3))
	}
	c := newLgClusterT(extras, commit, trail)
	c.inst = inst
	defer c.closeAll()
	c.settle()
	in = append([]uint64{uint64(n)}, extras...)
	if trail != 0 {
		in = append([]uint64{trail - 1}, in...)
	}
	var emit func(op []uint64)
	emit = func(op []uint64) {
		if c.lost {
			return // the script has lost control of the cluster's timing: nothing more is recorded
		}
		var ldr *evNode
		var before uint64
		if commit && op[0] == 12 && op[1] < uint64(len(c.ans)) {
			ldr = c.nodes[c.msgs[c.ans[op[1]].req].from]
			before = ldr.r.CommitIndex()
		}
		if commit && op[0] == 17 && op[1] < uint64(len(c.sans)) {
			ldr = c.nodes[c.smsgs[c.sans[op[1]].req].from]
			before = ldr.r.CommitIndex()
		}
		if !c.doRepl(op) {
			return
		}
		if ldr != nil {
			// the replication goroutine recorded the match, and by the time the cluster is quiet the leader loop
			// has consumed commitCh: two steps of the model, the state between them cannot be observed
			c.settle()
			if ldr.r.CommitIndex() != before {
				in = append(in, 99)
				in = append(in, op...)
				obs = append(obs, 2)
				op = []uint64{14, ldr.id}
			}
		}
		in = append(in, op...)
		obs = append(obs, 1)
		obs = append(obs, c.observe()...)
	}
	// replicateTo went on after an answer and built its next request (only where the commit index is not moving:
	// after a refusal; every call is started with at most one batch to send / up to the snapshot only): it is
	// recorded and the call is then made to fail
	followUps := func() {
		for key, d := range c.calls {
			_, w1 := c.out[key]
			_, w2 := c.sout[key]
			if w1 || w2 {
				continue
			}
			if d.sreq != nil {
				emit([]uint64{15, key[0], key[1], d.last})
				emit([]uint64{18, key[0], key[1]})
			} else if d.req != nil {
				emit([]uint64{8, key[0], key[1], d.req.PrevLogEntry + 1, d.last})
				emit([]uint64{13, key[0], key[1]})
			}
		}
	}
	next := uint64(500)
	for s := 0; s < steps && !c.lost; s++ {
		var elect, votes, leaders [][]uint64
		for i := uint64(1); i <= uint64(n); i++ {
			if c.nodes[i].r.State() != raft.Leader {
				elect = append(elect, []uint64{1, i})
			} else {
				leaders = append(leaders, []uint64{i})
			}
			for _, j := range c.pendingFrom(i, 0) {
				votes = append(votes, []uint64{2, i, j})
			}
			for _, j := range c.pendingFrom(i, 1) {
				votes = append(votes, []uint64{3, i, j})
			}
		}
		x := r.intn(100)
		// a leader nobody has outrun: otherwise the cluster is between leaders (a deposed leader that
		// has not heard of the higher term yet still acts now and then)
		healthy := false
		var maxTerm uint64
		for i := uint64(1); i <= uint64(n); i++ {
			maxTerm = max(maxTerm, c.nodes[i].r.CurrentTerm())
		}
		for _, l := range leaders {
			if c.nodes[l[0]].r.CurrentTerm() == maxTerm {
				healthy = true
			}
		}
		if !healthy && (len(leaders) == 0 || r.chance(5, 6)) {
			// no leader: get one elected (mostly), with the odd restart / stray request / late delivery
			switch {
			case x < 3:
				emit([]uint64{5, uint64(1 + r.intn(n))})
			case x < 5:
				j := uint64(1 + r.intn(n))
				emit([]uint64{4, j, c.nodes[j].r.CurrentTerm() + uint64(r.intn(3)), uint64(1 + r.intn(n)), uint64(r.intn(5)), uint64(r.intn(3))})
			case x < 15 && len(c.msgs) > 0:
				emit([]uint64{10, uint64(r.intn(len(c.msgs)))})
			default:
				if len(votes) > 0 && r.chance(14, 15) {
					emit(votes[r.intn(len(votes))])
				} else if len(elect) > 0 {
					emit(elect[r.intn(len(elect))])
				}
			}
			continue
		}
		if trail != 0 && r.chance(1, 14) {
			// a snapshot (and the compaction that follows it) at any server
			emit([]uint64{11, uint64(1 + r.intn(n))})
			continue
		}
		if c.inst && len(leaders) > 0 && r.chance(1, 8) {
			// ... and more often at a leader that has applied something since its last snapshot
			i := leaders[r.intn(len(leaders))][0]
			metas, _ := c.nodes[i].snaps.List()
			if len(metas) == 0 || c.nodes[i].r.AppliedIndex() > metas[0].Index {
				emit([]uint64{11, i})
				continue
			}
		}
		if c.inst && r.chance(1, 4) {
			// snapshot transfer: a leader holding a snapshot whose follower needs something compacted away
			i := leaders[r.intn(len(leaders))][0]
			j := 1 + (i-1+uint64(1+r.intn(n-1)))%uint64(n)
			metas, _ := c.nodes[i].snaps.List()
			switch y := r.intn(10); {
			case y < 5 && len(metas) > 0 && c.calls[[2]uint64{i, j}] == nil:
				nsm := len(c.smsgs)
				emit([]uint64{15, i, j, metas[0].Index}) // lastIndex = the snapshot's index: after a success the call returns
				if len(c.smsgs) > nsm && r.chance(3, 4) {
					nsa := len(c.sans)
					emit([]uint64{16, uint64(len(c.smsgs) - 1)})
					if len(c.sans) > nsa && r.chance(3, 4) {
						emit([]uint64{17, uint64(len(c.sans) - 1)})
						followUps()
					}
				}
			case y < 8 && len(c.smsgs) > 0:
				emit([]uint64{16, uint64(r.intn(len(c.smsgs)))}) // late / repeated delivery of any snapshot request
			case len(c.sans) > 0:
				emit([]uint64{17, uint64(len(c.sans) - 1 - r.intn(min(3, len(c.sans))))})
				followUps()
			default:
				for key := range c.sout {
					emit([]uint64{18, key[0], key[1]})
					break
				}
			}
			continue
		}
		switch {
		case x < 2:
			emit([]uint64{5, uint64(1 + r.intn(n))})
		case x < 4:
			j := uint64(1 + r.intn(n))
			emit([]uint64{4, j, c.nodes[j].r.CurrentTerm() + uint64(r.intn(3)), uint64(1 + r.intn(n)), uint64(r.intn(5)), uint64(r.intn(3))})
		case x < 18 && commit && len(c.ans) > 0:
			// an answer reaches the replication code of its sender, newest first
			k := len(c.ans) - 1 - r.intn(min(4, len(c.ans)))
			if r.chance(1, 6) {
				k = r.intn(len(c.ans))
			}
			if r.chance(1, 12) && len(c.out) > 0 {
				// the call fails instead (timeout): its answer will never be used
				var pick [2]uint64
				for key := range c.out {
					if pick[0] == 0 || key[0] < pick[0] || (key[0] == pick[0] && key[1] < pick[1]) {
						pick = key
					}
				}
				emit([]uint64{13, pick[0], pick[1]})
				continue
			}
			// prefer an answer some call is waiting for
			for q := len(c.ans) - 1; q >= 0 && q >= len(c.ans)-8; q-- {
				m := c.msgs[c.ans[q].req]
				if w, ok := c.out[[2]uint64{m.from, m.to}]; ok && w == c.ans[q].req && r.chance(3, 4) {
					k = q
					break
				}
			}
			emit([]uint64{12, uint64(k)})
			// replicateTo went on: the next request it built
			// (that only happens after a refusal - every call is started with at most one batch to send - so
			// the commit index is not moving while it is built); the call is then made to fail, and a
			// later call starts from the new nextIndex with a fresh lastIndex
			followUps()
		case x < 56:
			// a leader acts: propose, build a request, heartbeat
			i := leaders[r.intn(len(leaders))][0]
			if r.chance(6, 7) {
				// mostly the leader of the highest term (the others are deposed and do not know it yet)
				for _, l := range leaders {
					if c.nodes[l[0]].r.CurrentTerm() > c.nodes[i].r.CurrentTerm() {
						i = l[0]
					}
				}
			}
			li := c.nodes[i].r.LastIndex()
			j := 1 + (i-1+uint64(1+r.intn(n-1)))%uint64(n)
			lj := c.nodes[j].r.LastIndex()
			switch y := r.intn(10); {
			case y < 3:
				next++
				emit([]uint64{7, i, next})
			case y < 9:
				// mostly a next index the target can accept or must reject at a conflict
				nx := uint64(1 + r.intn(int(min(li, lj))+1))
				if r.chance(1, 4) {
					nx = uint64(1 + r.intn(int(li)+1))
				}
				last := li
				if r.chance(1, 5) {
					last = uint64(r.intn(int(li) + 1))
				}
				if commit {
					// replicateTo builds the request from the follower's real nextIndex; one call per follower at a time
					if c.calls[[2]uint64{i, j}] != nil {
						continue
					}
					nx, _ = c.nodes[i].r.VerifReplNext(idStr(j))
					// one batch per call (MaxAppendEntries = 4): after a success replicateTo returns, so no request is
					// built while the leader loop is still advancing the commit index (either LeaderCommit value
					// would be legitimate there; the model takes the steps one at a time)
					if last > nx+3 {
						last = nx + 3
					}
				}
				nmsgs := len(c.msgs)
				emit([]uint64{8, i, j, nx, last})
				if len(c.msgs) > nmsgs && r.chance(2, 3) {
					nans := len(c.ans)
					emit([]uint64{10, uint64(len(c.msgs) - 1)})
					if commit && len(c.ans) > nans && r.chance(3, 4) {
						// the whole exchange at once: the answer returns to the blocked call
						emit([]uint64{12, uint64(len(c.ans) - 1)})
						followUps()
					}
				}
			default:
				emit([]uint64{9, i, j})
			}
		case x < 90 && len(c.msgs) > 0:
			k := r.intn(len(c.msgs))
			if r.chance(5, 6) {
				// mostly a request its target will not refuse as stale, newest first
				var live []int
				for q := len(c.msgs) - 1; q >= 0 && len(live) < 4; q-- {
					if c.msgs[q].req.Term >= c.nodes[c.msgs[q].to].r.CurrentTerm() {
						live = append(live, q)
					}
				}
				if len(live) > 0 {
					k = live[r.intn(len(live))]
				}
			}
			emit([]uint64{10, uint64(k)})
		case x < 95 && len(elect) > 0:
			// a whole election at once: a server times out and its requests and answers all travel;
			// the deposed leader keeps what it had not replicated (a divergent log)
			k := elect[r.intn(len(elect))][1]
			emit([]uint64{1, k})
			for j := uint64(1); j <= uint64(n); j++ {
				if j != k && r.chance(5, 6) {
					emit([]uint64{2, k, j})
					emit([]uint64{3, k, j})
				}
			}
		default:
			if len(votes) > 0 && r.chance(2, 3) {
				emit(votes[r.intn(len(votes))])
			} else if len(elect) > 0 {
				emit(elect[r.intn(len(elect))])
			}
		}
	}
	return in, obs, c.leaders
}

func c101Run(in0 []uint64, commit bool) (in []uint64, obs []uint64, leaders int) {
	return c101RunT(in0, commit, 0)
}

func c101RunT(in0 []uint64, commit bool, trail uint64) (in []uint64, obs []uint64, leaders int) {
	return c101RunI(in0, commit, trail, false)
}

func c101RunI(in0 []uint64, commit bool, trail uint64, inst bool) (in []uint64, obs []uint64, leaders int) {
	if trail != 0 {
		in0 = in0[1:]
	}
	n := int(in0[0])
	extras := in0[1 : 1+n]
	c := newLgClusterT(extras, commit, trail)
	c.inst = inst
	defer c.closeAll()
	c.settle()
	in = append([]uint64{uint64(n)}, extras...)
	if trail != 0 {
		in = append([]uint64{trail - 1}, in...)
	}
	p := 1 + n
	for p < len(in0) && !c.lost {
		silent := in0[p] == 99
		if silent {
			p++
		}
		if p >= len(in0) {
			break
		}
		l := lgOpLen[in0[p]]
		if l == 0 || p+l > len(in0) {
			break
		}
		op := in0[p : p+l]
		p += l
		if !c.doRepl(op) {
			continue
		}
		if silent {
			in = append(in, 99)
			in = append(in, op...)
			obs = append(obs, 2)
			continue
		}
		in = append(in, op...)
		obs = append(obs, 1)
		obs = append(obs, c.observe()...)
	}
	return in, obs, c.leaders
}

// property monitor (C04): Log Matching and monotone terms on the real logs after every op;
// also classifies what every delivery did (the input distribution recorded in the evidence)
func c101monitor(cw *caseWriter, tag string, in []uint64, obs []uint64) {
	n := int(in[0])
	type ent struct{ term, ty, data uint64 }
	type msg struct {
		to, term, pi, pt uint64
		es               [][2]uint64
	}
	var ops [][]uint64
	for q := 1 + n; q < len(in); {
		l := lgOpLen[in[q]]
		if l == 0 || q+l > len(in) {
			break
		}
		ops = append(ops, in[q:q+l])
		q += l
	}
	var msgs []msg
	var prevLogs []map[uint64]ent
	var prevTerms []uint64
	p := 0
	for step := 0; p < len(obs) && step < len(ops); step++ {
		p++ // the leading 1
		logs := make([]map[uint64]ent, n)
		terms := make([]uint64, n)
		for i := 0; i < n; i++ {
			terms[i] = obs[p+1]
			p += 5
			k := int(obs[p])
			p++
			logs[i] = map[uint64]ent{}
			var prevIdx, prevTerm uint64
			for e := 0; e < k; e++ {
				idx, term := obs[p], obs[p+1]
				logs[i][idx] = ent{term, obs[p+2], obs[p+3]}
				if e > 0 && (term < prevTerm || idx <= prevIdx) {
					cw.monitor("C04", tag, "terms-decrease-within-one-log", "step %d server %d: index %d term %d after index %d term %d", step, i+1, idx, term, prevIdx, prevTerm)
				}
				prevIdx, prevTerm = idx, term
				p += 4
			}
		}
		p += 2
		var newest msg
		if obs[p-1] > 0 {
			newest = msg{term: obs[p], pi: obs[p+1], pt: obs[p+2]}
			ne := int(obs[p+4])
			p += 5
			for e := 0; e < ne; e++ {
				newest.es = append(newest.es, [2]uint64{obs[p], obs[p+1]})
				p += 2
			}
		}
		op := ops[step]
		switch op[0] {
		case 8, 9:
			newest.to = op[2]
			msgs = append(msgs, newest)
			cw.stats["c101_requests_built"]++
		case 7:
			cw.stats["c101_entries_proposed"]++
		case 10:
			if prevLogs != nil && int(op[1]) < len(msgs) {
				m := msgs[op[1]]
				old, now := prevLogs[m.to-1], logs[m.to-1]
				what := "appended"
				switch {
				case m.term < prevTerms[m.to-1]:
					what = "refused_stale_term"
				case m.pi > 0 && old[m.pi].term != m.pt:
					what = "refused_previous_entry_mismatch"
				case len(m.es) == 0:
					what = "empty_or_heartbeat"
				default:
					same := len(old) == len(now)
					conflict := len(now) < len(old)
					for idx, e := range now {
						if o, ok := old[idx]; !ok {
							same = false
						} else if o != e {
							same, conflict = false, true
						}
					}
					if same {
						what = "duplicate"
					} else if conflict {
						what = "truncated_at_conflict"
					}
				}
				cw.stats["c101_delivery_"+what]++
			}
		}
		for a := 0; a < n; a++ {
			for b := a + 1; b < n; b++ {
				var top uint64
				for idx, ea := range logs[a] {
					if eb, ok := logs[b][idx]; ok && ea.term == eb.term && idx > top {
						top = idx
					}
				}
				for idx, ea := range logs[a] {
					if eb, ok := logs[b][idx]; ok && idx <= top && ea != eb {
						cw.monitor("C04", tag, "log-mismatch-below-common-entry", "step %d: servers %d and %d agree at index %d (same term) but differ at index %d: %v vs %v", step, a+1, b+1, top, idx, ea, eb)
					}
				}
			}
		}
		prevLogs, prevTerms = logs, terms
	}
}

// stdin : lines "tag subseed"      stdout: as c01clbatch
func c101Batch() {
	evAlone = true
	sc := bufio.NewScanner(os.Stdin)
	w := bufio.NewWriter(os.Stdout)
	defer w.Flush()
	for sc.Scan() {
		f := strings.Fields(sc.Text())
		if len(f) != 2 {
			continue
		}
		subseed, _ := strconv.ParseUint(f[1], 10, 64)
		sub := &rng{s: subseed}
		n := 2 + sub.intn(4)
		steps := 40 + sub.intn(60)
		in, obs, leaders := c101Gen(sub, n, steps, false)
		fmt.Fprintf(w, "%s %d %d", f[0], leaders, len(in))
		for _, x := range in {
			fmt.Fprintf(w, " %d", x)
		}
		fmt.Fprintf(w, " %d", len(obs))
		for _, x := range obs {
			fmt.Fprintf(w, " %d", x)
		}
		fmt.Fprintln(w)
	}
	fmt.Fprintf(w, "#fallbacks %d\n", evFallbacks)
}

func runC101(cw *caseWriter, tier string, seed uint64) {
	r := &rng{s: seed*104729 + 5}
	count := 200
	if tier != "quick" {
		count = 3000
	}
	evBatches(cw, "c101batch", "g", 101, count, r, "c101", func(tag string, in, obs []uint64) { c101monitor(cw, tag, in, obs) })
}

// run `count` scripts in child processes (one script at a time per process) and emit their cases
func evBatches(cw *caseWriter, child string, prefix string, comp int, count int, r *rng, stat string, mon func(tag string, in, obs []uint64)) {
	evBatchesD(cw, child, prefix, comp, count, 0, r, stat, mon)
}

// ... preceded by `directed` directed scripts (job lines "tag D<k>")
func evBatchesD(cw *caseWriter, child string, prefix string, comp int, count int, directed int, r *rng, stat string, mon func(tag string, in, obs []uint64)) {
	const workers = 8
	var jobs [workers]bytes.Buffer
	for k := 0; k < directed; k++ {
		fmt.Fprintf(&jobs[k%workers], "%s D%d\n", cw.tag(prefix+"d"), k)
	}
	for k := 0; k < count; k++ {
		fmt.Fprintf(&jobs[k%workers], "%s %d\n", cw.tag(prefix), r.next())
	}
	var mu sync.Mutex
	var wg sync.WaitGroup
	for wk := 0; wk < workers; wk++ {
		wg.Add(1)
		go func(wk int) {
			defer wg.Done()
			cmd := exec.Command(os.Args[0], child)
			cmd.Env = append(os.Environ(), "GOMAXPROCS=4")
			cmd.Stdin = &jobs[wk]
			cmd.Stderr = os.Stderr
			out, err := cmd.Output()
			mu.Lock()
			defer mu.Unlock()
			if err != nil {
				cw.stats[stat+"_child_errors"]++
				fmt.Fprintln(os.Stderr, child+":", err)
			}
			for _, line := range strings.Split(string(out), "\n") {
				f := strings.Fields(line)
				if len(f) == 2 && f[0] == "#fallbacks" {
					k, _ := strconv.Atoi(f[1])
					cw.stats[stat+"_settle_fallbacks"] += k
					continue
				}
				if len(f) < 4 {
					continue
				}
				leaders, _ := strconv.Atoi(f[1])
				nin, _ := strconv.Atoi(f[2])
				if len(f) < 4+nin {
					continue
				}
				in := make([]uint64, nin)
				for i := range in {
					in[i], _ = strconv.ParseUint(f[3+i], 10, 64)
				}
				nobs, _ := strconv.Atoi(f[3+nin])
				if len(f) != 4+nin+nobs {
					continue
				}
				obs := make([]uint64, nobs)
				for i := range obs {
					obs[i], _ = strconv.ParseUint(f[4+nin+i], 10, 64)
				}
				cw.stats[stat+"_scripts"]++
				cw.stats[stat+"_leader_transitions"] += leaders
				if mon != nil {
					mon(f[0], in, obs)
				}
				cw.emit(f[0], comp, in, obs, leaders >= 1)
			}
		}(wk)
	}
	wg.Wait()
}
