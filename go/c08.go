package main

// Generators for the leader-sequence component (8) and the leader-side monitors
// (C03 start index / current-term rule, C08 response pairing and indices, C09 registration, C20 restore).

type lsGen struct {
	nsGen
	ops [][]uint64
}

func (g *lsGen) encode() []uint64 {
	g.nsGen.events = g.ops
	return g.nsGen.encode()
}

func fails(fs []bool) []uint64 {
	out := []uint64{uint64(len(fs))}
	for _, f := range fs {
		out = append(out, b2u(f))
	}
	return out
}

func opDispatch(reqs [][3]uint64, fs []bool) []uint64 {
	out := []uint64{1, uint64(len(reqs))}
	for _, r := range reqs {
		out = append(out, r[0], r[1], r[2])
	}
	return append(out, fails(fs)...)
}
func opMatch(id, idx uint64) []uint64 { return []uint64{2, id, idx} }
func opCommit() []uint64              { return []uint64{3} }
func opConfig(cmd, id, ad, prev, fid uint64, fs []bool) []uint64 {
	return append([]uint64{4, cmd, id, ad, prev, fid}, fails(fs)...)
}
func opRestore(mi uint64, data []uint64, sizeOk bool, fs []bool) []uint64 {
	out := []uint64{5, mi, uint64(len(data))}
	out = append(out, data...)
	out = append(out, b2u(sizeOk))
	return append(out, fails(fs)...)
}
func opVerify() []uint64 { return []uint64{6} }

// a vote on the last verify future; the third int asks for the resolved flag (needs the Resolved hook)
func opVote(leader bool) []uint64 { return []uint64{8, b2u(leader), b2u(haveVerifResolved())} }

// a verifyLeader call followed by the verdicts of 0-5 exchanges (confirmations, sometimes a denial; more than the
// quorum needs and after a denial as well: a future handed to the leader loop takes no further votes)
func opsVerifyVotes(r *rng) [][]uint64 {
	out := [][]uint64{opVerify()}
	for k := r.intn(6); k > 0; k-- {
		out = append(out, opVote(!r.chance(1, 5)))
	}
	return out
}
func opGate() []uint64 { return []uint64{7} }

// every configuration reachable by one change from the tables must be in the table: build a closed table
func closedCfgTab() [][]srv {
	return [][]srv{
		cfgSAB, // 9000
		cfg4,   // 9001  + D voter
		cfgAnv, // 9002  A demoted
		cfg2,   // 9003  A removed
		cfgSnv, // 9004  self demoted
		{{0, 1, 1}, {0, 2, 2}, {0, 3, 3}, {1, 4, 4}},            // 9005  + D non-voter
		{{0, 2, 2}, {0, 3, 3}},                                  // 9006  self removed
		{{0, 1, 1}, {0, 2, 2}, {0, 3, 3}, {0, 4, 4}, {0, 5, 5}}, // 9007
		{{0, 1, 1}},            // 9008
		{{0, 1, 1}, {0, 2, 2}}, // 9009
	}
}

func lsRun(cw *caseWriter, tag string, in []uint64, batching bool) {
	obs, info := lsExec(in, batching)
	comp := 8
	nt := info["lop_3"] > 0
	cw.emit(tag, comp, in, obs, nt)
	for _, k := range sortedKeys(info) {
		cw.stat("ls_"+k, info[k])
	}
	lsMonitor(cw, tag, in, obs)
}

// ---------------------------------------------------------------- monitors on the observations
func lsMonitor(cw *caseWriter, tag string, in, obs []uint64) {
	parts := nsSplit(obs)
	if len(parts) == 0 || len(parts[0]) < 2 || parts[0][0] != 1 {
		return
	}
	c := nsDecode(in)
	// payload of each future id, as dispatched
	payload := map[uint64][2]uint64{} // fid -> (type, data)
	ev := c.events
	p := 0
	skipFails := func() {
		nf := int(ev[p])
		p += 1 + nf
	}
	type op struct{ kind uint64 }
	var ops []op
	for p < len(ev) {
		switch ev[p] {
		case 1:
			n := int(ev[p+1])
			p += 2
			for i := 0; i < n; i++ {
				payload[ev[p+2]] = [2]uint64{ev[p], ev[p+1]}
				p += 3
			}
			skipFails()
			ops = append(ops, op{1})
		case 2:
			p += 3
			ops = append(ops, op{2})
		case 3:
			p++
			ops = append(ops, op{3})
		case 4:
			payload[ev[p+5]] = [2]uint64{5, 0}
			p += 6
			skipFails()
			ops = append(ops, op{4})
		case 5:
			nd := int(ev[p+2])
			p += 3 + nd + 1
			skipFails()
			ops = append(ops, op{5})
		case 6, 7:
			p++
			ops = append(ops, op{ev[p-1]})
		case 8:
			p += 3
			ops = append(ops, op{8})
		default:
			p = len(ev)
		}
	}
	// initial leader state: start index
	st0 := parts[0][1:]
	ns := parseState(st0)
	if ns == nil {
		return
	}
	lastAtElection := max64(ns.sc[sLastLogIdx], ns.sc[sLastSnapIdx])
	var maxAckIdx uint64
	// number of in-flight futures and the latest configuration, from the last state seen
	inflightOf := func(st *nsState) int {
		r := st.rest
		if len(r) < 3 {
			return 0
		}
		nm := int(r[2])
		q := 3 + 2*nm
		if q >= len(r) {
			return 0
		}
		return int(r[q])
	}
	prevInflight := inflightOf(ns)
	// the node's commit index and configuration indexes as of the last state seen (the gate of membership changes reads them)
	nodeCommit, latestIdx, committedIdx := ns.sc[sCommit], ns.sc[sLatestIdx], ns.sc[sCommittedIdx]
	prevLast := lastAtElection
	prevSnap := ns.sc[sLastSnapIdx]
	latest := ns.latest
	for i, o := range parts[1:] {
		if i >= len(ops) || len(o) == 0 {
			break
		}
		k := ops[i].kind
		if o[0] != k {
			continue
		}
		var fut []uint64
		// the leader state after the op: commitment.commitIndex must be 0 or an index of this leadership
		if k >= 1 && k <= 5 {
			q := 1
			if k == 5 {
				q = 2
			}
			if k != 2 {
				nf := int(o[q])
				q += 1 + 4*nf
				q = skipTrace(o, q)
			}
			if ls := parseState(o[q:]); ls != nil && len(ls.rest) >= 2 {
				if k == 5 && o[1] != 1 {
					// restoreUserSnapshot went past its precondition: every future that was in flight must have been failed with ErrAbortedByRestore
					nf := int(o[2])
					aborted := 0
					for j := 0; j < nf; j++ {
						if o[3+4*j+2] == 6 {
							aborted++
						}
					}
					// ... and the restored snapshot takes an index above every index handed out before (in flight or not)
					if ls.sc[sLastSnapIdx] != prevSnap && ls.sc[sLastSnapIdx] <= prevLast {
						cw.monitor("C20", tag, "restored-snapshot-index-not-above-every-earlier-index", "op %d: the restore took index %d, the log already reached %d", i, ls.sc[sLastSnapIdx], prevLast)
					}
					if aborted != prevInflight {
						cw.monitor("C20", tag, "restore-did-not-abort-every-inflight-future", "op %d: %d futures were in flight when the restore ran, %d were failed with ErrAbortedByRestore", i, prevInflight, aborted)
						cw.monitor("C17", tag, "restore-left-inflight-future-unanswered", "op %d: %d futures were in flight when the restore ran, only %d were answered", i, prevInflight, aborted)
					}
				}
				prevInflight = inflightOf(ls)
				nodeCommit, latestIdx, committedIdx = ls.sc[sCommit], ls.sc[sLatestIdx], ls.sc[sCommittedIdx]
				prevLast = max64(ls.sc[sLastLogIdx], ls.sc[sLastSnapIdx])
				prevSnap = ls.sc[sLastSnapIdx]
				latest = ls.latest
				ci := ls.rest[0]
				if ci != 0 && ci <= lastAtElection {
					cw.monitor("C03", tag, "commit-index-on-old-term-entry-without-own-term-entry", "op %d: the leader's commit index moved to %d, its last index at election was %d (nothing of its own term is committed yet)", i, ci, lastAtElection)
					cw.monitor("C05", tag, "commit-index-on-old-term-entry-without-own-term-entry", "op %d: commit index %d <= last index at election %d", i, ci, lastAtElection)
				}
			}
		}
		if k == 7 && len(o) >= 2 && o[1] == 1 {
			// configurationChangeChIfStable: a membership change is taken only when the previous configuration is committed
			// AND an entry of this leader's own term (its no-op, index lastAtElection+1) is committed
			if nodeCommit <= lastAtElection {
				for _, pr := range []string{"C03", "C07"} {
					cw.monitor(pr, tag, "membership-change-accepted-before-own-term-entry-committed", "op %d: the leader would take a membership change with commit index %d; its no-op sits at index %d and is not committed", i, nodeCommit, lastAtElection+1)
				}
			}
			if latestIdx != committedIdx {
				for _, pr := range []string{"C03", "C07"} {
					cw.monitor(pr, tag, "membership-change-accepted-while-previous-uncommitted", "op %d: the leader would take a membership change while its latest configuration (index %d) is not committed (committed configuration index %d)", i, latestIdx, committedIdx)
				}
			}
		}
		if k == 6 && len(o) >= 5 {
			// VerifyLeader is registered with voters of the latest configuration only
			for _, id := range o[5 : 5+int(o[4])] {
				isVoter := false
				for _, sv := range latest {
					if sv.id == id && sv.suff == 0 {
						isVoter = true
					}
				}
				if !isVoter {
					cw.monitor("C09", tag, "verify-registered-with-non-voter", "op %d: VerifyLeader registered with server %d, which is not a voter of the latest configuration", i, id)
				}
			}
		}
		switch k {
		case 1, 3, 4:
			n := int(o[1])
			fut = o[2 : 2+4*n]
		case 5:
			n := int(o[2])
			fut = o[3 : 3+4*n]
		default:
			continue
		}
		for j := 0; j+3 < len(fut); j += 4 {
			fid, idx, code, resp := fut[j], fut[j+1], fut[j+2], fut[j+3]
			if code != 0 {
				continue
			}
			pl := payload[fid]
			// C03: nothing at or below the election-time last index is acknowledged by this leadership
			if idx <= lastAtElection {
				cw.monitor("C03", tag, "acknowledged-index-not-above-election-last-index", "future %d acknowledged at index %d, the leader's last index at election was %d", fid, idx, lastAtElection)
			}
			// C08: Response() is the FSM's answer for that very entry
			if pl[0] == 0 && resp != respOf(pl[1]) {
				cw.monitor("C08", tag, "response-of-another-entry", "future %d (payload %d) got response %d, its own is %d", fid, pl[1], resp, respOf(pl[1]))
			}
			if idx > maxAckIdx {
				maxAckIdx = idx
			}
		}
	}
}

func c08gen(cw *caseWriter, tier string, r *rng) {
	cnt := 1500
	if tier != "quick" {
		cnt = 30000
	}
	c08genN(cw, cnt, r)
}

func c08genN(cw *caseWriter, cnt int, r *rng) {
	tabs := closedCfgTab()
	// directed: a restarted server whose whole log is known committed when it becomes leader (commit index = last index = the
	// index before its no-op; commit-tracking store with RestoreCommittedLogs; since the repair of F13 its latest configuration
	// is marked committed at start-up, so the first half of the gate is open): the membership-change gate must stay closed
	// until the no-op itself is committed - asked right after the no-op is dispatched, after a match below it, after the commit
	for nold := 0; nold < 4; nold++ {
		for variant := 0; variant < 3; variant++ {
			g := &lsGen{}
			g.self, g.trailing, g.maxapp, g.cfgtab, g.term = 1, 100, 2, tabs, 3
			g.entries = [][4]uint64{{1, 1, 5, 9000}}
			for i := 0; i < nold; i++ {
				g.entries = append(g.entries, [4]uint64{uint64(2 + i), 2, 0, uint64(200 + i)})
			}
			g.track, g.rc = 1, 1
			g.pcommit = uint64(1 + nold)
			last := uint64(1+nold) + 1
			g.ops = append(g.ops, opDispatch([][3]uint64{{1, 0, 1}}, nil), opGate(), opConfig(0, 4, 4, 0, 2, nil))
			switch variant {
			case 1:
				g.ops = [][]uint64{opDispatch([][3]uint64{{1, 0, 1}}, nil), opMatch(2, last-1), opCommit(), opGate(), opConfig(0, 4, 4, 0, 2, nil)}
			case 2:
				g.ops = [][]uint64{opDispatch([][3]uint64{{1, 0, 1}}, nil), opGate(), opMatch(2, last), opCommit(), opGate(), opConfig(0, 4, 4, 0, 2, nil), opGate()}
			}
			lsRun(cw, cw.tag("Ld"), g.encode(), false)
		}
	}
	for k := 0; k < cnt; k++ {
		g := &lsGen{}
		g.self, g.trailing, g.maxapp = 1, []uint64{0, 2, 100}[r.intn(3)], uint64(1+r.intn(4))
		g.mono = uint64(r.intn(2))
		g.cfgtab = tabs
		g.term = 3
		g.entries = [][4]uint64{{1, 1, 5, 9000}}
		voters := []uint64{1, 2, 3}
		if r.chance(1, 10) {
			// a single-voter cluster: verifyLeader answers at once, commits need nobody else
			g.entries = [][4]uint64{{1, 1, 5, 9008}}
			voters = []uint64{1}
		}
		nold := r.intn(4)
		for i := 0; i < nold; i++ {
			g.entries = append(g.entries, [4]uint64{uint64(2 + i), 2, 0, uint64(200 + i)})
		}
		if r.chance(1, 8) {
			// commit-tracking store + RestoreCommittedLogs: the server starts with the durable commit index (at or above its
			// only configuration entry, which NewRaft does not promote to "committed") and stages the commit index with every StoreLogs
			g.track, g.rc = 1, 1
			g.pcommit = uint64(r.intn(nold + 2))
		}
		snapIdx := uint64(0)
		if r.chance(1, 8) {
			// the newest snapshot is ahead of the log store (installed / restored, nothing appended since):
			// dispatchLogs numbers from getLastIndex, not from the last log entry
			snapIdx = uint64(6 + r.intn(6))
			g.snaps = []nsSnap{{idx: snapIdx, term: 3, cfg: tabs[g.entries[0][3]-9000], cfgidx: 1, data: []uint64{5, 6}, ok: true}}
		}
		fid := uint64(0)
		pay := uint64(500)
		nops := 4 + r.intn(14)
		failed := false
		// the leader's own no-op first, as runLeader does
		fid++
		g.ops = append(g.ops, opDispatch([][3]uint64{{1, 0, fid}}, nil))
		last := max64(uint64(1+nold), snapIdx) + 1
		for i := 0; i < nops; i++ {
			switch x := r.intn(100); {
			case x < 30:
				n := 1 + r.intn(3)
				var reqs [][3]uint64
				for j := 0; j < n; j++ {
					fid++
					ty := uint64(0)
					switch y := r.intn(10); {
					case y < 7:
						pay++
					case y < 8:
						ty = 4 // barrier
					default:
						ty = 1 // noop
					}
					d := pay
					if ty != 0 {
						d = 0
					}
					reqs = append(reqs, [3]uint64{ty, d, fid})
				}
				if r.chance(1, 12) {
					// the store fails: the leader steps down, the case ends here
					g.ops = append(g.ops, opDispatch(reqs, []bool{true}), opGate())
					i = nops
					failed = true
					break
				}
				g.ops = append(g.ops, opDispatch(reqs, nil))
				last += uint64(n)
			case x < 60:
				id := voters[r.intn(len(voters))]
				if r.chance(1, 8) {
					id = uint64(4 + r.intn(2))
				}
				g.ops = append(g.ops, opMatch(id, uint64(r.intn(int(last)+2))))
			case x < 85:
				g.ops = append(g.ops, opCommit())
			case x < 90:
				g.ops = append(g.ops, opGate())
			case x < 93:
				g.ops = append(g.ops, opsVerifyVotes(r)...)
			case x < 97:
				fid++
				cmds := [][3]uint64{{0, 4, 4}, {1, 4, 4}, {2, 2, 0}, {3, 2, 0}}
				cm := cmds[r.intn(len(cmds))]
				g.ops = append(g.ops, opGate(), opConfig(cm[0], cm[1], cm[2], 0, fid, nil))
				last++
			default:
				g.ops = append(g.ops, opRestore(uint64(r.intn(int(last)+5)), []uint64{901, 902}, r.chance(9, 10), nil))
			}
		}
		if !failed {
			g.ops = append(g.ops, opMatch(2, last), opMatch(3, last), opCommit(), opGate())
			g.ops = append(g.ops, opsVerifyVotes(r)...)
		}
		lsRun(cw, cw.tag("L"), g.encode(), r.chance(1, 2))
	}
	cw.stat("c08_leader_sequences", cnt)
}

func runC08(cw *caseWriter, tier string, seed uint64) {
	c08gen(cw, tier, &rng{s: seed})
	if tier == "quick" {
		runScenarios(cw, 11, seed*100000, 24, 12)
		runScenarios(cw, 1, seed*100000, 80, 12)
	} else {
		runScenarios(cw, 11, seed*100000, 300, 12)
		runScenarios(cw, 1, seed*100000, 1500, 12)
	}
	runC102(cw, tier, seed, 3) // acknowledgements of Apply calls on scripted real clusters (Model/ClusterCommit.v)
}

func runC03(cw *caseWriter, tier string, seed uint64) {
	c08gen(cw, tier, &rng{s: seed})
	if tier == "quick" {
		runScenarios(cw, 1, seed*100000, 100, 12)
		runScenarios(cw, 2, seed*100000, 40, 12)
		runScenarios(cw, 13, seed*100000, 40, 12)
		runScenarios(cw, 20, seed*100000, 16, 8) // a deposed leader whose replication goroutines are still running
	} else {
		runScenarios(cw, 20, seed*100000, 300, 8)
		runScenarios(cw, 1, seed*100000, 2500, 12)
		runScenarios(cw, 2, seed*100000, 600, 12)
		runScenarios(cw, 13, seed*100000, 800, 12)
	}
	runC102(cw, tier, seed, 1)
	runC104(cw, tier, seed, 4) // snapshot transfer inside the composed cluster system (Model/ClusterSnap.v)
}

func runC09(cw *caseWriter, tier string, seed uint64) {
	c08gen(cw, tier, &rng{s: seed})
	if tier == "quick" {
		runScenarios(cw, 10, seed*100000, 100, 12)
		runScenarios(cw, 19, seed*100000, 24, 12) // two overlapping calls: each needs its own majority
	} else {
		runScenarios(cw, 10, seed*100000, 2500, 12)
		runScenarios(cw, 19, seed*100000, 400, 12)
	}
}

func runC20(cw *caseWriter, tier string, seed uint64) {
	c08gen(cw, tier, &rng{s: seed})
	c10gen(cw, tier, &rng{s: seed*59 + 3}) // the FSM goroutine's restore path (shared by InstallSnapshot and user Restore) followed by takeSnapshot
	if tier == "quick" {
		runScenarios(cw, 12, seed*100000, 60, 12)
	} else {
		runScenarios(cw, 12, seed*100000, 1500, 12)
	}
}
