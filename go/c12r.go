package main

import (
	"io"
	"sync"
	"time"

	"github.com/hashicorp/raft"
)

// component 12 — the leader side of catch-up (replication.go replicateTo) on a REAL stepper leader,
// against a scripted follower: the script says what the follower answers to each request
// (success / rejection with its last index / higher term / transport error, for AppendEntries and
// InstallSnapshot).  Compared with Model/Replicate.v: every request sent (previous entry, first and
// last index and number of entries, commit index; or the snapshot sent), then nextIndex,
// failures, the index reported to the commitment, and what replicateTo returned.
//
//	input : header + image as components 6/8 ; calls: next0 last nanswers answers...
//	answer: 0 = transport error | 1 term lastLog success noRetry | 2 term success
//
// Monitor (the property's "catch-up makes progress"): within one replicateTo call the same
// AppendEntries (same previous index) is never sent twice after a rejection that allowed progress
// (follower's last index below the previous index sent).

type rpPeer struct {
	mu      sync.Mutex
	answers [][]uint64
	used    [][]uint64
	sent    [][]uint64
}

func (p *rpPeer) serve(t *raft.InmemTransport, stop chan struct{}) {
	for {
		select {
		case rpc := <-t.Consumer():
			p.mu.Lock()
			var a []uint64
			if len(p.answers) > 0 {
				a, p.answers = p.answers[0], p.answers[1:]
			}
			switch q := rpc.Command.(type) {
			case *raft.AppendEntriesRequest:
				first, last := uint64(0), uint64(0)
				if len(q.Entries) > 0 {
					first, last = q.Entries[0].Index, q.Entries[len(q.Entries)-1].Index
				}
				p.sent = append(p.sent, []uint64{1, q.PrevLogEntry, q.PrevLogTerm, uint64(len(q.Entries)), first, last, q.LeaderCommitIndex})
				if a == nil || a[0] != 1 {
					a = []uint64{0}
				}
				p.used = append(p.used, a)
				p.mu.Unlock()
				if a[0] == 0 {
					rpc.Respond(nil, errInjected)
				} else {
					rpc.Respond(&raft.AppendEntriesResponse{RPCHeader: raft.RPCHeader{ProtocolVersion: 3}, Term: a[1], LastLog: a[2], Success: a[3] != 0, NoRetryBackoff: a[4] != 0}, nil)
				}
			case *raft.InstallSnapshotRequest:
				if rpc.Reader != nil {
					io.Copy(io.Discard, rpc.Reader)
				}
				p.sent = append(p.sent, []uint64{2, q.LastLogIndex, q.LastLogTerm})
				if a == nil || a[0] != 2 {
					a = []uint64{0}
				}
				p.used = append(p.used, a)
				p.mu.Unlock()
				if a[0] == 0 {
					rpc.Respond(nil, errInjected)
				} else {
					rpc.Respond(&raft.InstallSnapshotResponse{RPCHeader: raft.RPCHeader{ProtocolVersion: 3}, Term: a[1], Success: a[2] != 0}, nil)
				}
			default:
				p.mu.Unlock()
				rpc.Respond(nil, errInjected)
			}
		case <-stop:
			return
		}
	}
}

type rpCall struct {
	next0, last uint64
	answers     [][]uint64
}

func rpExec(cw *caseWriter, tag string, head []uint64, calls []rpCall) {
	c := nsDecode(head)
	img := c.buildImage()
	nn := &nsNode{c: c, orc: &oracle{}}
	img.logs.orc, img.stable.orc, img.snaps.orc = nn.orc, nn.orc, nn.orc
	o := nodeOpts{id: c.self, trailing: c.trailing, maxAppend: int(c.maxapp), monotonic: c.mono != 0,
		restoreCommit: c.rc != 0, track: c.track != 0}
	n, err := newNode(o, img.logs, img.stable, img.snaps)
	in := append([]uint64(nil), head...)
	if err != nil {
		cw.emit(tag, 12, in, []uint64{0}, false)
		return
	}
	nn.node = n
	nn.up = true
	defer nn.kill()
	n.r.VerifStartFSM()
	nn.waitFSM(0, true)
	n.r.VerifSetState(raft.Leader)
	n.r.VerifSetLeader(addrStr(c.self), idStr(c.self))
	n.r.VerifSetupLeaderState()
	peerID := uint64(2)
	n.r.VerifAddReplState(raft.Server{Suffrage: raft.Voter, ID: idStr(peerID), Address: addrStr(peerID)}, time.Now())
	_, pt := raft.NewInmemTransport(addrStr(peerID))
	n.trans.Connect(addrStr(peerID), pt)
	peer := &rpPeer{}
	stop := make(chan struct{})
	go peer.serve(pt, stop)
	defer close(stop)
	obs := []uint64{1}
	nontrivial := false
	for _, cl := range calls {
		peer.mu.Lock()
		peer.answers, peer.used, peer.sent = cl.answers, nil, nil
		peer.mu.Unlock()
		// a fresh leader state per call: the commitment starts with no report from the follower
		n.r.VerifSetupLeaderState()
		n.r.VerifAddReplState(raft.Server{Suffrage: raft.Voter, ID: idStr(peerID), Address: addrStr(peerID)}, time.Now())
		n.r.VerifSetReplNext(idStr(peerID), cl.next0)
		ret := n.r.VerifReplicateTo(idStr(peerID), cl.last)
		next, failures := n.r.VerifReplNext(idStr(peerID))
		match := n.r.VerifNodeState().Match[idStr(peerID)]
		peer.mu.Lock()
		used, sent := peer.used, peer.sent
		peer.mu.Unlock()
		// the call as executed: the answers actually consumed (a missing answer was a transport error)
		in = append(in, cl.next0, cl.last, uint64(len(used)))
		for _, a := range used {
			in = append(in, a...)
		}
		var out []uint64
		for _, s := range sent {
			out = append(out, s...)
		}
		retCode := uint64(0)
		if ret {
			retCode = 1
		}
		out = append(out, 9, next, failures, match, retCode)
		obs = append(obs, uint64(len(out)))
		obs = append(obs, out...)
		if len(sent) >= 2 {
			nontrivial = true
		}
		// monitor: progress
		for i := 1; i < len(sent); i++ {
			a, b, ans := sent[i-1], sent[i], used[i-1]
			if a[0] == 1 && b[0] == 1 && ans[0] == 1 && ans[3] == 0 && ans[1] <= c.term && a[1] > 0 && b[1] >= a[1] && b[4] >= a[4] && a[4] != 0 {
				cw.monitor("C12", tag, "rejected-appendentries-resent-without-progress", "call next=%d last=%d: AppendEntries with previous index %d was rejected (follower last index %d) and the next request again has previous index %d", cl.next0, cl.last, a[1], ans[2], b[1])
				break
			}
		}
	}
	cw.emit(tag, 12, in, obs, nontrivial)
}

func c12replay(cw *caseWriter, tag string, in []uint64) {
	c := nsDecode(in)
	head := in[:len(in)-len(c.events)]
	var calls []rpCall
	r := c.events
	for len(r) >= 3 {
		cl := rpCall{next0: r[0], last: r[1]}
		na := int(r[2])
		r = r[3:]
		for i := 0; i < na && len(r) > 0; i++ {
			l := map[uint64]int{0: 1, 1: 5, 2: 3}[r[0]]
			if l == 0 || l > len(r) {
				r = nil
				break
			}
			cl.answers = append(cl.answers, r[:l])
			r = r[l:]
		}
		calls = append(calls, cl)
	}
	rpExec(cw, tag, head, calls)
}

func runC12repl(cw *caseWriter, tier string, r *rng) {
	cnt := 600
	if tier != "quick" {
		cnt = 12000
	}
	tabs := closedCfgTab()
	for k := 0; k < cnt; k++ {
		g := &nsGen{}
		g.self, g.trailing, g.maxapp = 1, 100, uint64(1+r.intn(4))
		g.cfgtab = tabs
		g.term = uint64(3 + r.intn(2))
		// the leader's log: configuration entry, then entries with non-decreasing terms; optionally compacted below a snapshot
		n := 3 + r.intn(8)
		t := uint64(1)
		all := [][4]uint64{{1, 1, 5, 9000}}
		for i := 2; i <= n; i++ {
			if r.chance(1, 3) && t < g.term {
				t++
			}
			all = append(all, [4]uint64{uint64(i), t, 0, uint64(200 + i)})
		}
		snapAt := 0
		if r.chance(1, 2) {
			snapAt = 1 + r.intn(n-1)
			g.snaps = []nsSnap{{idx: uint64(snapAt), term: all[snapAt-1][1], cfg: tabs[0], cfgidx: 1, data: []uint64{7}, ok: true}}
			keep := r.intn(2) // entries kept below the snapshot
			lo := snapAt - keep
			if lo < 1 {
				lo = 1
			}
			g.entries = all[lo:]
			if lo > 1 || keep == 0 {
				g.entries = all[lo:]
			}
		} else {
			g.entries = all
		}
		var calls []rpCall
		for c := 0; c < 1+r.intn(3); c++ {
			cl := rpCall{next0: uint64(1 + r.intn(n+1)), last: uint64(1 + r.intn(n))}
			na := 1 + r.intn(7)
			for i := 0; i < na; i++ {
				switch x := r.intn(100); {
				case x < 8:
					cl.answers = append(cl.answers, []uint64{0})
				case x < 45:
					cl.answers = append(cl.answers, []uint64{1, g.term, 0, 1, 0})
				case x < 88:
					cl.answers = append(cl.answers, []uint64{1, g.term - uint64(r.intn(2)), uint64(r.intn(n + 2)), 0, b2u(r.chance(5, 6))})
				case x < 92:
					cl.answers = append(cl.answers, []uint64{1, g.term + 1, 0, 0, 0})
				case x < 97:
					cl.answers = append(cl.answers, []uint64{2, g.term, b2u(r.chance(4, 5))})
				default:
					cl.answers = append(cl.answers, []uint64{2, g.term + 1, 0})
				}
			}
			// make the kind of answer fit the request where the script can know it: the harness
			// turns an answer of the wrong kind into a transport error and records that
			calls = append(calls, cl)
		}
		rpExec(cw, cw.tag("R"), g.encode(), calls)
	}
	cw.stat("c12_replicate_sequences", cnt)
}
