package main

import (
	"io"
	"sync"
	"time"

	"github.com/hashicorp/raft"
)

// component 12 — the leader side of catch-up (replication.go replicateTo) on a REAL stepper leader,
// against a scripted follower: the script says what the follower answers to each request
// (success / rejection with its last index / higher term / transport error, for AppendEntries and
// InstallSnapshot).  Compared with Model/Replicate.v: every request sent (previous entry, first and
// last index and number of entries, commit index; or the snapshot sent), then nextIndex,
// failures, the index reported to the commitment, and what replicateTo returned.
//
//	input : header + image as components 6/8 ; calls: next0 last nanswers answers...
//	answer: 0 = transport error | 1 term lastLog success noRetry | 2 term success
//
// Monitor (the property's "catch-up makes progress"): within one replicateTo call the same
// AppendEntries (same previous index) is never sent twice after a rejection that allowed progress
// (follower's last index below the previous index sent).

type rpPeer struct {
	mu      sync.Mutex
	answers [][]uint64
	used    [][]uint64
	sent    [][]uint64
}

func (p *rpPeer) serve(t *raft.InmemTransport, stop chan struct{}) {
	for {
		select {
		case rpc := <-t.Consumer():
			p.mu.Lock()
			var a []uint64
			if len(p.answers) > 0 {
				a, p.answers = p.answers[0], p.answers[1:]
			}
			switch q := rpc.Command.(type) {
			case *raft.AppendEntriesRequest:
				first, last := uint64(0), uint64(0)
				if len(q.Entries) > 0 {
					first, last = q.Entries[0].Index, q.Entries[len(q.Entries)-1].Index
				}
				p.sent = append(p.sent, []uint64{1, q.PrevLogEntry, q.PrevLogTerm, uint64(len(q.Entries)), first, last, q.LeaderCommitIndex})
				if a == nil || a[0] != 1 {
					a = []uint64{0}
				}
				p.used = append(p.used, a)
				p.mu.Unlock()
				if a[0] == 0 {
					rpc.Respond(nil, errInjected)
				} else {
					rpc.Respond(&raft.AppendEntriesResponse{RPCHeader: raft.RPCHeader{ProtocolVersion: 3}, Term: a[1], LastLog: a[2], Success: a[3] != 0, NoRetryBackoff: a[4] != 0}, nil)
				}
			case *raft.InstallSnapshotRequest:
				if rpc.Reader != nil {
					io.Copy(io.Discard, rpc.Reader)
				}
				p.sent = append(p.sent, []uint64{2, q.LastLogIndex, q.LastLogTerm})
				if a == nil || a[0] != 2 {
					a = []uint64{0}
				}
				p.used = append(p.used, a)
				p.mu.Unlock()
				if a[0] == 0 {
					rpc.Respond(nil, errInjected)
				} else {
					rpc.Respond(&raft.InstallSnapshotResponse{RPCHeader: raft.RPCHeader{ProtocolVersion: 3}, Term: a[1], Success: a[2] != 0}, nil)
				}
			default:
				p.mu.Unlock()
				rpc.Respond(nil, errInjected)
			}
		case <-stop:
			return
		}
	}
}

type rpCall struct {
	next0, last uint64
	answers     [][]uint64
}

func rpExec(cw *caseWriter, tag string, head []uint64, calls []rpCall) {
	c := nsDecode(head)
	img := c.buildImage()
	nn := &nsNode{c: c, orc: &oracle{}}
	img.logs.orc, img.stable.orc, img.snaps.orc = nn.orc, nn.orc, nn.orc
	o := nodeOpts{id: c.self, trailing: c.trailing, maxAppend: int(c.maxapp), monotonic: c.mono != 0,
		restoreCommit: c.rc != 0, track: c.track != 0}
	n, err := newNode(o, img.logs, img.stable, img.snaps)
	in := append([]uint64(nil), head...)
	if err != nil {
		cw.emit(tag, 12, in, []uint64{0}, false)
		return
	}
	nn.node = n
	nn.up = true
	defer nn.kill()
	n.r.VerifStartFSM()
	nn.waitFSM(0, true)
	n.r.VerifSetState(raft.Leader)
	n.r.VerifSetLeader(addrStr(c.self), idStr(c.self))
	n.r.VerifSetupLeaderState()
	peerID := uint64(2)
	n.r.VerifAddReplState(raft.Server{Suffrage: raft.Voter, ID: idStr(peerID), Address: addrStr(peerID)}, time.Now())
	_, pt := raft.NewInmemTransport(addrStr(peerID))
	n.trans.Connect(addrStr(peerID), pt)
	peer := &rpPeer{}
	stop := make(chan struct{})
	go peer.serve(pt, stop)
	defer close(stop)
	obs := []uint64{1}
	nontrivial := false
	for _, cl := range calls {
		peer.mu.Lock()
		peer.answers, peer.used, peer.sent = cl.answers, nil, nil
		peer.mu.Unlock()
		// a fresh leader state per call: the commitment starts with no report from the follower
		n.r.VerifSetupLeaderState()
		n.r.VerifAddReplState(raft.Server{Suffrage: raft.Voter, ID: idStr(peerID), Address: addrStr(peerID)}, time.Now())
		n.r.VerifSetReplNext(idStr(peerID), cl.next0)
		ret := n.r.VerifReplicateTo(idStr(peerID), cl.last)
		next, failures := n.r.VerifReplNext(idStr(peerID))
		match := n.r.VerifNodeState().Match[idStr(peerID)]
		peer.mu.Lock()
		used, sent := peer.used, peer.sent
		peer.mu.Unlock()
		// the call as executed: the answers actually consumed (a missing answer was a transport error)
		in = append(in, cl.next0, cl.last, uint64(len(used)))
		for _, a := range used {
			in = append(in, a...)
		}
		var out []uint64
		for _, s := range sent {
			out = append(out, s...)
		}
		retCode := uint64(0)
		if ret {
			retCode = 1
		}
		out = append(out, 9, next, failures, match, retCode)
		obs = append(obs, uint64(len(out)))
		obs = append(obs, out...)
		if len(sent) >= 2 {
			nontrivial = true
		}
		// monitor: progress
		for i := 1; i < len(sent); i++ {
			a, b, ans := sent[i-1], sent[i], used[i-1]
			if a[0] == 1 && b[0] == 1 && ans[0] == 1 && ans[3] == 0 && ans[1] <= c.term && a[1] > 0 && b[1] >= a[1] && b[4] >= a[4] && a[4] != 0 {
				cw.monitor("C12", tag, "rejected-appendentries-resent-without-progress", "call next=%d last=%d: AppendEntries with previous index %d was rejected (follower last index %d) and the next request again has previous index %d", cl.next0, cl.last, a[1], ans[2], b[1])
				break
			}
		}
	}
	cw.emit(tag, 12, in, obs, nontrivial)
}

func c12replay(cw *caseWriter, tag string, in []uint64) {
	c := nsDecode(in)
	head := in[:len(in)-len(c.events)]
	var calls []rpCall
	r := c.events
	for len(r) >= 3 {
		cl := rpCall{next0: r[0], last: r[1]}
		na := int(r[2])
		r = r[3:]
		for i := 0; i < na && len(r) > 0; i++ {
			l := map[uint64]int{0: 1, 1: 5, 2: 3}[r[0]]
			if l == 0 || l > len(r) {
				r = nil
				break
			}
			cl.answers = append(cl.answers, r[:l])
			r = r[l:]
		}
		calls = append(calls, cl)
	}
	rpExec(cw, tag, head, calls)
}

func runC12repl(cw *caseWriter, tier string, r *rng) {
	cnt := 600
	if tier != "quick" {
		cnt = 12000
	}
	tabs := closedCfgTab()
	for k := 0; k < cnt; k++ {
		g := &nsGen{}
		g.self, g.trailing, g.maxapp = 1, 100, uint64(1+r.intn(4))
		g.cfgtab = tabs
		g.term = uint64(3 + r.intn(2))
		// the leader's log: configuration entry, then entries with non-decreasing terms; optionally compacted below a snapshot
		n := 3 + r.intn(8)
		t := uint64(1)
		all := [][4]uint64{{1, 1, 5, 9000}}
		for i := 2; i <= n; i++ {
			if r.chance(1, 3) && t < g.term {
				t++
			}
			all = append(all, [4]uint64{uint64(i), t, 0, uint64(200 + i)})
		}
		snapAt := 0
		lo := 0 // the log store holds lo+1..n
		if r.chance(1, 2) {
			snapAt = 1 + r.intn(n-1)
			g.snaps = []nsSnap{{idx: uint64(snapAt), term: all[snapAt-1][1], cfg: tabs[0], cfgidx: 1, data: []uint64{7}, ok: true}}
			keep := r.intn(2) // entries kept below the snapshot
			lo = snapAt - keep
			if lo < 1 {
				lo = 1
			}
			if r.chance(1, 4) {
				lo = 0 // nothing compacted yet (TrailingLogs): the log still starts at entry 1
			}
			g.entries = all[lo:]
		} else {
			g.entries = all
		}
		var calls []rpCall
		for c := 0; c < 1+r.intn(3); c++ {
			cl := rpCall{next0: uint64(1 + r.intn(n+1)), last: uint64(1 + r.intn(n))}
			if r.chance(1, 6) {
				cl.next0 = 1 // nextIndex 1: the previous entry is (0,0) whatever the snapshot says
			}
			na := 1 + r.intn(7)
			if snapAt > 0 && int(cl.next0) <= lo {
				// the entries needed were compacted away: the snapshot is sent; the follower refuses it a few times (the call goes on
				// while nextIndex <= last), then takes it (nextIndex and the match move past it), answers with a newer term, or the transfer fails
				for k := r.intn(3); k > 0; k-- {
					cl.answers = append(cl.answers, []uint64{2, g.term, 0})
				}
				switch x := r.intn(10); {
				case x < 7:
					cl.answers = append(cl.answers, []uint64{2, g.term, 1})
				case x < 8:
					cl.answers = append(cl.answers, []uint64{2, g.term + 1, 0})
				case x < 9:
					cl.answers = append(cl.answers, []uint64{0})
				}
			}
			for i := 0; i < na; i++ {
				switch x := r.intn(100); {
				case x < 8:
					cl.answers = append(cl.answers, []uint64{0})
				case x < 45:
					cl.answers = append(cl.answers, []uint64{1, g.term, 0, 1, 0})
				case x < 88:
					cl.answers = append(cl.answers, []uint64{1, g.term - uint64(r.intn(2)), uint64(r.intn(n + 2)), 0, b2u(r.chance(5, 6))})
				case x < 92:
					cl.answers = append(cl.answers, []uint64{1, g.term + 1, 0, 0, 0})
				case x < 97:
					cl.answers = append(cl.answers, []uint64{2, g.term, b2u(r.chance(4, 5))})
				default:
					cl.answers = append(cl.answers, []uint64{2, g.term + 1, 0})
				}
			}
			// make the kind of answer fit the request where the script can know it: the harness
			// turns an answer of the wrong kind into a transport error and records that
			calls = append(calls, cl)
		}
		rpExec(cw, cw.tag("R"), g.encode(), calls)
	}
	cw.stat("c12_replicate_sequences", cnt)
}

// ---------------------------------------------------------------- component 1201: both sides real
// A real stepper leader and a real stepper follower joined by an in-memory transport: one
// replicateTo(last) call; compared with Model/Converge.v (cu_run): the leader's nextIndex and match,
// the number of AppendEntries the follower handled, and the follower's log afterwards.
func cvExec(cw *caseWriter, tag string, in []uint64) {
	maxapp, T := in[0], in[1]
	p := 2
	readEntries := func() [][4]uint64 {
		n := int(in[p])
		p++
		var es [][4]uint64
		for i := 0; i < n; i++ {
			es = append(es, [4]uint64{in[p], in[p+1], in[p+2], in[p+3]})
			p += 4
		}
		return es
	}
	esL := readEntries()
	esF := readEntries()
	next0 := in[p]
	mk := func(id uint64, es [][4]uint64) *node {
		logs, stable, snaps := NewMapLogStore(nil), NewMapStable(), NewSnapStore()
		for _, e := range es {
			logs.m[e[0]] = mkLog(e[0], e[1], e[2], e[3])
		}
		stable.kvInt["CurrentTerm"] = T
		n, err := newNode(nodeOpts{id: id, trailing: 100, maxAppend: int(maxapp)}, logs, stable, snaps)
		if err != nil {
			return nil
		}
		n.r.VerifStartFSM()
		return n
	}
	ld, fl := mk(1, esL), mk(2, esF)
	if ld == nil || fl == nil {
		cw.emit(tag, 1201, in, []uint64{0}, false)
		return
	}
	defer ld.shutdown()
	defer fl.shutdown()
	ld.r.VerifSetState(raft.Leader)
	ld.r.VerifSetLeader(addrStr(1), idStr(1))
	ld.r.VerifSetupLeaderState()
	ld.r.VerifAddReplState(raft.Server{Suffrage: raft.Voter, ID: idStr(2), Address: addrStr(2)}, time.Now())
	ld.trans.Connect(addrStr(2), fl.trans)
	trips := uint64(0)
	panicked := false
	runaway := false
	var lastL uint64
	for _, e := range esL {
		if e[0] > lastL {
			lastL = e[0]
		}
	}
	bound := 4*(next0+lastL) + 8
	stop := make(chan struct{})
	done := make(chan struct{})
	go func() {
		defer close(done)
		for {
			select {
			case rpc := <-fl.trans.Consumer():
				func() {
					defer func() {
						if x := recover(); x != nil {
							panicked = true
							rpc.Respond(nil, errInjected)
						}
					}()
					if _, ok := rpc.Command.(*raft.AppendEntriesRequest); ok {
						trips++
						if trips == bound {
							// far more trips than the bound proved for the model: stop the loop (replicateTo returns at its next check)
							runaway = true
							ld.r.VerifStopRepl(idStr(2))
						}
					}
					resp, err := fl.r.VerifProcessRPC(rpc.Command, rpc.Reader)
					rpc.Respond(resp, err)
				}()
			case <-stop:
				return
			}
		}
	}()
	var last uint64
	for _, e := range esL {
		if e[0] > last {
			last = e[0]
		}
	}
	ld.r.VerifSetReplNext(idStr(2), next0)
	ld.r.VerifReplicateTo(idStr(2), last)
	close(stop)
	<-done
	if runaway {
		cw.emit(tag, 1201, in, []uint64{2, trips}, true)
		cw.monitor("C12", tag, "replicateto-makes-no-progress", "replicateTo(%d) from nextIndex %d was still sending after %d AppendEntries (the model ends within %d)", lastL, next0, trips, next0+lastL)
		return
	}
	if panicked {
		cw.emit(tag, 1201, in, []uint64{0}, false)
		return
	}
	next, _ := ld.r.VerifReplNext(idStr(2))
	es := fl.logs.Entries()
	obs := []uint64{1, next, trips, uint64(len(es))}
	for _, l := range es {
		obs = append(obs, l.Index, l.Term)
	}
	cw.emit(tag, 1201, in, obs, trips >= 2)
	// the property itself: after the call the follower holds the leader's terms at every index
	byIdx := map[uint64]uint64{}
	for _, l := range es {
		byIdx[l.Index] = l.Term
	}
	for _, e := range esL {
		if byIdx[e[0]] != e[1] {
			cw.monitor("C12", tag, "follower-not-caught-up-after-replicateto", "after replicateTo(%d) the follower holds term %d at index %d, the leader term %d", last, byIdx[e[0]], e[0], e[1])
			break
		}
	}
}

func runC12converge(cw *caseWriter, tier string, r *rng) {
	cnt := 400
	if tier != "quick" {
		cnt = 8000
	}
	genLog := func(n int, maxT uint64) [][4]uint64 {
		var es [][4]uint64
		t := uint64(1)
		for i := 1; i <= n; i++ {
			if r.chance(1, 3) && t < maxT {
				t++
			}
			es = append(es, [4]uint64{uint64(i), t, 0, uint64(1000*int(t) + i)})
		}
		return es
	}
	for k := 0; k < cnt; k++ {
		T := uint64(3 + r.intn(2))
		nL := 1 + r.intn(9)
		esL := genLog(nL, T)
		var esF [][4]uint64
		switch r.intn(4) {
		case 0: // a prefix of the leader's log
			esF = append(esF, esL[:r.intn(nL+1)]...)
		case 1: // shares a prefix, then diverges (possibly longer)
			cut := r.intn(nL + 1)
			esF = append(esF, esL[:cut]...)
			t := uint64(1)
			if cut > 0 {
				t = esL[cut-1][1]
			}
			for i := cut + 1; i <= cut+r.intn(6); i++ {
				if r.chance(1, 3) && t < T {
					t++
				}
				esF = append(esF, [4]uint64{uint64(i), t, 0, uint64(7000 + i)})
			}
		default: // an unrelated log
			esF = genLog(r.intn(12), T)
		}
		// the Log Matching premise (real histories satisfy it: C04): where the follower's log
		// coincides with the leader's term at an index it coincides below that index as well
		for i := len(esF) - 1; i >= 0; i-- {
			if i < len(esL) && esF[i][1] == esL[i][1] {
				copy(esF[:i+1], esL[:i+1])
				break
			}
		}
		in := []uint64{uint64(1 + r.intn(4)), T, uint64(len(esL))}
		for _, e := range esL {
			in = append(in, e[0], e[1], e[2], e[3])
		}
		in = append(in, uint64(len(esF)))
		for _, e := range esF {
			in = append(in, e[0], e[1], e[2], e[3])
		}
		in = append(in, uint64(1+r.intn(nL)))
		cvExec(cw, cw.tag("V"), in)
	}
	cw.stat("c12_converge_pairs", cnt)
}
