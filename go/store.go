package main

import (
	"errors"
	"sort"
	"sync"

	"github.com/hashicorp/raft"
)

// MapLogStore is the reference log store of the harness (model: Model/LogCache.v ms_backend,
// Model/Store.v): a map from index to entry; FirstIndex/LastIndex are the least/greatest key
// (0 when empty); each mutating call consumes one failure bit, a failing call has no effect.
type MapLogStore struct {
	mu        sync.Mutex
	m         map[uint64]*raft.Log
	orc       *oracle // one failure bit per StoreLogs / DeleteRange
	monotonic bool
	ops       []storeOp // op log (mutating calls only)
	onOp      func(op storeOp)
	// commit tracking (CommitTrackingLogStore contract): staged value becomes durable with the
	// next successful StoreLogs
	staged, pcommit uint64
	onStage         func(c uint64)
}

// oracle: the failure bits of a case, shared by all stores of a node and consumed in call order
type oracle struct {
	mu   sync.Mutex
	bits []bool
}

func (o *oracle) next() bool {
	if o == nil {
		return false
	}
	o.mu.Lock()
	defer o.mu.Unlock()
	if len(o.bits) == 0 {
		return false
	}
	f := o.bits[0]
	o.bits = o.bits[1:]
	return f
}

type storeOp struct {
	kind   string // "store" | "delete"
	lo, hi uint64
	logs   []*raft.Log
	failed bool
}

var errInjected = errors.New("injected store failure")

func NewMapLogStore(fails []bool) *MapLogStore {
	return &MapLogStore{m: map[uint64]*raft.Log{}, orc: &oracle{bits: fails}}
}

func (s *MapLogStore) nextFail() bool { return s.orc.next() }

func (s *MapLogStore) FirstIndex() (uint64, error) {
	s.mu.Lock()
	defer s.mu.Unlock()
	var min uint64
	for k := range s.m {
		if min == 0 || k < min {
			min = k
		}
	}
	return min, nil
}

func (s *MapLogStore) LastIndex() (uint64, error) {
	s.mu.Lock()
	defer s.mu.Unlock()
	var max uint64
	for k := range s.m {
		if k > max {
			max = k
		}
	}
	return max, nil
}

func (s *MapLogStore) GetLog(idx uint64, log *raft.Log) error {
	s.mu.Lock()
	defer s.mu.Unlock()
	l, ok := s.m[idx]
	if !ok {
		return raft.ErrLogNotFound
	}
	*log = *l
	return nil
}

func (s *MapLogStore) StoreLog(log *raft.Log) error { return s.StoreLogs([]*raft.Log{log}) }

func (s *MapLogStore) StoreLogs(logs []*raft.Log) error {
	s.mu.Lock()
	failed := s.nextFail()
	cp := make([]*raft.Log, len(logs))
	for i, l := range logs {
		c := *l
		cp[i] = &c
	}
	op := storeOp{kind: "store", logs: cp, failed: failed}
	s.ops = append(s.ops, op)
	if !failed {
		for _, l := range cp {
			s.m[l.Index] = l
		}
		s.pcommit = s.staged
	}
	s.mu.Unlock()
	if s.onOp != nil {
		s.onOp(op)
	}
	if failed {
		return errInjected
	}
	return nil
}

func (s *MapLogStore) DeleteRange(min, max uint64) error {
	s.mu.Lock()
	failed := s.nextFail()
	op := storeOp{kind: "delete", lo: min, hi: max, failed: failed}
	s.ops = append(s.ops, op)
	if !failed {
		for k := range s.m {
			if min <= k && k <= max {
				delete(s.m, k)
			}
		}
	}
	s.mu.Unlock()
	if s.onOp != nil {
		s.onOp(op)
	}
	if failed {
		return errInjected
	}
	return nil
}

// TrackLogStore adds the CommitTrackingLogStore methods to a MapLogStore.
type TrackLogStore struct{ *MapLogStore }

func (t TrackLogStore) StageCommitIndex(idx uint64) error {
	t.mu.Lock()
	t.staged = idx
	t.mu.Unlock()
	if t.onStage != nil {
		t.onStage(idx)
	}
	return nil
}

func (t TrackLogStore) GetCommitIndex() (uint64, error) {
	t.mu.Lock()
	defer t.mu.Unlock()
	return t.pcommit, nil
}

func (s *MapLogStore) IsMonotonic() bool { return s.monotonic }

// sorted snapshot of the contents
func (s *MapLogStore) Entries() []*raft.Log {
	s.mu.Lock()
	defer s.mu.Unlock()
	out := make([]*raft.Log, 0, len(s.m))
	for _, l := range s.m {
		out = append(out, l)
	}
	sort.Slice(out, func(i, j int) bool { return out[i].Index < out[j].Index })
	return out
}

func (s *MapLogStore) Clone() *MapLogStore {
	s.mu.Lock()
	defer s.mu.Unlock()
	n := NewMapLogStore(nil)
	n.monotonic = s.monotonic
	n.staged = s.pcommit // a staged-but-unpersisted value does not survive a crash
	n.pcommit = s.pcommit
	for k, v := range s.m {
		c := *v
		n.m[k] = &c
	}
	return n
}
