package main

// C07 (node level): configuration entries in a follower's log — appended, truncated together with
// a conflicting suffix, committed — on a real server through processRPC; monitor: the latest
// configuration a server uses is always one its log (or snapshot) holds.

var (
	cfg4   = []srv{{0, 1, 1}, {0, 2, 2}, {0, 3, 3}, {0, 4, 4}} // + D voter
	cfgAnv = []srv{{0, 1, 1}, {1, 2, 2}, {0, 3, 3}}            // A demoted
	cfg2   = []srv{{0, 1, 1}, {0, 3, 3}}                       // A removed
	cfgSnv = []srv{{1, 1, 1}, {0, 2, 2}, {0, 3, 3}}            // self demoted
)

func eqSrvs(a, b []srv) bool {
	if len(a) != len(b) {
		return false
	}
	for i := range a {
		if a[i] != b[i] {
			return false
		}
	}
	return true
}

func c07nMonitor(cw *caseWriter) func(tag string, in, obs []uint64) {
	return func(tag string, in, obs []uint64) {
		c := nsDecode(in)
		parts := nsSplit(obs)
		evs := nsEvents(in)
		for i, o := range parts {
			var st *nsState
			switch {
			case len(o) > 0 && o[0] == 1:
				st = parseState(stateOfBoot(o))
			case len(o) > 0 && o[0] == 10 && i >= 1 && i-1 < len(evs):
				k := evs[i-1].kind
				if k == 8 {
					continue
				}
				nresp := map[uint64]int{1: 2, 2: 2, 3: 5, 4: 3, 5: 0, 6: 5}[k]
				st = parseState(o[skipTrace(o, 1+nresp):])
			case len(o) > 0 && (o[0] == 20 || o[0] == 30):
				st = parseState(stateOfBoot(o[1:]))
			}
			if st == nil {
				continue
			}
			L := st.sc[sLatestIdx]
			if L > st.sc[sLastSnapIdx] && L != 0 {
				found := false
				for _, e := range st.log {
					if e[0] == L && e[2] == 5 {
						if cfg, ok := c.cfgtab[e[3]]; ok && eqSrvs(cfg, st.latest) {
							found = true
						}
					}
				}
				if !found {
					cw.monitor("C07", tag, "latest-configuration-not-in-log", "after event %d: latest configuration index %d names no matching configuration entry of the log", i-1, L)
				}
			}
			if st.sc[sCommittedIdx] > L {
				cw.monitor("C07", tag, "committed-configuration-above-latest", "after event %d: committed %d > latest %d", i-1, st.sc[sCommittedIdx], L)
			}
		}
	}
}

func c07nGen(cw *caseWriter, tier string, r *rng) {
	tabs := [][]srv{cfgSAB, cfg4, cfgAnv, cfg2, cfgSnv}
	n := 0
	mk := func(idx, term, ty, id uint64) [4]uint64 { return [4]uint64{idx, term, ty, id} }
	den := 3
	if tier != "quick" {
		den = 1
	}
	// follower log: cfg0@1(t1) cmd@2(t1) [X@3(t2)] [Y@4(t2)] where X, Y are commands or configurations
	for x := 0; x <= 5; x++ { // 0: none, 1: command, 2..5: configuration tabs[x-1]
		for y := 0; y <= 2; y++ { // 0: none, 1: command, 2: configuration cfg2
			if x == 0 && y != 0 {
				continue
			}
			if x >= 2 && y == 2 {
				continue // two uncommitted configurations in one log: not reachable (the leader-side gate)
			}
			for commit := uint64(0); commit <= 2; commit++ {
				// request: prev (p), then entries of term 3 starting at p+1: first is command or configuration
				for p := uint64(1); p <= 4; p++ {
					for first := 0; first <= 2; first++ { // 0 command, 1 configuration cfg4, 2 heartbeat-like (no entries)
						for _, lc := range []uint64{0, 3, 6} {
							if den > 1 && r.intn(den) != 0 {
								continue
							}
							g := &nsGen{self: 1, trailing: 100, maxapp: 4, cfgtab: tabs}
							g.term = 3
							g.entries = [][4]uint64{mk(1, 1, 5, 9000), mk(2, 1, 0, 102)}
							if x == 1 {
								g.entries = append(g.entries, mk(3, 2, 0, 203))
							} else if x >= 2 {
								g.entries = append(g.entries, mk(3, 2, 5, uint64(9000+x-1)))
							}
							if y == 1 {
								g.entries = append(g.entries, mk(4, 2, 0, 204))
							} else if y == 2 {
								g.entries = append(g.entries, mk(4, 2, 5, 9003))
							}
							last := uint64(len(g.entries))
							if p > last || p < commit {
								continue // entries at or below the commit index never conflict in a reachable state
							}
							pt := g.entries[p-1][1]
							var es [][4]uint64
							if first == 0 {
								es = [][4]uint64{mk(p+1, 3, 0, 300+p+1), mk(p+2, 3, 0, 300+p+2)}
							} else if first == 1 {
								es = [][4]uint64{mk(p+1, 3, 5, 9001), mk(p+2, 3, 0, 300+p+2)}
							}
							// first make the follower learn a commit index, then the (possibly conflicting) request
							evs := [][]uint64{}
							if commit > 0 {
								evs = append(evs, evAppend(3, 3, 3, 0, 0, nil, commit, 0, nil))
							}
							ev := evAppend(3, 3, 3, p, pt, es, lc, 0, nil)
							if r.intn(8) == 0 {
								ev = withTail(ev, 0, failAt(r.intn(3), 3))
							} else if r.intn(8) == 0 {
								ev = withTail(ev, 1+r.intn(2), nil)
							}
							evs = append(evs, ev, evDecision(),
								evVote(4, 4, 4, 10, 3, false, 0, nil), // D asks: member only under cfg4
								evAppend(4, 3, 3, 0, 0, nil, 6, 0, nil), evDecision(), evRestart(), evDecision())
							g.events = evs
							nsRun(cw, cw.tag("m"), g.encode(), func(tag string, in, obs []uint64) {
								c07nMonitor(cw)(tag, in, obs)
								c04monitor(cw)(tag, in, obs)
							})
							n++
						}
					}
				}
			}
		}
	}
	cw.stat("c07n_cases", n)
}
