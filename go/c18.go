package main

import (
	"fmt"
	"sync"
	"time"

	"github.com/hashicorp/raft"
)

// C18 — leadership notifications.
//
// component 1801: overrideNotifyBool (util.go) on a real 1-slot channel: ops 0/1 = override with
//   that value, 2 = non-blocking receive; observed per receive: the value or 2 (empty).
// component 18: a real single-voter server (raft.NewRaft, all goroutines) with a buffered NotifyCh:
//   ops 1 = gain leadership (heartbeat timeout), 2 = lose it (AppendEntries of a higher term),
//   3 = non-blocking read of NotifyCh, 4 = non-blocking read of LeaderCh(); observed per op: the
//   value read (0/1), 2 = empty, 3 = no read; then whether State() is Leader at rest.
// component 1018 (monitored): the same server with an UNBUFFERED NotifyCh and a consumer goroutine
//   with scripted delays; monitor: received sequence strictly alternating from true, last value =
//   role at rest, LeaderCh's final value = role.

type c18srv struct {
	r      *raft.Raft
	trans  *raft.InmemTransport
	notify chan bool
}

func c18boot(notifyCap int) *c18srv {
	logs, stable, snaps := NewMapLogStore(nil), NewMapStable(), NewSnapStore()
	logs.m[1] = &raft.Log{Index: 1, Term: 1, Type: raft.LogConfiguration, Data: raft.EncodeConfiguration(mkConfig([]srv{{0, 1, 1}}))}
	stable.kvInt["CurrentTerm"] = 1
	cf := baseConfig(nodeOpts{id: 1, trailing: 100, maxAppend: 4})
	cf.CommitTimeout = 2 * time.Millisecond
	s := &c18srv{notify: make(chan bool, notifyCap)}
	cf.NotifyCh = s.notify
	_, s.trans = raft.NewInmemTransport(addrStr(1))
	r, err := raft.NewRaft(cf, &RecFSM{}, logs, stable, snaps, s.trans)
	if err != nil {
		panic(err)
	}
	s.r = r
	return s
}

func (s *c18srv) close() {
	done := make(chan struct{})
	go func() {
		// keep draining so that a blocked notification cannot hold the shutdown
		for {
			select {
			case <-s.notify:
			case <-done:
				return
			}
		}
	}()
	s.r.Shutdown().Error()
	close(done)
	s.trans.Close()
}

func (s *c18srv) depose() {
	_, t2 := raft.NewInmemTransport(addrStr(9))
	t2.Connect(addrStr(1), s.trans)
	defer t2.Close()
	req := &raft.AppendEntriesRequest{RPCHeader: raft.RPCHeader{ProtocolVersion: 3, ID: []byte(idStr(9)), Addr: []byte(addrStr(9))}, Term: s.r.CurrentTerm() + 1}
	var resp raft.AppendEntriesResponse
	done := make(chan struct{})
	go func() { t2.AppendEntries(idStr(1), addrStr(1), req, &resp); close(done) }()
	select {
	case <-done:
	case <-time.After(2 * time.Second):
	}
}

// wait until role and channel occupancy are stable
func (s *c18srv) settle(want raft.RaftState) {
	c17wait(func() bool { return s.r.State() == want }, 2*time.Second)
	prev, same := [3]int{-1, -1, -1}, 0
	for i := 0; i < 200 && same < 3; i++ {
		time.Sleep(200 * time.Microsecond)
		cur := [3]int{int(s.r.State()), len(s.notify), len(s.r.LeaderCh())}
		if cur == prev {
			same++
		} else {
			same = 0
		}
		prev = cur
	}
}

func c18script(in []uint64) (obs []uint64, gains int) {
	s := c18boot(64)
	defer s.close()
	for _, op := range in {
		out := uint64(3)
		switch op {
		case 1:
			if s.r.State() != raft.Leader {
				s.r.VerifFireHeartbeatTimeout()
				s.settle(raft.Leader)
				gains++
			}
		case 2:
			if s.r.State() == raft.Leader {
				s.depose()
				s.settle(raft.Follower)
			}
		case 3:
			select {
			case v := <-s.notify:
				out = b2u(v)
			default:
				out = 2
			}
		case 4:
			select {
			case v := <-s.r.LeaderCh():
				out = b2u(v)
			default:
				out = 2
			}
		default:
			continue
		}
		obs = append(obs, out, b2u(s.r.State() == raft.Leader))
	}
	return obs, gains
}

func c18exec(cw *caseWriter, tag string, comp int, in []uint64) {
	switch comp {
	case 18:
		obs, gains := c18script(in)
		cw.stats["c18_gains"] += gains
		cw.emit(tag, 18, in, obs, gains >= 2)
	case 1801:
		c18override(cw, tag, in)
	case 1018:
		obs, mons := c18slow(in[0])
		cw.emit(tag, 1018, in, obs, len(obs) >= 5)
		for _, m := range mons {
			cw.monitor("C18", tag, m[0], "%s", m[1])
		}
	}
}

func c18override(cw *caseWriter, tag string, in []uint64) {
	ch := make(chan bool, 1)
	var obs []uint64
	for _, op := range in {
		switch op {
		case 2:
			select {
			case v := <-ch:
				obs = append(obs, b2u(v))
			default:
				obs = append(obs, 2)
			}
		default:
			raft.VerifOverrideNotifyBool(ch, op != 0)
		}
	}
	cw.emit(tag, 1801, in, obs, len(obs) > 0)
}

// slow consumer on an unbuffered NotifyCh
func c18slow(seed uint64) (obs []uint64, mons [][2]string) {
	r := &rng{s: seed}
	s := c18boot(0)
	var mu sync.Mutex
	var got []bool
	stop := make(chan struct{})
	var wg sync.WaitGroup
	wg.Add(1)
	delays := make([]time.Duration, 64)
	for i := range delays {
		delays[i] = time.Duration(r.intn(1500)) * time.Microsecond
	}
	go func() {
		defer wg.Done()
		for i := 0; ; i++ {
			select {
			case v := <-s.notify:
				mu.Lock()
				got = append(got, v)
				mu.Unlock()
				time.Sleep(delays[i%len(delays)])
			case <-stop:
				return
			}
		}
	}()
	attempts := 6 + r.intn(6)
	n := 0 // transitions that really happened
	var lch []bool
	for i := 0; i < attempts; i++ {
		if s.r.State() != raft.Leader {
			s.r.VerifFireHeartbeatTimeout()
			if c17wait(func() bool { return s.r.State() == raft.Leader }, 2*time.Second) {
				n++
			}
		} else {
			s.depose()
			if c17wait(func() bool { return s.r.State() == raft.Follower }, 2*time.Second) {
				n++
			}
		}
		if r.chance(1, 3) {
			select {
			case v := <-s.r.LeaderCh():
				lch = append(lch, v)
			default:
			}
		}
	}
	// at rest: nothing moves any more (a transition that was slow to start is waited for as well)
	{
		prev, same := [2]int{-1, -1}, 0
		for i := 0; i < 3000 && same < 30; i++ {
			time.Sleep(time.Millisecond)
			mu.Lock()
			cur := [2]int{len(got), int(s.r.State())}
			mu.Unlock()
			if cur == prev {
				same++
			} else {
				same = 0
			}
			prev = cur
		}
	}
	isLeader := s.r.State() == raft.Leader
	mu.Lock()
	seq := append([]bool(nil), got...)
	mu.Unlock()
	close(stop)
	wg.Wait()
	var final *bool
	select {
	case v := <-s.r.LeaderCh():
		final = &v
	default:
	}
	s.close()
	obs = []uint64{uint64(len(seq))}
	for _, v := range seq {
		obs = append(obs, b2u(v))
	}
	mon := func(sig, format string, args ...interface{}) {
		mons = append(mons, [2]string{sig, fmt.Sprintf(format, args...)})
	}
	for i, v := range seq {
		if v != (i%2 == 0) {
			mon("notifych-not-alternating", "NotifyCh delivered %v: position %d is %v", seq, i, v)
			break
		}
	}
	if len(seq) < n {
		mon("notifych-message-count", "%d transitions seen but only %d notifications delivered at rest: %v", n, len(seq), seq)
	} else if len(seq) > 0 && seq[len(seq)-1] != isLeader {
		mon("notifych-last-value-not-role", "at rest the last value delivered is %v but State()==Leader is %v", seq[len(seq)-1], isLeader)
	}
	if final != nil && *final != isLeader {
		mon("leaderch-not-latest", "LeaderCh holds %v at rest but State()==Leader is %v", *final, isLeader)
	}
	if final == nil && (len(lch) == 0 || lch[len(lch)-1] != isLeader) {
		mon("leaderch-not-latest", "LeaderCh is empty at rest and the last value read from it (%v) is not the current role %v", lch, isLeader)
	}
	return obs, mons
}

func c18genOps(r *rng, n int) []uint64 {
	var ops []uint64
	for i := 0; i < n; i++ {
		switch x := r.intn(10); {
		case x < 3:
			ops = append(ops, 1)
		case x < 6:
			ops = append(ops, 2)
		case x < 8:
			ops = append(ops, 3)
		default:
			ops = append(ops, 4)
		}
	}
	return ops
}

func runC18(cw *caseWriter, tier string, seed uint64) {
	r := &rng{s: seed}
	// overrideNotifyBool: exhaustive up to length 7 over {0,1,2}, then random long ones
	var rec func(pref []uint64, n int)
	rec = func(pref []uint64, n int) {
		if len(pref) > 0 {
			c18override(cw, cw.tag("o"), pref)
		}
		if n == 0 {
			return
		}
		for v := uint64(0); v < 3; v++ {
			rec(append(append([]uint64(nil), pref...), v), n-1)
		}
	}
	depth := 6
	if tier != "quick" {
		depth = 8
	}
	rec(nil, depth)
	for i := 0; i < 300; i++ {
		n := 5 + r.intn(60)
		ops := make([]uint64, n)
		for j := range ops {
			ops[j] = uint64(r.intn(3))
		}
		c18override(cw, cw.tag("o"), ops)
	}
	// notification scripts on a real server
	nscripts, nslow := 60, 30
	if tier != "quick" {
		nscripts, nslow = 1200, 500
	}
	type job struct {
		tag  string
		ops  []uint64
		slow uint64
	}
	var jobs []job
	// directed: every interleaving of reads around two leaderships
	for _, ops := range [][]uint64{
		{1, 2, 1, 4, 3, 3, 3, 2, 4}, {1, 3, 4, 2, 3, 4, 1, 3, 4}, {1, 2, 1, 2, 1, 2, 3, 3, 3, 3, 3, 3, 3, 4, 4},
		{2, 3, 4, 1, 1, 3, 3, 4, 4}, {1, 4, 2, 4, 1, 4, 2, 4},
	} {
		jobs = append(jobs, job{cw.tag("n"), ops, 0})
	}
	for i := 0; i < nscripts; i++ {
		jobs = append(jobs, job{cw.tag("n"), c18genOps(r, 6+r.intn(14)), 0})
	}
	for i := 0; i < nslow; i++ {
		jobs = append(jobs, job{cw.tag("s"), nil, r.next()%1000000 + 1})
	}
	// independent servers: 8 at a time; results are emitted under a lock
	var mu sync.Mutex
	sem := make(chan struct{}, 8)
	var wg sync.WaitGroup
	for _, j := range jobs {
		wg.Add(1)
		sem <- struct{}{}
		go func(j job) {
			defer wg.Done()
			defer func() { <-sem }()
			if j.slow != 0 {
				obs, mons := c18slow(j.slow)
				mu.Lock()
				defer mu.Unlock()
				cw.stats["c18_slow_consumer_runs"]++
				cw.emit(j.tag, 1018, []uint64{j.slow}, obs, len(obs) >= 5)
				for _, m := range mons {
					cw.monitor("C18", j.tag, m[0], "%s", m[1])
				}
				return
			}
			obs, gains := c18script(j.ops)
			mu.Lock()
			defer mu.Unlock()
			cw.stats["c18_gains"] += gains
			cw.stats["c18_scripts"]++
			cw.emit(j.tag, 18, j.ops, obs, gains >= 2)
		}(j)
	}
	wg.Wait()
	// leaderships that end inside runLeader's own start-up: the k-th StoreLogs of the server fails (monitored)
	nf := 12
	if tier != "quick" {
		nf = 200
	}
	for i := 0; i < nf; i++ {
		c18fault(cw, cw.tag("f"), i%4, 1+r.intn(3))
	}
	// cluster histories: the advertised-leader monitor over churn and election races
	if tier == "quick" {
		runScenarios(cw, 1, seed*100000, 40, 12)
		runScenarios(cw, 2, seed*100000, 40, 12)
	} else {
		runScenarios(cw, 1, seed*100000, 800, 12)
		runScenarios(cw, 2, seed*100000, 800, 12)
	}
}

// component 1118 (monitored only): a single-voter server whose log store refuses the failAt-th StoreLogs
// (0 = the no-op of its first leadership, 1 = the first Apply, ...). Every leadership - also one that
// ends before the no-op is stored - must be announced on NotifyCh by exactly one true followed by
// exactly one false; at rest the last value equals the role; LeaderCh ends up with the latest value.
func c18fault(cw *caseWriter, tag string, failAt int, rounds int) {
	fails := make([]bool, failAt+1)
	fails[failAt] = true
	logs, stable, snaps := NewMapLogStore(fails), NewMapStable(), NewSnapStore()
	logs.m[1] = &raft.Log{Index: 1, Term: 1, Type: raft.LogConfiguration, Data: raft.EncodeConfiguration(mkConfig([]srv{{0, 1, 1}}))}
	stable.kvInt["CurrentTerm"] = 1
	cf := baseConfig(nodeOpts{id: 1, trailing: 100, maxAppend: 4})
	cf.CommitTimeout = 2 * time.Millisecond
	s := &c18srv{notify: make(chan bool, 64)}
	cf.NotifyCh = s.notify
	_, s.trans = raft.NewInmemTransport(addrStr(1))
	rf, err := raft.NewRaft(cf, &RecFSM{}, logs, stable, snaps, s.trans)
	if err != nil {
		return
	}
	s.r = rf
	defer s.close()
	var seq []bool
	drain := func() {
		for {
			select {
			case v := <-s.notify:
				seq = append(seq, v)
			default:
				return
			}
		}
	}
	for k := 0; k < rounds+failAt+1; k++ {
		if s.r.State() != raft.Leader {
			s.r.VerifFireHeartbeatTimeout()
			c17wait(func() bool { return s.r.State() == raft.Leader || len(s.notify) > 0 }, 2*time.Second)
		}
		if s.r.State() == raft.Leader {
			s.r.Apply([]byte{byte(k)}, time.Second).Error()
		}
		s.settle(s.r.State())
		drain()
	}
	s.settle(s.r.State())
	drain()
	cw.stats["c18_fault_runs"]++
	leader := s.r.State() == raft.Leader
	for i, v := range seq {
		if v != (i%2 == 0) {
			cw.monitor("C18", tag, "notifications-do-not-alternate-from-true", "store fails at StoreLogs #%d: NotifyCh delivered %v", failAt, seq)
			break
		}
	}
	if len(seq) > 0 && seq[len(seq)-1] != leader {
		cw.monitor("C18", tag, "last-notification-differs-from-role-at-rest", "store fails at StoreLogs #%d: NotifyCh delivered %v, leader at rest: %v", failAt, seq, leader)
	}
	if len(seq) == 0 && leader {
		cw.monitor("C18", tag, "leadership-gained-without-notification", "store fails at StoreLogs #%d", failAt)
	}
	select {
	case v := <-s.r.LeaderCh():
		if v != leader {
			cw.monitor("C18", tag, "leaderch-not-latest", "store fails at StoreLogs #%d: LeaderCh holds %v, leader at rest: %v", failAt, v, leader)
		}
	default:
	}
}
