package main

import (
	"bufio"
	"fmt"
	"io"
	"os"
	"os/exec"
	"os/signal"
	"strconv"
	"strings"
	"syscall"

	"github.com/hashicorp/raft"
)

// component 1015 (monitored only) — FileSnapshotStore when the file system refuses a write.
// A child process lowers RLIMIT_FSIZE (writes past the limit fail with EFBIG), creates a small
// snapshot (fits), then one whose state file crosses the limit either inside Write or only in the
// final flush of Close, and reports what Close returned and what List/Open show afterwards.
// Property (C15): a snapshot whose Close returned nil is durable and listed and opens with exactly
// what was written; one whose Close failed is never listed.
//
//	harness c15failchild <dir> <limit> <sizeB>   -> one line: wroteB closeA listedA closeB listedB openB
func c15failChild(args []string) {
	dir := args[0]
	limit, _ := strconv.ParseUint(args[1], 10, 64)
	sizeB, _ := strconv.Atoi(args[2])
	signal.Ignore(syscall.SIGXFSZ)
	if err := syscall.Setrlimit(syscall.RLIMIT_FSIZE, &syscall.Rlimit{Cur: limit, Max: limit}); err != nil {
		fmt.Println("x", err)
		return
	}
	store, err := raft.NewFileSnapshotStore(dir, 3, nil)
	if err != nil {
		fmt.Println("x", err)
		return
	}
	cfg := raft.Configuration{Servers: []raft.Server{{Suffrage: raft.Voter, ID: "a", Address: "a"}}}
	_, trans := raft.NewInmemTransport("a")
	mk := func(idx uint64, n int) (wrote bool, closed bool, id string, data []byte) {
		sink, err := store.Create(1, idx, 1, cfg, 1, trans)
		if err != nil {
			return false, false, "", nil
		}
		data = make([]byte, n)
		for i := range data {
			data[i] = byte(i*7 + int(idx))
		}
		// in small pieces, as an FSM's Persist does: the last ones stay in the sink's buffer until Close
		var werr error
		for off := 0; off < len(data) && werr == nil; off += 500 {
			_, werr = sink.Write(data[off:minInt(off+500, len(data))])
		}
		cerr := sink.Close()
		return werr == nil, cerr == nil, sink.ID(), data
	}
	listed := func(id string) (bool, bool) {
		metas, _ := store.List()
		for _, m := range metas {
			if m.ID == id {
				_, rc, err := store.Open(id)
				if err != nil {
					return true, false
				}
				defer rc.Close()
				return true, true
			}
		}
		return false, false
	}
	_, closeA, idA, _ := mk(10, 100)
	listA, _ := listed(idA)
	wroteB, closeB, idB, dataB := mk(20, sizeB)
	listB, openB := listed(idB)
	if listB && openB {
		_, rc, err := store.Open(idB)
		if err == nil {
			buf := make([]byte, len(dataB)+1)
			n, _ := bufio.NewReader(rc).Read(buf)
			total := n
			for n > 0 && total < len(buf) {
				n, _ = rc.Read(buf[total:])
				total += n
			}
			rc.Close()
			if total != len(dataB) || string(buf[:total]) != string(dataB) {
				openB = false
			}
		}
	}
	b := func(x bool) int {
		if x {
			return 1
		}
		return 0
	}
	fmt.Println("r", b(wroteB), b(closeA), b(listA), b(closeB), b(listB), b(openB))
}

func runC15fail(cw *caseWriter, tier string, seed uint64) {
	r := &rng{s: seed*977 + 13}
	cnt := 12
	if tier != "quick" {
		cnt = 150
	}
	root, err := os.MkdirTemp("", "c15fail")
	if err != nil {
		return
	}
	defer os.RemoveAll(root)
	for k := 0; k < cnt; k++ {
		// the state file is written through a 4096-byte buffer: sizes around a limit that is a
		// multiple of it plus a bit, so that the refusal comes in Write or only in Close's flush
		limit := uint64(4096*(1+r.intn(4)) + r.intn(3000))
		sizeB := int(limit) - 2000 + r.intn(6000)
		if sizeB < 1 {
			sizeB = 1
		}
		c15failCase(cw, cw.tag("q"), fmt.Sprintf("%s/s%d", root, k), limit, sizeB)
	}
}

func c15failCase(cw *caseWriter, tag, dir string, limit uint64, sizeB int) {
	out, err := exec.Command(os.Args[0], "c15failchild", dir, strconv.FormatUint(limit, 10), strconv.Itoa(sizeB)).Output()
	f := strings.Fields(string(out))
	if err != nil || len(f) != 7 || f[0] != "r" {
		cw.stats["c15fail_child_errors"]++
		return
	}
	v := make([]uint64, 6)
	for i := range v {
		v[i], _ = strconv.ParseUint(f[1+i], 10, 64)
	}
	closeA, listA, closeB, listB, openB := v[1], v[2], v[3], v[4], v[5]
	both := func(sig, format string, args ...interface{}) {
		cw.monitor("C15", tag, sig, format, args...)
		// takeSnapshot compacts the log once Close has returned nil (C11: history only leaves the log when a durable snapshot covers it)
		cw.monitor("C11", tag, sig, format, args...)
	}
	if closeA == 1 && listA == 0 {
		both("close-returned-nil-but-not-listed", "small snapshot under a file-size limit of %d: Close returned nil, List does not show it", limit)
	}
	if closeB == 1 && (listB == 0 || openB == 0) {
		both("close-returned-nil-but-not-listed", "snapshot of %d bytes under a file-size limit of %d (the write of the state file was refused): Close returned nil, listed=%d opens-with-content=%d", sizeB, limit, listB, openB)
	}
	if closeB == 0 && listB == 1 {
		both("failed-close-but-listed", "snapshot of %d bytes under a file-size limit of %d: Close returned an error, List shows it", sizeB, limit)
	}
	if closeB == 0 {
		cw.stats["c15fail_close_refused"]++
	} else {
		cw.stats["c15fail_close_ok"]++
	}
	cw.emit(tag, 1015, []uint64{limit, uint64(sizeB)}, v, closeB == 0)
}

// component 1016 (monitored only) — payloads LARGER than the sink's 4096-byte buffer, written in chunks of
// mixed sizes (a few bytes, just below / at / above the buffer size, several buffers), as an FSM's Persist or
// io.Copy from the network does. Property (C15): what Open returns is byte-identical to what was written, in
// the order it was written, and the snapshot is listed. (The strace-tied model covers payloads below the
// buffer size; the buffering itself is bufio's and is only monitored here.)
func runC15big(cw *caseWriter, tier string, seed uint64) {
	r := &rng{s: seed*733 + 5}
	cnt := 60
	if tier != "quick" {
		cnt = 1500
	}
	root, err := os.MkdirTemp("", "c15big")
	if err != nil {
		return
	}
	defer os.RemoveAll(root)
	cfg := raft.Configuration{Servers: []raft.Server{{Suffrage: raft.Voter, ID: "a", Address: "a"}}}
	_, trans := raft.NewInmemTransport("a")
	sizes := []int{1, 3, 17, 100, 500, 4000, 4095, 4096, 4097, 5000, 8192, 9000, 20000}
	for k := 0; k < cnt; k++ {
		tag := cw.tag("B")
		dir := fmt.Sprintf("%s/b%d", root, k)
		store, err := raft.NewFileSnapshotStore(dir, 2, nil)
		if err != nil {
			continue
		}
		sink, err := store.Create(1, uint64(10+k), 1, cfg, 1, trans)
		if err != nil {
			continue
		}
		var all []byte
		var plan []int
		nch := 1 + r.intn(5)
		ok := true
		for c := 0; c < nch && ok; c++ {
			n := sizes[r.intn(len(sizes))]
			if r.chance(1, 4) {
				n += r.intn(50)
			}
			plan = append(plan, n)
			chunk := make([]byte, n)
			for i := range chunk {
				chunk[i] = byte(len(all) + i*31 + c*7 + k)
			}
			all = append(all, chunk...)
			if m, err := sink.Write(chunk); err != nil || m != n {
				ok = false
			}
		}
		cerr := sink.Close()
		cw.stats["c15big_cases"]++
		if !ok || cerr != nil {
			cw.stats["c15big_write_or_close_errors"]++
			continue
		}
		metas, _ := store.List()
		found := false
		for _, m := range metas {
			if m.ID == sink.ID() {
				found = true
				if m.Size != int64(len(all)) {
					cw.monitor("C15", tag, "listed-size-differs-from-written", "chunks %v: listed size %d, written %d", plan, m.Size, len(all))
				}
			}
		}
		if !found {
			cw.monitor("C15", tag, "close-returned-nil-but-not-listed", "chunks %v", plan)
			continue
		}
		_, rc, err := store.Open(sink.ID())
		if err != nil {
			cw.monitor("C15", tag, "listed-snapshot-does-not-open", "chunks %v: %v", plan, err)
			continue
		}
		got, _ := io.ReadAll(rc)
		rc.Close()
		if string(got) != string(all) {
			at := 0
			for at < len(got) && at < len(all) && got[at] == all[at] {
				at++
			}
			cw.monitor("C15", tag, "opened-content-differs-from-written", "chunks %v: %d bytes read, %d written, first difference at offset %d", plan, len(got), len(all), at)
			cw.monitor("C11", tag, "opened-content-differs-from-written", "chunks %v: first difference at offset %d", plan, at)
		}
	}
}
