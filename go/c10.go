package main

// C10: crash recovery. Real servers are driven through sequences that append, truncate, install
// snapshots, vote and campaign, with a crash cut at every durable operation of every event, in
// three store flavours (plain, monotonic, commit-tracking + RestoreCommittedLogs); every image is
// restarted with the real NewRaft (under a watchdog) and compared with the model's recover; the
// monitor recomputes what the restart must yield from the durable image alone.

func c10monitor(cw *caseWriter) func(tag string, in, obs []uint64) {
	return func(tag string, in, obs []uint64) {
		c := nsDecode(in)
		parts := nsSplit(obs)
		evs := nsEvents(in)
		var prev *nsState
		// images NewRaft must refuse (not written by a server under this configuration): RestoreCommittedLogs over a store
		// without commit tracking (ErrIncompatibleLogStore); snapshots listed but none of them opens
		mustErr := c.rc != 0 && c.track == 0
		if len(c.snaps) > 0 {
			usable := false
			for _, s := range c.snaps {
				usable = usable || s.ok
			}
			mustErr = mustErr || !usable
		}
		everUp := false
		check := func(i int, boot []uint64) *nsState {
			if len(boot) == 0 {
				return nil
			}
			if boot[0] == 1 {
				everUp = true
				if mustErr && i == 0 {
					cw.monitor("C10", tag, "newraft-accepted-an-image-it-must-refuse", "boot: RestoreCommittedLogs=%d commit-tracking store=%d, %d snapshots listed (none usable: %v) and NewRaft returned a server", c.rc, c.track, len(c.snaps), len(c.snaps) > 0)
				}
			}
			switch boot[0] {
			case 2:
				if mustErr && !everUp {
					return nil // the refusal the configuration / image calls for; the server never ran, its image never changed
				}
				cw.monitor("C10", tag, "newraft-returns-error", "restart %d: NewRaft returned an error on an image the server wrote itself", i)
				return nil
			case 3:
				cw.monitor("C10", tag, "newraft-panics", "restart %d: NewRaft panicked on an image the server wrote itself", i)
				return nil
			case 4:
				// classify: replaying committed logs into the 128-slot FSM queue before the FSM goroutine exists
				sig := "newraft-blocks"
				if c.rc != 0 && c.track != 0 {
					var log [][4]uint64
					var snapIdx, pc uint64
					if i == 0 || prev == nil {
						log, pc = c.entries, c.pcommit
						for _, s := range c.snaps {
							if s.ok && s.idx > snapIdx {
								snapIdx = s.idx
							}
						}
					} else if prev != nil {
						log, pc, snapIdx = prev.log, prev.pcommit, prev.sc[sLastSnapIdx]
					}
					handed := uint64(0)
					for _, e := range log {
						if e[0] > snapIdx && e[0] <= pc && (e[2] == 0 || e[2] == 4 || e[2] == 5) {
							handed++
						}
					}
					if c.maxapp > 0 && (handed+c.maxapp-1)/c.maxapp > 128 {
						sig = "newraft-blocks-replaying-more-than-128-committed-batches"
					}
				}
				cw.monitor("C10", tag, sig, "restart %d: NewRaft did not return within 2 s", i)
				return nil
			case 1:
			default:
				return nil
			}
			st := parseState(stateOfBoot(boot))
			if st == nil {
				return nil
			}
			// resumes with the durable term, and the last entry of its log store
			if st.sc[sTerm] != st.sc[sDTerm] {
				cw.monitor("C10", tag, "recovered-term-differs", "restart %d: term %d, durable %d", i, st.sc[sTerm], st.sc[sDTerm])
			}
			var li, lt uint64
			for _, e := range st.log {
				if e[0] > li {
					li, lt = e[0], e[1]
				}
			}
			if st.sc[sLastLogIdx] != li || st.sc[sLastLogTerm] != lt {
				cw.monitor("C10", tag, "recovered-last-log-differs", "restart %d: last log (%d,%d), store holds (%d,%d)", i, st.sc[sLastLogIdx], st.sc[sLastLogTerm], li, lt)
			}
			// a commit index restored from the store that covers the latest configuration entry: the server must know that
			// configuration committed, or - once it leads - its membership-change gate never opens (the leader loop promotes a
			// configuration only when the commit index moves PAST it) and every AddVoter/RemoveServer/Restore call stalls (F13)
			if st.sc[sCommit] > 0 && st.sc[sLatestIdx] <= st.sc[sCommit] && st.sc[sCommittedIdx] != st.sc[sLatestIdx] {
				for _, p := range []string{"C10", "C07", "C17"} {
					cw.monitor(p, tag, "restart-leaves-a-committed-configuration-unpromoted", "restart %d: commit index %d restored, latest configuration at %d, committed configuration still at %d: a leader in this state never takes a membership change",
						i, st.sc[sCommit], st.sc[sLatestIdx], st.sc[sCommittedIdx])
				}
			}
			// the latest configuration durably recorded: last configuration entry above the
			// snapshot, else the snapshot's
			snapIdx := st.sc[sLastSnapIdx]
			var wantCfg []srv
			var wantIdx uint64
			haveCfg := false
			for _, e := range st.log {
				if e[2] == 5 && e[0] > snapIdx && e[0] >= wantIdx {
					if cfg, ok := c.cfgtab[e[3]]; ok {
						wantCfg, wantIdx, haveCfg = cfg, e[0], true
					}
				}
			}
			if haveCfg && (!eqSrvs(wantCfg, st.latest) || st.sc[sLatestIdx] != wantIdx) {
				cw.monitor("C10", tag, "recovered-configuration-differs", "restart %d: latest configuration index %d (%d servers), the log's latest configuration entry is at %d (%d servers)",
					i, st.sc[sLatestIdx], len(st.latest), wantIdx, len(wantCfg))
			}
			// the FSM is rebuilt from the snapshot the server records as its last snapshot / lastApplied: same index, same content
			// (without RestoreCommittedLogs nothing is replayed on top), and that snapshot is the NEWEST usable one of the store.
			// Snapshots the server wrote itself open; those of the initial image carry their own flag.
			if c.rc == 0 {
				// st.snaps is the store's listing (newest first: by term, then index, later creation first on ties); a snapshot of
				// the initial image that cannot be opened is known by (index, term); when a usable and an unusable snapshot share
				// that pair the monitor stays silent
				bad := map[[2]uint64]bool{}
				for _, sn := range c.snaps {
					if !sn.ok {
						bad[[2]uint64{sn.idx, sn.term}] = true
					}
				}
				ambiguous := false
				seenPair := map[[2]uint64]int{}
				for _, sn := range st.snaps {
					seenPair[[2]uint64{sn[0], sn[1]}]++
				}
				for k, n := range seenPair {
					if n > 1 && bad[k] {
						ambiguous = true
					}
				}
				var first *[4]uint64
				for k := range st.snaps {
					if !bad[[2]uint64{st.snaps[k][0], st.snaps[k][1]}] {
						first = &st.snaps[k]
						break
					}
				}
				if first != nil && !ambiguous {
					if st.sc[sLastSnapIdx] != first[0] || st.sc[sLastSnapTerm] != first[1] {
						cw.monitor("C10", tag, "restart-did-not-restore-the-newest-usable-snapshot", "restart %d: the server runs on snapshot (%d,%d), the newest usable snapshot its store lists is (%d,%d)", i, st.sc[sLastSnapIdx], st.sc[sLastSnapTerm], first[0], first[1])
					} else if st.sc[sApplied] == first[0] && uint64(len(st.fsm)) != first[3] {
						for _, pr := range []string{"C10", "C02"} {
							cw.monitor(pr, tag, "restart-fsm-is-not-the-snapshot-recorded-as-applied", "restart %d: lastApplied = last snapshot index = %d, that snapshot holds %d items, the FSM holds %d", i, first[0], first[3], len(st.fsm))
						}
					}
				}
			}
			// every index up to the last one is covered by the snapshot or present in the log (C11 coverage)
			have := map[uint64]bool{}
			for _, e := range st.log {
				have[e[0]] = true
			}
			for k := snapIdx + 1; k <= li; k++ {
				if !have[k] {
					cw.monitor("C11", tag, "hole-above-snapshot", "restart %d: index %d neither in the snapshot (%d) nor in the log (last %d)", i, k, snapIdx, li)
					break
				}
			}
			if st.sc[sLastLogIdx] < st.sc[sLastSnapIdx] && len(st.log) > 0 && li < st.sc[sLastSnapIdx] && false {
				_ = prev
			}
			return st
		}
		prev = check(0, parts[0])
		for i, e := range evs {
			if i+1 >= len(parts) {
				break
			}
			o := parts[i+1]
			if len(o) == 0 {
				continue
			}
			if e.kind == 4 && e.short && o[0] == 10 && len(o) > 2 && o[2] == 1 {
				// C02: a restore must leave the FSM in the state of the agreed entries up to the snapshot's index
				cw.monitor("C02", tag, "installsnapshot-accepted-a-truncated-stream", "event %d: InstallSnapshot whose stream ended before Size bytes was answered success (stored and restored)", i)
				cw.monitor("C12", tag, "installsnapshot-accepted-a-truncated-stream", "event %d: InstallSnapshot whose stream ended before Size bytes was answered success (stored and restored)", i)
			}
			switch {
			case o[0] == 20 || o[0] == 30:
				prev = check(i+1, o[1:])
			case e.kind == 7:
				prev = check(i+1, o)
			}
		}
	}
}

func c10gen(cw *caseWriter, tier string, r *rng) {
	mk := func(idx, term, ty, id uint64) [4]uint64 { return [4]uint64{idx, term, ty, id} }
	tabs := [][]srv{cfgSAB, cfg4, cfgAnv}
	n := 0
	flavours := [][3]uint64{{0, 0, 0}, {1, 0, 0}, {0, 1, 1}} // monotonic, track, rc
	// base sequences: each event is then cut at every durable op (and run uncut), followed by restart
	type base struct {
		name string
		evs  func(maxapp uint64) [][]uint64
		ops  []int // durable ops of each event
	}
	e1 := [][4]uint64{mk(2, 3, 0, 302), mk(3, 3, 0, 303), mk(4, 3, 5, 9001)}
	e2 := [][4]uint64{mk(5, 3, 0, 305), mk(6, 3, 0, 306)}
	conflict := [][4]uint64{mk(3, 4, 0, 403), mk(4, 4, 0, 404)}
	bases := []base{
		{"append-commit", func(uint64) [][]uint64 {
			return [][]uint64{evAppend(3, 3, 3, 1, 1, e1, 0, 0, nil), evAppend(3, 3, 3, 4, 3, e2, 4, 0, nil), evAppend(3, 3, 3, 6, 3, nil, 6, 0, nil)}
		}, []int{1, 1, 0}},
		{"append-truncate", func(uint64) [][]uint64 {
			return [][]uint64{evAppend(3, 3, 3, 1, 1, e1, 2, 0, nil), evAppend(4, 2, 2, 2, 3, conflict, 2, 0, nil), evAppend(4, 2, 2, 4, 4, nil, 4, 0, nil)}
		}, []int{1, 3, 0}},
		{"vote-elect", func(uint64) [][]uint64 {
			return [][]uint64{evVote(4, 2, 2, 10, 3, false, 0, nil), evElect(0, nil), evAppend(6, 3, 3, 1, 1, e1, 3, 0, nil)}
		}, []int{3, 3, 2}},
		{"snapshot-install", func(uint64) [][]uint64 {
			return [][]uint64{evAppend(3, 3, 3, 1, 1, e1, 4, 0, nil), evInstall(3, 3, 3, 6, 3, cfg4, 4, []uint64{302, 303, 305, 306}, false, 0, nil),
				evAppend(3, 3, 3, 6, 3, [][4]uint64{mk(7, 3, 0, 307)}, 7, 0, nil)}
		}, []int{1, 3, 1}},
		{"snapshot-install-from-a-later-term", func(uint64) [][]uint64 {
			// the sender is in term 4, the snapshot's last entry is of term 3: what is stored carries (6, 3); then the server's own
			// snapshot after more entries of term 4, and a restart (the listing order is by term first)
			return [][]uint64{evAppend(3, 3, 3, 1, 1, e1, 4, 0, nil), evInstall(4, 2, 2, 6, 3, cfg4, 4, []uint64{302, 303, 305, 306}, false, 0, nil),
				evAppend(4, 2, 2, 6, 3, [][4]uint64{mk(7, 4, 0, 407), mk(8, 4, 0, 408)}, 8, 0, nil), evSnapshot(0, nil)}
		}, []int{1, 3, 1, 2}},
		{"take-snapshot", func(uint64) [][]uint64 {
			return [][]uint64{evAppend(3, 3, 3, 1, 1, e1, 4, 0, nil), evSnapshot(0, nil), evAppend(3, 3, 3, 4, 3, e2, 6, 0, nil), evSnapshot(0, nil)}
		}, []int{1, 2, 1, 2}},
		{"snapshot-with-uncommitted-configuration", func(uint64) [][]uint64 {
			// entries 2,3 and the configuration entry 4 stored, only 3 committed: the snapshot must record the configuration of index 1
			return [][]uint64{evAppend(3, 3, 3, 1, 1, e1, 3, 0, nil), evSnapshot(0, nil), evAppend(3, 3, 3, 4, 3, e2, 6, 0, nil), evSnapshot(0, nil)}
		}, []int{1, 2, 1, 2}},
		{"snapshot-stream-ends-early", func(uint64) [][]uint64 {
			// fewer bytes on the wire than Size says: refused, nothing durable, the FSM untouched; the complete transfer follows
			return [][]uint64{evAppend(3, 3, 3, 1, 1, e1, 4, 0, nil), evInstall(3, 3, 3, 6, 3, cfg4, 4, []uint64{302, 303}, true, 0, nil),
				evInstall(3, 3, 3, 6, 3, cfg4, 4, []uint64{302, 303, 305, 306}, false, 0, nil)}
		}, []int{1, 0, 3}},
		{"install-then-take-snapshot", func(uint64) [][]uint64 {
			// the FSM goroutine's (lastIndex, lastTerm) after a restore is only visible through the snapshot taken next
			return [][]uint64{evAppend(3, 3, 3, 1, 1, e1, 4, 0, nil), evInstall(3, 3, 3, 6, 3, cfg4, 4, []uint64{302, 303, 305, 306}, false, 0, nil),
				evSnapshot(0, nil), evAppend(3, 3, 3, 6, 3, [][4]uint64{mk(7, 3, 0, 307)}, 7, 0, nil), evSnapshot(0, nil)}
		}, []int{1, 3, 2, 1, 2}},
		{"install-older-then-take-snapshot", func(uint64) [][]uint64 {
			// a late InstallSnapshot BELOW what the server has applied (entries through 6 applied, snapshot of index 3; the clean
			// tree installs it - finding F12 - and records 3 everywhere): the snapshot taken next must carry the index of what the
			// FSM now holds, not an index the restore skipped over
			return [][]uint64{evAppend(3, 3, 3, 1, 1, e1, 4, 0, nil), evAppend(3, 3, 3, 4, 3, e2, 6, 0, nil),
				evInstall(3, 3, 3, 3, 3, cfgSAB, 1, []uint64{302, 303}, false, 0, nil), evSnapshot(0, nil)}
		}, []int{1, 1, 3, 2}},
		{"noop-only-commit-then-take-snapshot", func(uint64) [][]uint64 {
			// the commit index moves over a no-op only: nothing reaches the FSM goroutine, its last index stays at 2, lastApplied is 3;
			// then a command between two no-ops: FSM index 5, lastApplied 6. (No barriers here: a batch holding only a barrier moves the
			// FSM goroutine's index without any FSM call the harness could wait for, and the snapshot request would race it.)
			return [][]uint64{evAppend(3, 3, 3, 1, 1, [][4]uint64{mk(2, 3, 0, 302), mk(3, 3, 1, 0)}, 2, 0, nil), evAppend(3, 3, 3, 3, 3, nil, 3, 0, nil),
				evSnapshot(0, nil), evAppend(3, 3, 3, 3, 3, [][4]uint64{mk(4, 3, 1, 0), mk(5, 3, 0, 305), mk(6, 3, 1, 0)}, 6, 0, nil), evSnapshot(0, nil)}
		}, []int{1, 0, 2, 1, 2}},
		{"take-snapshot-compaction-fails", func(uint64) [][]uint64 {
			// Create and Close succeed, the DeleteRange of compactLogs fails: the snapshot is durable and current, the error is reported
			// (no crash cuts on the events that carry failure bits)
			return [][]uint64{evAppend(3, 3, 3, 1, 1, e1, 4, 0, nil), evSnapshot(0, []bool{false, false, true}), evAppend(3, 3, 3, 4, 3, e2, 6, 0, nil),
				evSnapshot(0, []bool{false, false, true}), evSnapshot(0, nil), evAppend(3, 3, 3, 6, 3, [][4]uint64{mk(7, 3, 0, 307)}, 7, 0, nil), evSnapshot(0, nil)}
		}, []int{1, 0, 1, 0, 2, 1, 2}},
		{"append-leadercommit-beyond-entries", func(uint64) [][]uint64 {
			// LeaderCommit above the last entry sent: the staged (durable) commit index and the commit index stop at the last new entry
			return [][]uint64{evAppend(3, 3, 3, 1, 1, e1, 9, 0, nil), evAppend(3, 3, 3, 4, 3, e2, 9, 0, nil), evAppend(3, 3, 3, 6, 3, nil, 9, 0, nil)}
		}, []int{1, 1, 0}},
		{"install-behind-log", func(uint64) [][]uint64 {
			return [][]uint64{evAppend(3, 3, 3, 1, 1, append(append([][4]uint64{}, e1...), e2...), 3, 0, nil),
				evInstall(3, 3, 3, 4, 3, cfg4, 4, []uint64{302, 303}, false, 0, nil), evAppend(3, 3, 3, 6, 3, nil, 6, 0, nil)}
		}, []int{1, 3, 0}},
	}
	for _, fl := range flavours {
		for _, trailing := range []uint64{0, 2, 100} {
			for _, maxapp := range []uint64{1, 4} {
				for _, b := range bases {
					evs := b.evs(maxapp)
					for k := 0; k < len(evs); k++ {
						for cut := 0; cut <= b.ops[k]; cut++ {
							if tier == "quick" && r.intn(2) != 0 {
								continue
							}
							g := &nsGen{self: 1, mono: fl[0], track: fl[1], rc: fl[2], trailing: trailing, maxapp: maxapp, cfgtab: tabs}
							g.term = 3
							g.entries = [][4]uint64{mk(1, 1, 5, 9000)}
							var seq [][]uint64
							for j := 0; j < len(evs); j++ {
								e := evs[j]
								if j == k && cut > 0 {
									e = withTail(e, cut, nil)
								}
								seq = append(seq, e)
								if j == k {
									seq = append(seq, evRestart(), evDecision())
								}
							}
							seq = append(seq, evRestart(), evDecision(), evVote(9, 2, 2, 20, 8, false, 0, nil))
							g.events = seq
							nsRun(cw, cw.tag("c"), g.encode(), func(tag string, in, obs []uint64) {
								c10monitor(cw)(tag, in, obs)
								c06monitor(cw)(tag, in, obs)
								c04monitor(cw)(tag, in, obs)
								c11monitor(cw)(tag, in, obs)
							})
							n++
						}
					}
				}
			}
		}
	}
	cw.stat("c10_crash_sequences", n)
	// images with several snapshots, the newest unreadable; long committed logs with commit tracking
	m := 0
	for _, nent := range []uint64{3, 20, 140} {
		for _, maxapp := range []uint64{1, 4, 64} {
			for _, withSnap := range []int{0, 1, 2} {
				g := &nsGen{self: 1, track: 1, rc: 1, trailing: 100, maxapp: maxapp, cfgtab: tabs}
				g.term = 3
				g.entries = [][4]uint64{mk(1, 1, 5, 9000)}
				for i := uint64(2); i <= nent; i++ {
					g.entries = append(g.entries, mk(i, 2, 0, 200+i))
				}
				g.pcommit = nent - 1
				if withSnap >= 1 {
					g.snaps = append(g.snaps, nsSnap{idx: 2, term: 2, cfg: cfgSAB, cfgidx: 1, data: []uint64{202}, ok: true})
				}
				if withSnap == 2 {
					g.snaps = append(g.snaps, nsSnap{idx: 3, term: 2, cfg: cfgSAB, cfgidx: 1, data: []uint64{202, 203}, ok: false})
				}
				g.events = [][]uint64{evDecision(), evRestart(), evDecision()}
				nsRun(cw, cw.tag("i"), g.encode(), c10monitor(cw))
				m++
			}
		}
	}
	m += c10images2(cw, tier, tabs)
	cw.stat("c10_image_cases", m)
}

// more start-up images: what NewRaft must refuse, the snapshot listing order, the FSM queue boundary of
// RestoreCommittedLogs, a durable commit index at or above the last configuration entry
func c10images2(cw *caseWriter, tier string, tabs [][]srv) int {
	mk := func(idx, term, ty, id uint64) [4]uint64 { return [4]uint64{idx, term, ty, id} }
	m := 0
	run := func(g *nsGen, evs ...[]uint64) {
		g.events = evs
		nsRun(cw, cw.tag("j"), g.encode(), func(tag string, in, obs []uint64) {
			c10monitor(cw)(tag, in, obs)
			c11monitor(cw)(tag, in, obs)
		})
		m++
	}
	base := func(track, rc, maxapp uint64, nent uint64) *nsGen {
		g := &nsGen{self: 1, track: track, rc: rc, trailing: 100, maxapp: maxapp, cfgtab: tabs}
		g.term = 3
		g.entries = [][4]uint64{mk(1, 1, 5, 9000)}
		for i := uint64(2); i <= nent; i++ {
			g.entries = append(g.entries, mk(i, 2, 0, 200+i))
		}
		return g
	}
	probe := [][]uint64{evDecision(), evVote(9, 2, 2, 20, 8, false, 0, nil), evRestart(), evDecision()}
	// (a) RestoreCommittedLogs over a store without commit tracking: ErrIncompatibleLogStore (and the other three combinations start)
	for _, tr := range [][2]uint64{{0, 1}, {1, 1}, {1, 0}, {0, 0}} {
		for _, nent := range []uint64{1, 4} {
			for _, mono := range []uint64{0, 1} {
				g := base(tr[0], tr[1], 4, nent)
				g.mono = mono
				g.pcommit = nent - 1
				if mono == 1 {
					g.snaps = []nsSnap{{idx: 1, term: 1, cfg: cfgSAB, cfgidx: 1, data: nil, ok: true}}
				}
				run(g, probe...)
			}
		}
	}
	// (b) snapshots listed, none of them usable: NewRaft fails; one usable among unusable ones: that one, whatever its rank
	sn := func(idx, term uint64, data []uint64, ok bool) nsSnap {
		return nsSnap{idx: idx, term: term, cfg: cfgSAB, cfgidx: 1, data: data, ok: ok}
	}
	for _, fl := range [][2]uint64{{0, 0}, {1, 1}} {
		for _, snaps := range [][]nsSnap{
			{sn(2, 2, []uint64{202}, false)},
			{sn(2, 2, []uint64{202}, false), sn(3, 2, []uint64{202, 203}, false)},
			{sn(2, 2, []uint64{202}, true), sn(3, 2, []uint64{202, 203}, false), sn(4, 2, []uint64{202, 203, 204}, false)},
			{sn(2, 2, []uint64{202}, false), sn(3, 2, []uint64{202, 203}, true), sn(4, 2, []uint64{202, 203, 204}, false)},
			// (c) listing order: term first, then index, then creation (later first)
			{sn(2, 2, []uint64{11}, true), sn(2, 2, []uint64{11, 12}, true)},  // same (term, index), different content: the later one
			{sn(2, 2, []uint64{11, 12}, true), sn(2, 2, []uint64{11}, true)},  // ... in the other creation order
			{sn(2, 2, []uint64{11}, true), sn(2, 2, []uint64{11, 12}, false)}, // the later one unusable: the earlier one
			{sn(5, 2, []uint64{11}, true), sn(3, 3, []uint64{11, 12}, true)},  // term order and index order disagree: term wins
			{sn(3, 3, []uint64{11, 12}, true), sn(5, 2, []uint64{11}, true)},  // ... in the other creation order
			{sn(5, 2, []uint64{11}, true), sn(3, 3, []uint64{11, 12}, false)}, // the higher term unusable: fall back to the higher index
			{sn(4, 2, []uint64{11}, true), sn(5, 2, []uint64{12}, true), sn(3, 3, []uint64{13}, true), sn(3, 3, []uint64{14}, true)},
		} {
			g := base(fl[0], fl[1], 4, 5)
			g.pcommit = 4
			g.snaps = snaps
			run(g, evDecision(), evSnapshot(0, nil), evRestart(), evDecision())
		}
	}
	// (d) RestoreCommittedLogs hands the committed entries to the FSM queue (capacity 128) before the FSM goroutine exists:
	// exactly 128 batches start, 129 block for ever (finding F4b; one boot only: each blocked NewRaft costs the 2 s watchdog)
	type qc struct{ maxapp, handed uint64 }
	qcs := []qc{{1, 127}, {1, 128}, {1, 129}, {4, 509}, {4, 512}}
	if tier != "quick" {
		qcs = append(qcs, qc{4, 513}, qc{2, 256}, qc{2, 257}, qc{64, 128 * 64}, qc{64, 128*64 + 1})
	}
	for _, q := range qcs {
		// entries 1..handed are all handed over (the configuration entry and commands), one uncommitted entry follows
		g := base(1, 1, q.maxapp, q.handed+1)
		g.pcommit = q.handed
		if (q.handed+q.maxapp-1)/q.maxapp > 128 {
			run(g, evDecision())
		} else {
			run(g, evDecision(), evRestart(), evDecision())
		}
	}
	// ... with a snapshot: only what lies above it is replayed; no-ops are not handed over
	for _, q := range []qc{{1, 128}, {1, 129}} {
		if q.handed == 129 && tier == "quick" {
			continue
		}
		g := base(1, 1, 1, 2)
		g.snaps = []nsSnap{sn(2, 2, []uint64{202}, true)}
		for i := uint64(3); i < 3+q.handed; i++ {
			g.entries = append(g.entries, mk(i, 2, 0, 200+i), mk(1000+i, 2, 1, 0))
		}
		// (indices must be contiguous for processLogs: renumber)
		es := g.entries[:2]
		for k, e := range g.entries[2:] {
			e[0] = uint64(3 + k)
			es = append(es, e)
		}
		g.entries = es
		g.pcommit = uint64(len(es))
		run(g, evDecision())
	}
	// (e) the durable commit index is at / above the last configuration entry: NewRaft sets the commit index but leaves the
	// configuration "latest, not committed"; a heartbeat whose LeaderCommit is above the commit index but which vouches for
	// nothing beyond it (previous entry = commit index) must not re-run the commit step
	for _, cfgAt := range []uint64{1, 3} {
		for _, pc := range []uint64{2, 3, 4} {
			g := base(1, 1, 4, 4)
			g.entries[cfgAt-1] = mk(cfgAt, g.entries[cfgAt-1][1], 5, 9000+b2u(cfgAt > 1))
			g.entries[0] = mk(1, 1, 5, 9000)
			g.pcommit = pc
			lt := uint64(2)
			run(g, evAppend(3, 3, 3, pc, lt, nil, pc+1, 0, nil), evSnapshot(0, nil),
				evAppend(3, 3, 3, 4, lt, nil, 4, 0, nil), evAppend(3, 3, 3, 4, lt, [][4]uint64{mk(5, 3, 0, 305)}, 5, 0, nil), evSnapshot(0, nil), evRestart(), evDecision())
		}
	}
	return m
}

func runC10(cw *caseWriter, tier string, seed uint64) {
	c10gen(cw, tier, &rng{s: seed})
	// the term a restart resumes with is the durable one: candidate sessions compare the term the server acts in with its stable store
	runC14cand(cw, tier, &rng{s: seed*43 + 11})
}

// C02: FSM streams. Node level: the crash/restart sequences above (every FSM call is in the
// compared trace); cluster level: churn and the snapshot + leader-change family.
func runC02(cw *caseWriter, tier string, seed uint64) {
	r := &rng{s: seed}
	c10gen(cw, tier, r)
	c04gen(cw, tier, &rng{s: seed*53 + 7}) // the handler's truncation and acceptance cases with store failures (what the FSM is later handed rests on them)
	if tier == "quick" {
		runScenarios(cw, 1, seed*100000, 100, 12)
		runScenarios(cw, 7, seed*100000, 40, 12)
		runScenarios(cw, 9, seed*100000, 2, 2)
		runScenarios(cw, 13, seed*100000, 40, 12)
		runScenarios(cw, 12, seed*100000, 40, 12) // user Restore with calls in flight: every FSM ends with the restored state + the later entries
	} else {
		runScenarios(cw, 12, seed*100000, 800, 12)
		runScenarios(cw, 13, seed*100000, 800, 12)
		runScenarios(cw, 9, seed*100000, 4, 2)
		runScenarios(cw, 1, seed*100000, 2000, 12)
		runScenarios(cw, 7, seed*100000, 600, 12)
	}
	runC102(cw, tier, seed, 0)
	runC104(cw, tier, seed, 1) // snapshot transfer inside the composed cluster system (Model/ClusterSnap.v)
}
