package main

import (
	"time"

	"github.com/hashicorp/raft"
)

// Generators for the node-sequence component (comp 6) and the property monitors that are
// evaluated on the implementation's observed behaviour.

type nsGen struct {
	self, mono, track, trailing, maxapp uint64
	cfgtab                              [][]srv // payload id = 9000+i
	rc                                  uint64
	term, vterm, vcand                  uint64
	entries                             [][4]uint64
	pcommit                             uint64
	snaps                               []nsSnap
	events                              [][]uint64
}

func (g *nsGen) encode() []uint64 {
	in := []uint64{g.self, g.mono, g.track, g.trailing, g.maxapp, uint64(len(g.cfgtab))}
	for i, c := range g.cfgtab {
		in = append(in, uint64(9000+i))
		in = append(in, encSrvs(c)...)
	}
	in = append(in, g.rc, g.term, g.vterm, g.vcand, uint64(len(g.entries)))
	for _, e := range g.entries {
		in = append(in, e[0], e[1], e[2], e[3])
	}
	in = append(in, g.pcommit, uint64(len(g.snaps)))
	for _, s := range g.snaps {
		in = append(in, s.idx, s.term)
		in = append(in, encSrvs(s.cfg)...)
		in = append(in, s.cfgidx, uint64(len(s.data)))
		in = append(in, s.data...)
		in = append(in, b2u(s.ok))
	}
	for _, e := range g.events {
		in = append(in, e...)
	}
	return in
}

func tail(cut int, fails []bool) []uint64 {
	out := []uint64{uint64(cut), uint64(len(fails))}
	for _, f := range fails {
		out = append(out, b2u(f))
	}
	return out
}

func evVote(term, id, ad, li, lt uint64, transfer bool, cut int, fails []bool) []uint64 {
	return append([]uint64{1, term, id, ad, li, lt, b2u(transfer)}, tail(cut, fails)...)
}
func evPreVote(term, id, ad, li, lt uint64) []uint64 {
	return append([]uint64{2, term, id, ad, li, lt}, tail(0, nil)...)
}
func evAppend(term, ad, id, pi, pt uint64, es [][4]uint64, lc uint64, cut int, fails []bool) []uint64 {
	out := []uint64{3, term, ad, id, pi, pt, uint64(len(es))}
	for _, e := range es {
		out = append(out, e[0], e[1], e[2], e[3])
	}
	out = append(out, lc)
	return append(out, tail(cut, fails)...)
}
func evInstall(term, ad, id, li, lt uint64, cfg []srv, ci uint64, data []uint64, short bool, cut int, fails []bool) []uint64 {
	out := []uint64{4, term, ad, id, li, lt}
	out = append(out, encSrvs(cfg)...)
	out = append(out, ci, uint64(len(data)))
	out = append(out, data...)
	out = append(out, b2u(short))
	return append(out, tail(cut, fails)...)
}
func evTimeoutNow() []uint64                 { return append([]uint64{5}, tail(0, nil)...) }
func evElect(cut int, fails []bool) []uint64 { return append([]uint64{6}, tail(cut, fails)...) }
func evRestart() []uint64                    { return append([]uint64{7}, tail(0, nil)...) }
func evDecision() []uint64                   { return append([]uint64{8}, tail(0, nil)...) }

// standard 3-voter configuration {S=1, A=2, B=3} + variants
var cfgSAB = []srv{{0, 1, 1}, {0, 2, 2}, {0, 3, 3}}

func nsRun(cw *caseWriter, tag string, in []uint64, monitors func(tag string, in, obs []uint64)) {
	t0 := time.Now()
	obs, info := nsExec(in)
	if d := time.Since(t0); d > 300*time.Millisecond {
		cw.note("SLOW", "%s %v", tag, d)
	}
	nt := info["votes_granted"] > 0 || info["append_success"] > 0 || info["crash_cuts"] > 0 || info["panics"] > 0
	cw.emit(tag, 6, in, obs, nt)
	for _, k := range sortedKeys(info) {
		cw.stat("ns_"+k, info[k])
	}
	if monitors != nil {
		monitors(tag, in, obs)
	}
}

// ---------------------------------------------------------------- C06 generator
// server S=1; candidates A=2, B=3 (voters), C=4 (not in the configuration)

func c06images() []*nsGen {
	var out []*nsGen
	cfgs := [][]srv{
		cfgSAB,                            // A, B voters
		{{0, 1, 1}, {1, 2, 2}, {0, 3, 3}}, // A non-voter
		{{0, 1, 1}, {0, 3, 3}},            // A absent
	}
	for ci, cfg := range cfgs {
		for _, logShape := range []int{0, 1} {
			for _, vote := range []int{0, 1, 2, 3} {
				g := &nsGen{self: 1, trailing: 100, maxapp: 4, cfgtab: [][]srv{cfg}}
				g.term = 3
				g.entries = [][4]uint64{{1, 1, 5, 9000}}
				if logShape == 1 {
					g.entries = append(g.entries, [4]uint64{2, 1, 0, 11}, [4]uint64{3, 2, 0, 12})
				}
				switch vote {
				case 1:
					g.vterm, g.vcand = 3, 2+1
				case 2:
					g.vterm, g.vcand = 3, 3+1
				case 3:
					g.vterm, g.vcand = 2, 2+1
				}
				_ = ci
				out = append(out, g)
			}
		}
	}
	// snapshot ahead of the log store (after InstallSnapshot / Restore, before new appends)
	for _, vote := range []int{0, 1} {
		g := &nsGen{self: 1, trailing: 100, maxapp: 4, cfgtab: [][]srv{cfgSAB}}
		g.term = 3
		g.entries = [][4]uint64{{1, 1, 5, 9000}}
		g.snaps = []nsSnap{{idx: 10, term: 3, cfg: cfgSAB, cfgidx: 1, data: []uint64{5, 6}, ok: true}}
		if vote == 1 {
			g.vterm, g.vcand = 3, 2+1
		}
		out = append(out, g)
	}
	// no configuration at all (bootstrap situation)
	g := &nsGen{self: 1, trailing: 100, maxapp: 4}
	g.term = 3
	out = append(out, g)
	return out
}

// images where the newest snapshot and the last log entry sit on the SAME index with different terms
// (getLastEntry's tie: the log entry wins): what electSelf advertises and what votes are compared with
func c06tieImages() []*nsGen {
	var out []*nsGen
	for _, tt := range [][2]uint64{{1, 2}, {2, 1}} { // (term of log entry 2, term of the snapshot at 2)
		g := &nsGen{self: 1, trailing: 100, maxapp: 4, cfgtab: [][]srv{cfgSAB}}
		g.term = 3
		g.entries = [][4]uint64{{1, 1, 5, 9000}, {2, tt[0], 0, 11}}
		g.snaps = []nsSnap{{idx: 2, term: tt[1], cfg: cfgSAB, cfgidx: 1, data: []uint64{11}, ok: true}}
		out = append(out, g)
	}
	return out
}

type c06sym struct {
	ev     []uint64
	durOps int // durable ops the handler may perform (for failure / cut enumeration)
	kind   int
}

func c06alphabet(t uint64) []c06sym {
	var a []c06sym
	for _, cand := range []uint64{2, 3, 4} {
		for _, term := range []uint64{t, t + 1} {
			for _, fresh := range []bool{true, false} {
				li, lt := uint64(0), uint64(0)
				if fresh {
					li, lt = 10, t
				}
				a = append(a, c06sym{ev: evVote(term, cand, cand, li, lt, false, 0, nil), durOps: 3, kind: 1})
			}
		}
	}
	a = append(a, c06sym{ev: evVote(t+1, 2, 2, 10, t, true, 0, nil), durOps: 3, kind: 1})
	a = append(a, c06sym{ev: evVote(t+1, 3, 3, 4, 2, false, 0, nil), durOps: 3, kind: 1}) // behind a snapshot at (10,t), ahead of short logs
	a = append(a, c06sym{ev: evPreVote(t+1, 2, 2, 10, t), kind: 2})
	// a pre-vote from the server that is the advertised leader once its AppendEntries (below) was handled: the "we have a leader" refusal exempts it
	a = append(a, c06sym{ev: evPreVote(t+1, 3, 3, 10, t), kind: 2})
	// a vote request without an ID in the header (older senders): the membership checks are skipped, here for an address outside the configuration
	a = append(a, c06sym{ev: evVote(t+1, 0, 4, 10, t, false, 0, nil), durOps: 3, kind: 1})
	a = append(a, c06sym{ev: evAppend(t, 3, 3, 0, 0, nil, 0, 0, nil), durOps: 1, kind: 3})
	a = append(a, c06sym{ev: evAppend(t+1, 3, 3, 0, 0, nil, 0, 0, nil), durOps: 1, kind: 3})
	a = append(a, c06sym{ev: evRestart(), kind: 7})
	a = append(a, c06sym{ev: evElect(0, nil), durOps: 3, kind: 6})
	// InstallSnapshot from a sender of the server's own term, and from a sender of an OLDER term whose snapshot lies far beyond
	// the server's log (a deposed leader still streaming): the stale one is refused and changes nothing - not the term, not
	// the advertised leader, not the log
	a = append(a, c06sym{ev: evInstall(t, 3, 3, 12, t, cfgSAB, 1, []uint64{71, 72}, false, 0, nil), durOps: 3, kind: 4})
	a = append(a, c06sym{ev: evInstall(t-1, 2, 2, 50, t-1, cfgSAB, 1, []uint64{73}, false, 0, nil), durOps: 3, kind: 4})
	return a
}

// replace the (cut, fails) tail of an event
func withTail(ev []uint64, cut int, fails []bool) []uint64 {
	// the tail is the last 2 ints (cut, 0) of a generated event
	base := append([]uint64(nil), ev[:len(ev)-2]...)
	return append(base, tail(cut, fails)...)
}

func failAt(k, n int) []bool {
	f := make([]bool, n)
	f[k] = true
	return f[:k+1]
}

func c06gen(cw *caseWriter, tier string, r *rng) {
	imgs := c06images()
	alpha := c06alphabet(3)
	n := 0
	emitSeq := func(g *nsGen, evs [][]uint64) {
		gg := *g
		gg.events = evs
		nsRun(cw, cw.tag("v"), gg.encode(), c06monitor(cw))
		n++
	}
	// length-1 and length-2 sequences, every failure / crash position on the first event,
	// followed by a probe vote from A and from B (so that the effect of a half-written vote shows)
	probe := [][]uint64{evVote(4, 2, 2, 0, 0, false, 0, nil), evVote(4, 3, 3, 10, 3, false, 0, nil)}
	for _, g := range imgs {
		for _, s1 := range alpha {
			variants := [][]uint64{s1.ev}
			for k := 0; k < s1.durOps; k++ {
				variants = append(variants, withTail(s1.ev, 0, failAt(k, s1.durOps)))
				variants = append(variants, withTail(s1.ev, k+1, nil))
			}
			for _, v1 := range variants {
				for _, s2 := range alpha {
					if tier == "quick" && r.intn(3) != 0 {
						continue
					}
					emitSeq(g, append([][]uint64{v1, s2.ev}, probe...))
				}
			}
		}
	}
	// snapshot/log tie images: every pair of symbols (no failure variants), plus votes whose last term lies between the two terms
	ties := c06tieImages()
	tieAlpha := append(append([]c06sym(nil), alpha...),
		c06sym{ev: evVote(4, 2, 2, 5, 1, false, 0, nil), durOps: 3, kind: 1},
		c06sym{ev: evVote(4, 3, 3, 2, 2, false, 0, nil), durOps: 3, kind: 1},
		c06sym{ev: evPreVote(4, 2, 2, 2, 1), kind: 2})
	for _, g := range ties {
		for _, s1 := range tieAlpha {
			for _, s2 := range tieAlpha {
				if tier == "quick" && r.intn(3) != 0 {
					continue
				}
				emitSeq(g, append([][]uint64{s1.ev, s2.ev}, probe...))
			}
		}
	}
	imgs = append(imgs, ties...)
	cw.stat("c06_enumerated_sequences", n)
	// random longer sequences with failures and cuts anywhere
	cnt := 1500
	if tier != "quick" {
		cnt = 40000
	}
	for c := 0; c < cnt; c++ {
		g := imgs[r.intn(len(imgs))]
		l := 3 + r.intn(5)
		var evs [][]uint64
		for k := 0; k < l; k++ {
			s := alpha[r.intn(len(alpha))]
			e := s.ev
			if s.durOps > 0 && r.chance(1, 3) {
				if r.chance(1, 2) {
					e = withTail(e, 0, failAt(r.intn(s.durOps), s.durOps))
				} else {
					e = withTail(e, 1+r.intn(s.durOps), nil)
				}
			}
			evs = append(evs, e)
		}
		emitSeq(g, evs)
	}
	cw.stat("c06_random_sequences", cnt)
}

// ---------------------------------------------------------------- C06 monitor
// parsed view of one event's observation
type nsObs struct {
	code  uint64 // 10 normal, 20 crash+boot, 30 panic+boot, 1/2/3/4 boot result, 0 down
	resp  []uint64
	state []uint64 // enc_state (first 16 scalars are enough for the monitors)
	raw   []uint64
}

func nsSplit(obs []uint64) [][]uint64 {
	var out [][]uint64
	p := 0
	for p < len(obs) {
		n := int(obs[p])
		out = append(out, obs[p+1:p+1+n])
		p += 1 + n
	}
	return out
}

// skip an encoded trace starting at o[p]; returns the index after it
func skipTrace(o []uint64, p int) int {
	n := int(o[p])
	p++
	for i := 0; i < n; i++ {
		switch o[p] {
		case 1, 2, 3:
			p += 3
		case 4:
			k := int(o[p+1])
			p += 2 + 4*k + 1
		case 5:
			p += 4
		case 6:
			p += 2
		case 7:
			p += 4
		case 8:
			p += 5
		case 9:
			p += 2
		case 10:
			k := int(o[p+1])
			p += 2 + k
		default:
			return len(o)
		}
	}
	return p
}

// state scalars after a boot output (1 trace state) or normal output (10 resp trace state)
func stateOfBoot(o []uint64) []uint64 {
	if len(o) == 0 || o[0] != 1 {
		return nil
	}
	p := skipTrace(o, 1)
	return o[p:]
}

// events decoded from the input (kind + fields), aligned with the observations
type nsEvent struct {
	short                          bool // InstallSnapshot: fewer bytes on the wire than Size says
	kind                           uint64
	term, id, ad, li, lt, transfer uint64
}

func nsEvents(in []uint64) []nsEvent {
	c := nsDecode(in)
	ev := c.events
	var out []nsEvent
	p := 0
	skipTail := func() {
		nf := int(ev[p+1])
		p += 2 + nf
	}
	for p < len(ev) {
		e := nsEvent{kind: ev[p]}
		switch ev[p] {
		case 1:
			e.term, e.id, e.ad, e.li, e.lt, e.transfer = ev[p+1], ev[p+2], ev[p+3], ev[p+4], ev[p+5], ev[p+6]
			p += 7
		case 2:
			e.term, e.id, e.ad, e.li, e.lt = ev[p+1], ev[p+2], ev[p+3], ev[p+4], ev[p+5]
			p += 6
		case 3:
			e.term, e.ad, e.id = ev[p+1], ev[p+2], ev[p+3]
			ne := int(ev[p+6])
			p += 7 + 4*ne + 1
		case 4:
			e.term, e.ad, e.id, e.li, e.lt = ev[p+1], ev[p+2], ev[p+3], ev[p+4], ev[p+5]
			var cfg []srv
			cfg, p = decSrvs(ev, p+6)
			_ = cfg
			nd := int(ev[p+1])
			e.short = ev[p+2+nd] != 0
			p += 2 + nd + 1
		case 5, 6, 7, 8, 9:
			p++
		default:
			return out
		}
		skipTail()
		out = append(out, e)
	}
	return out
}

const (
	sRole = iota
	sTerm
	sDTerm
	sVTerm
	sVCand
	sCommit
	sApplied
	sLastLogIdx
	sLastLogTerm
	sLastSnapIdx
	sLastSnapTerm
	sLatestIdx
	sCommittedIdx
	sLeader
	sLeaderId
	sTransfer
	sLatestCfg // encoded configuration follows
)

func cfgAt(st []uint64, p int) ([]srv, int) { return decSrvs(st, p) }

func c06monitor(cw *caseWriter) func(tag string, in, obs []uint64) {
	return func(tag string, in, obs []uint64) {
		parts := nsSplit(obs)
		evs := nsEvents(in)
		if len(parts) == 0 {
			return
		}
		cur := stateOfBoot(parts[0])
		granted := map[uint64]uint64{} // term -> candidate address granted
		claims := map[[2]uint64]bool{} // (sender address, term) of every AppendEntries / InstallSnapshot received
		c18off := false
		var maxTerm uint64
		if cur != nil {
			maxTerm = cur[sTerm]
		}
		for i, e := range evs {
			if i+1 >= len(parts) {
				break
			}
			o := parts[i+1]
			if len(o) == 0 {
				continue
			}
			var next []uint64
			var resp []uint64
			switch o[0] {
			case 10:
				if e.kind == 8 {
					continue
				}
				nresp := map[uint64]int{1: 2, 2: 2, 3: 5, 4: 3, 5: 0, 6: 5, 9: 1}[e.kind]
				resp = o[1 : 1+nresp]
				p := skipTrace(o, 1+nresp)
				next = o[p:]
			case 20, 30:
				next = stateOfBoot(o[1:])
			case 1:
				next = stateOfBoot(o)
			default:
				next = nil
			}
			// C18: a follower advertises only a server whose AppendEntries / InstallSnapshot of the
			// follower's current term it has received
			if e.kind == 3 || e.kind == 4 {
				claims[[2]uint64{e.ad, e.term}] = true
			}
			if e.kind == 6 && cur != nil && cur[sRole] == 0 {
				// electSelf called on a follower: a stimulus of the harness that the code cannot produce
				// (its only caller is runCandidate) - outside the hypothesis of C18_advertised_leader
				c18off = true
			}
			if !c18off && next != nil && next[sRole] == 0 && next[sLeader] != 0 && !claims[[2]uint64{next[sLeader], next[sTerm]}] {
				cw.monitor("C18", tag, "follower-advertises-server-without-claim-for-its-term", "event %d: follower in term %d names a%d as leader, no AppendEntries/InstallSnapshot of term %d from it was received", i, next[sTerm], next[sLeader], next[sTerm])
			}
			// (a) reported terms never decrease, also across restarts
			if next != nil {
				if next[sTerm] < maxTerm {
					cw.monitor("C06", tag, "term-decreased", "event %d: term %d after %d", i, next[sTerm], maxTerm)
				}
				if next[sTerm] > maxTerm {
					maxTerm = next[sTerm]
				}
			}
			if resp != nil && (e.kind == 1 || e.kind == 2 || e.kind == 3 || e.kind == 4) && len(resp) > 0 {
				if cur != nil && resp[0] < cur[sTerm] {
					cw.monitor("C06", tag, "response-term-below-current", "event %d: %d < %d", i, resp[0], cur[sTerm])
				}
			}
			// (b) one candidate per term; granted => durable record is exactly (term, candidate)
			if e.kind == 1 && resp != nil && resp[1] == 1 {
				if c, ok := granted[e.term]; ok && c != e.ad {
					cw.monitor("C06", tag, "two-candidates-granted-in-one-term", "term %d: a%d and a%d", e.term, c, e.ad)
					cw.monitor("C01", tag, "one-server-granted-two-candidates-in-one-term", "term %d: a%d and a%d (each vote counts towards a different majority)", e.term, c, e.ad)
				}
				granted[e.term] = e.ad
				if next != nil && (next[sVTerm] != e.term || next[sVCand] != e.ad+1) {
					cw.monitor("C06", tag, "granted-without-durable-record", "event %d: record (%d,%d) for grant (%d,a%d)", i, next[sVTerm], next[sVCand], e.term, e.ad)
				}
			}
			// (b') the candidate's own vote: counted (code 2) only once it is durably recorded as (term, self);
			// it then is the one grant of that term
			if e.kind == 6 && resp != nil && len(resp) == 5 && resp[4] == 2 && next != nil {
				self := in[0]
				if next[sVTerm] != resp[0] || next[sVCand] != self+1 {
					cw.monitor("C06", tag, "self-vote-counted-without-durable-record", "event %d: electSelf counts its own vote for term %d, the durable record is (%d,%d)", i, resp[0], next[sVTerm], next[sVCand])
				}
				if c, ok := granted[resp[0]]; ok && c != self {
					cw.monitor("C06", tag, "two-candidates-granted-in-one-term", "term %d: a%d and itself", resp[0], c)
				}
				granted[resp[0]] = self
			}
			// (c) vote cast: the durable record is "live" when its term equals the durable current
			// term (only then can a request be compared with it: older terms are refused, newer
			// ones bump the term first). A cast = the live record changes to a pair (t,c). It must
			// stem from the request being handled, by a voter (or no configuration), log up to date.
			live := func(st []uint64) (uint64, uint64, bool) {
				if st[sVCand] != 0 && st[sVTerm] == st[sDTerm] {
					return st[sVTerm], st[sVCand], true
				}
				return 0, 0, false
			}
			castNow := false
			if cur != nil && next != nil {
				pt, pc, pl := live(cur)
				nt2, nc2, nl := live(next)
				castNow = nl && !(pl && pt == nt2 && pc == nc2)
			}
			if castNow {
				t, c := next[sVTerm], next[sVCand]-1
				self := in[0]
				okCast := false
				why := "no vote request in this event"
				if e.kind == 6 && c == self {
					okCast = true // own vote in electSelf
				}
				if e.kind == 1 {
					why = ""
					if e.term != t || e.ad != c {
						why = "record names another (term,candidate) than the request handled"
					} else {
						// voter's own last entry at that moment
						li, lt := cur[sLastLogIdx], cur[sLastLogTerm]
						if cur[sLastSnapIdx] > li {
							li, lt = cur[sLastSnapIdx], cur[sLastSnapTerm]
						}
						if e.lt < lt || (e.lt == lt && e.li < li) {
							why = "candidate log behind the voter's"
						}
						cfg, _ := cfgAt(cur, sLatestCfg)
						if len(cfg) > 0 && e.id != 0 {
							isVoter := false
							for _, s := range cfg {
								if s.id == e.id {
									isVoter = s.suff == 0
									break
								}
							}
							if !isVoter {
								why = "candidate is not a voter of the configuration"
							}
						}
					}
					okCast = why == ""
				}
				if !okCast {
					cw.monitor("C06", tag, "vote-cast-without-check", "event %d: durable vote record became (%d,a%d): %s", i, t, c, why)
				}
			}
			if next != nil {
				cur = next
			} else if o[0] != 10 {
				cur = nil
			}
		}
	}
}

func runC06(cw *caseWriter, tier string, seed uint64) {
	r := &rng{s: seed}
	c06gen(cw, tier, r)
	runC14cand(cw, tier, &rng{s: seed*47 + 13}) // candidate loop: terms learned from answers are persisted before they are acted on
	c06readFaults(cw, &rng{s: seed + 3})
	c01nodeseq(cw, tier, &rng{s: seed*61 + 17}) // random sequences with TimeoutNow + the directed re-vote sequences
}

// component 606 (monitored only): transient READ errors of the stable store inside requestVote.
// A server that has durably granted its vote of term T to candidate X is asked for the same term by candidate Y
// (log up to date, no leader known, or the leadership-transfer flag set) while the read of LastVoteTerm and/or
// LastVoteCand fails once. Property (C06): at most one candidate per term is granted, "when its stable store
// returns an error at any point" - the second request must not be granted, and the durable vote must still name X.
func c06readFaults(cw *caseWriter, r *rng) {
	n := 0
	for _, fk := range [][]string{{"LastVoteTerm"}, {"LastVoteCand"}, {"LastVoteTerm", "LastVoteCand"}, {"CurrentTerm"}} {
		for _, transfer := range []bool{false, true} {
			for _, newer := range []uint64{0, 1} {
				tag := cw.tag("rf")
				stable := NewMapStable()
				logs := NewMapLogStore(nil)
				logs.m[1] = &raft.Log{Index: 1, Term: 1, Type: raft.LogConfiguration, Data: raft.EncodeConfiguration(mkConfig(cfgSAB))}
				logs.m[2] = &raft.Log{Index: 2, Term: 2, Type: raft.LogCommand, Data: dataOf(202)}
				T := uint64(3)
				stable.kvInt["CurrentTerm"] = T - newer // newer = 1: the request also carries a newer term than the server's
				stable.kvInt["LastVoteTerm"] = T
				stable.kv["LastVoteCand"] = []byte(addrStr(2))
				if newer == 1 {
					// a vote record of term T with a current term T-1 is what a crash between persistVote's writes cannot leave;
					// use a record of the server's own term instead and ask for that term
					stable.kvInt["CurrentTerm"] = T
				}
				nd, err := newNode(nodeOpts{id: 1, trailing: 100, maxAppend: 4, startFSM: true}, logs, stable, nil)
				if err != nil {
					continue
				}
				stable.mu.Lock()
				stable.readFail = map[string]int{}
				for _, k := range fk {
					stable.readFail[k] = 1
				}
				stable.mu.Unlock()
				req := &raft.RequestVoteRequest{RPCHeader: header(3, 3), Term: T, LastLogIndex: 2, LastLogTerm: 2, LeadershipTransfer: transfer}
				resp, _ := nd.r.VerifProcessRPC(req, nil)
				granted := false
				if rv, ok := resp.(*raft.RequestVoteResponse); ok && rv != nil {
					granted = rv.Granted
				}
				_, vt, vc := stable.Triple()
				n++
				if granted {
					cw.monitor("C06", tag, "two-candidates-granted-in-one-term", "vote of term %d durably granted to server 2; a RequestVote of server 3 for term %d with a failing read of %v was GRANTED (durable vote now: term %d candidate %d)", T, T, fk, vt, vc)
				} else if vt == T && vc != 2 {
					cw.monitor("C06", tag, "durable-vote-of-a-term-replaced", "vote of term %d was durably granted to server 2; after a refused RequestVote with a failing read of %v the record names %d", T, fk, vc)
				}
				nd.shutdown()
			}
		}
	}
	cw.stat("c06_read_fault_cases", n)
}
