package main

import (
	"bytes"
	"encoding/binary"
	"errors"
	"fmt"
	"io"
	"sort"
	"sync"
	"time"

	"github.com/hashicorp/go-hclog"
	"github.com/hashicorp/raft"
)

// ---------------------------------------------------------------- stable store
type stableOp struct {
	key    string
	u64    uint64
	val    string
	isU64  bool
	failed bool
}

// MapStable: StableStore with failure injection (one bit per Set/SetUint64 call) and an op log.
type MapStable struct {
	mu    sync.Mutex
	kvInt map[string]uint64
	kv    map[string][]byte
	orc   *oracle
	ops   []stableOp
	onOp  func(op stableOp)
	// transient READ errors (monitored scenarios only; the model's reads never fail): key -> reads to fail
	readFail map[string]int
	// a slow read (scenario family 20): key -> how long the next reads of it take
	readDelay map[string]time.Duration
}

func (s *MapStable) delayRead(key string) {
	s.mu.Lock()
	d := s.readDelay[key]
	s.mu.Unlock()
	if d > 0 {
		time.Sleep(d)
	}
}

var errInjectedRead = errors.New("injected read failure")

func (s *MapStable) failRead(key string) bool {
	if s.readFail[key] > 0 {
		s.readFail[key]--
		return true
	}
	return false
}

func NewMapStable() *MapStable {
	return &MapStable{kvInt: map[string]uint64{}, kv: map[string][]byte{}}
}

var errNotFound = errors.New("not found")

func (s *MapStable) nextFail() bool { return s.orc.next() }

func (s *MapStable) Set(key []byte, val []byte) error {
	s.mu.Lock()
	failed := s.nextFail()
	op := stableOp{key: string(key), val: string(val), failed: failed}
	s.ops = append(s.ops, op)
	if !failed {
		s.kv[string(key)] = append([]byte(nil), val...)
	}
	s.mu.Unlock()
	if s.onOp != nil {
		s.onOp(op)
	}
	if failed {
		return errInjected
	}
	return nil
}

func (s *MapStable) Get(key []byte) ([]byte, error) {
	s.mu.Lock()
	defer s.mu.Unlock()
	if s.failRead(string(key)) {
		return nil, errInjectedRead
	}
	v, ok := s.kv[string(key)]
	if !ok {
		return nil, errNotFound
	}
	return v, nil
}

func (s *MapStable) SetUint64(key []byte, val uint64) error {
	s.mu.Lock()
	failed := s.nextFail()
	op := stableOp{key: string(key), u64: val, isU64: true, failed: failed}
	s.ops = append(s.ops, op)
	if !failed {
		s.kvInt[string(key)] = val
	}
	s.mu.Unlock()
	if s.onOp != nil {
		s.onOp(op)
	}
	if failed {
		return errInjected
	}
	return nil
}

func (s *MapStable) GetUint64(key []byte) (uint64, error) {
	s.delayRead(string(key))
	s.mu.Lock()
	defer s.mu.Unlock()
	if s.failRead(string(key)) {
		return 0, errInjectedRead
	}
	v, ok := s.kvInt[string(key)]
	if !ok {
		return 0, errNotFound
	}
	return v, nil
}

func (s *MapStable) Clone() *MapStable {
	s.mu.Lock()
	defer s.mu.Unlock()
	n := NewMapStable()
	for k, v := range s.kvInt {
		n.kvInt[k] = v
	}
	for k, v := range s.kv {
		n.kv[k] = append([]byte(nil), v...)
	}
	return n
}

// (term, voteTerm, voteCand) as numbers; candidate address "aN" -> N, missing -> 0
func (s *MapStable) Triple() (term, vterm, vcand uint64) {
	s.mu.Lock()
	defer s.mu.Unlock()
	term = s.kvInt["CurrentTerm"]
	vterm = s.kvInt["LastVoteTerm"]
	if v, ok := s.kv["LastVoteCand"]; ok {
		vcand = addrNum(raft.ServerAddress(v))
	}
	return
}

// ---------------------------------------------------------------- snapshot store
type snap struct {
	meta       raft.SnapshotMeta
	data       []byte
	unreadable bool
	seq        int
}

// SnapStore: durable at Close; List newest first by (term, index, creation).
type SnapStore struct {
	mu    sync.Mutex
	snaps []*snap
	seq   int
	orc   *oracle // one bit for Create, one for Close
	ops   []string
	onOp  func(idx, term uint64, ok bool)
}

func NewSnapStore() *SnapStore { return &SnapStore{} }

func (s *SnapStore) nextFail() bool { return s.orc.next() }

type snapSink struct {
	st   *SnapStore
	sn   *snap
	buf  bytes.Buffer
	done bool
}

func (s *SnapStore) Create(version raft.SnapshotVersion, index, term uint64, configuration raft.Configuration,
	configurationIndex uint64, trans raft.Transport) (raft.SnapshotSink, error) {
	s.mu.Lock()
	if s.nextFail() {
		s.ops = append(s.ops, "create-fail")
		s.mu.Unlock()
		if s.onOp != nil {
			s.onOp(index, term, false)
		}
		return nil, errInjected
	}
	defer s.mu.Unlock()
	s.seq++
	sn := &snap{seq: s.seq}
	sn.meta = raft.SnapshotMeta{Version: version, ID: fmt.Sprintf("snap-%d-%d-%d", term, index, s.seq), Index: index, Term: term,
		Configuration: configuration.Clone(), ConfigurationIndex: configurationIndex}
	return &snapSink{st: s, sn: sn}, nil
}

func (k *snapSink) Write(p []byte) (int, error) { return k.buf.Write(p) }
func (k *snapSink) ID() string                  { return k.sn.meta.ID }
func (k *snapSink) Cancel() error {
	k.done = true
	return nil
}
func (k *snapSink) Close() error {
	if k.done {
		return nil
	}
	k.done = true
	s := k.st
	s.mu.Lock()
	if s.nextFail() {
		s.ops = append(s.ops, "close-fail")
		s.mu.Unlock()
		if s.onOp != nil {
			s.onOp(k.sn.meta.Index, k.sn.meta.Term, false)
		}
		return errInjected
	}
	k.sn.data = append([]byte(nil), k.buf.Bytes()...)
	k.sn.meta.Size = int64(len(k.sn.data))
	s.snaps = append(s.snaps, k.sn)
	op := fmt.Sprintf("snap %d %d", k.sn.meta.Index, k.sn.meta.Term)
	s.ops = append(s.ops, op)
	s.mu.Unlock()
	if s.onOp != nil {
		s.onOp(k.sn.meta.Index, k.sn.meta.Term, true)
	}
	return nil
}

func (s *SnapStore) sorted() []*snap {
	out := append([]*snap(nil), s.snaps...)
	sort.SliceStable(out, func(i, j int) bool {
		a, b := out[i], out[j]
		if a.meta.Term != b.meta.Term {
			return a.meta.Term > b.meta.Term
		}
		if a.meta.Index != b.meta.Index {
			return a.meta.Index > b.meta.Index
		}
		return a.seq > b.seq
	})
	return out
}

func (s *SnapStore) List() ([]*raft.SnapshotMeta, error) {
	s.mu.Lock()
	defer s.mu.Unlock()
	var out []*raft.SnapshotMeta
	for _, sn := range s.sorted() {
		m := sn.meta
		out = append(out, &m)
	}
	return out, nil
}

func (s *SnapStore) Open(id string) (*raft.SnapshotMeta, io.ReadCloser, error) {
	s.mu.Lock()
	defer s.mu.Unlock()
	for _, sn := range s.snaps {
		if sn.meta.ID == id {
			if sn.unreadable {
				return nil, nil, errors.New("snapshot unreadable")
			}
			m := sn.meta
			return &m, io.NopCloser(bytes.NewReader(sn.data)), nil
		}
	}
	return nil, nil, errors.New("no such snapshot")
}

func (s *SnapStore) Clone() *SnapStore {
	s.mu.Lock()
	defer s.mu.Unlock()
	n := NewSnapStore()
	n.seq = s.seq
	for _, sn := range s.snaps {
		c := *sn
		n.snaps = append(n.snaps, &c)
	}
	return n
}

// ---------------------------------------------------------------- FSM
type fsmEvent struct {
	kind  int // 1 apply, 2 restore, 3 storeConfiguration
	index uint64
	term  uint64
	ty    uint64
	id    uint64
	state []uint64 // restore: the restored content (list of applied payload ids)
}

// RecFSM records every call; its state is the list of payload ids applied (in order).
type RecFSM struct {
	mu       sync.Mutex
	events   []fsmEvent
	state    []uint64
	batching bool
	onEvent  func(e fsmEvent)
	idOfLog  func(l *raft.Log) uint64
	delay    time.Duration // slow FSM: every Apply takes this long
	gate     chan struct{} // when non-nil, Apply waits until it is closed
}

func (f *RecFSM) add(e fsmEvent) {
	f.events = append(f.events, e)
	if f.onEvent != nil {
		f.onEvent(e)
	}
}

func (f *RecFSM) Apply(l *raft.Log) interface{} {
	if f.delay > 0 {
		time.Sleep(f.delay)
	}
	if g := f.gate; g != nil {
		<-g
	}
	f.mu.Lock()
	defer f.mu.Unlock()
	id := idOf(l.Data)
	if f.idOfLog != nil {
		id = f.idOfLog(l)
	}
	f.add(fsmEvent{kind: 1, index: l.Index, term: l.Term, ty: uint64(l.Type), id: id})
	f.state = append(f.state, id)
	return respOf(id)
}

// the FSM's answer for a payload: a function of the payload only
func respOf(id uint64) uint64 { return id*7 + 3 }

func (f *RecFSM) StoreConfiguration(index uint64, c raft.Configuration) {
	f.mu.Lock()
	defer f.mu.Unlock()
	f.add(fsmEvent{kind: 3, index: index})
}

type recSnapshot struct{ data []byte }

func (s *recSnapshot) Persist(sink raft.SnapshotSink) error {
	if _, err := sink.Write(s.data); err != nil {
		return err
	}
	return nil
}
func (s *recSnapshot) Release() {}

func encState(st []uint64) []byte {
	b := make([]byte, 8*len(st))
	for i, v := range st {
		binary.BigEndian.PutUint64(b[8*i:], v)
	}
	return b
}
func decState(b []byte) []uint64 {
	var st []uint64
	for i := 0; i+8 <= len(b); i += 8 {
		st = append(st, binary.BigEndian.Uint64(b[i:]))
	}
	return st
}

func (f *RecFSM) Snapshot() (raft.FSMSnapshot, error) {
	f.mu.Lock()
	defer f.mu.Unlock()
	return &recSnapshot{data: encState(f.state)}, nil
}

func (f *RecFSM) Restore(rc io.ReadCloser) error {
	b, err := io.ReadAll(rc)
	if err != nil {
		return err
	}
	f.mu.Lock()
	defer f.mu.Unlock()
	f.state = decState(b)
	f.add(fsmEvent{kind: 2, state: append([]uint64(nil), f.state...)})
	return nil
}

func (f *RecFSM) Events() []fsmEvent {
	f.mu.Lock()
	defer f.mu.Unlock()
	return append([]fsmEvent(nil), f.events...)
}

// BatchFSM adds ApplyBatch
type BatchFSM struct{ RecFSM }

func (f *BatchFSM) ApplyBatch(logs []*raft.Log) []interface{} {
	out := make([]interface{}, len(logs))
	for i, l := range logs {
		if l.Type == raft.LogCommand {
			out[i] = f.RecFSM.Apply(l)
		} else {
			f.mu.Lock()
			f.add(fsmEvent{kind: 3, index: l.Index})
			f.mu.Unlock()
			out[i] = nil
		}
	}
	return out
}

// ---------------------------------------------------------------- ids and configurations
func idStr(n uint64) raft.ServerID {
	if n == 0 {
		return ""
	}
	return raft.ServerID(fmt.Sprintf("s%d", n))
}
func addrStr(n uint64) raft.ServerAddress {
	if n == 0 {
		return ""
	}
	return raft.ServerAddress(fmt.Sprintf("a%d", n))
}
func idNum(s raft.ServerID) uint64 {
	if s == "" {
		return 0
	}
	var n uint64
	fmt.Sscanf(string(s), "s%d", &n)
	return n
}
func addrNum(s raft.ServerAddress) uint64 {
	if s == "" {
		return 0
	}
	var n uint64
	fmt.Sscanf(string(s), "a%d", &n)
	return n
}

type srv struct{ suff, id, addr uint64 }

func mkConfig(ss []srv) raft.Configuration {
	var c raft.Configuration
	for _, s := range ss {
		c.Servers = append(c.Servers, raft.Server{Suffrage: raft.ServerSuffrage(s.suff), ID: idStr(s.id), Address: addrStr(s.addr)})
	}
	return c
}
func encConfig(c raft.Configuration) []uint64 {
	out := []uint64{uint64(len(c.Servers))}
	for _, s := range c.Servers {
		out = append(out, uint64(s.Suffrage), idNum(s.ID), addrNum(s.Address))
	}
	return out
}
func encSrvs(ss []srv) []uint64 {
	out := []uint64{uint64(len(ss))}
	for _, s := range ss {
		out = append(out, s.suff, s.id, s.addr)
	}
	return out
}
func decSrvs(in []uint64, p int) ([]srv, int) {
	n := int(in[p])
	p++
	var ss []srv
	for i := 0; i < n; i++ {
		ss = append(ss, srv{in[p], in[p+1], in[p+2]})
		p += 3
	}
	return ss, p
}

// ---------------------------------------------------------------- stepper node
type node struct {
	r      *raft.Raft
	logs   *MapLogStore
	stable *MapStable
	snaps  *SnapStore
	fsm    *RecFSM
	bfsm   *BatchFSM
	trans  *raft.InmemTransport
	id     uint64
	conf   *raft.Config
}

type nodeOpts struct {
	id            uint64
	trailing      uint64
	maxAppend     int
	batching      bool
	monotonic     bool
	prevoteOff    bool
	startFSM      bool
	restoreCommit bool
	track         bool          // log store implements CommitTrackingLogStore
	timeouts      time.Duration // 0 => one hour
}

func baseConfig(o nodeOpts) *raft.Config {
	c := raft.DefaultConfig()
	to := o.timeouts
	if to == 0 {
		to = time.Hour
	}
	c.HeartbeatTimeout = to
	c.ElectionTimeout = to
	c.LeaderLeaseTimeout = to
	c.CommitTimeout = to
	c.SnapshotInterval = 100 * time.Hour
	c.SnapshotThreshold = 1 << 40
	c.TrailingLogs = o.trailing
	if o.maxAppend > 0 {
		c.MaxAppendEntries = o.maxAppend
	}
	c.LocalID = idStr(o.id)
	c.Logger = hclog.NewNullLogger()
	c.PreVoteDisabled = o.prevoteOff
	c.ShutdownOnRemove = false
	c.RestoreCommittedLogs = o.restoreCommit
	return c
}

var nodeCacheCounter int

// newNode builds a stepper node over the given stores (nil => fresh).
func newNode(o nodeOpts, logs *MapLogStore, stable *MapStable, snaps *SnapStore) (*node, error) {
	if logs == nil {
		logs = NewMapLogStore(nil)
	}
	logs.monotonic = o.monotonic
	if stable == nil {
		stable = NewMapStable()
	}
	if snaps == nil {
		snaps = NewSnapStore()
	}
	n := &node{logs: logs, stable: stable, snaps: snaps, id: o.id}
	_, n.trans = raft.NewInmemTransport(addrStr(o.id))
	n.conf = baseConfig(o)
	var fsm raft.FSM
	if o.batching {
		n.bfsm = &BatchFSM{}
		n.fsm = &n.bfsm.RecFSM
		fsm = n.bfsm
	} else {
		n.fsm = &RecFSM{}
		fsm = n.fsm
	}
	if nsFsmHook != nil {
		nsFsmHook(n.fsm)
	}
	var ls raft.LogStore = logs
	if o.track {
		ls = TrackLogStore{logs}
	} else {
		// every second stepper node reads and writes its log store through a real raft.LogCache of two
		// slots (C19: transparent to the wrapped store; the model is the same): truncations wider than the
		// ring, rewrites of an index after a truncation and compaction then go through the cache's paths
		nodeCacheCounter++
		if nodeCacheCounter%2 == 1 {
			if c, err := raft.NewLogCache(2, logs); err == nil {
				ls = c
			}
		}
	}
	r, err := raft.VerifNewRaft(n.conf, fsm, ls, stable, snaps, n.trans)
	if err != nil {
		return n, err
	}
	n.r = r
	if o.startFSM {
		r.VerifStartFSM()
	}
	return n, nil
}

func (n *node) shutdown() {
	if n.r != nil {
		n.r.Shutdown()
	}
	n.trans.Close()
}
