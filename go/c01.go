package main

// C01: election safety. Node-level sequences that include candidates (TimeoutNow), and the
// cluster scenarios whose histories are checked for two leaders in one term.

func c01nodeseq(cw *caseWriter, tier string, r *rng) {
	imgs := append(c06images(), c06tieImages()...)
	alpha := c06alphabet(3)
	alpha = append(alpha, c06sym{ev: evTimeoutNow(), kind: 5}, c06sym{ev: evDecision(), kind: 8})
	cnt := 2500
	if tier != "quick" {
		cnt = 50000
	}
	for c := 0; c < cnt; c++ {
		g := *imgs[r.intn(len(imgs))]
		l := 3 + r.intn(5)
		var evs [][]uint64
		for k := 0; k < l; k++ {
			s := alpha[r.intn(len(alpha))]
			if r.chance(1, 4) {
				s = alpha[len(alpha)-2] // TimeoutNow: become candidate
			}
			e := s.ev
			if s.durOps > 0 && r.chance(1, 4) {
				if r.chance(1, 2) {
					e = withTail(e, 0, failAt(r.intn(s.durOps), s.durOps))
				} else {
					e = withTail(e, 1+r.intn(s.durOps), nil)
				}
			}
			evs = append(evs, e)
		}
		g.events = evs
		nsRun(cw, cw.tag("n"), g.encode(), c06monitor(cw))
	}
	cw.stat("c01_node_sequences", cnt)
	// directed: the same candidate is granted in two successive terms (its first election failed), with or without a restart in
	// between, then a RIVAL asks for the later term - the record of the later term must be there to refuse it; and the
	// mirror image (the rival first). The vote monitors of c06monitor decide.
	d := 0
	for _, img := range imgs {
		for _, restart := range []bool{false, true} {
			for _, tr := range []bool{false, true} {
				for _, t := range []uint64{5, 7} {
					g := *img
					evs := [][]uint64{evVote(t, 2, 2, 50, 9, tr, 0, nil)}
					if restart {
						evs = append(evs, evRestart())
					}
					evs = append(evs, evVote(t+1, 2, 2, 50, 9, tr, 0, nil))
					if restart {
						evs = append(evs, evRestart())
					}
					evs = append(evs, evVote(t+1, 3, 3, 50, 9, true, 0, nil), evVote(t+1, 2, 2, 50, 9, tr, 0, nil), evVote(t+2, 3, 3, 50, 9, true, 0, nil), evVote(t+2, 2, 2, 50, 9, true, 0, nil))
					g.events = evs
					nsRun(cw, cw.tag("nd"), g.encode(), c06monitor(cw))
					d++
				}
			}
		}
	}
	cw.stat("c01_directed_revote_sequences", d)
}

func runC01(cw *caseWriter, tier string, seed uint64) {
	runC01cluster(cw, tier, seed)
	runC14cand(cw, tier, &rng{s: seed*41 + 9}) // candidate loop against scripted peers, configurations with non-voters included
	r := &rng{s: seed}
	c01nodeseq(cw, tier, r)
	if tier == "quick" {
		runScenarios(cw, 2, seed*100000, 120, 12)
		runScenarios(cw, 3, seed*100000, 30, 12)
		runScenarios(cw, 1, seed*100000, 60, 12)
		runScenarios(cw, 20, seed*100000, 12, 6) // a deposed leader whose replication goroutines are still running
	} else {
		runScenarios(cw, 20, seed*100000, 200, 6)
		runScenarios(cw, 2, seed*100000, 2500, 12)
		runScenarios(cw, 3, seed*100000, 300, 12)
		runScenarios(cw, 1, seed*100000, 1200, 12)
	}
}
