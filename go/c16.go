package main

import (
	"bytes"
	"errors"
	"fmt"
	"io"
	"os"
	"reflect"
	"strings"
	"sync"
	"time"

	"github.com/hashicorp/go-hclog"
	"github.com/hashicorp/raft"
)

// C16: the real raft.NetworkTransport over an in-process StreamLayer (c16net.go).
//   part A (component 1016, monitored only): field fidelity of every RPC kind, both directions
//   part B (component 16, compared with the Coq model): pipeline order / pairing scripts  (c16b.go)
//   part C (component 1016, monitored only): no stale response after a failed exchange   (c16b.go)

// every harness-side wait is bounded by this; it only expires on an anomaly
const c16wait = 3 * time.Second

// ---------- a transport with a recording consumer ----------

type c16node struct {
	layer *c16layer
	trans *raft.NetworkTransport

	mu      sync.Mutex
	handler func(rpc raft.RPC, viaHeartbeat bool)
	stopCh  chan struct{}
	doneCh  chan struct{}
}

type c16cfg struct {
	tcp         bool
	newTime     bool
	rcvNewTime  *bool // the receiving side's MsgpackUseNewTimeFormat when it differs (a node-by-node rollout of the option)
	maxPool     int
	maxInFlight int
	timeout     time.Duration
	heartbeat   bool // install a heartbeat fast-path handler (same recording handler)
}

func newC16node(nw *c16network, cfg c16cfg) *c16node {
	n := &c16node{layer: nw.newLayer(cfg.tcp), stopCh: make(chan struct{}), doneCh: make(chan struct{})}
	n.trans = raft.NewNetworkTransportWithConfig(&raft.NetworkTransportConfig{
		Logger:                  hclog.NewNullLogger(),
		Stream:                  n.layer,
		MaxPool:                 cfg.maxPool,
		MaxRPCsInFlight:         cfg.maxInFlight,
		Timeout:                 cfg.timeout,
		MsgpackUseNewTimeFormat: cfg.newTime,
	})
	if cfg.heartbeat {
		n.trans.SetHeartbeatHandler(func(rpc raft.RPC) { n.dispatch(rpc, true) })
	}
	go n.loop()
	return n
}

func (n *c16node) addr() raft.ServerAddress { return n.trans.LocalAddr() }

func (n *c16node) setHandler(h func(rpc raft.RPC, viaHeartbeat bool)) {
	n.mu.Lock()
	n.handler = h
	n.mu.Unlock()
}

func (n *c16node) dispatch(rpc raft.RPC, hb bool) {
	n.mu.Lock()
	h := n.handler
	n.mu.Unlock()
	if h == nil {
		// nobody is interested: drain a snapshot body and refuse
		if rpc.Reader != nil {
			io.Copy(io.Discard, rpc.Reader)
		}
		rpc.Respond(nil, errors.New("c16: no handler"))
		return
	}
	h(rpc, hb)
}

func (n *c16node) loop() {
	defer close(n.doneCh)
	ch := n.trans.Consumer()
	for {
		select {
		case rpc := <-ch:
			n.dispatch(rpc, false)
		case <-n.stopCh:
			return
		}
	}
}

func (n *c16node) close() {
	n.setHandler(nil)
	n.trans.CloseStreams()
	n.trans.Close()
	close(n.stopCh)
	select {
	case <-n.doneCh:
	case <-time.After(c16wait):
	}
}

// ---------- comparison modulo the measured codec conflations ----------

// Measured on the unmodified transport (see c16probe, which re-measures on every run and
// prints what it finds): these are the only differences tolerated.
const (
	c16confBytesEmptyNil   = true // []byte{} and []byte(nil) are not distinguished
	c16confEntriesEmptyNil = true // []*Log{} and []*Log(nil) are not distinguished
)

var c16timeType = reflect.TypeOf(time.Time{})

func c16short(b []byte) string {
	if b == nil {
		return "nil"
	}
	if len(b) <= 12 {
		return fmt.Sprintf("%x(len %d)", b, len(b))
	}
	return fmt.Sprintf("%x..(len %d)", b[:12], len(b))
}

// c16diff appends to diffs a line for every leaf under path where sent and got differ.
func c16diff(path string, sent, got reflect.Value, diffs *[]string) {
	if sent.Type() != got.Type() {
		*diffs = append(*diffs, fmt.Sprintf("%s: type %s became %s", path, sent.Type(), got.Type()))
		return
	}
	switch sent.Kind() {
	case reflect.Ptr:
		if sent.IsNil() || got.IsNil() {
			if sent.IsNil() != got.IsNil() {
				*diffs = append(*diffs, fmt.Sprintf("%s: nil-ness differs (sent nil=%v, got nil=%v)", path, sent.IsNil(), got.IsNil()))
			}
			return
		}
		c16diff(path, sent.Elem(), got.Elem(), diffs)
	case reflect.Struct:
		if sent.Type() == c16timeType {
			a, b := sent.Interface().(time.Time), got.Interface().(time.Time)
			if !a.Equal(b) || a.UnixNano() != b.UnixNano() || a.IsZero() != b.IsZero() {
				*diffs = append(*diffs, fmt.Sprintf("%s: sent %s (%d ns) got %s (%d ns)", path, a.UTC().Format(time.RFC3339Nano), a.UnixNano(), b.UTC().Format(time.RFC3339Nano), b.UnixNano()))
			}
			return
		}
		for i := 0; i < sent.NumField(); i++ {
			f := sent.Type().Field(i)
			p := f.Name
			if path != "" && !f.Anonymous {
				p = path + "." + f.Name
			} else if path != "" {
				p = path + "." + f.Name
			}
			c16diff(p, sent.Field(i), got.Field(i), diffs)
		}
	case reflect.Slice:
		if sent.Type().Elem().Kind() == reflect.Uint8 {
			a, b := sent.Bytes(), got.Bytes()
			if len(a) == 0 && len(b) == 0 {
				if (a == nil) != (b == nil) && !c16confBytesEmptyNil {
					*diffs = append(*diffs, fmt.Sprintf("%s: sent %s got %s", path, c16short(a), c16short(b)))
				}
				return
			}
			if !bytes.Equal(a, b) {
				off := 0
				for off < len(a) && off < len(b) && a[off] == b[off] {
					off++
				}
				*diffs = append(*diffs, fmt.Sprintf("%s: sent %s got %s (first difference at byte %d)", path, c16short(a), c16short(b), off))
			}
			return
		}
		if sent.Len() == 0 && got.Len() == 0 {
			if sent.IsNil() != got.IsNil() && !c16confEntriesEmptyNil {
				*diffs = append(*diffs, fmt.Sprintf("%s: sent nil=%v got nil=%v", path, sent.IsNil(), got.IsNil()))
			}
			return
		}
		if sent.Len() != got.Len() {
			*diffs = append(*diffs, fmt.Sprintf("%s: sent %d elements got %d", path, sent.Len(), got.Len()))
			return
		}
		for i := 0; i < sent.Len(); i++ {
			c16diff(fmt.Sprintf("%s[%d]", path, i), sent.Index(i), got.Index(i), diffs)
		}
	default:
		if !reflect.DeepEqual(sent.Interface(), got.Interface()) {
			*diffs = append(*diffs, fmt.Sprintf("%s: sent %v got %v", path, sent.Interface(), got.Interface()))
		}
	}
}

func c16compare(sent, got interface{}) []string {
	var d []string
	if got == nil || sent == nil {
		if (got == nil) != (sent == nil) {
			d = append(d, fmt.Sprintf("sent %T got %T", sent, got))
		}
		return d
	}
	c16diff("", reflect.ValueOf(sent), reflect.ValueOf(got), &d)
	return d
}

func c16join(d []string) string {
	if len(d) > 6 {
		return strings.Join(d[:6], "; ") + fmt.Sprintf("; ... (%d differences)", len(d))
	}
	return strings.Join(d, "; ")
}

// ---------- generators ----------

func c16u64(r *rng) uint64 {
	switch r.intn(10) {
	case 0:
		return 0
	case 1:
		return 1
	case 2:
		return ^uint64(0)
	case 3:
		return ^uint64(0) - uint64(r.intn(3))
	case 4:
		return 1 << 63
	case 5:
		return 1<<32 + uint64(r.intn(3)) - 1
	case 6:
		return uint64(r.intn(300)) // crosses the 1-byte / 2-byte msgpack integer boundaries
	case 7:
		return 1<<16 + uint64(r.intn(3)) - 1
	default:
		return r.next()
	}
}

func c16fill(r *rng, n int) []byte {
	b := make([]byte, n)
	i := 0
	for ; i+8 <= n; i += 8 {
		v := r.next()
		b[i], b[i+1], b[i+2], b[i+3] = byte(v), byte(v>>8), byte(v>>16), byte(v>>24)
		b[i+4], b[i+5], b[i+6], b[i+7] = byte(v>>32), byte(v>>40), byte(v>>48), byte(v>>56)
	}
	if i < n {
		v := r.next()
		for ; i < n; i++ {
			b[i] = byte(v)
			v >>= 8
		}
	}
	return b
}

// nil, empty, or 1..max random bytes
func c16bytes(r *rng, max int) []byte {
	switch r.intn(5) {
	case 0:
		return nil
	case 1:
		return []byte{}
	default:
		return c16fill(r, 1+r.intn(max))
	}
}

var c16dataSizes = []int{1, 2, 7, 8, 31, 32, 255, 256, 257, 4095, 4096, 4097, 65535, 65536}

func c16data(r *rng, big bool) []byte {
	switch x := r.intn(20); {
	case x == 0:
		return nil
	case x == 1:
		return []byte{}
	case x < 6:
		n := c16dataSizes[r.intn(len(c16dataSizes))]
		if !big && n > 5000 {
			n = 1 + r.intn(300)
		}
		return c16fill(r, n)
	case x < 8 && big:
		return c16fill(r, r.intn(65537))
	default:
		return c16fill(r, 1+r.intn(200))
	}
}

func c16header(r *rng) raft.RPCHeader {
	h := raft.RPCHeader{ProtocolVersion: raft.ProtocolVersion(r.intn(4))}
	h.ID = c16bytes(r, 40)
	h.Addr = c16bytes(r, 40)
	return h
}

func c16time(r *rng) time.Time {
	switch r.intn(8) {
	case 0:
		return time.Time{}
	case 1:
		return time.Now() // carries a monotonic reading and the local zone
	case 2:
		return time.Unix(int64(r.intn(1<<31)), int64(r.intn(1000000000))).In(time.FixedZone("c16", (r.intn(27)-13)*3600+r.intn(4)*900)) // never -1 minute: time.MarshalBinary rejects exactly that offset
	case 3:
		return time.Unix(int64(r.next()%(1<<33)), 0).UTC()
	case 4:
		return time.Unix(0, 0).UTC()
	case 5:
		return time.Unix(-int64(r.intn(1<<30)), int64(r.intn(1000000000))).UTC() // before 1970
	default:
		return time.Unix(int64(r.next()%(1<<32)), int64(r.intn(1000000000))).UTC()
	}
}

func c16log(r *rng, big bool) *raft.Log {
	l := &raft.Log{Index: c16u64(r), Term: c16u64(r), Type: raft.LogType(r.intn(6)), Data: c16data(r, big)}
	if r.chance(1, 2) {
		l.Extensions = c16bytes(r, 64)
	}
	if r.chance(2, 3) {
		l.AppendedAt = c16time(r)
	}
	return l
}

func c16appendReq(r *rng) *raft.AppendEntriesRequest {
	q := &raft.AppendEntriesRequest{RPCHeader: c16header(r), Term: c16u64(r), Leader: c16bytes(r, 40),
		PrevLogEntry: c16u64(r), PrevLogTerm: c16u64(r), LeaderCommitIndex: c16u64(r)}
	switch x := r.intn(10); {
	case x == 0:
		q.Entries = nil
	case x == 1:
		q.Entries = []*raft.Log{}
	default:
		n := 1 + r.intn(20)
		big := r.chance(1, 4)
		for i := 0; i < n; i++ {
			q.Entries = append(q.Entries, c16log(r, big))
		}
	}
	if r.chance(1, 8) {
		// heartbeat shape: takes the fast path when a heartbeat handler is installed
		q.Term = 1 + r.next()%1000
		if len(q.Addr) == 0 && len(q.Leader) == 0 {
			q.Leader = []byte("leader")
		}
		q.PrevLogEntry, q.PrevLogTerm, q.LeaderCommitIndex, q.Entries = 0, 0, 0, nil
	}
	return q
}

func c16appendResp(r *rng) *raft.AppendEntriesResponse {
	return &raft.AppendEntriesResponse{RPCHeader: c16header(r), Term: c16u64(r), LastLog: c16u64(r),
		Success: r.chance(1, 2), NoRetryBackoff: r.chance(1, 2)}
}

// one generated exchange
type c16exch struct {
	kind   int // 1 AppendEntries 2 RequestVote 3 RequestPreVote 4 InstallSnapshot 5 TimeoutNow 6 pipelined AppendEntries
	req    interface{}
	body   []byte
	chunky bool        // stream the snapshot body through a plain io.Reader in odd-sized chunks
	resp   interface{} // scripted response (nil only together with an error)
	herr   error       // scripted handler error
	size   [2]uint64   // size parameters for the case line
	pre    interface{} // when set: the caller hands in a response struct still holding this earlier response (raft reuses them)
	// InstallSnapshot only: the handler answers WITHOUT reading the body (a consumer that refuses the snapshot at once, e.g. for a
	// stale term).  The exchange itself may then end in an error (the receiver closes the stream on the unread bytes); what is
	// checked is that the NEXT exchanges of the pair are untouched by the leftover bytes.
	nodrain bool
}

func c16genExchange(r *rng, kind int, bodySize int, maxBody int, prefill bool) *c16exch {
	e := &c16exch{kind: kind}
	switch kind {
	case 1, 6:
		q := c16appendReq(r)
		e.req, e.resp = q, c16appendResp(r)
		tot := 0
		for _, l := range q.Entries {
			tot += len(l.Data) + len(l.Extensions)
		}
		e.size = [2]uint64{uint64(len(q.Entries)), uint64(tot)}
	case 2:
		e.req = &raft.RequestVoteRequest{RPCHeader: c16header(r), Term: c16u64(r), Candidate: c16bytes(r, 40),
			LastLogIndex: c16u64(r), LastLogTerm: c16u64(r), LeadershipTransfer: r.chance(1, 2)}
		e.resp = &raft.RequestVoteResponse{RPCHeader: c16header(r), Term: c16u64(r), Peers: c16bytes(r, 300), Granted: r.chance(1, 2)}
	case 3:
		e.req = &raft.RequestPreVoteRequest{RPCHeader: c16header(r), Term: c16u64(r), LastLogIndex: c16u64(r), LastLogTerm: c16u64(r)}
		e.resp = &raft.RequestPreVoteResponse{RPCHeader: c16header(r), Term: c16u64(r), Granted: r.chance(1, 2)}
	case 4:
		if bodySize < 0 {
			switch x := r.intn(10); {
			case x < 5:
				bodySize = r.intn(2000)
			case x < 8:
				bodySize = r.intn(70000)
			default:
				bodySize = r.intn(maxBody + 1)
			}
		}
		if r.chance(1, 5) {
			e.nodrain = true
			bodySize = 1 + r.intn(1500)
		}
		e.body = c16fill(r, bodySize)
		if e.nodrain {
			e.body[0] = 0xFF // the receiver's connection loop meets the leftover next: not an RPC type, it closes the stream (no phantom request)
		}
		e.chunky = r.chance(1, 2)
		e.req = &raft.InstallSnapshotRequest{RPCHeader: c16header(r), SnapshotVersion: raft.SnapshotVersion(r.intn(2)),
			Term: c16u64(r), Leader: c16bytes(r, 40), LastLogIndex: c16u64(r), LastLogTerm: c16u64(r),
			Peers: c16bytes(r, 200), Configuration: c16bytes(r, 400), ConfigurationIndex: c16u64(r), Size: int64(bodySize)}
		e.resp = &raft.InstallSnapshotResponse{RPCHeader: c16header(r), Term: c16u64(r), Success: r.chance(1, 2)}
		e.size = [2]uint64{uint64(bodySize), 0}
		if e.chunky {
			e.size[1] = 1
		}
	case 5:
		e.req = &raft.TimeoutNowRequest{RPCHeader: c16header(r)}
		e.resp = &raft.TimeoutNowResponse{RPCHeader: c16header(r)}
	}
	if prefill && r.chance(1, 3) {
		pre := c16genExchange(r, kind, 0, 0, false)
		e.pre = pre.resp
	}
	if r.chance(1, 5) {
		e.herr = fmt.Errorf("c16-handler-error-%d %s", r.intn(1000000), []string{"", "with spaces and: punctuation\"", "üñí", strings.Repeat("x", 300)}[r.intn(4)])
		if r.chance(1, 3) {
			e.resp = nil // error only, no response object
		}
	}
	return e
}

// plain reader without WriteTo, handing the body out in odd-sized chunks
type c16chunkReader struct {
	b    []byte
	step int
}

func (c *c16chunkReader) Read(p []byte) (int, error) {
	if len(c.b) == 0 {
		return 0, io.EOF
	}
	n := c.step
	if n > len(p) {
		n = len(p)
	}
	if n > len(c.b) {
		n = len(c.b)
	}
	copy(p, c.b[:n])
	c.b = c.b[n:]
	c.step = c.step*3 + 1
	if c.step > 70000 {
		c.step = 1
	}
	return n, nil
}

// what the handler saw
type c16seen struct {
	cmd     interface{}
	body    []byte
	hasBody bool
	bodyErr error
	hb      bool
}

func c16kindOf(cmd interface{}) int {
	switch cmd.(type) {
	case *raft.AppendEntriesRequest:
		return 1
	case *raft.RequestVoteRequest:
		return 2
	case *raft.RequestPreVoteRequest:
		return 3
	case *raft.InstallSnapshotRequest:
		return 4
	case *raft.TimeoutNowRequest:
		return 5
	}
	return 0
}

func c16zeroResp(kind int) interface{} {
	switch kind {
	case 1, 6:
		return &raft.AppendEntriesResponse{}
	case 2:
		return &raft.RequestVoteResponse{}
	case 3:
		return &raft.RequestPreVoteResponse{}
	case 4:
		return &raft.InstallSnapshotResponse{}
	case 5:
		return &raft.TimeoutNowResponse{}
	}
	return nil
}

// the struct the caller passes in: fresh, or a copy of an earlier response
func c16callerResp(e *c16exch) interface{} {
	z := c16zeroResp(e.kind)
	if e.pre != nil {
		reflect.ValueOf(z).Elem().Set(reflect.ValueOf(e.pre).Elem())
		// own copies of the byte slices, so that in-place decoding cannot touch e.pre
		h := reflect.ValueOf(z).Elem().FieldByName("RPCHeader").Addr().Interface().(*raft.RPCHeader)
		h.ID, h.Addr = c16clone(h.ID), c16clone(h.Addr)
		if v, ok := z.(*raft.RequestVoteResponse); ok {
			v.Peers = c16clone(v.Peers)
		}
		return z
	}
	return z
}

func c16clone(b []byte) []byte {
	if b == nil {
		return nil
	}
	return append([]byte{}, b...)
}

// a sender/receiver pair of transports
type c16pair struct {
	name     string
	cfg      c16cfg
	snd, rcv *c16node
}

func newC16pair(nw *c16network, name string, cfg c16cfg) *c16pair {
	rc := cfg
	sc := cfg
	sc.heartbeat = false
	if cfg.rcvNewTime != nil {
		// decoding accepts both time formats whatever the node's own setting
		rc.newTime = *cfg.rcvNewTime
	}
	return &c16pair{name: name, cfg: cfg, snd: newC16node(nw, sc), rcv: newC16node(nw, rc)}
}
func (p *c16pair) close() { p.snd.close(); p.rcv.close() }

// scripted handler for part A: answers the i-th incoming RPC with the i-th scripted reply
type c16aHandler struct {
	mu    sync.Mutex
	plan  []*c16exch
	seen  []*c16seen
	extra int
	got   chan struct{}
}

func (h *c16aHandler) handle(rpc raft.RPC, hb bool) {
	s := &c16seen{cmd: rpc.Command, hb: hb}
	h.mu.Lock()
	i := len(h.seen)
	var e *c16exch
	if i < len(h.plan) {
		e = h.plan[i]
		h.seen = append(h.seen, s)
	} else {
		h.extra++
	}
	h.mu.Unlock()
	if rpc.Reader != nil {
		s.hasBody = true
		if e == nil || !e.nodrain {
			s.body, s.bodyErr = io.ReadAll(rpc.Reader)
		}
	}
	if e == nil {
		rpc.Respond(nil, errors.New("c16: unexpected rpc"))
		return
	}
	if e.resp == nil {
		rpc.Respond(nil, e.herr)
	} else {
		rpc.Respond(e.resp, e.herr)
	}
	select {
	case h.got <- struct{}{}:
	default:
	}
}

// c16check compares one finished exchange; returns true when everything matched.
func c16check(cw *caseWriter, tag string, e *c16exch, s *c16seen, callerResp interface{}, callerErr error, delivered bool) bool {
	ok := true
	kn := []string{"", "AppendEntries", "RequestVote", "RequestPreVote", "InstallSnapshot", "TimeoutNow", "AppendEntries(pipeline)"}[e.kind]
	if s == nil {
		cw.monitor("C16", tag, "request-lost", "%s: the handler never saw the request (caller error: %v)", kn, callerErr)
		return false
	}
	wantKind := e.kind
	if wantKind == 6 {
		wantKind = 1
	}
	if c16kindOf(s.cmd) != wantKind {
		cw.monitor("C16", tag, "request-field-differs", "%s: handler received a %T", kn, s.cmd)
		return false
	}
	if d := c16compare(e.req, s.cmd); len(d) > 0 {
		cw.monitor("C16", tag, "request-field-differs", "%s request: %s", kn, c16join(d))
		ok = false
	}
	if e.kind == 4 && e.nodrain {
		if callerErr != nil || !delivered {
			return true // the receiver closed the stream on the unread body: a failed exchange, reported as an error
		}
	} else if e.kind == 4 {
		if !s.hasBody || s.bodyErr != nil {
			cw.monitor("C16", tag, "snapshot-body-differs", "InstallSnapshot: body reader present=%v, read error %v after %d of %d bytes", s.hasBody, s.bodyErr, len(s.body), len(e.body))
			ok = false
		} else if !bytes.Equal(s.body, e.body) {
			off := 0
			for off < len(s.body) && off < len(e.body) && s.body[off] == e.body[off] {
				off++
			}
			cw.monitor("C16", tag, "snapshot-body-differs", "InstallSnapshot: sent %d body bytes, handler read %d, first difference at offset %d", len(e.body), len(s.body), off)
			ok = false
		}
	} else if s.hasBody {
		cw.monitor("C16", tag, "request-field-differs", "%s: handler was given a body reader", kn)
		ok = false
	}
	if !delivered {
		cw.monitor("C16", tag, "response-lost", "%s: the caller never obtained a result", kn)
		return false
	}
	if e.herr != nil {
		if callerErr == nil {
			cw.monitor("C16", tag, "error-lost", "%s: handler answered error %q, caller got no error", kn, e.herr.Error())
			ok = false
		} else if !strings.Contains(callerErr.Error(), e.herr.Error()) {
			cw.monitor("C16", tag, "error-lost", "%s: handler answered error %q, caller got error %q", kn, e.herr.Error(), callerErr.Error())
			ok = false
		}
	} else if callerErr != nil {
		cw.monitor("C16", tag, "spurious-error", "%s: handler answered without error, caller got error %q", kn, callerErr.Error())
		return false
	}
	want := e.resp
	if want == nil {
		want = c16zeroResp(e.kind) // error without a response object: msgpack nil resets the caller's struct to its zero value
	}
	if d := c16compare(want, callerResp); len(d) > 0 {
		cw.monitor("C16", tag, "response-field-differs", "%s response: %s", kn, c16join(d))
		ok = false
	}
	return ok
}

func c16call(p *c16pair, e *c16exch, resp interface{}) error {
	id, target := raft.ServerID("c16-rcv"), p.rcv.addr()
	switch e.kind {
	case 1:
		return p.snd.trans.AppendEntries(id, target, e.req.(*raft.AppendEntriesRequest), resp.(*raft.AppendEntriesResponse))
	case 2:
		return p.snd.trans.RequestVote(id, target, e.req.(*raft.RequestVoteRequest), resp.(*raft.RequestVoteResponse))
	case 3:
		return p.snd.trans.RequestPreVote(id, target, e.req.(*raft.RequestPreVoteRequest), resp.(*raft.RequestPreVoteResponse))
	case 4:
		var rd io.Reader = bytes.NewReader(e.body)
		if e.chunky {
			rd = &c16chunkReader{b: e.body, step: 1}
		}
		return p.snd.trans.InstallSnapshot(id, target, e.req.(*raft.InstallSnapshotRequest), resp.(*raft.InstallSnapshotResponse), rd)
	case 5:
		return p.snd.trans.TimeoutNow(id, target, e.req.(*raft.TimeoutNowRequest), resp.(*raft.TimeoutNowResponse))
	}
	return errors.New("c16: bad kind")
}

var c16kindStat = []string{"", "c16_a_append_entries", "c16_a_request_vote", "c16_a_request_prevote", "c16_a_install_snapshot", "c16_a_timeout_now", "c16_a_pipelined_append"}

func c16account(cw *caseWriter, e *c16exch, ok bool, s *c16seen) {
	cw.stat(c16kindStat[e.kind], 1)
	cw.stat("c16_a_exchanges", 1)
	if e.herr != nil {
		cw.stat("c16_a_handler_errors", 1)
	}
	if e.pre != nil {
		cw.stat("c16_a_reused_response_struct", 1)
	}
	if e.kind == 4 {
		cw.stat("c16_a_snapshot_bytes", len(e.body))
	}
	if e.kind == 1 || e.kind == 6 {
		cw.stat("c16_a_entries", int(e.size[0]))
		cw.stat("c16_a_entry_bytes", int(e.size[1]))
	}
	if s != nil && s.hb {
		cw.stat("c16_a_heartbeat_fast_path", 1)
	}
	if !ok {
		cw.stat("c16_a_mismatches", 1)
	}
}

// one non-pipelined exchange, end to end
func c16exchange(cw *caseWriter, p *c16pair, e *c16exch, caseNo uint64) bool {
	tag := cw.tag("x")
	h := &c16aHandler{plan: []*c16exch{e}, got: make(chan struct{}, 4)}
	p.rcv.setHandler(h.handle)
	resp := c16callerResp(e)
	type result struct{ err error }
	done := make(chan result, 1)
	go func() { done <- result{c16call(p, e, resp)} }()
	var err error
	delivered := false
	select {
	case r := <-done:
		err, delivered = r.err, true
	case <-time.After(c16wait + p.cfg.timeout*8):
	}
	p.rcv.setHandler(nil)
	h.mu.Lock()
	var s *c16seen
	if len(h.seen) > 0 {
		s = h.seen[0]
	}
	extra := h.extra
	h.mu.Unlock()
	ok := c16check(cw, tag, e, s, resp, err, delivered)
	if extra > 0 {
		cw.monitor("C16", tag, "request-duplicated", "the handler saw %d additional requests for one call", extra)
		ok = false
	}
	errflag := uint64(0)
	if e.herr != nil {
		errflag = 1
		if e.resp == nil {
			errflag = 2
		}
	}
	o := uint64(0)
	if ok {
		o = 1
	}
	cw.emit(tag, 1016, []uint64{uint64(e.kind), e.size[0], e.size[1], errflag, caseNo}, []uint64{o}, e.size[0] > 0 || e.herr != nil)
	c16account(cw, e, ok, s)
	return ok
}

// n fully random AppendEntries through one pipeline, answered immediately in arrival order
func c16pipelined(cw *caseWriter, p *c16pair, es []*c16exch, caseNo uint64) {
	h := &c16aHandler{plan: es, got: make(chan struct{}, len(es)+4)}
	p.rcv.setHandler(h.handle)
	defer p.rcv.setHandler(nil)
	pl, err := p.snd.trans.AppendEntriesPipeline("c16-rcv", p.rcv.addr())
	if err != nil {
		cw.monitor("C16", cw.tag("x"), "pipeline-open-failed", "AppendEntriesPipeline: %v", err)
		return
	}
	defer pl.Close()
	type got struct {
		f   raft.AppendFuture
		err error
	}
	res := make([]*got, len(es))
	collected := make(chan struct{})
	go func() {
		defer close(collected)
		dl := time.After(c16wait * 2)
		for i := range es {
			select {
			case f := <-pl.Consumer():
				res[i] = &got{f: f, err: f.Error()}
			case <-dl:
				return
			}
		}
	}()
	sendErr := make([]error, len(es))
	for i, e := range es {
		_, sendErr[i] = pl.AppendEntries(e.req.(*raft.AppendEntriesRequest), c16callerResp(e).(*raft.AppendEntriesResponse))
		if sendErr[i] != nil {
			break
		}
	}
	select {
	case <-collected:
	case <-time.After(c16wait * 3):
	}
	h.mu.Lock()
	seen := append([]*c16seen(nil), h.seen...)
	h.mu.Unlock()
	for i, e := range es {
		tag := cw.tag("x")
		var s *c16seen
		if i < len(seen) {
			s = seen[i]
		}
		ok := false
		if sendErr[i] != nil {
			cw.monitor("C16", tag, "spurious-error", "pipeline.AppendEntries failed on a healthy connection: %v", sendErr[i])
		} else if res[i] == nil {
			cw.monitor("C16", tag, "response-lost", "pipelined AppendEntries %d of %d: no future delivered", i+1, len(es))
		} else {
			ok = true
			if res[i].f.Request() != e.req.(*raft.AppendEntriesRequest) {
				cw.monitor("C16", tag, "pipeline-out-of-order", "future %d delivered on Consumer() belongs to another request", i+1)
				ok = false
			}
			if !c16check(cw, tag, e, s, res[i].f.Response(), res[i].err, true) {
				ok = false
			}
		}
		errflag := uint64(0)
		if e.herr != nil {
			errflag = 1
			if e.resp == nil {
				errflag = 2
			}
		}
		o := uint64(0)
		if ok {
			o = 1
		}
		cw.emit(tag, 1016, []uint64{6, e.size[0], e.size[1], errflag, caseNo*100 + uint64(i)}, []uint64{o}, true)
		c16account(cw, e, ok, s)
	}
}

// ---------- probe: which nil/empty distinctions does the codec erase? ----------

func c16probe(cw *caseWriter, nw *c16network) {
	p := newC16pair(nw, "probe", c16cfg{maxPool: 2, timeout: 5 * time.Second})
	defer p.close()
	var facts []string
	describeB := func(b []byte) string {
		if b == nil {
			return "nil"
		}
		return fmt.Sprintf("len%d", len(b))
	}
	roundtrip := func(q *raft.AppendEntriesRequest, a *raft.AppendEntriesResponse, herr error) (*raft.AppendEntriesRequest, *raft.AppendEntriesResponse, error) {
		var seen *raft.AppendEntriesRequest
		p.rcv.setHandler(func(rpc raft.RPC, hb bool) {
			seen, _ = rpc.Command.(*raft.AppendEntriesRequest)
			if a == nil {
				rpc.Respond(nil, herr)
			} else {
				rpc.Respond(a, herr)
			}
		})
		out := &raft.AppendEntriesResponse{}
		err := p.snd.trans.AppendEntries("c16-rcv", p.rcv.addr(), q, out)
		p.rcv.setHandler(nil)
		return seen, out, err
	}
	// []byte nil / empty, request direction and response direction
	s, o, _ := roundtrip(&raft.AppendEntriesRequest{Term: 1, Leader: nil, Entries: nil}, &raft.AppendEntriesResponse{RPCHeader: raft.RPCHeader{ID: nil}}, nil)
	if s != nil {
		facts = append(facts, "request []byte(nil)->"+describeB(s.Leader), fmt.Sprintf("request Entries(nil)->nil=%v", s.Entries == nil), "response []byte(nil)->"+describeB(o.ID))
	}
	s, o, _ = roundtrip(&raft.AppendEntriesRequest{Term: 1, Leader: []byte{}, Entries: []*raft.Log{}}, &raft.AppendEntriesResponse{RPCHeader: raft.RPCHeader{ID: []byte{}}}, nil)
	if s != nil {
		facts = append(facts, "request []byte{}->"+describeB(s.Leader), fmt.Sprintf("request Entries{}->nil=%v,len=%d", s.Entries == nil, len(s.Entries)), "response []byte{}->"+describeB(o.ID))
	}
	zt := time.Time{}
	lt := time.Unix(1234567, 89).In(time.FixedZone("c16", 3600))
	s, _, _ = roundtrip(&raft.AppendEntriesRequest{Term: 1, Entries: []*raft.Log{{Index: 1, Data: nil, Extensions: []byte{}, AppendedAt: zt}, {Index: 2, AppendedAt: lt}}}, &raft.AppendEntriesResponse{}, nil)
	if s != nil && len(s.Entries) == 2 {
		_, off := s.Entries[1].AppendedAt.Zone()
		facts = append(facts, "entry Data(nil)->"+describeB(s.Entries[0].Data), "entry Extensions{}->"+describeB(s.Entries[0].Extensions),
			fmt.Sprintf("zero AppendedAt->IsZero=%v", s.Entries[0].AppendedAt.IsZero()),
			fmt.Sprintf("AppendedAt zone +3600->offset %d (instant equal=%v)", off, s.Entries[1].AppendedAt.Equal(lt)))
	}
	// error together with a response object; error without one; error with empty text
	_, o, err := roundtrip(&raft.AppendEntriesRequest{Term: 1}, &raft.AppendEntriesResponse{Term: 7, Success: true}, errors.New("boom"))
	facts = append(facts, fmt.Sprintf("error+response->caller err=%v, response fields delivered=%v", err, o.Term == 7 && o.Success))
	_, o, err = roundtrip(&raft.AppendEntriesRequest{Term: 1}, nil, errors.New("boom"))
	facts = append(facts, fmt.Sprintf("error+nil response->caller err=%v, caller struct zero=%v", err, o.Term == 0 && o.LastLog == 0 && !o.Success))
	_, _, err = roundtrip(&raft.AppendEntriesRequest{Term: 1}, &raft.AppendEntriesResponse{Term: 7}, errors.New(""))
	facts = append(facts, fmt.Sprintf("handler error with EMPTY text->caller err=%v (not generated in part A: an empty error text is indistinguishable from success on the wire)", err))
	cw.note("NOTE", "C16 codec conflations measured on this build: %s", strings.Join(facts, " | "))
	cw.note("NOTE", "C16 comparison treats as equal exactly: []byte(nil)~[]byte{} (any field), Entries nil~empty; time.Time compared by instant (Equal/UnixNano/IsZero), zone and monotonic reading ignored; everything else must be identical")
}

// ---------- part A driver ----------

func c16partA(cw *caseWriter, r *rng, nw *c16network, thorough bool) {
	cfgs := []c16cfg{
		{tcp: false, newTime: false, heartbeat: false},
		{tcp: true, newTime: false, heartbeat: true},
		{tcp: false, newTime: true, heartbeat: true},
		{tcp: true, newTime: true, heartbeat: false},
		{tcp: false, newTime: true, rcvNewTime: new(bool), heartbeat: false}, // sender new format, receiver default
		{tcp: false, newTime: false, rcvNewTime: func() *bool { b := true; return &b }(), heartbeat: true},
	}
	var pairs []*c16pair
	for i, c := range cfgs {
		c.maxPool = 1 + i%3
		c.timeout = 5 * time.Second
		c.maxInFlight = []int{0, 4, 2, 130, 3, 5}[i]
		pairs = append(pairs, newC16pair(nw, fmt.Sprintf("a%d", i), c))
	}
	defer func() {
		for _, p := range pairs {
			p.close()
		}
	}()
	caseNo := uint64(0)
	maxBody := 200000
	bodies := []int{0, 1, 4095, 4096, 4097, 65535, 65536, 65537, 262143, 262144, 262145}
	nRandom, nPipe := 6000, 400
	if thorough {
		maxBody = 1 << 20
		bodies = append(bodies, 524288, 1<<20-1, 1<<20)
		nRandom, nPipe = 60000, 4000
	}
	// directed snapshot sizes on every pair
	for _, b := range bodies {
		for _, p := range pairs {
			caseNo++
			c16exchange(cw, p, c16genExchange(r, 4, b, maxBody, true), caseNo)
		}
	}
	// directed nil/empty/zero corners on every pair
	for _, p := range pairs {
		for v := 0; v < 4; v++ {
			caseNo++
			q := &raft.AppendEntriesRequest{Term: 5, PrevLogEntry: 1}
			a := &raft.AppendEntriesResponse{}
			switch v {
			case 1:
				q.ID, q.Addr, q.Leader, q.Entries = []byte{}, []byte{}, []byte{}, []*raft.Log{}
				a.ID, a.Addr = []byte{}, []byte{}
			case 2:
				q.Entries = []*raft.Log{{}, {Data: []byte{}, Extensions: []byte{}}, {Type: 5, Data: []byte{0}, Extensions: nil, AppendedAt: time.Unix(0, 1)}}
				a.Success, a.NoRetryBackoff = true, true
			case 3:
				q.Term, q.PrevLogEntry, q.PrevLogTerm, q.LeaderCommitIndex = ^uint64(0), ^uint64(0), ^uint64(0), ^uint64(0)
				q.ProtocolVersion = 3
				a.Term, a.LastLog, a.NoRetryBackoff = ^uint64(0), ^uint64(0), true
			}
			c16exchange(cw, p, &c16exch{kind: 1, req: q, resp: a, size: [2]uint64{uint64(len(q.Entries)), 0}}, caseNo)
		}
	}
	for i := 0; i < nRandom; i++ {
		caseNo++
		kind := 1 + r.intn(5)
		if r.chance(1, 3) {
			kind = 1
		}
		c16exchange(cw, pairs[r.intn(len(pairs))], c16genExchange(r, kind, -1, maxBody, true), caseNo)
	}
	for i := 0; i < nPipe; i++ {
		caseNo++
		n := 1 + r.intn(6)
		var es []*c16exch
		for j := 0; j < n; j++ {
			es = append(es, c16genExchange(r, 6, -1, maxBody, true))
		}
		c16pipelined(cw, pairs[r.intn(len(pairs))], es, caseNo)
	}
}

func runC16(cw *caseWriter, tier string, seed uint64) {
	r := &rng{s: seed}
	nw := newC16network()
	thorough := tier != "quick"
	t0 := time.Now()
	c16probe(cw, nw)
	c16partA(cw, r, nw, thorough)
	tA := time.Since(t0)
	c16partB(cw, r, nw, thorough)
	tB := time.Since(t0) - tA
	c16partC(cw, r, nw, thorough)
	tC := time.Since(t0) - tA - tB
	// timings go to stderr so that the case file stays a function of (tier, seed)
	fmt.Fprintf(os.Stderr, "c16: part A %v, part B %v, part C %v\n", tA.Round(time.Millisecond), tB.Round(time.Millisecond), tC.Round(time.Millisecond))
}
