package main

import (
	"encoding/binary"
	"errors"
	"fmt"
	"io"
	"strings"
	"sync"
	"time"

	"github.com/hashicorp/raft"
)

// ---------- part B: pipeline scripts ----------
//
// script (flat):  1 k  send request k      2  handler answers its oldest unanswered request
//                 3    kill the connection 4  handler answers its oldest unanswered request with an error
// observation, per request in send order:  1 <tag in response>  |  2 (error / never delivered)

type c16bOp struct {
	kind int
	k    uint64
}

func c16bParse(in []uint64) []c16bOp {
	var ops []c16bOp
	for p := 0; p < len(in); p++ {
		switch in[p] {
		case 1:
			if p+1 >= len(in) {
				return ops
			}
			ops = append(ops, c16bOp{1, in[p+1]})
			p++
		case 2, 3, 4:
			ops = append(ops, c16bOp{int(in[p]), 0})
		default:
			return ops
		}
	}
	return ops
}

// what the FIFO semantics predicts (the harness' own copy of the oracle; the Coq model is the
// authority, this one makes the monitors self-contained):
//
//	request k gets "1 k" iff the handler answered it with a response while the connection was
//	alive; a handler error fails that request only; a kill fails everything not yet answered.
func c16bExpect(ops []c16bOp) []uint64 {
	var res [][]uint64
	answered, killed := 0, false
	for _, o := range ops {
		switch o.kind {
		case 1:
			res = append(res, []uint64{2})
		case 2:
			if !killed {
				res[answered] = []uint64{1, uint64(answered + 1)}
			}
			answered++
		case 4:
			answered++
		case 3:
			killed = true
		}
	}
	var out []uint64
	for _, x := range res {
		out = append(out, x...)
	}
	return out
}

type c16bHeld struct {
	rpc       raft.RPC
	responded bool
}

// receiving side shared by all scripts of one receiving transport
type c16bRecv struct {
	node    *c16node
	mu      sync.Mutex
	sid     uint64
	held    map[uint64]*c16bHeld
	arrived []uint64
	bad     []string
	notify  chan struct{}
}

func (rv *c16bRecv) poke() {
	select {
	case rv.notify <- struct{}{}:
	default:
	}
}

func (rv *c16bRecv) handle(rpc raft.RPC, hb bool) {
	q, ok := rpc.Command.(*raft.AppendEntriesRequest)
	rv.mu.Lock()
	if !ok || q.Term != rv.sid || rv.sid == 0 {
		rv.mu.Unlock()
		if rpc.Reader != nil {
			io.Copy(io.Discard, rpc.Reader)
		}
		rpc.Respond(nil, errors.New("c16: script is over"))
		return
	}
	k := q.PrevLogEntry
	if len(q.Entries) != 1 || len(q.Entries[0].Data) != 8 || binary.BigEndian.Uint64(q.Entries[0].Data) != k || q.Entries[0].Index != k {
		rv.bad = append(rv.bad, fmt.Sprintf("request tagged %d arrived with %d entries / inconsistent payload tag", k, len(q.Entries)))
	}
	if _, dup := rv.held[k]; dup {
		rv.bad = append(rv.bad, fmt.Sprintf("request tagged %d arrived twice", k))
	}
	rv.held[k] = &c16bHeld{rpc: rpc}
	rv.arrived = append(rv.arrived, k)
	rv.mu.Unlock()
	rv.poke()
}

func (rv *c16bRecv) begin(sid uint64) {
	rv.mu.Lock()
	rv.sid = sid
	rv.held = map[uint64]*c16bHeld{}
	rv.arrived = nil
	rv.bad = nil
	rv.mu.Unlock()
}

// end releases every request still held so that the transport's connection handlers finish
func (rv *c16bRecv) end() {
	rv.mu.Lock()
	held := rv.held
	rv.sid = 0
	rv.held = map[uint64]*c16bHeld{}
	rv.mu.Unlock()
	for _, h := range held {
		if !h.responded {
			h.rpc.Respond(nil, errors.New("c16: script is over"))
		}
	}
}

type c16bDelivery struct {
	k       uint64
	err     error
	lastLog uint64
	term    uint64
	success bool
}

type c16bSendRes struct {
	done bool
	fut  raft.AppendFuture
	err  error
}

var c16sidCounter uint64

func c16bErrText(sid, k uint64) string { return fmt.Sprintf("c16-script-%d-error-for-%d", sid, k) }

// c16bRun executes one script on a fresh pipeline and returns the observation.
func c16bRun(cw *caseWriter, tag string, rv *c16bRecv, snd *c16node, in []uint64) []uint64 {
	ops := c16bParse(in)
	c16sidCounter++
	sid := c16sidCounter
	rv.begin(sid)
	defer rv.end()
	snd.layer.resetDialed()
	pl, err := snd.trans.AppendEntriesPipeline("c16-rcv", rv.node.addr())
	if err != nil {
		cw.monitor("C16", tag, "pipeline-open-failed", "AppendEntriesPipeline: %v", err)
		return nil
	}
	conn := snd.layer.lastDialed()
	if conn == nil {
		cw.monitor("C16", tag, "pipeline-open-failed", "the pipeline did not dial a connection of its own")
		pl.Close()
		return nil
	}

	var mu sync.Mutex
	var deliveries []c16bDelivery
	sends := map[uint64]*c16bSendRes{}
	var sendOrder []uint64
	sendQ := make(chan uint64, len(ops)+1)
	stopCollect := make(chan struct{})
	collectDone := make(chan struct{})
	senderDone := make(chan struct{})

	go func() { // sender: pipeline.AppendEntries may block (MaxRPCsInFlight), so it has its own goroutine
		defer close(senderDone)
		for k := range sendQ {
			d := make([]byte, 8)
			binary.BigEndian.PutUint64(d, k)
			q := &raft.AppendEntriesRequest{RPCHeader: raft.RPCHeader{ProtocolVersion: 3}, Term: sid, Leader: []byte("c16"),
				PrevLogEntry: k, PrevLogTerm: sid, Entries: []*raft.Log{{Index: k, Term: sid, Data: d}}, LeaderCommitIndex: k}
			f, err := pl.AppendEntries(q, new(raft.AppendEntriesResponse))
			mu.Lock()
			sends[k].done, sends[k].fut, sends[k].err = true, f, err
			mu.Unlock()
			rv.poke()
		}
	}()
	go func() { // collector: everything delivered on Consumer(), in delivery order
		defer close(collectDone)
		ch := pl.Consumer()
		for {
			select {
			case f := <-ch:
				d := c16bDelivery{k: f.Request().PrevLogEntry, err: f.Error()}
				if r := f.Response(); r != nil {
					d.lastLog, d.term, d.success = r.LastLog, r.Term, r.Success
				}
				mu.Lock()
				deliveries = append(deliveries, d)
				mu.Unlock()
				rv.poke()
			case <-stopCollect:
				return
			}
		}
	}()

	// waitFor polls cond (re-evaluated on every event) with a bound
	waitFor := func(what string, cond func() bool) bool {
		dl := time.NewTimer(c16wait)
		defer dl.Stop()
		for {
			if cond() {
				return true
			}
			select {
			case <-rv.notify:
			case <-dl.C:
				if cond() {
					return true
				}
				cw.monitor("C16", tag, "pipeline-stalled", "script %v: timed out waiting for %s", in, what)
				return false
			}
		}
	}
	deliveredCount := func() int { mu.Lock(); defer mu.Unlock(); return len(deliveries) }
	isHeld := func(k uint64) bool { rv.mu.Lock(); defer rv.mu.Unlock(); _, ok := rv.held[k]; return ok }

	nsent, answered, killed, stalled := 0, 0, false, false
	handlerErrs := 0
	// quiesce makes the state after each step deterministic (see the NOTE emitted by c16partB)
	quiesce := func() {
		if stalled {
			return
		}
		if killed {
			ok := waitFor("all sends to fail after the kill", func() bool {
				mu.Lock()
				defer mu.Unlock()
				withFuture := 0
				for _, k := range sendOrder {
					s := sends[k]
					if !s.done {
						return false
					}
					if s.err == nil && s.fut != nil {
						withFuture++
					}
				}
				return len(deliveries) >= withFuture
			})
			stalled = !ok
			return
		}
		want := answered
		if !waitFor(fmt.Sprintf("the futures of the %d answered requests", want), func() bool { return deliveredCount() >= want }) {
			stalled = true
			return
		}
		if nsent > answered {
			head := uint64(answered + 1)
			if !waitFor(fmt.Sprintf("request %d to reach the handler", head), func() bool { return isHeld(head) }) {
				stalled = true
			}
		}
	}

	for _, o := range ops {
		if stalled {
			break
		}
		switch o.kind {
		case 1:
			nsent++
			mu.Lock()
			sends[o.k] = &c16bSendRes{}
			sendOrder = append(sendOrder, o.k)
			mu.Unlock()
			sendQ <- o.k
		case 2, 4:
			t := uint64(answered + 1)
			rv.mu.Lock()
			h := rv.held[t]
			if h != nil && !h.responded {
				h.responded = true
			} else {
				h = nil
			}
			rv.mu.Unlock()
			if h != nil {
				if o.kind == 2 {
					h.rpc.Respond(&raft.AppendEntriesResponse{RPCHeader: raft.RPCHeader{ProtocolVersion: 3}, Term: sid, LastLog: t, Success: true}, nil)
				} else if t%2 == 0 {
					h.rpc.Respond(&raft.AppendEntriesResponse{Term: sid, LastLog: t}, errors.New(c16bErrText(sid, t)))
				} else {
					h.rpc.Respond(nil, errors.New(c16bErrText(sid, t)))
				}
			} else if !killed {
				cw.monitor("C16", tag, "pipeline-stalled", "script %v: handler does not hold request %d although the connection is alive", in, t)
				stalled = true
			}
			if o.kind == 4 {
				handlerErrs++
			}
			answered++
		case 3:
			conn.Close()
			killed = true
		}
		quiesce()
	}
	close(sendQ)
	pl.Close()
	select {
	case <-senderDone:
	case <-time.After(c16wait):
		cw.monitor("C16", tag, "pipeline-stalled", "script %v: pipeline.AppendEntries still blocked %v after Close()", in, c16wait)
	}
	close(stopCollect)
	<-collectDone

	// ----- observation -----
	mu.Lock()
	defer mu.Unlock()
	byK := map[uint64]*c16bDelivery{}
	for i := range deliveries {
		d := &deliveries[i]
		if _, dup := byK[d.k]; dup {
			cw.monitor("C16", tag, "pipeline-out-of-order", "script %v: the future of request %d was delivered twice", in, d.k)
		}
		byK[d.k] = d
	}
	var obs []uint64
	for _, k := range sendOrder {
		if d := byK[k]; d != nil && d.err == nil {
			obs = append(obs, 1, d.lastLog)
		} else {
			obs = append(obs, 2)
		}
	}

	// ----- monitors -----
	// futures come out in send order
	var prev uint64
	for _, d := range deliveries {
		if d.k <= prev {
			cw.monitor("C16", tag, "pipeline-out-of-order", "script %v: future of request %d delivered after future of request %d", in, d.k, prev)
		}
		prev = d.k
	}
	// no future is skipped: the delivered ones are a prefix of the sends that returned a future
	{
		var withFut []uint64
		for _, k := range sendOrder {
			if s := sends[k]; s.done && s.err == nil && s.fut != nil {
				withFut = append(withFut, k)
			}
		}
		for i, d := range deliveries {
			if i < len(withFut) && withFut[i] != d.k {
				cw.monitor("C16", tag, "pipeline-out-of-order", "script %v: delivery %d is the future of request %d, expected request %d", in, i+1, d.k, withFut[i])
				break
			}
		}
	}
	// a response carries the tag of its own request
	for _, d := range deliveries {
		if d.err == nil && (d.lastLog != d.k || d.term != sid || !d.success) {
			cw.monitor("C16", tag, "pipeline-response-mismatch", "script %v: future of request %d resolved with the response tagged %d (term %d, script %d, success %v)", in, d.k, d.lastLog, d.term, sid, d.success)
		}
	}
	// after a transport-level failure nothing succeeds any more on that pipeline
	failedAt := uint64(0)
	for _, d := range deliveries {
		if d.err != nil && !strings.Contains(d.err.Error(), "c16-script-") {
			if failedAt == 0 {
				failedAt = d.k
			}
		} else if d.err == nil && failedAt != 0 {
			cw.monitor("C16", tag, "pipeline-delivery-after-error", "script %v: request %d resolved with a response after request %d had failed with a transport error", in, d.k, failedAt)
		}
	}
	// a handler error arrives as that error
	{
		a := 0
		for _, o := range ops {
			if o.kind == 3 {
				break
			}
			if o.kind == 2 || o.kind == 4 {
				a++
				if o.kind == 4 {
					want := c16bErrText(sid, uint64(a))
					if d := byK[uint64(a)]; d != nil && (d.err == nil || !strings.Contains(d.err.Error(), want)) {
						cw.monitor("C16", tag, "error-lost", "script %v: handler answered request %d with error %q, the future resolved with %v", in, a, want, d.err)
					}
				}
			}
		}
	}
	// requests reach the handler intact and in send order
	rv.mu.Lock()
	for _, b := range rv.bad {
		cw.monitor("C16", tag, "request-field-differs", "script %v: %s", in, b)
	}
	for i, k := range rv.arrived {
		if k != uint64(i+1) {
			cw.monitor("C16", tag, "pipeline-out-of-order", "script %v: the handler received request %d as number %d", in, k, i+1)
			break
		}
	}
	rv.mu.Unlock()
	// outcome against the FIFO semantics
	if !stalled {
		exp := c16bExpect(ops)
		if !eqU(exp, obs) {
			sig := "response-lost"
			// a "1" where none is due is the dangerous direction
			pe, po := 0, 0
			for pe < len(exp) && po < len(obs) {
				if obs[po] == 1 && exp[pe] == 2 {
					sig = "response-for-failed-exchange"
					break
				}
				if obs[po] == 1 {
					po += 2
				} else {
					po++
				}
				if exp[pe] == 1 {
					pe += 2
				} else {
					pe++
				}
			}
			cw.monitor("C16", tag, sig, "script %v: observed %v, FIFO semantics gives %v", in, obs, exp)
		}
	}
	cw.stat("c16_b_scripts", 1)
	cw.stat("c16_b_sends", nsent)
	cw.stat("c16_b_handler_errors", handlerErrs)
	if killed {
		cw.stat("c16_b_kills", 1)
	}
	if stalled {
		cw.stat("c16_b_stalled", 1)
	}
	return obs
}

func c16bNontrivial(ops []c16bOp) bool {
	// at least two requests in flight at once, or a failure followed by more traffic
	pending, maxp, fail := 0, 0, false
	for _, o := range ops {
		switch o.kind {
		case 1:
			pending++
			if pending > maxp {
				maxp = pending
			}
		case 2, 4:
			pending--
			if o.kind == 4 {
				fail = true
			}
		case 3:
			fail = true
		}
	}
	return maxp >= 2 || fail
}

// all well-formed scripts with exactly n operations
func c16bEnumerate(n, maxSends int, visit func(in []uint64)) {
	var rec func(pos, sends, pending int, killed bool, acc []uint64)
	rec = func(pos, sends, pending int, killed bool, acc []uint64) {
		if pos == n {
			visit(append([]uint64(nil), acc...))
			return
		}
		if sends < maxSends {
			rec(pos+1, sends+1, pending+1, killed, append(acc, 1, uint64(sends+1)))
		}
		if pending > 0 {
			rec(pos+1, sends, pending-1, killed, append(acc, 2))
			rec(pos+1, sends, pending-1, killed, append(acc, 4))
		}
		if !killed {
			rec(pos+1, sends, pending, true, append(acc, 3))
		}
	}
	rec(0, 0, 0, false, nil)
}

func c16bRandomScript(r *rng, maxLen, maxDepth int) []uint64 {
	n := 4 + r.intn(maxLen-3)
	var in []uint64
	sends, pending, killed := 0, 0, false
	burst := r.chance(1, 2) // bursts build deep pipelines
	for i := 0; i < n; i++ {
		x := r.intn(100)
		sendP := 45
		if burst && pending < maxDepth/2 {
			sendP = 75
		}
		switch {
		case x < sendP && pending < maxDepth:
			sends++
			pending++
			in = append(in, 1, uint64(sends))
		case x < 88 && pending > 0:
			pending--
			in = append(in, 2)
		case x < 95 && pending > 0:
			pending--
			in = append(in, 4)
		case x >= 95 && !killed && r.chance(1, 2):
			killed = true
			in = append(in, 3)
		default:
			if pending < maxDepth {
				sends++
				pending++
				in = append(in, 1, uint64(sends))
			} else {
				pending--
				in = append(in, 2)
			}
		}
	}
	return in
}

func c16partB(cw *caseWriter, r *rng, nw *c16network, thorough bool) {
	cw.note("NOTE", "C16 part B corner 1: a handler ERROR (op 4) is carried in-band (error string + response object), the connection stays in sync: only that request's future resolves with the error, later requests on the same pipeline still get their own responses (errors are NOT sticky; only a dead connection is). obs reports this real behaviour.")
	cw.note("NOTE", "C16 part B corner 2: a response already written by the receiver when the connection is killed may or may not have been decoded by the sender (race between the kill and the pipeline's decode goroutine, which also buffers reads). The runner therefore waits after every step until every answered request's future has been consumed from Consumer() and the oldest unanswered request is held by the handler; after a kill it waits until all outstanding sends/futures have failed. With that discipline obs is a function of the script.")
	cw.note("NOTE", "C16 part B corner 3: with MaxRPCsInFlight=2 (the default) pipeline.AppendEntries blocks while an earlier future is undecoded/unconsumed; a send issued after the kill, or still blocked when the pipeline is closed, returns an error and no future at all (observed as 2).")
	type side struct {
		rv   *c16bRecv
		snds []*c16node
		mifs []int
	}
	mk := func(tcp bool, mifs []int) *side {
		s := &side{mifs: mifs}
		rn := newC16node(nw, c16cfg{tcp: tcp, maxPool: 2, timeout: 30 * time.Second})
		s.rv = &c16bRecv{node: rn, notify: make(chan struct{}, 1), held: map[uint64]*c16bHeld{}}
		rn.setHandler(s.rv.handle)
		for _, m := range mifs {
			s.snds = append(s.snds, newC16node(nw, c16cfg{tcp: tcp, maxPool: 2, maxInFlight: m, timeout: 30 * time.Second}))
		}
		return s
	}
	mem := mk(false, []int{0, 2, 3, 5, 16, 130})
	tcp := mk(true, []int{0, 4, 130})
	defer func() {
		for _, s := range []*side{mem, tcp} {
			for _, n := range s.snds {
				n.close()
			}
			s.rv.node.close()
		}
	}()
	run := func(s *side, si int, prefix string, in []uint64) {
		tag := cw.tag(prefix)
		obs := c16bRun(cw, tag, s.rv, s.snds[si], in)
		cw.emit(tag, 16, in, obs, c16bNontrivial(c16bParse(in)))
		cw.stat(fmt.Sprintf("c16_b_scripts_maxinflight_%d", s.mifs[si]), 1)
	}
	maxLen, maxSends, nRandom := 6, 4, 4000
	if thorough {
		maxLen, maxSends, nRandom = 8, 8, 20000
	}
	nEx := 0
	for n := 1; n <= maxLen; n++ {
		c16bEnumerate(n, maxSends, func(in []uint64) {
			// every script at the default (blocking) depth and at the historical deep setting
			run(mem, 0, "p", in)
			run(mem, 5, "p", in)
			nEx++
			if nEx%8 == 0 { // a sample over real sockets
				run(tcp, nEx/8%len(tcp.snds), "t", in)
				cw.stat("c16_b_scripts_tcp", 1)
			}
		})
	}
	cw.stat("c16_b_exhaustive_scripts", nEx)
	for i := 0; i < nRandom; i++ {
		in := c16bRandomScript(r, 40, 10)
		if i%6 == 5 {
			run(tcp, r.intn(len(tcp.snds)), "u", in)
			cw.stat("c16_b_scripts_tcp", 1)
		} else {
			run(mem, r.intn(len(mem.snds)), "q", in)
		}
	}
	cw.stat("c16_b_random_scripts", nRandom)
}

// ---------- part C: no stale response after a failed exchange ----------

type c16cHeld struct {
	rpc  raft.RPC
	kind int
	tagv uint64
}

type c16cRecv struct {
	mu     sync.Mutex
	hold   map[uint64]bool // tags the handler must not answer by itself
	held   map[uint64]*c16cHeld
	errFor map[uint64]bool // tags answered with an error (plus a tagged response)
	notify chan struct{}
}

func c16cTagOf(cmd interface{}) (int, uint64) {
	switch q := cmd.(type) {
	case *raft.AppendEntriesRequest:
		return 1, q.PrevLogEntry
	case *raft.RequestVoteRequest:
		return 2, q.LastLogIndex
	case *raft.RequestPreVoteRequest:
		return 3, q.LastLogIndex
	case *raft.InstallSnapshotRequest:
		return 4, q.LastLogIndex
	}
	return 0, 0
}

func c16cRespond(h *c16cHeld, withErr bool) {
	var resp interface{}
	switch h.kind {
	case 1:
		resp = &raft.AppendEntriesResponse{Term: h.tagv, LastLog: h.tagv, Success: true}
	case 2:
		resp = &raft.RequestVoteResponse{Term: h.tagv, Granted: true}
	case 3:
		resp = &raft.RequestPreVoteResponse{Term: h.tagv, Granted: true}
	case 4:
		resp = &raft.InstallSnapshotResponse{Term: h.tagv, Success: true}
	}
	if withErr {
		h.rpc.Respond(resp, fmt.Errorf("c16-c-error-%d", h.tagv))
	} else {
		h.rpc.Respond(resp, nil)
	}
}

func (rv *c16cRecv) handle(rpc raft.RPC, hb bool) {
	kind, t := c16cTagOf(rpc.Command)
	if rpc.Reader != nil {
		io.Copy(io.Discard, rpc.Reader)
	}
	if kind == 0 {
		rpc.Respond(nil, errors.New("c16: unexpected rpc"))
		return
	}
	h := &c16cHeld{rpc: rpc, kind: kind, tagv: t}
	rv.mu.Lock()
	hold := rv.hold[t]
	withErr := rv.errFor[t]
	if hold {
		rv.held[t] = h
	}
	rv.mu.Unlock()
	if !hold {
		c16cRespond(h, withErr)
	}
	select {
	case rv.notify <- struct{}{}:
	default:
	}
}

func (rv *c16cRecv) waitHeld(t uint64) bool {
	dl := time.NewTimer(c16wait)
	defer dl.Stop()
	for {
		rv.mu.Lock()
		_, ok := rv.held[t]
		rv.mu.Unlock()
		if ok {
			return true
		}
		select {
		case <-rv.notify:
		case <-dl.C:
			return false
		}
	}
}

func (rv *c16cRecv) release(t uint64) {
	rv.mu.Lock()
	h := rv.held[t]
	delete(rv.held, t)
	delete(rv.hold, t)
	rv.mu.Unlock()
	if h != nil {
		c16cRespond(h, false)
	}
}

// c16cCall issues one tagged call of the given kind; returns the tag found in the response
func c16cCall(p *c16pair, kind int, t uint64) (uint64, error) {
	id, target := raft.ServerID("c16-rcv"), p.rcv.addr()
	switch kind {
	case 1:
		var resp raft.AppendEntriesResponse
		err := p.snd.trans.AppendEntries(id, target, &raft.AppendEntriesRequest{Term: 1, PrevLogEntry: t, Entries: []*raft.Log{{Index: t, Data: dataOf(t)}}}, &resp)
		return resp.LastLog, err
	case 2:
		var resp raft.RequestVoteResponse
		err := p.snd.trans.RequestVote(id, target, &raft.RequestVoteRequest{Term: 1, LastLogIndex: t}, &resp)
		return resp.Term, err
	case 3:
		var resp raft.RequestPreVoteResponse
		err := p.snd.trans.RequestPreVote(id, target, &raft.RequestPreVoteRequest{Term: 1, LastLogIndex: t}, &resp)
		return resp.Term, err
	case 4:
		var resp raft.InstallSnapshotResponse
		body := make([]byte, 100)
		err := p.snd.trans.InstallSnapshot(id, target, &raft.InstallSnapshotRequest{Term: 1, LastLogIndex: t, Size: int64(len(body))}, &resp, strings.NewReader(string(body)))
		return resp.Term, err
	}
	return 0, errors.New("bad kind")
}

// scenario variants
//
//	0 A times out; handler answers A late; then B
//	1 A times out; B is sent while A is still unanswered; handler answers A late; then C
//	2 A is answered with a handler error (connection goes back to the pool); then B
//	3 A's connection is killed while the handler holds A; handler answers A late; then B
//
// each optionally preceded by a successful warm-up exchange that leaves a pooled connection
func c16cScenario(cw *caseWriter, p *c16pair, rv *c16cRecv, variant int, warm bool, kindA, kindB int, base uint64, caseNo uint64) {
	tag := cw.tag("x")
	ok := true
	conclusive := true
	report := func(who string, want, got uint64, err error) {
		if err != nil {
			conclusive = false // a failed exchange may fail; only a wrong response is a violation
			return
		}
		if got != want {
			ok = false
			cw.monitor("C16", tag, "stale-response-after-timeout", "variant %d warm=%v: call %s tagged %d returned the response tagged %d (an earlier exchange on this transport failed)", variant, warm, who, want, got)
		}
	}
	tW, tA, tB, tC := base+1, base+2, base+3, base+4
	if warm {
		got, err := c16cCall(p, kindB, tW)
		report("W", tW, got, err)
	}
	switch variant {
	case 0, 1, 3:
		rv.mu.Lock()
		rv.hold[tA] = true
		rv.mu.Unlock()
		type res struct {
			got uint64
			err error
		}
		done := make(chan res, 1)
		go func() { g, e := c16cCall(p, kindA, tA); done <- res{g, e} }()
		if !rv.waitHeld(tA) {
			conclusive = false
		}
		if variant == 3 {
			// kill whatever connection carries A (freshly dialed or pooled): close every connection this layer dialed
			p.snd.layer.killAll()
			cw.stat("c16_c_kills", 1)
		}
		var ra res
		select {
		case ra = <-done:
		case <-time.After(c16wait + 4*p.cfg.timeout):
			cw.monitor("C16", tag, "call-hangs", "variant %d: the call did not return %v after its timeout", variant, c16wait)
			ok = false
		}
		if ra.err == nil {
			ok = false
			cw.monitor("C16", tag, "response-for-failed-exchange", "variant %d: call A tagged %d returned success (response tag %d) although the handler had not answered", variant, tA, ra.got)
		} else {
			cw.stat("c16_c_failed_exchanges", 1)
		}
		if variant == 1 {
			got, err := c16cCall(p, kindB, tB)
			report("B", tB, got, err)
		}
		rv.release(tA) // the late answer
		time.Sleep(5 * time.Millisecond)
		if variant != 1 {
			got, err := c16cCall(p, kindB, tB)
			report("B", tB, got, err)
		}
		got, err := c16cCall(p, kindB, tC)
		report("C", tC, got, err)
	case 2:
		rv.mu.Lock()
		rv.errFor[tA] = true
		rv.mu.Unlock()
		got, err := c16cCall(p, kindA, tA)
		if err == nil || !strings.Contains(err.Error(), fmt.Sprintf("c16-c-error-%d", tA)) {
			ok = false
			cw.monitor("C16", tag, "error-lost", "variant 2: handler error for call %d arrived as %v", tA, err)
		} else if got != tA {
			ok = false
			cw.monitor("C16", tag, "response-field-differs", "variant 2: response accompanying the error carries tag %d, handler produced %d", got, tA)
		}
		rv.mu.Lock()
		delete(rv.errFor, tA)
		rv.mu.Unlock()
		got, err = c16cCall(p, kindB, tB)
		report("B", tB, got, err)
		got, err = c16cCall(p, kindB, tC)
		report("C", tC, got, err)
	}
	if !conclusive {
		cw.stat("c16_c_inconclusive", 1)
	}
	o := uint64(0)
	if ok {
		o = 1
	}
	w := uint64(0)
	if warm {
		w = 1
	}
	cw.emit(tag, 1016, []uint64{7, uint64(variant), w, uint64(kindA), uint64(kindB), caseNo}, []uint64{o}, true)
	cw.stat("c16_c_scenarios", 1)
}

func c16partC(cw *caseWriter, r *rng, nw *c16network, thorough bool) {
	rounds := 1
	if thorough {
		rounds = 6
	}
	caseNo := uint64(0)
	for _, tcp := range []bool{false, true} {
		p := newC16pair(nw, "c", c16cfg{tcp: tcp, maxPool: 2, timeout: 120 * time.Millisecond})
		rv := &c16cRecv{hold: map[uint64]bool{}, held: map[uint64]*c16cHeld{}, errFor: map[uint64]bool{}, notify: make(chan struct{}, 1)}
		p.rcv.setHandler(rv.handle)
		for round := 0; round < rounds; round++ {
			for variant := 0; variant < 4; variant++ {
				for _, warm := range []bool{false, true} {
					kinds := [][2]int{{1, 1}, {2, 1}, {1, 2}, {3, 3}}
					if variant == 0 {
						kinds = append(kinds, [2]int{4, 1})
					}
					for _, kk := range kinds {
						if !thorough && tcp && variant != 0 && kk != kinds[0] {
							continue
						}
						caseNo++
						c16cScenario(cw, p, rv, variant, warm, kk[0], kk[1], caseNo*10+r.next()%1000*100000, caseNo)
					}
				}
			}
		}
		p.close()
	}
}

// c16exec replays one part-B script (component 16 case line) on a fresh in-memory transport pair.
func c16exec(cw *caseWriter, tag string, in []uint64) {
	nw := newC16network()
	rn := newC16node(nw, c16cfg{maxPool: 2, timeout: 30 * time.Second})
	rv := &c16bRecv{node: rn, notify: make(chan struct{}, 1), held: map[uint64]*c16bHeld{}}
	rn.setHandler(rv.handle)
	sn := newC16node(nw, c16cfg{maxPool: 2, timeout: 30 * time.Second})
	obs := c16bRun(cw, tag, rv, sn, in)
	cw.emit(tag, 16, in, obs, c16bNontrivial(c16bParse(in)))
	sn.close()
	rn.close()
}
