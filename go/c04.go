package main

// C04 (handler level): the bounded enumeration of follower log x AppendEntries request, run on a
// real server through processRPC (node-sequence component), with the handler-level monitor.

type nsState struct {
	rest      []uint64 // what follows the node state (leader sequences: commitment fields)
	sc        []uint64 // 16 scalars
	latest    []srv
	committed []srv
	fsm       []uint64
	log       [][4]uint64
	pcommit   uint64
	snaps     [][4]uint64
	snapCfgs  [][]srv
}

func parseState(st []uint64) *nsState {
	if len(st) < 16 {
		return nil
	}
	s := &nsState{sc: st[:16]}
	p := 16
	s.latest, p = decSrvs(st, p)
	s.committed, p = decSrvs(st, p)
	n := int(st[p])
	p++
	s.fsm = st[p : p+n]
	p += n
	n = int(st[p])
	p++
	for i := 0; i < n; i++ {
		s.log = append(s.log, [4]uint64{st[p], st[p+1], st[p+2], st[p+3]})
		p += 4
	}
	s.pcommit = st[p]
	p++
	n = int(st[p])
	p++
	for i := 0; i < n; i++ {
		s.snaps = append(s.snaps, [4]uint64{st[p], st[p+1], st[p+2], st[p+3]})
		p += 4
		var cfg []srv
		cfg, p = decSrvs(st, p)
		s.snapCfgs = append(s.snapCfgs, cfg)
	}
	s.rest = st[p:]
	return s
}

// nondecreasing term sequences over 1..maxT of length n
func termSeqs(n int, maxT uint64) [][]uint64 {
	if n == 0 {
		return [][]uint64{{}}
	}
	var out [][]uint64
	for _, s := range termSeqs(n-1, maxT) {
		lo := uint64(1)
		if len(s) > 0 {
			lo = s[len(s)-1]
		}
		for t := lo; t <= maxT; t++ {
			out = append(out, append(append([]uint64(nil), s...), t))
		}
	}
	return out
}

func entryOf(idx, term uint64) [4]uint64 { return [4]uint64{idx, term, 0, 100*term + idx} }

// decode AppendEntries events (kind 3) of an input, with their entries
type aeEvent struct {
	term, pi, pt, lc uint64
	entries          [][4]uint64
}

func c04events(in []uint64) map[int]aeEvent {
	c := nsDecode(in)
	ev := c.events
	out := map[int]aeEvent{}
	p, k := 0, 0
	for p < len(ev) {
		switch ev[p] {
		case 1:
			p += 7
		case 2:
			p += 6
		case 3:
			a := aeEvent{term: ev[p+1], pi: ev[p+4], pt: ev[p+5]}
			ne := int(ev[p+6])
			p += 7
			for i := 0; i < ne; i++ {
				a.entries = append(a.entries, [4]uint64{ev[p], ev[p+1], ev[p+2], ev[p+3]})
				p += 4
			}
			a.lc = ev[p]
			p++
			out[k] = a
		case 4:
			var cfg []srv
			cfg, p = decSrvs(ev, p+6)
			_ = cfg
			nd := int(ev[p+1])
			p += 2 + nd + 1
		case 5, 6, 7, 8:
			p++
		default:
			return out
		}
		nf := int(ev[p+1])
		p += 2 + nf
		k++
	}
	return out
}

func c04monitor(cw *caseWriter) func(tag string, in, obs []uint64) {
	return func(tag string, in, obs []uint64) {
		parts := nsSplit(obs)
		aes := c04events(in)
		if len(parts) == 0 {
			return
		}
		cur := parseState(stateOfBoot(parts[0]))
		for i := 1; i < len(parts); i++ {
			o := parts[i]
			a, isAE := aes[i-1]
			var next *nsState
			var resp []uint64
			rebooted := len(o) > 0 && o[0] != 10
			if len(o) > 0 && o[0] == 10 && isAE {
				resp = o[1:6]
				next = parseState(o[skipTrace(o, 6):])
			} else if len(o) > 0 && (o[0] == 20 || o[0] == 30) {
				next = parseState(stateOfBoot(o[1:]))
			} else if len(o) > 0 && o[0] == 1 {
				next = parseState(stateOfBoot(o))
			} else {
				cur = nil
				continue
			}
			if cur != nil && next != nil && isAE {
				old := map[uint64][4]uint64{}
				for _, e := range cur.log {
					old[e[0]] = e
				}
				post := map[uint64][4]uint64{}
				for _, e := range next.log {
					post[e[0]] = e
				}
				// first conflict: first request entry whose stored term differs
				conflict := uint64(0)
				for _, e := range a.entries {
					if oe, ok := old[e[0]]; ok && oe[1] != e[1] {
						conflict = e[0]
						break
					}
				}
				// deletions only from the first conflict
				for idx, oe := range old {
					pe, ok := post[idx]
					if ok && pe == oe {
						continue
					}
					if conflict == 0 || idx < conflict {
						cw.monitor("C04", tag, "deleted-or-rewrote-below-first-conflict", "event %d: index %d changed, first conflict %d", i-1, idx, conflict)
					}
				}
				if resp != nil && resp[2] == 1 { // success
					for _, e := range a.entries {
						pe, ok := post[e[0]]
						if !ok || pe != e {
							cw.monitor("C04", tag, "success-but-log-differs-from-request", "event %d: index %d holds %v, sent %v", i-1, e[0], pe, e)
						}
					}
					// "its log then equals the leader's through the last entry sent": no hole below it
					if len(next.log) > 0 {
						top := a.pi
						if n := len(a.entries); n > 0 {
							top = a.entries[n-1][0]
						}
						for idx := next.log[0][0]; idx <= top; idx++ {
							if _, ok := post[idx]; !ok {
								cw.monitor("C04", tag, "success-but-log-has-a-hole-below-last-sent", "event %d: index %d is missing, acknowledged through %d", i-1, idx, top)
								break
							}
						}
					}
					// nothing retained above the last entry sent may contradict it: terms monotone
					var prevT uint64
					for _, e := range next.log {
						if e[1] < prevT {
							cw.monitor("C04", tag, "terms-decrease-in-log", "event %d: index %d term %d after term %d", i-1, e[0], e[1], prevT)
							// a follower that answers success while its store keeps a stale suffix behind the entries sent: a later
							// request whose previous entry is that stale index is accepted, and its FSM is handed another history
							cw.monitor("C02", tag, "success-answered-over-a-stale-suffix", "event %d: after a successful AppendEntries the store holds index %d of term %d behind term %d", i-1, e[0], e[1], prevT)
						}
						prevT = e[1]
					}
					if next.sc[sCommit] > max64(next.sc[sLastLogIdx], next.sc[sLastSnapIdx]) {
						cw.monitor("C05", tag, "commit-index-above-last-index", "event %d", i-1)
					}
				}
				// the cached last log never names an index above everything the store holds
				if n := len(next.log); n > 0 && next.sc[sLastLogIdx] > next.log[n-1][0] {
					cw.monitor("C04", tag, "cached-last-log-above-the-store", "event %d: cached last index %d, store ends at %d", i-1, next.sc[sLastLogIdx], next.log[n-1][0])
				}
				if !rebooted && next.sc[sCommit] < cur.sc[sCommit] {
					cw.monitor("C05", tag, "commit-index-decreased", "event %d: %d -> %d", i-1, cur.sc[sCommit], next.sc[sCommit])
				}
			}
			cur = next
		}
	}
}

func max64(a, b uint64) uint64 {
	if a > b {
		return a
	}
	return b
}

func c04gen(cw *caseWriter, tier string, r *rng) {
	n := 0
	den := 14
	if tier != "quick" {
		den = 1
	}
	var fl, ll [][]uint64
	for k := 0; k <= 4; k++ {
		fl = append(fl, termSeqs(k, 3)...)
	}
	for k := 0; k <= 5; k++ {
		ll = append(ll, termSeqs(k, 3)...)
	}
	for _, f := range fl {
		for _, l := range ll {
			for prev := 0; prev <= len(l) && prev <= 5; prev++ {
				for cnt := 0; cnt <= 3 && prev+cnt <= len(l); cnt++ {
					for _, lc := range []uint64{0, 2, 5} {
						if den > 1 && r.intn(den) != 0 {
							continue
						}
						g := &nsGen{self: 1, trailing: 100, maxapp: 2, cfgtab: [][]srv{cfgSAB}}
						g.term = 3
						for i, t := range f {
							g.entries = append(g.entries, entryOf(uint64(i+1), t))
						}
						var pt uint64
						if prev > 0 {
							pt = l[prev-1]
						}
						var es [][4]uint64
						for i := prev; i < prev+cnt; i++ {
							es = append(es, entryOf(uint64(i+1), l[i]))
						}
						reqTerm := uint64(3)
						ev := evAppend(reqTerm, 3, 3, uint64(prev), pt, es, lc, 0, nil)
						// failure / crash variants on a sample
						evs := [][]uint64{ev}
						if r.intn(6) == 0 {
							k := r.intn(3)
							evs = [][]uint64{withTail(ev, 0, failAt(k, 3))}
						} else if r.intn(6) == 0 {
							evs = [][]uint64{withTail(ev, 1+r.intn(2), nil)}
						}
						// follow with a duplicate of the same request (idempotence) and a heartbeat
						evs = append(evs, ev, evAppend(reqTerm, 3, 3, 0, 0, nil, lc, 0, nil))
						g.events = evs
						nsRun(cw, cw.tag("a"), g.encode(), c04monitor(cw))
						n++
					}
				}
			}
		}
	}
	cw.stat("c04_enumerated_cases", n)
	// a conflict INSIDE the request, after one or more entries the follower already holds: DeleteRange succeeds, StoreLogs
	// fails (or the delete itself fails): the cached last log must name the request entry just before the conflict - seen in
	// the state, in the vote probe that follows (judged against the cached last entry) and in the leader's retry
	d := 0
	for _, f := range fl {
		for _, l := range ll {
			for prev := 0; prev <= 1; prev++ {
				if len(f) < 3 || len(l) < prev+3 || (prev > 0 && f[prev-1] != l[prev-1]) {
					continue
				}
				// first index (0-based) where the logs differ
				ci := -1
				for i := prev; i < len(l) && i < len(f); i++ {
					if f[i] != l[i] {
						ci = i
						break
					}
				}
				if ci < prev+1 {
					continue // no conflict, or at the first entry of the request (the predecessor is the previous entry: enumerated above)
				}
				if den > 1 && r.intn(3) != 0 {
					continue
				}
				var pt uint64
				if prev > 0 {
					pt = l[prev-1]
				}
				var es [][4]uint64
				for i := prev; i < len(l); i++ {
					es = append(es, entryOf(uint64(i+1), l[i]))
				}
				for _, fails := range [][]bool{{false, true}, {true}, nil} {
					g := &nsGen{self: 1, trailing: 100, maxapp: 2, cfgtab: [][]srv{cfgSAB}}
					g.term = 3
					for i, t := range f {
						g.entries = append(g.entries, entryOf(uint64(i+1), t))
					}
					ev := evAppend(3, 3, 3, uint64(prev), pt, es, 0, 0, nil)
					first := ev
					if fails != nil {
						first = append(append([]uint64(nil), ev[:len(ev)-2]...), tail(0, fails)...)
					}
					g.events = [][]uint64{first, evVote(4, 2, 2, uint64(ci), l[ci-1], true, 0, nil), ev, evAppend(4, 2, 2, 0, 0, nil, 0, 0, nil)}
					nsRun(cw, cw.tag("d"), g.encode(), c04monitor(cw))
					d++
				}
			}
		}
	}
	cw.stat("c04_conflict_inside_request_cases", d)
	// with a snapshot boundary: snapshot at k, log above it
	m := 0
	for _, f := range fl {
		if len(f) < 2 {
			continue
		}
		for k := 1; k <= 2 && k < len(f); k++ {
			for _, l := range ll {
				if len(l) < len(f) || (den > 1 && r.intn(den*2) != 0) {
					continue
				}
				for prev := k - 1; prev <= len(l) && prev <= k+2; prev++ {
					if prev < 0 {
						continue
					}
					cnt := 2
					if prev+cnt > len(l) {
						cnt = len(l) - prev
					}
					g := &nsGen{self: 1, trailing: 0, maxapp: 2, cfgtab: [][]srv{cfgSAB}}
					g.term = 3
					for i := k; i < len(f); i++ {
						g.entries = append(g.entries, entryOf(uint64(i+1), f[i]))
					}
					g.snaps = []nsSnap{{idx: uint64(k), term: f[k-1], cfg: cfgSAB, cfgidx: 0, data: []uint64{7}, ok: true}}
					var pt uint64
					if prev > 0 {
						pt = l[prev-1]
					}
					var es [][4]uint64
					for i := prev; i < prev+cnt; i++ {
						es = append(es, entryOf(uint64(i+1), l[i]))
					}
					g.events = [][]uint64{evAppend(3, 3, 3, uint64(prev), pt, es, 5, 0, nil)}
					nsRun(cw, cw.tag("s"), g.encode(), c04monitor(cw))
					m++
				}
			}
		}
	}
	cw.stat("c04_snapshot_boundary_cases", m)
	// three requests at one follower, everything written by the handler itself (so that a cache in front of the log store
	// - every second stepper node has a real LogCache of two slots - holds what the handler stored): leader of term 1 stores
	// 1..n; a leader of term 2 sends a conflicting entry at k+1 (the tail k+1..n goes); a leader of term 3 (the old one,
	// re-elected) then names a previous entry j@1 inside the deleted tail, or the rewritten index: the follower holds neither
	q := 0
	for n := 3; n <= 7; n++ {
		for k := 0; k < n-1; k++ {
			for j := k + 1; j <= n; j++ {
				if den > 1 && r.intn(3) != 0 {
					continue
				}
				for rep := 0; rep < 2; rep++ { // once with, once without the LogCache
					g := &nsGen{self: 1, trailing: 100, maxapp: 64, cfgtab: [][]srv{cfgSAB}}
					g.term = 1
					var e1 [][4]uint64
					for i := 1; i <= n; i++ {
						e1 = append(e1, entryOf(uint64(i), 1))
					}
					var pk uint64
					if k > 0 {
						pk = 1
					}
					ev1 := evAppend(1, 2, 2, 0, 0, e1, 0, 0, nil)
					ev2 := evAppend(2, 3, 3, uint64(k), pk, [][4]uint64{entryOf(uint64(k+1), 2)}, 0, 0, nil)
					ev3 := evAppend(3, 2, 2, uint64(j), 1, [][4]uint64{entryOf(uint64(j+1), 3)}, 0, 0, nil)
					g.events = [][]uint64{ev1, ev2, ev3, evAppend(3, 2, 2, 0, 0, nil, 0, 0, nil)}
					nsRun(cw, cw.tag("q"), g.encode(), c04monitor(cw))
					q++
				}
			}
		}
	}
	cw.stat("c04_truncate_then_stale_previous_entry_cases", q)
}

// a follower whose commit index is already at its last entry receives a batch that ENDS BELOW that commit index
// (duplicates only: a leader whose nextIndex backed off and that sends small batches) with a LeaderCommit above
// it: min(LeaderCommit, last new entry) is below the commit index, which must not move backwards (C05)
func c05commitBack(cw *caseWriter, r *rng) {
	n := 0
	for k := 3; k <= 6; k++ {
		for upto := 1; upto < k; upto++ {
			for prev := 0; prev < upto; prev++ {
				g := &nsGen{self: 1, trailing: 100, maxapp: 2, cfgtab: [][]srv{cfgSAB}}
				g.term = 3
				var all [][4]uint64
				for i := 1; i <= k; i++ {
					t := uint64(1)
					if i > k/2 {
						t = 2
					}
					all = append(all, entryOf(uint64(i), t))
				}
				var pt uint64
				if prev > 0 {
					pt = all[prev-1][1]
				}
				first := evAppend(3, 3, 3, 0, 0, all, uint64(k), 0, nil)
				back := evAppend(3, 3, 3, uint64(prev), pt, all[prev:upto], uint64(k+1+r.intn(2)), 0, nil)
				g.events = [][]uint64{first, back, evAppend(3, 3, 3, 0, 0, nil, uint64(k+1), 0, nil), back}
				nsRun(cw, cw.tag("cb"), g.encode(), c04monitor(cw))
				n++
			}
		}
	}
	cw.stat("c05_commit_backwards_cases", n)
}

func runC04(cw *caseWriter, tier string, seed uint64) {
	c04gen(cw, tier, &rng{s: seed})
	c05commitBack(cw, &rng{s: seed + 5})
	runC101(cw, tier, seed)
	runC103(cw, tier, seed, 1) // snapshots and compaction inside the composed cluster system (Model/ClusterCommit.v, cstep true)
	runC104(cw, tier, seed, 3) // snapshot transfer inside the composed cluster system (Model/ClusterSnap.v)
}
