package main

import (
	"bytes"
	"errors"
	"fmt"
	"os"
	"os/exec"
	"strconv"
	"strings"
	"sync"
	"time"

	"github.com/hashicorp/raft"
)

// C17 — every future resolves; shutdown never strands a caller.
//
// component 17 ("cells"): one REAL server (raft.NewRaft: main loop, FSM and snapshot goroutines),
// put in a role, then one public API call issued at a chosen instant relative to Shutdown() or a
// step-down; the caller's wait (Error()) runs under a watchdog.
//
//	input : api role buffered phase code      observed : code
//
// api   1 Apply 2 Barrier 3 VerifyLeader 4 AddVoter 5 BootstrapCluster 6 Snapshot 7 Restore
//       8 LeadershipTransfer 9 GetConfiguration 10 Apply with a 30 ms enqueue timeout
// role  1 follower (3 voters, peers unreachable)  2 candidate (same, heartbeat timeout fired)
//       3 leader of a single-voter cluster        4 leader that cannot commit (a second voter that
//       is unreachable was added: everything stays in flight)  5 leader whose FSM is blocked
// phase 0 server running, call and wait           1 call racing a concurrent Shutdown()
//       2 call after Shutdown() has completed     3 call, then the leader is deposed (higher term)
//       4 call, let it settle, then Shutdown()
//       5 (leader that cannot commit) two more Apply calls in flight, the call, then a user Restore
// code  0 nil 1 ErrNotLeader 2 ErrLeadershipLost 3 ErrRaftShutdown 4 ErrEnqueueTimeout
//       5 ErrCantBootstrap 6 ErrLeadershipTransferInProgress 7 ErrNothingNewToSnapshot 9 ErrAbortedByRestore
//       8 other error 98 THE PROCESS PANICKED 99 NEVER RESOLVED (watchdog)
//
// Cells in which a Shutdown or a step-down races the call run in a child process (the harness
// re-executed with "c17cell"), so that a panic of a raft goroutine is an observation, not the end
// of the run.
//
// The model (Model/Futures.v, over the table generated from the Go source) says which codes a
// cell may produce; the monitor is the property itself: code 99 anywhere, or anything but
// ErrRaftShutdown for a call made after Shutdown() completed.

var c17Watchdog = 1500 * time.Millisecond

func c17code(err error) uint64 {
	switch {
	case err == nil:
		return 0
	case errors.Is(err, raft.ErrNotLeader):
		return 1
	case errors.Is(err, raft.ErrLeadershipLost):
		return 2
	case errors.Is(err, raft.ErrRaftShutdown):
		return 3
	case errors.Is(err, raft.ErrEnqueueTimeout):
		return 4
	case errors.Is(err, raft.ErrCantBootstrap):
		return 5
	case errors.Is(err, raft.ErrLeadershipTransferInProgress):
		return 6
	case errors.Is(err, raft.ErrNothingNewToSnapshot):
		return 7
	case errors.Is(err, raft.ErrAbortedByRestore):
		return 9
	}
	return 8
}

type c17fsm struct {
	RecFSM
	gate chan struct{} // when non-nil, Apply blocks until it is closed
}

func (f *c17fsm) Apply(l *raft.Log) interface{} {
	if f.gate != nil {
		<-f.gate
	}
	return f.RecFSM.Apply(l)
}

type c17srv struct {
	r     *raft.Raft
	trans *raft.InmemTransport
	fsm   *c17fsm
	gate  chan struct{}
	bg    []raft.Future // role 5: applies already committed and queued for the blocked FSM
}

func (s *c17srv) openGate() {
	if s.gate != nil {
		select {
		case <-s.gate:
		default:
			close(s.gate)
		}
	}
}

func c17wait(cond func() bool, d time.Duration) bool {
	dl := time.Now().Add(d)
	for time.Now().Before(dl) {
		if cond() {
			return true
		}
		time.Sleep(100 * time.Microsecond)
	}
	return cond()
}

func c17boot(role int, buffered bool) (*c17srv, error) {
	logs, stable, snaps := NewMapLogStore(nil), NewMapStable(), NewSnapStore()
	cfg := []srv{{0, 1, 1}, {0, 2, 2}, {0, 3, 3}}
	if role >= 3 {
		cfg = []srv{{0, 1, 1}}
	}
	logs.m[1] = &raft.Log{Index: 1, Term: 1, Type: raft.LogConfiguration, Data: raft.EncodeConfiguration(mkConfig(cfg))}
	stable.kvInt["CurrentTerm"] = 1
	cf := baseConfig(nodeOpts{id: 1, trailing: 100, maxAppend: 4})
	cf.BatchApplyCh = buffered
	cf.CommitTimeout = 2 * time.Millisecond
	s := &c17srv{fsm: &c17fsm{}}
	if role == 5 {
		s.gate = make(chan struct{})
		s.fsm.gate = s.gate
	}
	_, s.trans = raft.NewInmemTransport(addrStr(1))
	r, err := raft.NewRaft(cf, s.fsm, logs, stable, snaps, s.trans)
	if err != nil {
		return nil, err
	}
	s.r = r
	switch role {
	case 2:
		r.VerifFireHeartbeatTimeout()
		if !c17wait(func() bool { return r.State() == raft.Candidate }, time.Second) {
			return s, fmt.Errorf("did not become candidate")
		}
	case 3, 4, 5:
		r.VerifFireHeartbeatTimeout()
		if !c17wait(func() bool { return r.State() == raft.Leader }, time.Second) {
			return s, fmt.Errorf("did not become leader")
		}
		// the leader's no-op is committed (and, except with the blocked FSM, applied)
		if role != 5 {
			if err := r.Barrier(time.Second).Error(); err != nil {
				return s, fmt.Errorf("barrier: %v", err)
			}
		} else {
			c17wait(func() bool { return r.Stats()["commit_index"] == "2" }, time.Second)
			// several batches queued behind the blocked one (MaxAppendEntries 4)
			for i := 0; i < 9; i++ {
				s.bg = append(s.bg, r.Apply([]byte{0, 0, 0, 0, 0, 0, 0, byte(20 + i)}, 0))
			}
			c17wait(func() bool { return r.Stats()["commit_index"] == "11" }, time.Second)
		}
		if role == 4 {
			// an unreachable second voter: its configuration entry, and everything after it, cannot commit
			r.AddVoter(idStr(2), addrStr(2), 0, 0)
			c17wait(func() bool { return r.LastIndex() >= 3 }, time.Second)
		}
	}
	return s, nil
}

func (s *c17srv) close() {
	s.openGate()
	done := make(chan struct{})
	go func() { s.r.Shutdown().Error(); close(done) }()
	select {
	case <-done:
	case <-time.After(3 * time.Second):
	}
	s.trans.Close()
}

// the API call: returns a function that waits for the result
func c17call(s *c17srv, api int) func() error {
	r := s.r
	switch api {
	case 1:
		f := r.Apply([]byte{0, 0, 0, 0, 0, 0, 0, 9}, 0)
		return f.Error
	case 10:
		f := r.Apply([]byte{0, 0, 0, 0, 0, 0, 0, 9}, 30*time.Millisecond)
		return f.Error
	case 2:
		f := r.Barrier(0)
		return f.Error
	case 3:
		f := r.VerifyLeader()
		return f.Error
	case 4:
		f := r.AddVoter(idStr(7), addrStr(7), 0, 0)
		return f.Error
	case 5:
		f := r.BootstrapCluster(mkConfig([]srv{{0, 1, 1}}))
		return f.Error
	case 6:
		f := r.Snapshot()
		return f.Error
	case 7:
		return func() error {
			body := encState([]uint64{5})
			meta := &raft.SnapshotMeta{Version: 1, ID: "u", Index: 1, Term: 1, Size: int64(len(body))}
			return r.Restore(meta, bytes.NewReader(body), 0)
		}
	case 8:
		f := r.LeadershipTransfer()
		return f.Error
	case 9:
		f := r.GetConfiguration()
		return f.Error
	}
	return func() error { return nil }
}

// a higher-term AppendEntries deposes the leader
func c17depose(s *c17srv) {
	_, t2 := raft.NewInmemTransport(addrStr(9))
	t2.Connect(addrStr(1), s.trans)
	defer t2.Close()
	req := &raft.AppendEntriesRequest{RPCHeader: raft.RPCHeader{ProtocolVersion: 3, ID: []byte(idStr(9)), Addr: []byte(addrStr(9))}, Term: 50}
	var resp raft.AppendEntriesResponse
	done := make(chan struct{})
	go func() { t2.AppendEntries(idStr(1), addrStr(1), req, &resp); close(done) }()
	select {
	case <-done:
	case <-time.After(time.Second):
	}
}

func c17cell(api, role int, buffered bool, phase int, skew time.Duration) (code uint64, setupErr error) {
	s, err := c17boot(role, buffered)
	if err != nil {
		if s != nil {
			s.close()
		}
		return 0, err
	}
	defer s.close()
	var wait func() error
	res := make(chan error, 1)
	switch phase {
	case 5:
		// two applies already in flight, then the measured call, then a restore from the user
		for i := 0; i < 2; i++ {
			s.bg = append(s.bg, s.r.Apply([]byte{0, 0, 0, 0, 0, 0, 0, byte(40 + i)}, 0))
		}
		c17wait(func() bool { return s.r.LastIndex() >= 5 }, 500*time.Millisecond)
		li0 := s.r.LastIndex() - 2
		wait = c17call(s, api)
		go func() { res <- wait() }()
		// all three are dispatched (in flight) before the restore is asked for
		c17wait(func() bool { return s.r.LastIndex() >= li0+3 }, 500*time.Millisecond)
		go func() {
			body := encState([]uint64{5})
			meta := &raft.SnapshotMeta{Version: 1, ID: "u", Index: 1, Term: 1, Size: int64(len(body))}
			s.r.Restore(meta, bytes.NewReader(body), 100*time.Millisecond)
		}()
	case 0, 3, 4:
		wait = c17call(s, api)
		go func() { res <- wait() }()
		switch phase {
		case 3:
			time.Sleep(2 * time.Millisecond)
			c17depose(s)
		case 4:
			time.Sleep(2 * time.Millisecond)
			go s.r.Shutdown()
			// the user FSM returns from the entry it was working on once the shutdown has begun:
			// runFSM can leave with batches still queued
			time.Sleep(3 * time.Millisecond)
			s.openGate()
		}
	case 1:
		// the call and Shutdown() released together, the call delayed by 0..40 us (spin)
		start := make(chan struct{})
		go func() {
			<-start
			s.r.Shutdown()
			// a blocked user FSM returns from the entry it is working on a little later: the server can stop
			time.Sleep(3 * time.Millisecond)
			s.openGate()
		}()
		spin := skew
		go func() {
			<-start
			for t0 := time.Now(); time.Since(t0) < spin; {
			}
			res <- c17call(s, api)()
		}()
		close(start)
	case 2:
		sf := s.r.Shutdown()
		s.openGate() // the user FSM returns; runFSM can leave
		sf.Error()
		wait = c17call(s, api)
		go func() { res <- wait() }()
	}
	select {
	case err := <-res:
		code = c17code(err)
	case <-time.After(c17Watchdog):
		return 99, nil
	}
	if phase == 4 || phase == 1 || phase == 5 {
		// the applies that were queued for the FSM before the call must resolve as well
		if phase == 1 {
			s.openGate()
		}
		for _, f := range s.bg {
			d := make(chan struct{})
			go func(f raft.Future) { f.Error(); close(d) }(f)
			select {
			case <-d:
			case <-time.After(c17Watchdog):
				return 99, nil
			}
		}
	}
	return code, nil
}

var c17apiName = map[int]string{1: "apply", 2: "barrier", 3: "verifyleader", 4: "addvoter", 5: "bootstrap", 6: "snapshot", 7: "restore", 8: "leadershiptransfer", 9: "getconfiguration", 10: "apply-with-timeout"}
var c17roleName = map[int]string{1: "follower", 2: "candidate", 3: "leader", 4: "leader-without-quorum", 5: "leader-with-blocked-fsm"}
var c17phaseName = map[int]string{0: "running", 1: "racing-shutdown", 2: "after-shutdown", 3: "deposed-after-call", 4: "shutdown-after-call", 5: "restore-after-call"}

// c17isolated runs one cell in a child process: prints the code; a crash is code 98
func c17isolated(api, role int, buffered bool, phase int, skew time.Duration) (uint64, error, string) {
	return c17isolatedW(api, role, buffered, phase, skew, 0)
}

func c17isolatedW(api, role int, buffered bool, phase int, skew time.Duration, watchdogMs int) (uint64, error, string) {
	exe, err := os.Executable()
	if err != nil {
		return 0, err, ""
	}
	cmd := exec.Command(exe, "c17cell", itoa(api), itoa(role), itoa(int(b2u(buffered))), itoa(phase), itoa(int(skew/time.Microsecond)), itoa(watchdogMs))
	var out, eb bytes.Buffer
	cmd.Stdout, cmd.Stderr = &out, &eb
	runErr := cmd.Run()
	f := strings.Fields(out.String())
	if runErr == nil && len(f) == 2 && f[0] == "code" {
		v, _ := strconv.ParseUint(f[1], 10, 64)
		return v, nil, ""
	}
	if runErr == nil && len(f) >= 1 && f[0] == "setup" {
		return 0, fmt.Errorf("setup: %s", out.String()), ""
	}
	msg := eb.String()
	if i := strings.Index(msg, "panic:"); i >= 0 {
		msg = msg[i:]
		if j := strings.Index(msg, "\n"); j >= 0 {
			msg = msg[:j]
		}
		return 98, nil, msg
	}
	return 0, fmt.Errorf("child failed: %v %s", runErr, msg), ""
}

// entry point of the child: harness c17cell api role buffered phase skew_us
func c17child(args []string) {
	var v [6]int
	for i := 0; i < 6 && i < len(args); i++ {
		v[i], _ = strconv.Atoi(args[i])
	}
	if v[5] > 0 {
		c17Watchdog = time.Duration(v[5]) * time.Millisecond
	}
	code, err := c17cell(v[0], v[1], v[2] != 0, v[3], time.Duration(v[4])*time.Microsecond)
	if err != nil {
		fmt.Println("setup", err)
		return
	}
	fmt.Println("code", code)
}

func c17run(api, role int, buffered bool, phase int, skew time.Duration) (uint64, error, string) {
	var c uint64
	var err error
	detail := ""
	if phase == 1 || phase == 3 || phase == 4 || phase == 5 {
		c, err, detail = c17isolated(api, role, buffered, phase, skew)
	} else {
		c, err = c17cell(api, role, buffered, phase, skew)
	}
	if err == nil && c == 99 {
		// "never resolved" was decided by a 1.5 s watchdog while 12 cells run side by side: a stranded future stays
		// stranded however long one waits, a starved machine does not - the cell is repeated alone in a child process
		// with an 8 s watchdog (three times: the racing cells depend on the schedule) and reported only if it strands again
		c17confirm.Lock()
		defer c17confirm.Unlock()
		if c17confirmed >= 3 {
			return c, nil, detail // three cells already stranded again under the long watchdog: this tree strands futures
		}
		for k := 0; k < 3; k++ {
			c2, err2, d2 := c17isolatedW(api, role, buffered, phase, skew, 8000)
			if err2 == nil && (c2 == 99 || c2 == 98) {
				c17confirmed++
				return c2, nil, d2
			}
			if err2 == nil {
				c = c2
			}
		}
		return c, nil, detail
	}
	return c, err, detail
}

var c17confirm sync.Mutex
var c17confirmed int

func c17report(cw *caseWriter, tag string, in []uint64, code uint64, detail string) {
	api, role, buffered, phase := int(in[0]), int(in[1]), in[2] != 0, int(in[3])
	cw.stats[fmt.Sprintf("c17_code_%d", code)]++
	cw.stats["c17_phase_"+c17phaseName[phase]]++
	cw.stats["c17_role_"+c17roleName[role]]++
	cw.emit(tag, 17, []uint64{in[0], in[1], in[2], in[3], code}, []uint64{code}, code != 0)
	cell := fmt.Sprintf("%s on a %s, %s (applyCh buffered=%v)", c17apiName[api], c17roleName[role], c17phaseName[phase], buffered)
	switch {
	case code == 99:
		cw.monitor("C17", tag, "future-never-resolved-"+c17phaseName[phase], "%s: the caller's wait did not return within %v", cell, c17Watchdog)
	case code == 98:
		cw.monitor("C17", tag, "process-panicked-"+c17apiName[api]+"-"+c17phaseName[phase], "%s: the process panicked instead of completing the call: %s", cell, detail)
	case phase == 2 && code != 3 && api != 9:
		cw.monitor("C17", tag, "call-after-shutdown-not-errraftshutdown", "%s: completed with code %d instead of ErrRaftShutdown", cell, code)
	}
}

func c17valid(api, role, phase int) bool {
	if phase == 5 {
		return role == 4 && (api == 1 || api == 2 || api == 10)
	}
	if phase == 3 && role < 3 {
		return false
	}
	if phase == 0 && role == 4 {
		// nothing that needs a commit resolves while the second voter is unreachable - by construction
		return api == 5 || api == 6 || api == 8 || api == 9
	}
	if phase == 0 && role == 5 {
		return api == 3 || api == 5 || api == 8 || api == 9
	}
	if role == 5 && (api == 6 || api == 7) && phase != 2 {
		return false // Snapshot/Restore wait for the blocked FSM goroutine by design
	}
	if role == 5 && phase == 3 && (api == 1 || api == 2 || api == 4 || api == 10) {
		return false // the entry is with the (blocked) user FSM: nothing answers it before the FSM returns - by design
	}
	return true
}

func c17exec(cw *caseWriter, tag string, in []uint64) {
	// a replayed cell is repeated: the outcome depends on the schedule
	for i := 0; i < 12; i++ {
		code, err, detail := c17run(int(in[0]), int(in[1]), in[2] != 0, int(in[3]), time.Duration(i*4)*time.Microsecond)
		if err != nil {
			cw.stats["c17_setup_failed"]++
			continue
		}
		c17report(cw, tag+itoa(i), in, code, detail)
	}
}

func runC17(cw *caseWriter, tier string, seed uint64) {
	reps := 3
	if tier != "quick" {
		reps = 25
	}
	type job struct {
		tag  string
		in   []uint64
		skew time.Duration
	}
	r := &rng{s: seed}
	var jobs []job
	for rep := 0; rep < reps; rep++ {
		for api := 1; api <= 10; api++ {
			for role := 1; role <= 5; role++ {
				for phase := 0; phase <= 5; phase++ {
					if !c17valid(api, role, phase) {
						continue
					}
					for _, buf := range []uint64{0, 1} {
						if buf == 1 && !(api == 1 || api == 2 || api == 7 || api == 10) && rep > 0 {
							continue
						}
						jobs = append(jobs, job{cw.tag("f"), []uint64{uint64(api), uint64(role), buf, uint64(phase)}, time.Duration(r.intn(40)) * time.Microsecond})
					}
				}
			}
		}
	}
	// cells are independent servers: run them 12 at a time, emit in job order
	var mu sync.Mutex
	sem := make(chan struct{}, 12)
	var wg sync.WaitGroup
	for _, j := range jobs {
		wg.Add(1)
		sem <- struct{}{}
		go func(j job) {
			defer wg.Done()
			defer func() { <-sem }()
			code, err, detail := c17run(int(j.in[0]), int(j.in[1]), j.in[2] != 0, int(j.in[3]), j.skew)
			mu.Lock()
			defer mu.Unlock()
			if err != nil {
				cw.stats["c17_setup_failed"]++
				return
			}
			c17report(cw, j.tag, j.in, code, detail)
		}(j)
	}
	wg.Wait()
	// leadership transfers: round trips and a target that acknowledges TimeoutNow and is cut off (family 16)
	if tier == "quick" {
		runScenarios(cw, 16, seed*100000, 8, 4)
	} else {
		runScenarios(cw, 16, seed*100000, 150, 4)
	}
}
