package main

import (
	"time"

	"github.com/hashicorp/raft"
)

// C13: checkLeaderLease on a real leader state (stepper), ValidateConfig, the 10ms floor, and
// real-timer clusters for the step-down delay.

func c13lease(cw *caseWriter, cfg []srv, ds []int, L time.Duration) {
	logs := NewMapLogStore(nil)
	logs.StoreLogs([]*raft.Log{{Index: 1, Term: 1, Type: raft.LogConfiguration, Data: raft.EncodeConfiguration(mkConfig(cfg))}})
	n, err := newNode(nodeOpts{id: 1, timeouts: L}, logs, nil, nil)
	if err != nil {
		panic(err)
	}
	defer n.shutdown()
	n.r.VerifSetState(raft.Leader)
	n.r.VerifSetupLeaderState()
	base := time.Now()
	nowNs := uint64(1000000000000)
	in := encSrvs(cfg)
	in = append(in, 1, uint64(L.Nanoseconds()), nowNs)
	var contacts []uint64
	k := 0
	for _, s := range cfg {
		if s.id == 1 {
			continue
		}
		d := time.Duration(ds[k%len(ds)]) * L / 10
		k++
		n.r.VerifAddReplState(raft.Server{Suffrage: raft.ServerSuffrage(s.suff), ID: idStr(s.id), Address: addrStr(s.addr)}, base.Add(-d))
		contacts = append(contacts, s.id, nowNs-uint64(d.Nanoseconds()))
	}
	in = append(in, uint64(len(contacts)/2))
	in = append(in, contacts...)
	md := n.r.VerifCheckLeaderLease()
	sd := n.r.State() != raft.Leader
	ni := L - md
	if ni < raft.VerifMinCheckInterval {
		ni = raft.VerifMinCheckInterval
	}
	// buckets of a tenth of the lease, rounded (contacts sit on multiples of it: +-L/20 of jitter is absorbed)
	b := func(d time.Duration) uint64 { return uint64((d + L/20) / (L / 10)) }
	tag := cw.tag("l")
	cw.emit(tag, 13, in, []uint64{b2u(sd), b(md), b(ni)}, true)
	if sd {
		cw.stat("c13_stepdowns", 1)
	}
	// the property's own predicate, from the inputs alone: the voters heard from within the lease (the leader itself only
	// if it is a voter of the configuration) - a strict majority of the voters keeps it, anything less deposes it.
	// Contacts sit on multiples of a tenth of the lease and never within 20% of the boundary, so the count is exact.
	voters, fresh := 0, 0
	k = 0
	for _, sv := range cfg {
		if sv.id == 1 {
			if sv.suff == 0 {
				voters++
				fresh++
			}
			continue
		}
		d := ds[k%len(ds)]
		k++
		if sv.suff == 0 {
			voters++
			if d < 10 {
				fresh++
			}
		}
	}
	if voters > 0 {
		quorum := voters/2 + 1
		if fresh < quorum && !sd {
			cw.monitor("C13", tag, "leader-kept-lease-without-voter-majority", "checkLeaderLease kept leadership with %d of %d voters in contact within the lease (quorum %d); configuration %v, contact ages in tenths of the lease %v", fresh, voters, quorum, cfg, ds)
		}
		if fresh >= quorum && sd {
			cw.monitor("C13", tag, "leader-deposed-by-lease-check-with-voter-majority", "checkLeaderLease stepped down although %d of %d voters were in contact within the lease (quorum %d); configuration %v, contact ages %v", fresh, voters, quorum, cfg, ds)
		}
	}
}

// component 1303: the minCheckInterval floor.  One voter's last contact lies `margin` (a few ms) inside the lease, so
// lease - maxDiff is below the 10 ms floor; the other peers' contacts are fresher (or beyond the lease).  The next interval is
// reported in whole multiples of minCheckInterval: exactly 1 at the floor whatever the clock latency (below the margin), 0 without
// the floor.  An attempt whose clock readings may lie further apart than half the margin is repeated on a fresh server.
func c13floor(cw *caseWriter, cfg []srv, floorPeer int, margin time.Duration, ds []int, L time.Duration) {
	for attempt := 0; attempt < 50; attempt++ {
		logs := NewMapLogStore(nil)
		logs.StoreLogs([]*raft.Log{{Index: 1, Term: 1, Type: raft.LogConfiguration, Data: raft.EncodeConfiguration(mkConfig(cfg))}})
		n, err := newNode(nodeOpts{id: 1, timeouts: L}, logs, nil, nil)
		if err != nil {
			panic(err)
		}
		n.r.VerifSetState(raft.Leader)
		n.r.VerifSetupLeaderState()
		nowNs := uint64(1000000000000)
		in := encSrvs(cfg)
		in = append(in, 1, uint64(L.Nanoseconds()), nowNs)
		type pc struct {
			s srv
			d time.Duration
		}
		var peers []pc
		var contacts []uint64
		k := 0
		for _, s := range cfg {
			if s.id == 1 {
				continue
			}
			d := time.Duration(ds[k%len(ds)]) * L / 10
			if k == floorPeer {
				d = L - margin
			}
			k++
			peers = append(peers, pc{s, d})
			contacts = append(contacts, s.id, nowNs-uint64(d.Nanoseconds()))
		}
		in = append(in, uint64(len(contacts)/2))
		in = append(in, contacts...)
		base := time.Now()
		for _, p := range peers {
			n.r.VerifAddReplState(raft.Server{Suffrage: raft.ServerSuffrage(p.s.suff), ID: idStr(p.s.id), Address: addrStr(p.s.addr)}, base.Add(-p.d))
		}
		md := n.r.VerifCheckLeaderLease()
		elapsed := time.Since(base)
		sd := n.r.State() != raft.Leader
		n.shutdown()
		if elapsed > margin/2 {
			cw.stat("c13_floor_retries", 1)
			continue
		}
		ni := L - md
		if ni < raft.VerifMinCheckInterval {
			ni = raft.VerifMinCheckInterval
		}
		b := func(d time.Duration) uint64 { return uint64((d + L/20) / (L / 10)) }
		mult := uint64(ni / raft.VerifMinCheckInterval)
		if mult > 2 {
			mult = 2 // well above the floor (the floor peer is not a voter, or out of the lease): the exact multiple depends on the clock latency
		}
		cw.emit(cw.tag("f"), 1303, in, []uint64{b2u(sd), b(md), mult}, true)
		return
	}
	cw.stat("c13_floor_abandoned", 1)
}

func runC13floor(cw *caseWriter, tier string, r *rng, L time.Duration) {
	cfgs := [][]srv{
		{{0, 1, 1}, {0, 2, 2}},
		{{0, 1, 1}, {0, 2, 2}, {0, 3, 3}},
		{{0, 1, 1}, {0, 2, 2}, {0, 3, 3}, {1, 4, 4}},
		{{0, 1, 1}, {1, 2, 2}, {0, 3, 3}, {2, 4, 4}, {0, 5, 5}},
		{{0, 1, 1}, {0, 2, 2}, {0, 3, 3}, {0, 4, 4}, {0, 5, 5}},
	}
	grid := []int{0, 4, 8, 30}
	n := 0
	for _, cfg := range cfgs {
		peers := len(cfg) - 1
		for fp := 0; fp < peers; fp++ {
			for _, margin := range []time.Duration{8 * time.Millisecond, 5 * time.Millisecond} {
				total := 1
				for i := 0; i < peers; i++ {
					total *= len(grid)
				}
				for x := 0; x < total; x++ {
					if total > 16 && tier == "quick" && r.intn(total/8) != 0 {
						continue
					}
					ds := make([]int, peers)
					y := x
					for i := 0; i < peers; i++ {
						ds[i] = grid[y%len(grid)]
						y /= len(grid)
					}
					c13floor(cw, cfg, fp, margin, ds, L)
					n++
				}
			}
		}
	}
	cw.stat("c13_floor_cases", n)
}

func runC13(cw *caseWriter, tier string, seed uint64) {
	r := &rng{s: seed}
	L := 2 * time.Second                       // long enough that scheduling jitter of a loaded machine (tens of ms) cannot move a bucket
	grid := []int{0, 2, 4, 8, 12, 16, 30, 100} // tenths of the lease; never within 20% of the boundary
	cfgs := [][]srv{
		{{0, 1, 1}},
		{{0, 1, 1}, {0, 2, 2}},
		{{0, 1, 1}, {0, 2, 2}, {0, 3, 3}},
		{{0, 1, 1}, {0, 2, 2}, {0, 3, 3}, {1, 4, 4}},
		{{0, 1, 1}, {1, 2, 2}, {0, 3, 3}, {2, 4, 4}, {0, 5, 5}},
		{{0, 1, 1}, {0, 2, 2}, {0, 3, 3}, {0, 4, 4}, {0, 5, 5}},
		{{1, 1, 1}, {0, 2, 2}, {0, 3, 3}},
	}
	n := 0
	for _, cfg := range cfgs {
		peers := len(cfg) - 1
		total := 1
		for i := 0; i < peers; i++ {
			total *= len(grid)
		}
		for x := 0; x < total; x++ {
			if total > 600 && tier == "quick" && r.intn(total/300) != 0 {
				continue
			}
			ds := make([]int, peers)
			y := x
			for i := 0; i < peers; i++ {
				ds[i] = grid[y%len(grid)]
				y /= len(grid)
			}
			if peers == 0 {
				ds = []int{0}
			}
			c13lease(cw, cfg, ds, L)
			n++
		}
	}
	cw.stat("c13_lease_cases", n)
	runC13floor(cw, tier, r, L)
	// ValidateConfig timing part
	vals := []time.Duration{time.Millisecond, 4 * time.Millisecond, 5 * time.Millisecond, 10 * time.Millisecond, 100 * time.Millisecond, time.Second}
	m := 0
	for _, h := range vals {
		for _, e := range vals {
			for _, c := range []time.Duration{time.Microsecond * 500, time.Millisecond, 50 * time.Millisecond} {
				for _, l := range vals {
					cf := raft.DefaultConfig()
					cf.LocalID = "x"
					cf.HeartbeatTimeout, cf.ElectionTimeout, cf.CommitTimeout, cf.LeaderLeaseTimeout = h, e, c, l
					ok := raft.ValidateConfig(cf) == nil
					cw.emit(cw.tag("v"), 1301, []uint64{uint64(h), uint64(e), uint64(c), uint64(l)}, []uint64{b2u(ok)}, ok)
					m++
				}
			}
		}
	}
	cw.stat("c13_validate_cases", m)
	cw.emit(cw.tag("k"), 1302, nil, []uint64{uint64(raft.VerifMinCheckInterval)}, true)
	if tier == "quick" {
		runScenarios(cw, 5, seed*100000, 10, 4)
		runScenarios(cw, 6, seed*100000, 3, 3)
		runScenarios(cw, 17, seed*100000, 4, 4) // the lease rests on a voter promoted during the leadership
	} else {
		runScenarios(cw, 5, seed*100000, 120, 4)
		runScenarios(cw, 6, seed*100000, 12, 3)
		runScenarios(cw, 17, seed*100000, 60, 4)
	}
}
