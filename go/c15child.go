package main

// Component 15 (FileSnapshotStore), child side.
//
// The harness re-executes itself as   <exe> c15child <root> <jobfile>   under strace.  The job file
// holds one script per line (decimal ints: retain, then ops).  Script number i works in the
// store <root>/c<i> (so the traced store directory is <root>/c<i>/snapshots).  The child tells the
// parent what happened only through the trace: recognisable failing stat calls
//
//	/c15mark/<case>/b                       store created, script starts
//	/c15mark/<case>/<opno>/<r>              script op <opno> (0-based) finished, r = 0 nil / 1 error
//	/c15mark/<case>/<opno>/<r>/<name>       same for a Create; <name> is sink.ID() ("-" if Create failed)
//	/c15mark/<case>/e                       script finished
//	/c15mark/<case>/x/<text>                the script could not be run (malformed, store creation failed)
//
// Nothing else is communicated, so the parent's view is exactly what strace saw.

import (
	"bufio"
	"fmt"
	"io"
	"os"
	"path/filepath"
	"strconv"
	"strings"
	"time"

	"github.com/hashicorp/raft"
)

const c15markRoot = "/c15mark"

func c15mark(parts ...string) {
	_, _ = os.Stat(c15markRoot + "/" + strings.Join(parts, "/"))
}

// one script op
type c15sop struct {
	kind  int // 1 create, 2 write, 3 close, 4 cancel
	sid   int
	term  uint64
	index uint64
	data  []byte
}

type c15script struct {
	retain int
	ops    []c15sop
}

// c15parseScript parses "retain ops..." and checks well-formedness.
func c15parseScript(in []uint64) (*c15script, error) {
	if len(in) < 1 {
		return nil, fmt.Errorf("empty script")
	}
	s := &c15script{retain: int(in[0])}
	if in[0] < 1 || in[0] > 1000 {
		return nil, fmt.Errorf("retain %d out of range", in[0])
	}
	open := map[int]bool{}
	next := 1
	i := 1
	for i < len(in) {
		k := in[i]
		switch k {
		case 1:
			if i+3 >= len(in) {
				return nil, fmt.Errorf("truncated create at %d", i)
			}
			sid := int(in[i+1])
			if sid != next {
				return nil, fmt.Errorf("create of sid %d, expected %d", sid, next)
			}
			next++
			open[sid] = true
			s.ops = append(s.ops, c15sop{kind: 1, sid: sid, term: in[i+2], index: in[i+3]})
			i += 4
		case 2:
			if i+2 >= len(in) {
				return nil, fmt.Errorf("truncated write at %d", i)
			}
			sid, n := int(in[i+1]), int(in[i+2])
			if !open[sid] {
				return nil, fmt.Errorf("write on sink %d which is not open", sid)
			}
			if n < 0 || i+3+n > len(in) {
				return nil, fmt.Errorf("truncated write payload at %d", i)
			}
			d := make([]byte, n)
			for j := 0; j < n; j++ {
				if in[i+3+j] > 255 {
					return nil, fmt.Errorf("byte out of range at %d", i+3+j)
				}
				d[j] = byte(in[i+3+j])
			}
			s.ops = append(s.ops, c15sop{kind: 2, sid: sid, data: d})
			i += 3 + n
		case 3, 4:
			if i+1 >= len(in) {
				return nil, fmt.Errorf("truncated close/cancel at %d", i)
			}
			sid := int(in[i+1])
			if !open[sid] {
				return nil, fmt.Errorf("close/cancel on sink %d which is not open", sid)
			}
			delete(open, sid)
			s.ops = append(s.ops, c15sop{kind: int(k), sid: sid})
			i += 2
		default:
			return nil, fmt.Errorf("unknown op kind %d at %d", k, i)
		}
	}
	return s, nil
}

func c15encodeScript(s *c15script) []uint64 {
	out := []uint64{uint64(s.retain)}
	for _, o := range s.ops {
		switch o.kind {
		case 1:
			out = append(out, 1, uint64(o.sid), o.term, o.index)
		case 2:
			out = append(out, 2, uint64(o.sid), uint64(len(o.data)))
			for _, b := range o.data {
				out = append(out, uint64(b))
			}
		default:
			out = append(out, uint64(o.kind), uint64(o.sid))
		}
	}
	return out
}

func c15caseDir(root string, i int) string { return filepath.Join(root, "c"+strconv.Itoa(i)) }

// c15childRun runs one script against a fresh real store.
func c15childRun(root string, caseNo int, line string) {
	cs := strconv.Itoa(caseNo)
	var in []uint64
	for _, f := range strings.Fields(line) {
		v, err := strconv.ParseUint(f, 10, 64)
		if err != nil {
			c15mark(cs, "x", "bad-int")
			return
		}
		in = append(in, v)
	}
	s, err := c15parseScript(in)
	if err != nil {
		c15mark(cs, "x", "malformed")
		return
	}
	store, err := raft.NewFileSnapshotStore(c15caseDir(root, caseNo), s.retain, io.Discard)
	if err != nil {
		c15mark(cs, "x", "store")
		return
	}
	c15mark(cs, "b")
	sinks := map[int]raft.SnapshotSink{}
	created := 0
	for opno, o := range s.ops {
		os_ := strconv.Itoa(opno)
		var opErr error
		switch o.kind {
		case 1:
			if created > 0 {
				// snapshot names are term-index-msec: keep them distinct and increasing
				time.Sleep(2 * time.Millisecond)
			}
			created++
			sink, err := store.Create(1, o.index, o.term, raft.Configuration{}, 0, nil)
			name := "-"
			if err == nil {
				sinks[o.sid] = sink
				name = sink.ID()
			}
			r := "0"
			if err != nil {
				r = "1"
			}
			c15mark(cs, os_, r, name)
			continue
		case 2:
			n, err := sinks[o.sid].Write(o.data)
			opErr = err
			if err == nil && n != len(o.data) {
				opErr = io.ErrShortWrite
			}
		case 3:
			opErr = sinks[o.sid].Close()
		case 4:
			opErr = sinks[o.sid].Cancel()
		}
		if opErr != nil {
			c15mark(cs, os_, "1")
		} else {
			c15mark(cs, os_, "0")
		}
	}
	c15mark(cs, "e")
	// sinks left open by the script: release their descriptors (after the end mark, so not observed)
	for _, o := range s.ops {
		if o.kind == 3 || o.kind == 4 {
			delete(sinks, o.sid)
		}
	}
	for _, sk := range sinks {
		_ = sk.Cancel()
	}
}

// c15child: args = <root> <jobfile>
func c15child(args []string) {
	if len(args) < 2 {
		fmt.Fprintln(os.Stderr, "c15child: usage: c15child <root> <jobfile>")
		os.Exit(2)
	}
	root := args[0]
	f, err := os.Open(args[1])
	if err != nil {
		fmt.Fprintln(os.Stderr, "c15child:", err)
		os.Exit(2)
	}
	sc := bufio.NewScanner(f)
	sc.Buffer(make([]byte, 1<<20), 1<<26)
	caseNo := 0
	for sc.Scan() {
		c15childRun(root, caseNo, sc.Text())
		caseNo++
	}
	f.Close()
	os.Exit(0)
}
