package main

import (
	"fmt"
	"sort"

	"github.com/hashicorp/raft"
)

// Property monitors over a recorded cluster history: the property predicates themselves,
// evaluated on what the real servers did.

type finding struct {
	prop, sig, text string
}

type nodeView struct {
	covered  map[uint64][4]uint64 // entries this server compacted away below its own snapshot
	log      map[uint64][4]uint64 // durable log
	snapIdx  uint64               // newest durable snapshot index
	applied  map[uint64][4]uint64 // every entry ever handed to this node's FSM: index -> entry
	lastFsm  uint64               // last index handed to the FSM by the current instance
	inst     int
	restored bool
}

func (c *cluster) configByID(id uint64) (raft.Configuration, bool) {
	c.cfgMu.Lock()
	defer c.cfgMu.Unlock()
	for b, i := range c.cfgBytes {
		if i == id {
			return raft.DecodeConfiguration([]byte(b)), true
		}
	}
	return raft.Configuration{}, false
}

func votersOf(cfg raft.Configuration) map[uint64]bool {
	m := map[uint64]bool{}
	for _, s := range cfg.Servers {
		if s.Suffrage == raft.Voter {
			m[idNum(s.ID)] = true
		}
	}
	return m
}

// latest configuration entry of a log (by index)
func (c *cluster) latestConfigIn(log map[uint64][4]uint64, upto uint64) (raft.Configuration, bool) {
	var best uint64
	var id uint64
	for idx, e := range log {
		if e[2] == 5 && idx > best && (upto == 0 || idx <= upto) {
			best, id = idx, e[3]
		}
	}
	if best == 0 {
		return c.cfg, true
	}
	return c.configByID(id)
}

func holds(v *nodeView, e [4]uint64) bool {
	if le, ok := v.log[e[0]]; ok && le == e {
		return true
	}
	// covered by a durable snapshot: what this server itself held / applied at that index decides
	if e[0] <= v.snapIdx {
		if ce, ok := v.covered[e[0]]; ok {
			return ce == e
		}
		if ae, ok := v.applied[e[0]]; ok {
			return ae == e
		}
		return true // index only known through an installed snapshot (content checked by the stream monitors)
	}
	return false
}

func (c *cluster) monitor() []finding {
	var out []finding
	seen := map[string]bool{}
	add := func(prop, sig, format string, args ...interface{}) {
		k := prop + sig
		if seen[k] {
			return
		}
		seen[k] = true
		out = append(out, finding{prop, sig, fmt.Sprintf(format, args...)})
	}
	evs := c.h.snapshot()
	views := map[uint64]*nodeView{}
	for _, id := range c.ids {
		views[id] = &nodeView{log: map[uint64][4]uint64{}, applied: map[uint64][4]uint64{}, covered: map[uint64][4]uint64{}}
	}
	leadersByTerm := map[uint64]map[uint64]bool{}
	markLeader := func(term, node uint64) {
		if leadersByTerm[term] == nil {
			leadersByTerm[term] = map[uint64]bool{}
		}
		leadersByTerm[term][node] = true
	}
	globalApplied := map[uint64][4]uint64{} // index -> entry first applied anywhere
	appliedBy := map[uint64]uint64{}
	type ack struct {
		idx, pay, seq uint64
		kind          string
	}
	var acks []ack
	calls := map[uint64]hev{}
	maxAckedBefore := map[uint64]uint64{} // call id -> highest index acknowledged before it was issued
	var maxAcked uint64
	storedPayload := map[uint64]bool{}
	lastGateCommit := map[string]uint64{}
	followerLeader := map[uint64][2]uint64{} // node -> (leader id, term) advertised
	var restores []hev
	deliveredBy := map[[5]uint64]uint64{} // (receiver, idx, term, type, payload) -> sending leader
	// diagnosis of finding F3-ii: the entry was served by a leader from at or below its own snapshot index
	servedBelowSnapshot := func(receiver uint64, ent [4]uint64) bool {
		l, ok := deliveredBy[[5]uint64{receiver, ent[0], ent[1], ent[2], ent[3]}]
		return ok && views[l] != nil && views[l].snapIdx >= ent[0]
	}

	checkMatching := func(at uint64) {
		for i := 0; i < len(c.ids); i++ {
			for j := i + 1; j < len(c.ids); j++ {
				a, b := views[c.ids[i]], views[c.ids[j]]
				// highest index where both hold an entry with the same term
				var top uint64
				for idx, ea := range a.log {
					if eb, ok := b.log[idx]; ok && eb[1] == ea[1] && idx > top {
						top = idx
					}
				}
				for idx, ea := range a.log {
					if idx > top {
						continue
					}
					if eb, ok := b.log[idx]; ok && eb != ea {
						sig := "log-mismatch-below-common-entry"
						if idx <= a.snapIdx || idx <= b.snapIdx {
							sig += "-at-or-below-own-snapshot" // stale entries kept in the store under an installed snapshot (F3-ii)
						}
						add("C04", sig, "seq %d: servers %d and %d agree at index %d but differ at %d: %v vs %v",
							at, c.ids[i], c.ids[j], top, idx, ea, eb)
					}
				}
			}
		}
	}

	for _, e := range evs {
		v := views[e.node]
		switch e.kind {
		case "note":
			if e.s == "started" && v != nil {
				v.inst = e.inst
				v.lastFsm = 0
				v.restored = false
			}
		case "state":
			if e.a == uint64(raft.Leader) {
				markLeader(e.b, e.node)
				// C03: a new leader holds everything acknowledged before
				for _, a := range acks {
					if a.kind != "apply" {
						continue
					}
					ent, ok := globalApplied[a.idx]
					if ok && !holds(v, ent) {
						add("C03", "leader-misses-committed-entry", "seq %d: server %d became leader of term %d without the acknowledged entry %v", e.seq, e.node, e.b, ent)
					}
				}
				for idx, ent := range globalApplied {
					if !holds(v, ent) {
						add("C03", "leader-misses-applied-entry", "seq %d: server %d became leader of term %d without applied entry %d %v", e.seq, e.node, e.b, idx, ent)
					}
				}
				// C07: never elected while a non-voter / absent in its own latest configuration
				cfg, ok := c.latestConfigIn(v.log, 0)
				if ok && !votersOf(cfg)[e.node] {
					add("C07", "non-voter-elected", "seq %d: server %d became leader of term %d but is not a voter of its latest configuration", e.seq, e.node, e.b)
				}
				checkMatching(e.seq)
			}
		case "leaderobs":
			if e.a != 0 {
				followerLeader[e.node] = [2]uint64{e.a, e.b}
			}
		case "send":
			if e.b == 3 || e.b == 4 {
				markLeader(e.c, e.node)
			}
			for _, x := range e.ents {
				deliveredBy[[5]uint64{e.a, x[0], x[1], x[2], x[3]}] = e.node
			}
		case "store":
			if e.b == 1 {
				for _, x := range e.ents {
					// C03: an applied entry this server holds is never replaced by another one
					if g, ok := globalApplied[x[0]]; ok && g != x {
						if old, had := v.log[x[0]]; had && old == g {
							add("C03", "committed-index-reassigned", "seq %d: server %d stores %v over applied %v", e.seq, e.node, x, g)
						}
					}
					v.log[x[0]] = x
					if x[2] == 0 {
						storedPayload[x[3]] = true
					}
				}
				// terms never decrease along the log
				idxs := make([]uint64, 0, len(v.log))
				for k := range v.log {
					idxs = append(idxs, k)
				}
				sort.Slice(idxs, func(i, j int) bool { return idxs[i] < idxs[j] })
				var pt uint64
				for _, k := range idxs {
					if v.log[k][1] < pt {
						add("C04", "terms-decrease-in-log", "seq %d: server %d index %d term %d after term %d", e.seq, e.node, k, v.log[k][1], pt)
					}
					pt = v.log[k][1]
				}
				// C03: an acknowledged / applied index is never re-assigned
			}
			if e.s == "leader" {
				key := fmt.Sprintf("%d.%d", e.node, e.inst)
				// C05: commit index of a running server never decreases, never exceeds its last index
				if e.c < lastGateCommit[key] {
					add("C05", "commit-index-decreased", "seq %d: server %d commit %d after %d", e.seq, e.node, e.c, lastGateCommit[key])
				}
				lastGateCommit[key] = e.c
				// C07: a configuration entry is appended only through the gate
				for _, x := range e.ents {
					if x[2] == 5 && x[0] > 1 {
						if e.a != e.d || e.c < e.e {
							add("C07", "configuration-appended-while-gate-closed", "seq %d: server %d appended configuration at %d with latest=%d committed=%d commit=%d start=%d",
								e.seq, e.node, x[0], e.a, e.d, e.c, e.e)
						}
						// one voter at a time
						prev, ok1 := c.latestConfigIn(v.log, x[0]-1)
						cur, ok2 := c.configByID(x[3])
						if ok1 && ok2 {
							a, b := votersOf(prev), votersOf(cur)
							diff := 0
							for k := range a {
								if !b[k] {
									diff++
								}
							}
							for k := range b {
								if !a[k] {
									diff++
								}
							}
							if diff > 1 {
								add("C07", "more-than-one-voter-changed", "seq %d: configuration at %d changes %d voters", e.seq, x[0], diff)
							}
							if len(b) == 0 {
								add("C07", "configuration-without-voter", "seq %d: configuration at %d", e.seq, x[0])
							}
						}
					}
				}
			}
		case "del":
			if e.c == 1 {
				for idx := range v.log {
					if idx >= e.a && idx <= e.b {
						if g, ok := globalApplied[idx]; ok && idx > v.snapIdx && v.log[idx] == g {
							add("C03", "committed-entry-deleted", "seq %d: server %d deletes %d..%d holding applied %v", e.seq, e.node, e.a, e.b, g)
						}
						if idx <= v.snapIdx {
							v.covered[idx] = v.log[idx]
						}
						delete(v.log, idx)
					}
				}
			}
		case "snap":
			if e.c == 1 && e.a > v.snapIdx {
				v.snapIdx = e.a
			}
		case "restore":
			v.restored = true
			v.inst = e.inst
			v.lastFsm = 0
		case "apply", "conf":
			idx := e.a
			var ent [4]uint64
			if e.kind == "apply" {
				ent = [4]uint64{e.a, e.b, e.c, e.d}
			} else {
				le, ok := v.log[idx]
				if !ok {
					break
				}
				ent = le
			}
			if e.inst != v.inst { // first FSM call of a new instance (its FSM starts empty or restored)
				v.inst = e.inst
				v.lastFsm = 0
			}
			// in order, none repeated
			if v.lastFsm != 0 && idx <= v.lastFsm {
				add("C02", "fsm-index-not-increasing", "seq %d: server %d FSM given index %d after %d", e.seq, e.node, idx, v.lastFsm)
			}
			// none skipped: everything between is of a type that never reaches the FSM
			if v.lastFsm != 0 {
				for k := v.lastFsm + 1; k < idx; k++ {
					if le, ok := v.log[k]; ok && (le[2] == 0 || le[2] == 5) {
						add("C02", "fsm-entry-skipped", "seq %d: server %d FSM jumped from %d to %d over %v", e.seq, e.node, v.lastFsm, idx, le)
					}
				}
			}
			v.lastFsm = idx
			// the same entry everywhere
			if g, ok := globalApplied[idx]; ok {
				if g != ent {
					sig := "fsm-entries-differ-across-servers"
					if servedBelowSnapshot(e.node, ent) || servedBelowSnapshot(appliedBy[idx], g) {
						sig += "-entry-served-from-below-leader-snapshot"
					}
					add("C02", sig, "seq %d: index %d is %v on server %d but %v on server %d", e.seq, idx, ent, e.node, g, appliedBy[idx])
				}
			} else {
				globalApplied[idx] = ent
				appliedBy[idx] = e.node
			}
			v.applied[idx] = ent
			// handed to an FSM => committed: durably on a majority of the voters in force
			cfg, ok := c.latestConfigIn(v.log, idx)
			if ok {
				vs := votersOf(cfg)
				cnt := 0
				for id := range vs {
					if views[id] != nil && holds(views[id], ent) {
						cnt++
					}
				}
				if 2*cnt <= len(vs) {
					// the configuration in force may be the previous one: accept a majority of that too
					cfg0, ok0 := c.latestConfigIn(v.log, 0)
					cnt0, n0 := 0, 0
					if ok0 {
						vs0 := votersOf(cfg0)
						n0 = len(vs0)
						for id := range vs0 {
							if views[id] != nil && holds(views[id], ent) {
								cnt0++
							}
						}
					}
					if !ok0 || 2*cnt0 <= n0 {
						suffix := ""
						if servedBelowSnapshot(e.node, ent) {
							suffix = "-entry-served-from-below-leader-snapshot"
						}
						// finding F8: a configuration entry counted against the configuration it replaces
						if ent[2] == 5 && suffix == "" {
							if cfgP, okP := c.latestConfigIn(v.log, idx-1); okP {
								vp := votersOf(cfgP)
								cp := 0
								for id := range vp {
									if views[id] != nil && holds(views[id], ent) {
										cp++
									}
								}
								if 2*cp > len(vp) {
									suffix = "-configuration-entry-counted-against-previous-configuration"
								}
							}
						}
						add("C02", "uncommitted-entry-applied"+suffix, "seq %d: server %d FSM given %v held durably by %d of %d voters", e.seq, e.node, ent, cnt, len(vs))
						add("C05", "applied-without-voter-majority"+suffix, "seq %d: server %d FSM given %v held durably by %d of %d voters", e.seq, e.node, ent, cnt, len(vs))
					}
				}
			}
		case "call":
			calls[e.a] = e
			maxAckedBefore[e.a] = maxAcked
		case "ret":
			if e.s == "restore" && e.b == 0 {
				restores = append(restores, e)
			}
			if e.s == "barrier" && e.b == 0 {
				// a successful Barrier returns only after the local FSM applied every command
				// acknowledged... committed before it: every command stored below its index on this server
				v := views[e.node]
				for idx, le := range v.log {
					if idx < e.c && le[2] == 0 {
						if _, ok := v.applied[idx]; !ok {
							add("C08", "barrier-returned-before-earlier-entry-applied", "seq %d: Barrier on server %d returned at index %d but its FSM has not been given %v", e.seq, e.node, e.c, le)
						}
					}
				}
			}
			if e.s == "apply" {
				if e.b == 0 {
					acks = append(acks, ack{idx: e.c, pay: e.d, seq: e.seq, kind: "apply"})
					if e.c <= maxAckedBefore[e.a] {
						add("C08", "index-not-above-earlier-acks", "seq %d: apply %d acknowledged at index %d, but index %d was acknowledged before it was issued", e.seq, e.d, e.c, maxAckedBefore[e.a])
					}
					if e.c > maxAcked {
						maxAcked = e.c
					}
					if e.e != respOf(e.d) {
						add("C08", "response-of-another-entry", "seq %d: apply %d got response %d, its own is %d", e.seq, e.d, e.e, respOf(e.d))
					}
					if g, ok := globalApplied[e.c]; ok && g[3] != e.d {
						add("C08", "acknowledged-at-wrong-index", "seq %d: apply %d acknowledged at %d which holds %v", e.seq, e.d, e.c, g)
					}
				}
			}
		}
	}

	// C01: at most one leader per term
	for term, ns := range leadersByTerm {
		if len(ns) > 1 {
			add("C01", "two-leaders-in-one-term", "term %d: servers %v acted as leader", term, sortedIDs(ns))
		}
	}
	// C18: a follower only advertises a server that really led that term
	for node, lt := range followerLeader {
		if lt[0] != node && !leadersByTerm[lt[1]][lt[0]] {
			add("C18", "advertised-leader-never-led-that-term", "server %d names %d as leader of term %d", node, lt[0], lt[1])
		}
	}
	// C09: VerifyLeader succeeded => after the call was made, a majority of the voters (caller
	// included) answered an exchange of the caller's term that was SENT after the call
	{
		type sendInfo struct {
			seq, to, term uint64
		}
		sends := map[uint64]sendInfo{}   // send seq -> info (AppendEntries / heartbeats only)
		okResp := map[uint64]uint64{}    // send seq -> seq of the Success answer in the sender's term
		delivered := map[uint64]uint64{} // send seq -> seq at which the caller was handed the answer
		sender := map[uint64]uint64{}
		for _, e := range evs {
			if e.kind == "send" && e.b == 3 {
				sends[e.seq] = sendInfo{e.seq, e.a, e.c}
				sender[e.seq] = e.node
			}
			if e.kind == "dlv" && e.b == 3 {
				var ss uint64
				fmt.Sscan(e.s, &ss)
				delivered[ss] = e.seq
			}
			if e.kind == "resp" && e.b == 3 && e.e == 1 {
				var ss uint64
				fmt.Sscan(e.s, &ss)
				if si, ok := sends[ss]; ok && e.d == si.term {
					okResp[ss] = e.seq
				}
			}
		}
		// calls issued right after the scenario waited for quiescence (note "quiet-before-verify")
		quietBefore := map[uint64]bool{}
		var lastQuiet uint64
		for _, e := range evs {
			if e.kind == "note" && e.s == "quiet-before-verify" {
				lastQuiet = e.seq
			}
			if e.kind == "call" && e.s == "verify" && lastQuiet != 0 && e.seq <= lastQuiet+2 {
				quietBefore[e.seq] = true
			}
		}
		for _, r := range evs {
			if r.kind != "ret" || r.s != "verify" || r.b != 0 {
				continue
			}
			call := calls[r.a]
			cfg, ok := c.latestConfigIn(views[r.node].log, 0)
			if !ok {
				continue
			}
			vs := votersOf(cfg)
			freshSent, freshResp, nonVoter := map[uint64]bool{}, map[uint64]bool{}, map[uint64]bool{}
			for ss, si := range sends {
				_, answered := okResp[ss]
				ds, handed := delivered[ss]
				// counted by the leader = handed to it between the call and its return
				// (an answer handed over just before the call may still be on its way through the
				// replication goroutine when the call registers: 60 events of slack, voters only)
				slack := uint64(60)
				if quietBefore[call.seq] {
					slack = 0 // the scenario waited for quiescence right before the call: nothing is on its way
				}
				if !answered || !handed || sender[ss] != r.node || ds > r.seq || ds+slack < call.seq {
					continue
				}
				if ds < call.seq && !vs[si.to] {
					continue
				}
				if vs[si.to] {
					freshResp[si.to] = true
					if ss > call.seq {
						freshSent[si.to] = true
					}
				} else {
					nonVoter[si.to] = true
				}
			}
			self := 0
			if vs[r.node] {
				self = 1
			}
			if 2*(len(freshSent)+self) > len(vs) {
				continue
			}
			sig := "verify-succeeded-without-fresh-voter-majority"
			if 2*(len(freshResp)+self) > len(vs) {
				sig += "-exchange-sent-before-the-call-counted" // F2b
			} else if 2*(len(freshResp)+len(nonVoter)+self) > len(vs) {
				sig += "-non-voter-acknowledgement-counted" // F2
			}
			add("C09", sig, "seq %d: VerifyLeader on server %d returned nil; voters answering an exchange sent after the call: %v, answering after the call: %v, non-voters answering: %v, %d voters",
				r.seq, r.node, sortedIDs(freshSent), sortedIDs(freshResp), sortedIDs(nonVoter), len(vs))
		}
	}
	// C20: after a successful Restore every acknowledged Apply is either before the restore (and then
	// wiped) or gets an index above the restore's; calls aborted by the restore leave no trace afterwards
	for _, rs := range restores {
		// the index burned by this restore = index of the restore snapshot on the leader
		var burned uint64
		for _, e := range evs {
			if e.kind == "snap" && e.node == rs.node && e.seq < rs.seq && e.c == 1 && e.a > burned {
				burned = e.a
			}
		}
		for _, e := range evs {
			if e.kind == "ret" && e.s == "apply" && e.b == 0 && e.seq > rs.seq {
				if cl, ok := calls[e.a]; ok && cl.seq > rs.seq && e.c <= burned {
					add("C20", "entry-after-restore-not-above-burned-index", "apply %d issued after the restore was acknowledged at %d, the restore burned index %d", e.d, e.c, burned)
				}
			}
			if e.kind == "ret" && e.s == "apply" && e.b == 6 {
				// aborted by the restore: no trace in the final state - a server that has taken over the
				// restored state (FSM.Restore after the restore) must not be given that command afterwards
				for _, id := range c.ids {
					var restoredAt uint64
					for _, a := range evs {
						if a.kind == "restore" && a.node == id && a.seq > rs.seq-200 && restoredAt == 0 && a.seq > calls[rs.a].seq {
							restoredAt = a.seq
						}
					}
					if restoredAt == 0 {
						continue
					}
					for _, a := range evs {
						if a.kind == "apply" && a.node == id && a.d == e.d && a.seq > restoredAt {
							add("C20", "aborted-call-applied-after-restore", "apply %d failed with ErrAbortedByRestore but reached the FSM of server %d after it had taken over the restored state", e.d, a.node)
						}
					}
				}
			}
		}
	}
	// C08: exactly once per FSM, definite failures leave no trace
	for _, e := range evs {
		if e.kind != "ret" || e.s != "apply" {
			continue
		}
		if e.b == 0 {
			for _, id := range c.ids {
				cnt := 0
				for idx, a := range views[id].applied {
					if a[3] == e.d && a[2] == 0 {
						cnt++
						if idx != e.c {
							add("C08", "applied-at-another-index", "apply %d acknowledged at %d but server %d applied it at %d", e.d, e.c, id, idx)
						}
					}
				}
				if cnt > 1 {
					add("C08", "applied-more-than-once", "apply %d reached the FSM of server %d %d times", e.d, id, cnt)
				}
			}
		}
		if e.b == 1 || e.b == 4 || e.b == 5 {
			if storedPayload[e.d] {
				add("C08", "definitely-failed-command-stored", "apply %d failed with code %d but was stored", e.d, e.b)
			}
		}
	}
	checkMatching(0)
	return out
}
