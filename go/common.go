package main

import (
	"bufio"
	"encoding/binary"
	"fmt"
	"os"
	"strconv"
	"strings"

	"github.com/hashicorp/raft"
)

// ---------- PRNG: every random choice derives from one splitmix64 state ----------
type rng struct{ s uint64 }

func (r *rng) next() uint64 {
	r.s += 0x9e3779b97f4a7c15
	z := r.s
	z = (z ^ (z >> 30)) * 0xbf58476d1ce4e5b9
	z = (z ^ (z >> 27)) * 0x94d049bb133111eb
	return z ^ (z >> 31)
}
func (r *rng) intn(n int) int           { return int(r.next() % uint64(n)) }
func (r *rng) chance(num, den int) bool { return r.intn(den) < num }

// ---------- case output ----------
// line:  <tag> <comp> <input ints> | <observed ints>
type caseWriter struct {
	w     *bufio.Writer
	f     *os.File
	n     int
	seq   int
	stats map[string]int
}

func newCaseWriter(path string) *caseWriter {
	f, err := os.Create(path)
	if err != nil {
		panic(err)
	}
	return &caseWriter{w: bufio.NewWriterSize(f, 1<<20), f: f, stats: map[string]int{}}
}

// monitor line: a property predicate failed on the implementation's observed behaviour
func (c *caseWriter) monitor(prop, tag, sig string, format string, args ...interface{}) {
	fmt.Fprintf(c.w, "#MONITOR %s %s %s %s\n", prop, tag, sig, fmt.Sprintf(format, args...))
}

func (c *caseWriter) emit(tag string, comp int, in []uint64, obs []uint64, nontrivial bool) {
	var sb strings.Builder
	sb.WriteString(tag)
	sb.WriteByte(' ')
	sb.WriteString(strconv.Itoa(comp))
	for _, x := range in {
		sb.WriteByte(' ')
		sb.WriteString(strconv.FormatUint(x, 10))
	}
	sb.WriteString(" |")
	for _, x := range obs {
		sb.WriteByte(' ')
		sb.WriteString(strconv.FormatUint(x, 10))
	}
	if nontrivial {
		sb.WriteString(" | nt")
	} else {
		sb.WriteString(" | -")
	}
	sb.WriteByte('\n')
	c.w.WriteString(sb.String())
	c.n++
}

// unique tag within this run
func (c *caseWriter) tag(prefix string) string {
	c.seq++
	return prefix + strconv.Itoa(c.seq) + "_"
}

// free-form line for the python side (monitor results, statistics)
func (c *caseWriter) note(kind string, format string, args ...interface{}) {
	fmt.Fprintf(c.w, "#%s %s\n", kind, fmt.Sprintf(format, args...))
}
func (c *caseWriter) stat(key string, delta int) { c.stats[key] += delta }
func (c *caseWriter) close() {
	for k, v := range c.stats {
		fmt.Fprintf(c.w, "#STAT %s %d\n", k, v)
	}
	c.w.Flush()
	c.f.Close()
}

// ---------- entries ----------
// payload id <-> Data bytes: id 0 is nil Data, otherwise 8 bytes big endian.
func dataOf(id uint64) []byte {
	if id == 0 {
		return nil
	}
	b := make([]byte, 8)
	binary.BigEndian.PutUint64(b, id)
	return b
}
func idOf(b []byte) uint64 {
	if len(b) == 0 {
		return 0
	}
	if len(b) == 8 {
		return binary.BigEndian.Uint64(b)
	}
	// configuration entries and other raw payloads: a stable hash, never 0
	var h uint64 = 1469598103934665603
	for _, c := range b {
		h ^= uint64(c)
		h *= 1099511628211
	}
	return (h >> 4) | 1<<40
}

func mkLog(idx, term uint64, ty uint64, id uint64) *raft.Log {
	return &raft.Log{Index: idx, Term: term, Type: raft.LogType(ty), Data: dataOf(id)}
}
func encLog(l *raft.Log) []uint64 {
	return []uint64{l.Index, l.Term, uint64(l.Type), idOf(l.Data)}
}
