package main

// Component 15 (FileSnapshotStore), parent side, part 3: script generation, the drivers runC15 and
// c15exec, and the expected-program oracle (self-check only; the formal model is the authority).
//
// case lines
//   15   in = retain ops...                      obs = FS ops per script op, each followed by 0 r
//   1502 in = k j code retain ops...             obs = L (sid ok n b..){L} D
//   1501 in = retain ndirs (sid tmp term index metaKind stateKind n b..){ndirs}   obs as 1502

import (
	"fmt"
	"os"
	"path/filepath"
	"runtime"
	"sort"
	"strconv"
	"sync"
	"time"
)

// ---------- script generation ----------

func c15genBytes(r *rng, n int) []byte {
	b := make([]byte, n)
	mode := r.intn(6)
	for i := range b {
		switch mode {
		case 0:
			b[i] = byte(i + 1)
		case 1:
			b[i] = 0
		case 2:
			b[i] = 0xFF
		default:
			b[i] = byte(r.intn(256))
		}
	}
	return b
}

func c15genSize(r *rng) int {
	x := r.intn(100)
	switch {
	case x < 25:
		return 0
	case x < 65:
		return 1 + r.intn(8)
	case x < 90:
		return 9 + r.intn(32)
	default:
		return 41 + r.intn(260)
	}
}

func c15genScript(r *rng) *c15script {
	s := &c15script{retain: 1 + r.intn(3)}
	nsnap := 1 + r.intn(5)
	maxOpen := 1
	if x := r.intn(100); x >= 92 {
		maxOpen = 3
	} else if x >= 50 {
		maxOpen = 2
	}
	mode := r.intn(5)
	type plan struct {
		chunks [][]byte
		end    int
	}
	plans := map[int]*plan{}
	var open []int
	created := 0
	for created < nsnap || len(open) > 0 {
		if created < nsnap && len(open) < maxOpen && (len(open) == 0 || r.chance(1, 2)) {
			created++
			var term, index uint64
			switch mode {
			case 0:
				term, index = 1, uint64(created)
			case 1:
				term, index = 2, 2
			case 2:
				term, index = uint64(1+(5-created)/3), uint64(6-created)
			default:
				term, index = uint64(1+r.intn(3)), uint64(1+r.intn(3))
			}
			s.ops = append(s.ops, c15sop{kind: 1, sid: created, term: term, index: index})
			pl := &plan{}
			size := c15genSize(r)
			data := c15genBytes(r, size)
			if size == 0 {
				if r.chance(1, 3) {
					pl.chunks = append(pl.chunks, []byte{})
				}
			} else {
				nch := 1 + r.intn(3)
				for c := 0; c < nch; c++ {
					cut := len(data)
					if c < nch-1 {
						cut = r.intn(len(data) + 1)
					}
					pl.chunks = append(pl.chunks, data[:cut])
					data = data[cut:]
				}
			}
			switch x := r.intn(100); {
			case x < 70:
				pl.end = 3
			case x < 85:
				pl.end = 4
			}
			plans[created] = pl
			open = append(open, created)
			continue
		}
		i := r.intn(len(open))
		sid := open[i]
		pl := plans[sid]
		if len(pl.chunks) > 0 {
			s.ops = append(s.ops, c15sop{kind: 2, sid: sid, data: pl.chunks[0]})
			pl.chunks = pl.chunks[1:]
			continue
		}
		if pl.end != 0 {
			s.ops = append(s.ops, c15sop{kind: pl.end, sid: sid})
		}
		open = append(open[:i:i], open[i+1:]...)
	}
	return s
}

// hand-written scripts: the basic shapes, always present
func c15directed() [][]uint64 {
	big := []uint64{1, 1, 1, 1, 1, 2, 1, 300}
	for i := 0; i < 300; i++ {
		big = append(big, uint64((i*7+3)%256))
	}
	big = append(big, 3, 1)
	return [][]uint64{
		{1, 1, 1, 1, 1, 3, 1},                      // empty snapshot, closed
		{1, 1, 1, 1, 1, 2, 1, 3, 65, 66, 67, 3, 1}, // 3 bytes, closed
		{2, 1, 1, 2, 5, 2, 1, 2, 9, 8, 4, 1},       // written, cancelled
		{1, 1, 1, 1, 1},                            // left open
		{1, 1, 1, 1, 1, 4, 1},                      // empty, cancelled
		{1, 1, 1, 1, 1, 2, 1, 1, 7, 3, 1, 1, 2, 1, 2, 2, 2, 1, 8, 3, 2},          // retain 1, increasing: reap of the older
		{1, 1, 1, 2, 2, 2, 1, 1, 7, 3, 1, 1, 2, 1, 1, 2, 2, 1, 8, 3, 2},          // retain 1, decreasing: the new one reaps itself
		{1, 1, 1, 2, 2, 3, 1, 1, 2, 2, 2, 2, 2, 1, 5, 3, 2},                      // retain 1, equal (term,index)
		{2, 1, 1, 1, 1, 3, 1, 1, 2, 1, 2, 3, 2, 1, 3, 1, 3, 2, 3, 2, 1, 2, 3, 3}, // retain 2, three increasing
		{1, 1, 1, 1, 1, 1, 2, 1, 2, 2, 1, 1, 10, 2, 2, 1, 20, 3, 2, 3, 1},        // two open, closed in reverse order
		{2, 1, 1, 1, 1, 1, 2, 1, 1, 3, 1, 4, 2},                                  // two open, one closed, one cancelled
		{3, 1, 1, 1, 1, 2, 1, 1, 1, 3, 1, 1, 2, 1, 2, 2, 2, 1, 2, 3, 2, 1, 3, 1, 3, 2, 3, 1, 3, 3, 3, 1, 4, 1, 4, 2, 4, 1, 4, 3, 4, 1, 5, 1, 5, 2, 5, 1, 5, 3, 5}, // retain 3, five increasing
		{1, 1, 1, 1, 1, 2, 1, 0, 3, 1},                                  // zero-length write
		{1, 1, 1, 3, 3, 2, 1, 2, 1, 2, 2, 1, 0, 2, 1, 3, 3, 4, 5, 3, 1}, // several writes
		{1, 1, 1, 1, 1, 2, 1, 1, 9, 3, 1, 1, 2, 1, 2, 2, 2, 1, 4},       // closed, then one left open with data
		{2, 1, 1, 1, 5, 3, 1, 1, 2, 1, 5, 4, 2, 1, 3, 1, 4, 3, 3},       // closed, cancelled, closed (older)
		big,
	}
}

// ---------- expected program of the unchanged code (self-check) ----------

func c15expectProgram(s *c15script) []uint64 {
	var out []uint64
	var done []c15key // renamed, not yet reaped
	info := map[int]*c15sinkInfo{}
	for _, o := range s.ops {
		u := uint64(o.sid)
		switch o.kind {
		case 1:
			info[o.sid] = &c15sinkInfo{term: o.term, idx: o.index}
			out = append(out, 1, u, 2, u, 3, u, 4, u, 5, u)
		case 2:
			info[o.sid].data = append(info[o.sid].data, o.data...)
		case 3, 4:
			if n := len(info[o.sid].data); n > 0 {
				out = append(out, 6, u, uint64(n))
			}
			out = append(out, 7, u)
			if o.kind == 4 {
				out = append(out, 10, u, 1, 11, u, 1, 12, u, 1)
				break
			}
			out = append(out, 2, u, 3, u, 4, u, 8, u, 9)
			done = append(done, c15key{info[o.sid].term, info[o.sid].idx, o.sid})
			sort.Slice(done, func(a, b int) bool { return done[b].less(done[a]) })
			for i := s.retain; i < len(done); i++ {
				v := uint64(done[i].sid)
				out = append(out, 10, v, 0, 11, v, 0, 12, v, 0)
			}
			if len(done) > s.retain {
				done = done[:s.retain]
			}
		}
		out = append(out, 0, 0)
	}
	return out
}

// ---------- running scripts ----------

type c15job struct {
	in   []uint64
	s    *c15script
	sub  uint64 // seed of the crash-point sampling of this script
	prog *c15prog
}

func c15progBad(p *c15prog) bool { return p == nil || len(p.anomalies) > 0 }

// c15runAll runs all jobs in parallel traced children (several scripts per child); scripts whose
// trace could not be projected are retried alone.
func c15runAll(root string, jobs []*c15job, perChild int) error {
	workers := runtime.NumCPU()
	if workers > 32 {
		workers = 32
	}
	type batch struct{ lo, hi int }
	var batches []batch
	for lo := 0; lo < len(jobs); lo += perChild {
		hi := lo + perChild
		if hi > len(jobs) {
			hi = len(jobs)
		}
		batches = append(batches, batch{lo, hi})
	}
	var mu sync.Mutex
	var firstErr error
	runOne := func(dir string, lo, hi int) {
		var ss []*c15script
		var ins [][]uint64
		for _, j := range jobs[lo:hi] {
			ss = append(ss, j.s)
			ins = append(ins, j.in)
		}
		_ = os.MkdirAll(dir, 0o755)
		progs, err := c15runBatch(dir, ss, ins)
		_ = os.RemoveAll(dir)
		if err != nil {
			mu.Lock()
			if firstErr == nil {
				firstErr = err
			}
			mu.Unlock()
			return
		}
		for i, p := range progs {
			jobs[lo+i].prog = p
		}
	}
	ch := make(chan int)
	var wg sync.WaitGroup
	for w := 0; w < workers; w++ {
		wg.Add(1)
		go func() {
			defer wg.Done()
			for b := range ch {
				runOne(filepath.Join(root, "b"+strconv.Itoa(b)), batches[b].lo, batches[b].hi)
			}
		}()
	}
	for b := range batches {
		ch <- b
	}
	close(ch)
	wg.Wait()
	if firstErr != nil {
		return firstErr
	}
	// retries, one script per child
	for attempt := 0; attempt < 3; attempt++ {
		var bad []int
		for i, j := range jobs {
			if c15progBad(j.prog) {
				bad = append(bad, i)
			}
		}
		if len(bad) == 0 {
			break
		}
		ch := make(chan int)
		var wg sync.WaitGroup
		for w := 0; w < workers; w++ {
			wg.Add(1)
			go func() {
				defer wg.Done()
				for i := range ch {
					runOne(filepath.Join(root, fmt.Sprintf("r%d-%d", attempt, i)), i, i+1)
				}
			}()
		}
		for _, i := range bad {
			ch <- i
		}
		close(ch)
		wg.Wait()
		if firstErr != nil {
			return firstErr
		}
	}
	return nil
}

// ---------- crash cases of one script ----------

type c15crash struct{ k, j, code int }

func c15crashPoints(p *c15prog, thorough bool, r *rng) []c15crash {
	total := len(p.ops)
	var out []c15crash
	for k := 0; k <= total; k++ {
		ls := c15lastSync(p, k)
		if thorough && total <= 40 {
			for j := ls; j <= k; j++ {
				for code := 0; code < 5; code++ {
					out = append(out, c15crash{k, j, code})
				}
			}
			continue
		}
		js := []int{ls}
		if k-ls >= 2 {
			js = append(js, ls+1+r.intn(k-ls-1))
		}
		if k > ls {
			js = append(js, k)
		}
		for _, j := range js {
			if thorough {
				for code := 0; code < 5; code++ {
					out = append(out, c15crash{k, j, code})
				}
			} else {
				out = append(out, c15crash{k, j, r.intn(5)})
			}
		}
	}
	return out
}

type c15result struct {
	in     []uint64
	obs    []uint64
	nt     bool
	mons   []c15mon
	listed int
	failed int // listed but not openable
	oracle bool
	code   int
	jltk   bool
	// the image with the real (uncanonicalised) unlink order was checked too
	realOrder bool
}

func c15evalCrash(p *c15prog, sinks map[int]*c15sinkInfo, c c15crash, dir string) *c15result {
	res := &c15result{code: c.code, jltk: c.j < c.k, nt: c.k > 0}
	res.in = append([]uint64{uint64(c.k), uint64(c.j), uint64(c.code)}, p.in...)
	total := len(p.ops)
	if c.k < 0 || c.k > total || c.j > c.k || c.j < c15lastSync(p, minInt(c.k, total)) || c.code < 0 || c.code > 4 {
		res.mons = append(res.mons, c15mon{"crash-point-out-of-range", fmt.Sprintf("k=%d j=%d code=%d but the observed program has %d FS ops and lastsync(k)=%d", c.k, c.j, c.code, total, c15lastSync(p, minInt(maxInt(c.k, 0), total)))})
		return res
	}
	byName := map[string]int{}
	for sid, n := range p.names {
		byName[n] = sid
	}
	sidOf := func(id string) int { return byName[id] }
	t := c15crashTree(p, c.k, c.j, c.code)
	_ = os.RemoveAll(dir)
	seen := c15observe(dir, t, p.script.retain, sidOf)
	_ = os.RemoveAll(dir)
	res.obs = seen.obs()
	res.listed = len(seen.listed)
	for _, l := range seen.listed {
		if !l.ok {
			res.failed++
		}
	}
	res.mons = c15monCrash(p, sinks, c.k, seen)
	res.oracle = c15eqInts(res.obs, c15expectObs(t, p.script.retain, sidOf))
	// The case line uses the canonical unlink order (meta.json before state.bin).  When the surviving
	// structure ends between the two unlinks of a pair that was really issued state.bin first, also
	// look at the tree that the real order leaves behind (monitors only, no case line).
	if p.swapped[c.j] {
		q := *p
		q.ops = append([]c15fsop(nil), p.ops...)
		q.ops[c.j-1], q.ops[c.j] = q.ops[c.j], q.ops[c.j-1]
		seen2 := c15observe(dir, c15crashTree(&q, c.k, c.j, c.code), p.script.retain, sidOf)
		_ = os.RemoveAll(dir)
		res.realOrder = true
		for _, m := range c15monCrash(p, sinks, c.k, seen2) {
			res.mons = append(res.mons, c15mon{m.sig + "-real-unlink-order", m.text + " (image built with the unlink order really issued: state.bin before meta.json)"})
		}
	}
	return res
}

func minInt(a, b int) int {
	if a < b {
		return a
	}
	return b
}
func maxInt(a, b int) int {
	if a > b {
		return a
	}
	return b
}

func c15statProgram(cw *caseWriter, p *c15prog) {
	cw.stat("c15_scripts", 1)
	cw.stat("c15_script_retain_"+itoa(p.script.retain), 1)
	nsink, open, maxOpen := 0, 0, 0
	for _, o := range p.script.ops {
		switch o.kind {
		case 1:
			cw.stat("c15_sop_create", 1)
			nsink++
			open++
			if open > maxOpen {
				maxOpen = open
			}
		case 2:
			cw.stat("c15_sop_write", 1)
			cw.stat("c15_sop_write_bytes", len(o.data))
		case 3:
			cw.stat("c15_sop_close", 1)
			open--
		case 4:
			cw.stat("c15_sop_cancel", 1)
			open--
		}
	}
	cw.stat("c15_sinks_left_open", open)
	cw.stat("c15_script_sinks_"+itoa(nsink), 1)
	cw.stat("c15_script_max_open_"+itoa(maxOpen), 1)
	for _, r := range p.res {
		if r != 0 {
			cw.stat("c15_sop_returned_error", 1)
		}
	}
	for _, o := range p.ops {
		cw.stat("c15_fsop_kind_"+itoa(o.kind), 1)
	}
	cw.stat("c15_fsops", len(p.ops))
	if len(p.ops) <= 40 {
		cw.stat("c15_script_fsops_le40", 1)
	} else {
		cw.stat("c15_script_fsops_gt40", 1)
	}
	cw.stat("c15_removeall_unlink_state_first", p.stateFirst)
	cw.stat("c15_removeall_unlink_meta_first", p.metaFirst)
	cw.stat("c15_other_successful_calls_on_store", len(p.extra))
	if c15eqInts(p.obs, c15expectProgram(p.script)) {
		cw.stat("c15_program_as_expected", 1)
	} else {
		cw.stat("c15_program_differs_from_expected", 1)
	}
}

func c15nontrivialProgram(p *c15prog) bool {
	for i, o := range p.script.ops {
		if o.kind == 3 && i < len(p.res) && p.res[i] == 0 {
			return true
		}
	}
	return false
}

func c15emitResult(cw *caseWriter, comp int, res *c15result) {
	tag := cw.tag("x")
	if res.obs != nil {
		cw.emit(tag, comp, res.in, res.obs, res.nt)
	}
	for _, m := range res.mons {
		cw.monitor("C15", tag, m.sig, "%s", m.text)
	}
	pre := "c15_image_"
	if comp == 1501 {
		pre = "c15_x_"
	}
	cw.stat(pre+"cases", 1)
	cw.stat(pre+"listed_"+itoa(res.listed), 1)
	cw.stat(pre+"listed_but_unopenable", res.failed)
	if comp == 1502 {
		cw.stat(pre+"code_"+itoa(res.code), 1)
		if res.jltk {
			cw.stat(pre+"j_lt_k", 1)
		}
		if res.realOrder {
			cw.stat(pre+"also_checked_with_real_unlink_order", 1)
		}
	}
	if res.nt {
		cw.stat(pre+"nontrivial", 1)
	}
	if res.oracle {
		cw.stat(pre+"go_oracle_agrees", 1)
	} else if res.obs != nil {
		cw.stat(pre+"go_oracle_DISAGREES", 1)
		cw.note("NOTE", "C15 %s: Go oracle expects a different observation than the real store gave", tag)
	}
	cw.stat("c15_monitor_lines", len(res.mons))
}

// ---------- component 1501 generation ----------

func c15evalExplicit(sh *c15metaShape, x *c15ximage, dir string) *c15result {
	res := &c15result{in: c15xencode(x)}
	if !sh.ok {
		res.mons = append(res.mons, c15mon{"meta-shape-not-reproduced", sh.why})
		return res
	}
	t := c15xtree(sh, x)
	_ = os.RemoveAll(dir)
	seen := c15observe(dir, t, x.retain, c15xsid)
	_ = os.RemoveAll(dir)
	res.obs = seen.obs()
	res.listed = len(seen.listed)
	res.nt = res.listed > 0
	for _, l := range seen.listed {
		if !l.ok {
			res.failed++
		}
	}
	res.mons = c15monExplicit(x, seen)
	res.oracle = c15eqInts(res.obs, c15expectObs(t, x.retain, c15xsid))
	return res
}

// the nine directory shapes used by the tables: tmp, metaKind, stateKind
var c15xshapes = [][3]int{
	{0, 1, 1}, // good
	{1, 1, 1}, // good but .tmp
	{0, 0, 1}, // no meta
	{0, 2, 1}, // garbage meta
	{0, 3, 1}, // unsupported version
	{0, 4, 1}, // CRC of other bytes
	{0, 5, 1}, // empty meta
	{0, 1, 0}, // no state
	{0, 1, 2}, // truncated state
}

func c15genExplicit(r *rng, thorough bool) []*c15ximage {
	var out []*c15ximage
	payload := func(n int) []byte { return c15genBytes(r, n) }
	// one directory: everything
	for tmp := 0; tmp <= 1; tmp++ {
		for mk := 0; mk <= 5; mk++ {
			for sk := 0; sk <= 2; sk++ {
				for _, n := range []int{0, 1, 2, 5} {
					if sk == 2 && n < 2 {
						continue
					}
					for _, ti := range [][2]uint64{{1, 1}, {2, 1}} {
						out = append(out, &c15ximage{retain: 1 + (n+mk)%2, dirs: []c15xdir{{sid: 1, tmp: tmp, term: ti[0], idx: ti[1], metaKind: mk, stateKind: sk, data: payload(n)}}})
					}
				}
			}
		}
	}
	// two directories: all pairs of shapes, (term,index) from {1,2}
	tis := [][4]uint64{{1, 1, 1, 1}, {1, 1, 1, 2}, {1, 2, 1, 1}, {1, 1, 2, 1}, {2, 1, 1, 2}, {1, 2, 2, 1}}
	if thorough {
		tis = nil
		for a := uint64(1); a <= 2; a++ {
			for b := uint64(1); b <= 2; b++ {
				for c := uint64(1); c <= 2; c++ {
					for d := uint64(1); d <= 2; d++ {
						tis = append(tis, [4]uint64{a, b, c, d})
					}
				}
			}
		}
	}
	for _, s1 := range c15xshapes {
		for _, s2 := range c15xshapes {
			for _, ti := range tis {
				for retain := 1; retain <= 2; retain++ {
					out = append(out, &c15ximage{retain: retain, dirs: []c15xdir{
						{sid: 1, tmp: s1[0], term: ti[0], idx: ti[1], metaKind: s1[1], stateKind: s1[2], data: payload(2 + r.intn(3))},
						{sid: 2, tmp: s2[0], term: ti[2], idx: ti[3], metaKind: s2[1], stateKind: s2[2], data: payload(2 + r.intn(3))},
					}})
				}
			}
		}
	}
	// three directories: five shapes cubed, sampled (term,index) and retain
	five := []int{0, 1, 3, 5, 7}
	rep := 2
	if thorough {
		rep = 8
	}
	for _, a := range five {
		for _, b := range five {
			for _, c := range five {
				for k := 0; k < rep; k++ {
					x := &c15ximage{retain: 1 + r.intn(3)}
					for i, sh := range []int{a, b, c} {
						s := c15xshapes[sh]
						x.dirs = append(x.dirs, c15xdir{sid: i + 1, tmp: s[0], term: uint64(1 + r.intn(2)), idx: uint64(1 + r.intn(2)), metaKind: s[1], stateKind: s[2], data: payload(2 + r.intn(2))})
					}
					out = append(out, x)
				}
			}
		}
	}
	// random ones, up to 6 directories, sids in arbitrary order
	nrand := 1500
	if thorough {
		nrand = 20000
	}
	for i := 0; i < nrand; i++ {
		nd := 1 + r.intn(6)
		x := &c15ximage{retain: 1 + r.intn(3)}
		perm := []int{1, 2, 3, 4, 5, 6}
		for a := len(perm) - 1; a > 0; a-- {
			b := r.intn(a + 1)
			perm[a], perm[b] = perm[b], perm[a]
		}
		for d := 0; d < nd; d++ {
			xd := c15xdir{sid: perm[d], term: uint64(1 + r.intn(3)), idx: uint64(1 + r.intn(3))}
			if r.chance(1, 5) {
				xd.tmp = 1
			}
			if r.chance(3, 5) {
				xd.metaKind, xd.stateKind = 1, 1
			} else {
				xd.metaKind, xd.stateKind = r.intn(6), r.intn(3)
			}
			n := r.intn(7)
			if r.chance(1, 20) {
				n = 20 + r.intn(100)
			}
			if xd.stateKind == 2 && n < 2 {
				n = 2 + r.intn(4)
			}
			xd.data = payload(n)
			x.dirs = append(x.dirs, xd)
		}
		out = append(out, x)
	}
	return out
}

// ---------- ordered parallel evaluation ----------

// c15parallel evaluates n items on all cores and hands the results to emit in index order.
func c15parallel(n int, eval func(i int, worker int) interface{}, emit func(i int, v interface{})) {
	workers := runtime.NumCPU()
	if workers > 32 {
		workers = 32
	}
	window := workers * 4
	results := make([]chan interface{}, n)
	for i := range results {
		results[i] = make(chan interface{}, 1)
	}
	tokens := make(chan struct{}, window)
	next := make(chan int)
	go func() {
		for i := 0; i < n; i++ {
			tokens <- struct{}{}
			next <- i
		}
		close(next)
	}()
	for w := 0; w < workers; w++ {
		go func(w int) {
			for i := range next {
				results[i] <- eval(i, w)
			}
		}(w)
	}
	for i := 0; i < n; i++ {
		v := <-results[i]
		emit(i, v)
		<-tokens
	}
}

// ---------- drivers ----------

func runC15(cw *caseWriter, tier string, seed uint64) {
	thorough := tier != "quick"
	r := &rng{s: seed*0x9e3779b97f4a7c15 + 15}
	root, err := os.MkdirTemp("", "c15-")
	if err != nil {
		panic(err)
	}
	defer os.RemoveAll(root)
	t0 := time.Now()

	// ---- scripts ----
	var jobs []*c15job
	for _, in := range c15directed() {
		s, err := c15parseScript(in)
		if err != nil {
			panic(fmt.Sprintf("c15: bad directed script %v: %v", in, err))
		}
		jobs = append(jobs, &c15job{in: in, s: s, sub: r.next()})
	}
	nrand := 280
	if thorough {
		nrand = 800
	}
	for i := 0; i < nrand; i++ {
		s := c15genScript(r)
		jobs = append(jobs, &c15job{in: c15encodeScript(s), s: s, sub: r.next()})
	}
	perChild := (len(jobs) + 2*runtime.NumCPU() - 1) / (2 * runtime.NumCPU())
	if perChild < 4 {
		perChild = 4
	}
	if err := c15runAll(root, jobs, perChild); err != nil {
		cw.monitor("C15", cw.tag("x"), "trace-run-failed", "%v", err)
		fmt.Fprintln(os.Stderr, "c15:", err)
		return
	}
	tTrace := time.Since(t0)

	// ---- component 15 lines and crash images ----
	type scriptOut struct {
		crashes []*c15result
	}
	imgRoot := filepath.Join(root, "img")
	_ = os.MkdirAll(imgRoot, 0o755)
	c15parallel(len(jobs), func(i int, w int) interface{} {
		j := jobs[i]
		so := &scriptOut{}
		if c15progBad(j.prog) {
			return so
		}
		sinks := c15sinks(j.prog)
		dir := filepath.Join(imgRoot, "w"+strconv.Itoa(w))
		for _, c := range c15crashPoints(j.prog, thorough, &rng{s: j.sub}) {
			so.crashes = append(so.crashes, c15evalCrash(j.prog, sinks, c, dir))
		}
		return so
	}, func(i int, v interface{}) {
		j := jobs[i]
		so := v.(*scriptOut)
		tag := cw.tag("x")
		if j.prog == nil || len(j.prog.endAt) != len(j.s.ops) {
			cw.monitor("C15", tag, "unprojectable-trace", "script %s: %v", c15fmtInts(j.in), func() interface{} {
				if j.prog == nil {
					return "no program"
				}
				return j.prog.anomalies
			}())
			cw.stat("c15_scripts_unprojectable", 1)
			return
		}
		cw.emit(tag, 15, j.in, j.prog.obs, c15nontrivialProgram(j.prog))
		if c15nontrivialProgram(j.prog) {
			cw.stat("c15_scripts_nontrivial", 1)
		}
		c15statProgram(cw, j.prog)
		if len(j.prog.anomalies) > 0 {
			for _, a := range j.prog.anomalies {
				cw.monitor("C15", tag, "unprojectable-trace", "%s", a)
			}
			cw.stat("c15_scripts_unprojectable", 1)
			return
		}
		for _, res := range so.crashes {
			c15emitResult(cw, 1502, res)
		}
	})
	tImg := time.Since(t0) - tTrace

	// ---- component 1501 ----
	sh := c15learnShape(root)
	if !sh.ok {
		cw.monitor("C15", cw.tag("x"), "meta-shape-not-reproduced", "%s", sh.why)
	} else {
		xs := c15genExplicit(r, thorough)
		c15parallel(len(xs), func(i int, w int) interface{} {
			return c15evalExplicit(sh, xs[i], filepath.Join(imgRoot, "x"+strconv.Itoa(w)))
		}, func(i int, v interface{}) {
			x := xs[i]
			cw.stat("c15_x_dirs_"+itoa(len(x.dirs)), 1)
			cw.stat("c15_x_retain_"+itoa(x.retain), 1)
			for _, d := range x.dirs {
				cw.stat("c15_x_metaKind_"+itoa(d.metaKind), 1)
				cw.stat("c15_x_stateKind_"+itoa(d.stateKind), 1)
				cw.stat("c15_x_tmp_"+itoa(d.tmp), 1)
			}
			c15emitResult(cw, 1501, v.(*c15result))
		})
	}
	tX := time.Since(t0) - tTrace - tImg
	cw.note("NOTE", "C15 program alphabet: 1 mkdir.tmp 2 create-meta 3 write-meta 4 fsync-meta 5 create-state 6 write-state(n) 7 fsync-state 8 rename 9 fsync-dir 10/11/12 unlink-meta/unlink-state/rmdir (t=1 while .tmp); unlink pairs inside RemoveAll are emitted meta-first, the order really seen is in the c15_removeall_unlink_* counters")
	// timings go to stderr so that the case file stays a function of (tier, seed)
	fmt.Fprintf(os.Stderr, "c15: %d scripts traced in %v, crash images %v, explicit images %v\n", len(jobs), tTrace.Round(time.Millisecond), tImg.Round(time.Millisecond), tX.Round(time.Millisecond))
	runC15fail(cw, tier, seed)
	runC15big(cw, tier, seed)
}

// replay support: the program of the last script is kept, so that replaying the many 1502 cases of
// one script runs the traced child once.
var (
	c15cacheKey   string
	c15cacheProg  *c15prog
	c15shapeOnce  sync.Once
	c15shapeValue *c15metaShape
)

func c15progFor(script []uint64) (*c15prog, error) {
	key := c15fmtInts(script)
	if key == c15cacheKey && c15cacheProg != nil {
		return c15cacheProg, nil
	}
	s, err := c15parseScript(script)
	if err != nil {
		return nil, err
	}
	root, err := os.MkdirTemp("", "c15-")
	if err != nil {
		return nil, err
	}
	defer os.RemoveAll(root)
	jobs := []*c15job{{in: script, s: s}}
	if err := c15runAll(root, jobs, 1); err != nil {
		return nil, err
	}
	if jobs[0].prog == nil {
		return nil, fmt.Errorf("no program observed")
	}
	if !c15progBad(jobs[0].prog) {
		c15cacheKey, c15cacheProg = key, jobs[0].prog
	}
	return jobs[0].prog, nil
}

// c15exec re-executes one case input of component 15, 1501 or 1502.
func c15exec(cw *caseWriter, tag string, comp int, in []uint64) {
	emit := func(res *c15result) {
		if res.obs != nil {
			cw.emit(tag, comp, res.in, res.obs, res.nt)
		}
		for _, m := range res.mons {
			cw.monitor("C15", tag, m.sig, "%s", m.text)
		}
	}
	switch comp {
	case 15, 1502:
		script := in
		if comp == 1502 {
			if len(in) < 4 {
				cw.monitor("C15", tag, "malformed-input", "component 1502 needs k j code retain ...")
				return
			}
			script = in[3:]
		}
		if _, err := c15parseScript(script); err != nil {
			cw.monitor("C15", tag, "malformed-input", "%v", err)
			return
		}
		p, err := c15progFor(script)
		if err != nil {
			cw.monitor("C15", tag, "trace-run-failed", "%v", err)
			return
		}
		if len(p.endAt) != len(p.script.ops) || len(p.anomalies) > 0 {
			for _, a := range p.anomalies {
				cw.monitor("C15", tag, "unprojectable-trace", "%s", a)
			}
			if len(p.endAt) != len(p.script.ops) {
				return
			}
		}
		if comp == 15 {
			cw.emit(tag, 15, in, p.obs, c15nontrivialProgram(p))
			return
		}
		dir, err := os.MkdirTemp("", "c15-")
		if err != nil {
			cw.monitor("C15", tag, "trace-run-failed", "%v", err)
			return
		}
		defer os.RemoveAll(dir)
		emit(c15evalCrash(p, c15sinks(p), c15crash{int(in[0]), int(in[1]), int(in[2])}, filepath.Join(dir, "img")))
	case 1501:
		x, err := c15xparse(in)
		if err != nil {
			cw.monitor("C15", tag, "malformed-input", "%v", err)
			return
		}
		dir, err := os.MkdirTemp("", "c15-")
		if err != nil {
			cw.monitor("C15", tag, "trace-run-failed", "%v", err)
			return
		}
		defer os.RemoveAll(dir)
		c15shapeOnce.Do(func() { c15shapeValue = c15learnShape(dir) })
		emit(c15evalExplicit(c15shapeValue, x, filepath.Join(dir, "img")))
	default:
		cw.monitor("C15", tag, "malformed-input", "c15exec: unknown component %d", comp)
	}
}
