package main

import (
	"bufio"
	"bytes"
	"errors"
	"fmt"
	"io"
	"os"
	"os/exec"
	"strconv"
	"strings"
	"sync"
	"time"

	"github.com/hashicorp/raft"
)

// C14 / C01 (candidate loop): one real server with its real main loop, peers scripted by the
// harness: every RequestPreVote / RequestVote call blocks until the script answers it.
// model: Model/Candidate.v run_candidate (component 14)

type pendRPC struct {
	kind   int // 1 vote, 2 prevote
	term   uint64
	target uint64
	reply  chan pendAns
}
type pendAns struct {
	err        bool
	unexpected bool
	term       uint64
	granted    bool
}

type scriptTrans struct {
	id       uint64
	consumer chan raft.RPC
	mu       sync.Mutex
	pending  []*pendRPC
}

func (t *scriptTrans) Consumer() <-chan raft.RPC                                { return t.consumer }
func (t *scriptTrans) LocalAddr() raft.ServerAddress                            { return addrStr(t.id) }
func (t *scriptTrans) EncodePeer(id raft.ServerID, a raft.ServerAddress) []byte { return []byte(a) }
func (t *scriptTrans) DecodePeer(b []byte) raft.ServerAddress                   { return raft.ServerAddress(b) }
func (t *scriptTrans) SetHeartbeatHandler(cb func(rpc raft.RPC))                {}
func (t *scriptTrans) AppendEntriesPipeline(id raft.ServerID, target raft.ServerAddress) (raft.AppendPipeline, error) {
	return nil, raft.ErrPipelineReplicationNotSupported
}
func (t *scriptTrans) AppendEntries(id raft.ServerID, target raft.ServerAddress, args *raft.AppendEntriesRequest, resp *raft.AppendEntriesResponse) error {
	return errLink
}
func (t *scriptTrans) InstallSnapshot(id raft.ServerID, target raft.ServerAddress, args *raft.InstallSnapshotRequest, resp *raft.InstallSnapshotResponse, data io.Reader) error {
	return errLink
}
func (t *scriptTrans) TimeoutNow(id raft.ServerID, target raft.ServerAddress, args *raft.TimeoutNowRequest, resp *raft.TimeoutNowResponse) error {
	return errLink
}
func (t *scriptTrans) wait(kind int, term uint64, target uint64) pendAns {
	p := &pendRPC{kind: kind, term: term, target: target, reply: make(chan pendAns, 1)}
	t.mu.Lock()
	t.pending = append(t.pending, p)
	t.mu.Unlock()
	select {
	case a := <-p.reply:
		return a
	case <-time.After(10 * time.Second):
		return pendAns{err: true}
	}
}
func (t *scriptTrans) RequestVote(id raft.ServerID, target raft.ServerAddress, args *raft.RequestVoteRequest, resp *raft.RequestVoteResponse) error {
	a := t.wait(1, args.Term, addrNum(target))
	if a.err {
		return errLink
	}
	resp.Term, resp.Granted = a.term, a.granted
	return nil
}
func (t *scriptTrans) RequestPreVote(id raft.ServerID, target raft.ServerAddress, args *raft.RequestPreVoteRequest, resp *raft.RequestPreVoteResponse) error {
	a := t.wait(2, args.Term, addrNum(target))
	if a.unexpected {
		return errors.New("unexpected command")
	}
	if a.err {
		return errLink
	}
	resp.Term, resp.Granted = a.term, a.granted
	return nil
}

func (t *scriptTrans) count(kind int) int {
	t.mu.Lock()
	defer t.mu.Unlock()
	n := 0
	for _, p := range t.pending {
		if p.kind == kind {
			n++
		}
	}
	return n
}
func (t *scriptTrans) pop(kind int) *pendRPC {
	t.mu.Lock()
	defer t.mu.Unlock()
	for i, p := range t.pending {
		if p.kind == kind {
			t.pending = append(t.pending[:i], t.pending[i+1:]...)
			return p
		}
	}
	return nil
}
func (t *scriptTrans) takeAll() []*pendRPC {
	t.mu.Lock()
	defer t.mu.Unlock()
	ps := t.pending
	t.pending = nil
	return ps
}

type c14case struct {
	self                       uint64
	prevote                    bool
	transfer                   bool
	cfg                        []srv
	term, vterm, vcand, li, lt uint64
	// component 1401: the stable store fails on chosen writes of persistVote; every stage (entering, each event) carries
	// its failure bits, consumed by the stage's durable operations in order (never the first one: a failing
	// setCurrentTerm panics the process)
	failMode bool
}

// failure bits of one stage in fail mode: none, LastVoteCand fails, or LastVoteTerm fails (the term write before them succeeds)
func c14pickBits(r *rng) []uint64 {
	switch x := r.intn(6); {
	case x < 3:
		return []uint64{0, 1}
	case x < 4:
		return []uint64{0, 0, 1}
	}
	return nil
}

func (cs *c14case) header() []uint64 {
	in := []uint64{cs.self, b2u(cs.prevote), b2u(cs.transfer)}
	in = append(in, encSrvs(cs.cfg)...)
	return append(in, cs.term, cs.vterm, cs.vcand, cs.li, cs.lt)
}

// run one adaptive candidate session; returns the events performed and the observations
func c14run(cs *c14case, r *rng, steps int, scripted []uint64) (events []uint64, obs []uint64, mons []string) {
	logs, stable, snaps := NewMapLogStore(nil), NewMapStable(), NewSnapStore()
	logs.m[1] = &raft.Log{Index: 1, Term: 1, Type: raft.LogConfiguration, Data: raft.EncodeConfiguration(mkConfig(cs.cfg))}
	for i := uint64(2); i <= cs.li; i++ {
		logs.m[i] = mkLog(i, cs.lt, 0, 100+i)
	}
	stable.kvInt["CurrentTerm"] = cs.term
	if cs.vterm != 0 {
		stable.kvInt["LastVoteTerm"] = cs.vterm
	}
	if cs.vcand != 0 {
		stable.kv["LastVoteCand"] = []byte(addrStr(cs.vcand - 1))
	}
	orc := &oracle{}
	if cs.failMode {
		stable.orc = orc
	}
	setBits := func(bits []uint64) {
		orc.mu.Lock()
		orc.bits = nil
		for _, b := range bits {
			orc.bits = append(orc.bits, b != 0)
		}
		orc.mu.Unlock()
	}
	// fail mode: take the bits of the next stage from the script, or choose them; they are appended to the events
	stageBits := func() []uint64 {
		if !cs.failMode {
			return nil
		}
		var bits []uint64
		if scripted != nil {
			if len(scripted) > 0 {
				n := int(scripted[0])
				if n > len(scripted)-1 {
					n = len(scripted) - 1
				}
				bits, scripted = scripted[1:1+n], scripted[1+n:]
			}
		} else {
			bits = c14pickBits(r)
		}
		setBits(bits)
		events = append(events, uint64(len(bits)))
		events = append(events, bits...)
		return bits
	}
	tr := &scriptTrans{id: cs.self, consumer: make(chan raft.RPC, 16)}
	cf := baseConfig(nodeOpts{id: cs.self, trailing: 100, maxAppend: 4, prevoteOff: !cs.prevote})
	var mu sync.Mutex
	var trace []uint64
	stable.onOp = func(op stableOp) {
		mu.Lock()
		defer mu.Unlock()
		switch op.key {
		case "CurrentTerm":
			trace = append(trace, 1, op.u64, b2u(!op.failed))
		case "LastVoteTerm":
			trace = append(trace, 2, op.u64, b2u(!op.failed))
		case "LastVoteCand":
			trace = append(trace, 3, addrNum(raft.ServerAddress(op.val)), b2u(!op.failed))
		}
	}
	rr, err := raft.NewRaft(cf, &RecFSM{}, logs, stable, snaps, tr)
	if err != nil {
		panic(err)
	}
	defer func() {
		for _, p := range tr.takeAll() {
			p.reply <- pendAns{err: true}
		}
		rr.Shutdown().Error()
	}()
	mu.Lock()
	trace = nil // drop NewRaft's term write-back
	mu.Unlock()
	peers := 0
	for _, s := range cs.cfg {
		if s.suff == 0 && s.id != cs.self {
			peers++
		}
	}
	// wait until the loop is quiet: the same observable state three times in a row, 600us apart
	settle := func() {
		var prev [8]uint64
		same := 0
		deadline := time.Now().Add(8 * time.Second)
		for i := 0; same < 3 && (i < 120 || (evAlone && time.Now().Before(deadline))); i++ {
			time.Sleep(300 * time.Microsecond)
			if evAlone && !evQuiet() {
				// (child process, one case at a time) some goroutine can still run: not settled, whatever the state looks like
				same = 0
				continue
			}
			st := rr.VerifNodeState()
			t, vt, vc := stable.Triple()
			mu.Lock()
			n := len(trace)
			mu.Unlock()
			cur := [8]uint64{uint64(st.Role), st.Term, t, vt, vc, uint64(n), uint64(tr.count(1)), uint64(tr.count(2))}
			if cur == prev {
				same++
			} else {
				same = 0
			}
			prev = cur
		}
	}
	termWarned := false
	observe := func() {
		st := rr.VerifNodeState()
		kind := uint64(0)
		switch st.Role {
		case raft.Follower:
			kind = 1
		case raft.Leader:
			kind = 2
		}
		t, vt, vc := stable.Triple()
		if st.Term != t && !termWarned {
			// persist-then-set is two steps of the main goroutine: look again after a pause before believing a difference
			time.Sleep(5 * time.Millisecond)
			st = rr.VerifNodeState()
			t, vt, vc = stable.Triple()
		}
		if st.Term != t && !termWarned {
			// the term a server acts in is always the one it has durably recorded (setCurrentTerm persists first):
			// otherwise a restart resumes in an older term than the one it voted and acknowledged entries in
			termWarned = true
			mons = append(mons, fmt.Sprintf("C10|term-in-memory-differs-from-the-durable-term|the server acts in term %d, its stable store records term %d: a restart would resume in term %d", st.Term, t, t))
			mons = append(mons, fmt.Sprintf("C06|term-in-memory-differs-from-the-durable-term|the server acts in term %d, its stable store records term %d: after a restart the term it reports would have decreased", st.Term, t))
		}
		_, has := stable.kv["LastVoteCand"]
		vcand := uint64(0)
		if has {
			vcand = vc + 1
		}
		leader := addrNum(st.LeaderAddr)
		obs = append(obs, kind, uint64(st.Role), st.Term, t, vt, vcand, leader, b2u(st.TransferFlag))
		mu.Lock()
		obs = append(obs, trace...)
		trace = nil
		mu.Unlock()
		obs = append(obs, 99)
	}
	// the property's own bookkeeping: pre-vote grants of this round that came from voters
	isVoter := map[uint64]bool{}
	nVoters := 0
	for _, sv := range cs.cfg {
		if sv.suff == 0 {
			isVoter[sv.id] = true
			nVoters++
		}
	}
	quorum := nVoters/2 + 1
	voterGrants := 0
	if isVoter[cs.self] {
		voterGrants = 1
	}
	termAtRound := cs.term
	voteTerm, voteGrants := uint64(0), 0
	checkElection := func() {
		// an election (term bump) of a pre-vote round must rest on a quorum of voters' pre-votes
		// (a term learned from an answer is not an election: then the server is a follower again and sent no vote request)
		if cs.prevote && !cs.transfer && rr.CurrentTerm() == termAtRound+1 && rr.State() != raft.Follower && voterGrants < quorum {
			mons = append(mons, fmt.Sprintf("term raised from %d to %d after pre-vote grants from only %d voters (quorum %d)", termAtRound, rr.CurrentTerm(), voterGrants, quorum))
		}
	}
	// enter
	bits0 := stageBits()
	if cs.transfer {
		ch := make(chan raft.RPCResponse, 1)
		tr.consumer <- raft.RPC{Command: &raft.TimeoutNowRequest{RPCHeader: header(0, 0)}, RespChan: ch}
		<-ch
	} else {
		rr.VerifFireHeartbeatTimeout()
	}
	waitFor(5*time.Second, func() bool {
		// (when persistVote is made to fail, electSelf returns before it has asked the peers listed after the server itself)
		return rr.State() != raft.Follower && (tr.count(1)+tr.count(2) >= peers || rr.State() == raft.Leader || (len(bits0) > 0 && rr.CurrentTerm() > cs.term))
	})
	settle()
	observe()
	next := func(k int) (ev []uint64) {
		if scripted != nil {
			if len(scripted) == 0 {
				return nil
			}
			if scripted[0] == 3 {
				ev, scripted = scripted[:1], scripted[1:]
			} else {
				ev, scripted = scripted[:3], scripted[3:]
			}
			return ev
		}
		if k >= steps || rr.State() != raft.Candidate {
			return nil
		}
		st := rr.VerifNodeState()
		var choices [][]uint64
		mkAns := func(kind uint64) []uint64 {
			t := st.Term
			if kind == 1 { // pre-vote requests carry term+1
				t = st.Term + 1
			}
			switch x := r.intn(10); {
			case x < 5:
				return []uint64{kind, t, 1}
			case x < 8:
				return []uint64{kind, t, 0}
			case x < 9:
				return []uint64{kind, t + 3, 0}
			default:
				return []uint64{kind, t - 1 + uint64(r.intn(2)), 0}
			}
		}
		if tr.count(2) > 0 {
			choices = append(choices, mkAns(1), mkAns(1))
		}
		if tr.count(1) > 0 {
			choices = append(choices, mkAns(2), mkAns(2))
		}
		if r.chance(1, 5) || len(choices) == 0 || (!isVoter[cs.self] && r.chance(1, 3)) {
			choices = append(choices, []uint64{3})
		}
		return choices[r.intn(len(choices))]
	}
	for k := 0; ; k++ {
		ev := next(k)
		if ev == nil {
			break
		}
		events = append(events, ev...)
		bits := stageBits()
		switch ev[0] {
		case 1, 2:
			kind := 2
			if ev[0] == 2 {
				kind = 1
			}
			p := tr.pop(kind)
			if p == nil {
				obs = append(obs, 98) // no such RPC pending: the implementation is in another phase
				continue
			}
			if kind == 2 && ev[2] != 0 && isVoter[p.target] && ev[1] <= termAtRound+1 {
				voterGrants++
			}
			before := rr.VerifNodeState()
			if kind == 1 {
				// a RequestVote: only voters are asked, only voters' grants of the current term count
				if !isVoter[p.target] {
					mons = append(mons, fmt.Sprintf("C01|requestvote-sent-to-non-voter|RequestVote of term %d was sent to server %d, which is not a voter of the latest configuration", before.Term, p.target))
				}
				if before.Term != voteTerm {
					voteTerm, voteGrants = before.Term, 0
					if isVoter[cs.self] {
						voteGrants = 1
					}
				}
				if ev[2] != 0 && isVoter[p.target] && ev[1] == before.Term {
					voteGrants++
				}
			}
			bt, bvt, bvc := stable.Triple()
			p.reply <- pendAns{term: ev[1], granted: ev[2] != 0}
			settle()
			// "nothing happened" is what a starved main loop looks like too: give it more time before believing it
			if st := rr.VerifNodeState(); st.Role == before.Role && st.Term == before.Term {
				if t, vt, vc := stable.Triple(); t == bt && vt == bvt && vc == bvc {
					time.Sleep(4 * time.Millisecond)
					settle()
				}
			}
			if kind == 1 && before.Role != raft.Leader && rr.State() == raft.Leader && voteGrants < quorum {
				mons = append(mons, fmt.Sprintf("C01|leader-without-vote-quorum-of-voters|server became leader of term %d with votes of %d voters (itself included), quorum is %d", rr.CurrentTerm(), voteGrants, quorum))
			}
			if kind == 2 {
				checkElection()
				if rr.CurrentTerm() > termAtRound {
					// the election started (legitimately or not): later rounds start from the new term
					termAtRound = rr.CurrentTerm()
					voterGrants = 0
					if isVoter[cs.self] {
						voterGrants = 1
					}
				}
			} else if rr.CurrentTerm() > termAtRound {
				termAtRound = rr.CurrentTerm()
			}
			observe()
		case 3:
			old := tr.takeAll()
			t0 := rr.CurrentTerm()
			rr.VerifSetElectionTimeout(15 * time.Millisecond)
			waitFor(5*time.Second, func() bool {
				if len(bits) > 0 && (rr.CurrentTerm() > t0 || rr.State() != raft.Candidate) {
					return true // a failing persistVote: fewer peers are asked
				}
				return tr.count(1)+tr.count(2) >= peers && (peers > 0 || rr.CurrentTerm() > t0 || rr.State() != raft.Candidate)
			})
			rr.VerifSetElectionTimeout(time.Hour)
			for _, p := range old {
				p.reply <- pendAns{err: true}
			}
			if rr.CurrentTerm() > t0+1 {
				// the short election timer fired more than once before it was set back to one hour (the process
				// was descheduled for longer than the timeout): the run has lost control of the server's timing
				// and ends before this event - it reports nothing about steps it did not control
				events = events[:len(events)-len(ev)]
				if cs.failMode {
					events = events[:len(events)-1-len(bits)]
				}
				settle()
				return
			}
			settle()
			checkElection()
			termAtRound = rr.CurrentTerm()
			voterGrants = 0
			if isVoter[cs.self] {
				voterGrants = 1
			}
			observe()
		}
	}
	return
}

func runC14cand(cw *caseWriter, tier string, r *rng) {
	cnt := 120
	if tier != "quick" {
		cnt = 1500
	}
	cfg3 := []srv{{0, 1, 1}, {0, 2, 2}, {0, 3, 3}}
	cfg5 := []srv{{0, 1, 1}, {0, 2, 2}, {0, 3, 3}, {0, 4, 4}, {0, 5, 5}}
	cfg3nv := []srv{{0, 1, 1}, {0, 2, 2}, {0, 3, 3}, {1, 4, 4}}
	cfg1 := []srv{{0, 1, 1}}
	cfgSelfNv := []srv{{1, 1, 1}, {0, 2, 2}, {0, 3, 3}}
	cfgs := [][]srv{cfg3, cfg5, cfg3nv, cfg1, cfgSelfNv}
	const workers = 8
	var jobs [workers]bytes.Buffer
	for c := 0; c < cnt; c++ {
		cs := &c14case{self: 1, prevote: r.chance(2, 3), term: 3, li: uint64(1 + r.intn(3)), lt: 2}
		ci := 0
		switch x := r.intn(20); {
		case x < 9:
			ci = 0
		case x < 12:
			ci = 1
		case x < 14:
			ci = 2
		case x < 16:
			ci = 3
		default:
			ci = 4 // the server is a non-voter: it campaigns only on TimeoutNow; after an election timeout its pre-vote round has no own vote
			cs.transfer = true
		}
		if r.chance(1, 4) {
			cs.transfer = true // leadership transfer: no pre-vote round; the flag is reset when the loop is left (also as leader)
		}
		if r.chance(1, 3) {
			cs.vterm, cs.vcand = 3, 3
		}
		fmt.Fprintf(&jobs[c%workers], "%s %d %d %d %d %d %d 0\n", cw.tag("k"), r.next(), ci, b2u(cs.prevote), cs.li, b2u(cs.transfer), cs.vterm)
	}
	// sessions with a failing stable store (component 1401): the server is not the first of its configuration, so electSelf has
	// asked somebody before its own persistVote fails and returns a nil vote channel: the answers that follow must be ignored
	fcnt := cnt / 2
	for c := 0; c < fcnt; c++ {
		ci := 5 + r.intn(3)
		pv := r.chance(1, 2)
		tf := r.chance(1, 5)
		vt := uint64(0)
		if r.chance(1, 3) {
			vt = 3
		}
		fmt.Fprintf(&jobs[c%workers], "%s %d %d %d %d %d %d 1\n", cw.tag("kf"), r.next(), ci, b2u(pv), 1+r.intn(3), b2u(tf), vt)
	}
	_ = cfgs
	// the sessions run in child processes, one at a time each: "settled" = every goroutine blocked (evQuiet)
	var mu sync.Mutex
	var wg sync.WaitGroup
	for wk := 0; wk < workers; wk++ {
		wg.Add(1)
		go func(wk int) {
			defer wg.Done()
			cmd := exec.Command(os.Args[0], "c14batch")
			cmd.Env = append(os.Environ(), "GOMAXPROCS=4")
			cmd.Stdin = &jobs[wk]
			cmd.Stderr = os.Stderr
			out, err := cmd.Output()
			mu.Lock()
			defer mu.Unlock()
			if err != nil {
				cw.stats["c14_child_errors"]++
			}
			for _, line := range strings.Split(string(out), "\n") {
				parts := strings.SplitN(line, "|", 4)
				if len(parts) != 4 {
					continue
				}
				tag := strings.TrimSpace(parts[0])
				in := c14ints(parts[1])
				obs := c14ints(parts[2])
				comp := 14
				if strings.HasPrefix(tag, "kf") {
					comp = 1401
				}
				cw.emit(tag, comp, in, obs, len(in) > 20)
				for _, m := range strings.Split(parts[3], "\x1f") {
					c14emitMon(cw, tag, m)
				}
			}
		}(wk)
	}
	wg.Wait()
	cw.stat("c14_candidate_sessions", cnt)
	cw.stat("c14_candidate_sessions_failing_store", fcnt)
}

// replay of a recorded session
func c14replay(cw *caseWriter, tag string, in []uint64) {
	cs := &c14case{self: in[0], prevote: in[1] != 0, transfer: in[2] != 0}
	var p int
	cs.cfg, p = decSrvs(in, 3)
	cs.term, cs.vterm, cs.vcand, cs.li, cs.lt = in[p], in[p+1], in[p+2], in[p+3], in[p+4]
	scripted := append([]uint64{}, in[p+5:]...)
	comp := 14
	if strings.HasPrefix(tag, "kf") {
		cs.failMode, comp = true, 1401
	}
	_, obs, mons := c14run(cs, &rng{s: 1}, 0, scripted)
	cw.emit(tag, comp, in, obs, true)
	for _, m := range mons {
		c14emitMon(cw, tag, m)
	}
}

func c14emitMon(cw *caseWriter, tag, m string) {
	m = strings.TrimSpace(m)
	if m == "" {
		return
	}
	if f := strings.SplitN(m, "|", 3); len(f) == 3 && len(f[0]) == 3 {
		cw.monitor(f[0], tag, f[1], "%s", f[2])
		if f[0] == "C01" {
			cw.monitor("C07", tag, f[1], "%s", f[2]) // non-voters are never counted in elections
		}
		return
	}
	cw.monitor("C14", tag, "term-raised-without-prevote-quorum-of-voters", "%s", m)
}

func runC14(cw *caseWriter, tier string, seed uint64) {
	r := &rng{s: seed}
	runC14cand(cw, tier, r)
	// node level: pre-vote never changes anything, stickiness (C06 alphabet contains pre-votes)
	c01nodeseq(cw, tier, r)
	if tier == "quick" {
		runScenarios(cw, 4, seed*100000, 16, 4)
	} else {
		runScenarios(cw, 4, seed*100000, 200, 4)
	}
	// leadership transfers: round trips and a target that acknowledges TimeoutNow and is cut off (family 16)
	if tier == "quick" {
		runScenarios(cw, 16, seed*100000, 8, 4)
	} else {
		runScenarios(cw, 16, seed*100000, 150, 4)
	}
}

func c14ints(x string) []uint64 {
	var out []uint64
	for _, f := range strings.Fields(x) {
		v, _ := strconv.ParseUint(f, 10, 64)
		out = append(out, v)
	}
	return out
}

// child: lines "tag seed cfg prevote li transfer vterm" -> "tag | in | obs | monitor texts"
func c14Batch() {
	evAlone = true
	cfgs := [][]srv{
		{{0, 1, 1}, {0, 2, 2}, {0, 3, 3}},
		{{0, 1, 1}, {0, 2, 2}, {0, 3, 3}, {0, 4, 4}, {0, 5, 5}},
		{{0, 1, 1}, {0, 2, 2}, {0, 3, 3}, {1, 4, 4}},
		{{0, 1, 1}},
		{{1, 1, 1}, {0, 2, 2}, {0, 3, 3}},
		{{0, 2, 2}, {0, 1, 1}, {0, 3, 3}},                       // 5: the server is listed second
		{{0, 2, 2}, {0, 3, 3}, {0, 1, 1}},                       // 6: ... last
		{{0, 2, 2}, {0, 3, 3}, {0, 1, 1}, {0, 4, 4}, {0, 5, 5}}, // 7: ... third of five
	}
	sc := bufio.NewScanner(os.Stdin)
	w := bufio.NewWriter(os.Stdout)
	defer w.Flush()
	for sc.Scan() {
		f := strings.Fields(sc.Text())
		if len(f) != 8 {
			continue
		}
		v := c14ints(strings.Join(f[1:], " "))
		cs := &c14case{self: 1, prevote: v[2] != 0, term: 3, li: v[3], lt: 2, transfer: v[4] != 0, cfg: cfgs[v[1]]}
		if v[5] != 0 {
			cs.vterm, cs.vcand = 3, 3
		}
		cs.failMode = v[6] != 0
		rr := &rng{s: v[0]}
		evs, obs, mons := c14run(cs, rr, 3+rr.intn(8), nil)
		in := append(cs.header(), evs...)
		fmt.Fprintf(w, "%s |", f[0])
		for _, x := range in {
			fmt.Fprintf(w, " %d", x)
		}
		fmt.Fprint(w, " |")
		for _, x := range obs {
			fmt.Fprintf(w, " %d", x)
		}
		fmt.Fprintf(w, " | %s\n", strings.Join(mons, "\x1f"))
	}
}
