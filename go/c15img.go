package main

// Component 15 (FileSnapshotStore), parent side, part 2: crash images (1502), explicit images (1501),
// their observation through a FRESH real store, the monitors, and a small Go oracle used for
// self-checking (the formal model is the authority).

import (
	"bytes"
	"encoding/json"
	"fmt"
	"hash/crc64"
	"io"
	"os"
	"path/filepath"
	"sort"
	"strconv"
	"strings"

	"github.com/hashicorp/raft"
)

// ---------- abstract tree ----------

type c15dir struct {
	sid   int
	name  string // directory name on disk (with .tmp if temporary)
	tmp   bool
	meta  []byte // nil = no meta.json
	state []byte // nil = no state.bin
	hasM  bool
	hasS  bool
	// content as of the file's last fsync (nil = never synced)
	metaSynced  []byte
	stateSynced []byte
}

type c15tree struct {
	dirs []*c15dir // in creation order
}

func (t *c15tree) find(sid int) *c15dir {
	for _, d := range t.dirs {
		if d.sid == sid {
			return d
		}
	}
	return nil
}

func c15junk(c, synced []byte, code int) []byte {
	switch code {
	case 4:
		// the file's content as of its last fsync survives (nothing written since reached the disk)
		return append([]byte{}, synced...)
	case 0:
		return []byte{}
	case 1:
		return append([]byte{}, c[:len(c)/2]...)
	case 3:
		return append(append([]byte{}, c...), 0xFF, 0xFF, 0xFF)
	}
	return c
}

// c15lastSync: position of the last op of kind 4, 7 or 9 among the first k ops (0 if none)
func c15lastSync(p *c15prog, k int) int {
	for i := k; i >= 1; i-- {
		switch p.ops[i-1].kind {
		case 4, 7, 9:
			return i
		}
	}
	return 0
}

// c15crashTree replays FS ops 1..j and applies the junk rule for the files dirty at k.
func c15crashTree(p *c15prog, k, j, code int) *c15tree {
	t := &c15tree{}
	for _, o := range p.ops[:j] {
		d := t.find(o.sid)
		switch o.kind {
		case 1:
			t.dirs = append(t.dirs, &c15dir{sid: o.sid, name: p.names[o.sid] + ".tmp", tmp: true})
		case 2:
			if d != nil {
				d.hasM, d.meta = true, []byte{}
			}
		case 3:
			if d != nil && d.hasM {
				d.meta = append(d.meta, o.data...)
			}
		case 4:
			if d != nil && d.hasM {
				d.metaSynced = append([]byte{}, d.meta...)
			}
		case 7:
			if d != nil && d.hasS {
				d.stateSynced = append([]byte{}, d.state...)
			}
		case 5:
			if d != nil {
				d.hasS, d.state = true, []byte{}
			}
		case 6:
			if d != nil && d.hasS {
				d.state = append(d.state, o.data...)
			}
		case 8:
			if d != nil {
				d.tmp, d.name = false, p.names[o.sid]
			}
		case 10:
			if d != nil {
				d.hasM, d.meta = false, nil
			}
		case 11:
			if d != nil {
				d.hasS, d.state = false, nil
			}
		case 12:
			for i, x := range t.dirs {
				if x.sid == o.sid {
					t.dirs = append(t.dirs[:i:i], t.dirs[i+1:]...)
					break
				}
			}
		}
	}
	type fk struct {
		sid   int
		state bool
	}
	dirty := map[fk]bool{}
	for _, o := range p.ops[:k] {
		switch o.kind {
		case 2, 3:
			dirty[fk{o.sid, false}] = true
		case 4:
			dirty[fk{o.sid, false}] = false
		case 5, 6:
			dirty[fk{o.sid, true}] = true
		case 7:
			dirty[fk{o.sid, true}] = false
		}
	}
	for _, d := range t.dirs {
		if d.hasM && dirty[fk{d.sid, false}] {
			d.meta = c15junk(d.meta, d.metaSynced, code)
		}
		if d.hasS && dirty[fk{d.sid, true}] {
			d.state = c15junk(d.state, d.stateSynced, code)
		}
	}
	return t
}

// ---------- materialise + observe through the real store ----------

type c15listed struct {
	sid  int
	id   string
	term uint64
	idx  uint64
	ok   bool
	data []byte
}

type c15seen struct {
	listed []c15listed
	ndirs  int
	err    string
}

func (s *c15seen) obs() []uint64 {
	out := []uint64{uint64(len(s.listed))}
	for _, l := range s.listed {
		if l.ok {
			out = append(out, uint64(l.sid), 1, uint64(len(l.data)))
			for _, b := range l.data {
				out = append(out, uint64(b))
			}
		} else {
			out = append(out, uint64(l.sid), 0, 0)
		}
	}
	return append(out, uint64(s.ndirs))
}

// c15observe writes the tree below base (fresh directory) and looks at it with a fresh real store.
func c15observe(base string, t *c15tree, retain int, sidOf func(id string) int) *c15seen {
	seen := &c15seen{}
	snaps := filepath.Join(base, "snapshots")
	if err := os.MkdirAll(snaps, 0o755); err != nil {
		seen.err = err.Error()
		return seen
	}
	for _, d := range t.dirs {
		dp := filepath.Join(snaps, d.name)
		if err := os.Mkdir(dp, 0o755); err != nil && !os.IsExist(err) {
			seen.err = err.Error()
			return seen
		}
		if d.hasM {
			if err := os.WriteFile(filepath.Join(dp, "meta.json"), d.meta, 0o644); err != nil {
				seen.err = err.Error()
				return seen
			}
		}
		if d.hasS {
			if err := os.WriteFile(filepath.Join(dp, "state.bin"), d.state, 0o644); err != nil {
				seen.err = err.Error()
				return seen
			}
		}
	}
	store, err := raft.NewFileSnapshotStore(base, retain, io.Discard)
	if err != nil {
		seen.err = "NewFileSnapshotStore: " + err.Error()
		return seen
	}
	metas, err := store.List()
	if err != nil {
		seen.err = "List: " + err.Error()
		return seen
	}
	for _, m := range metas {
		l := c15listed{sid: sidOf(m.ID), id: m.ID, term: m.Term, idx: m.Index}
		_, rc, err := store.Open(m.ID)
		if err == nil {
			b, rerr := io.ReadAll(rc)
			_ = rc.Close()
			if rerr == nil {
				l.ok, l.data = true, b
			}
		}
		seen.listed = append(seen.listed, l)
	}
	ents, err := os.ReadDir(snaps)
	if err != nil {
		seen.err = "ReadDir: " + err.Error()
		return seen
	}
	for _, e := range ents {
		if e.IsDir() && !strings.HasSuffix(e.Name(), ".tmp") {
			seen.ndirs++
		}
	}
	return seen
}

// ---------- Go oracle (self-check only) ----------

type c15metaJSON struct {
	raft.SnapshotMeta
	CRC []byte
}

var c15crcTable = crc64.MakeTable(crc64.ECMA)

func c15crc(b []byte) []byte {
	h := crc64.New(c15crcTable)
	h.Write(b)
	return h.Sum(nil)
}

// c15expectObs: what List/Open are specified to return on the tree (sorted new->old, at most retain,
// only non-.tmp directories with a decodable supported meta; Open needs state.bin with the CRC of meta).
func c15expectObs(t *c15tree, retain int, sidOf func(id string) int) []uint64 {
	type ent struct {
		m   c15metaJSON
		dir *c15dir
	}
	var es []ent
	nd := 0
	for _, d := range t.dirs {
		if d.tmp {
			continue
		}
		nd++
		if !d.hasM {
			continue
		}
		var m c15metaJSON
		if err := json.NewDecoder(bytes.NewReader(d.meta)).Decode(&m); err != nil {
			continue
		}
		if m.Version < raft.SnapshotVersionMin || m.Version > raft.SnapshotVersionMax {
			continue
		}
		es = append(es, ent{m, d})
	}
	sort.SliceStable(es, func(a, b int) bool {
		x, y := es[a].m, es[b].m
		if x.Term != y.Term {
			return x.Term > y.Term
		}
		if x.Index != y.Index {
			return x.Index > y.Index
		}
		return x.ID > y.ID
	})
	if len(es) > retain {
		es = es[:retain]
	}
	out := []uint64{uint64(len(es))}
	for _, e := range es {
		sid := sidOf(e.m.ID)
		// Open reads <store>/<ID>/...: find the directory of that name
		var d *c15dir
		for _, x := range t.dirs {
			if x.name == e.m.ID {
				d = x
			}
		}
		if d != nil && d.hasM && d.hasS {
			var m c15metaJSON
			if json.NewDecoder(bytes.NewReader(d.meta)).Decode(&m) == nil && bytes.Equal(m.CRC, c15crc(d.state)) {
				out = append(out, uint64(sid), 1, uint64(len(d.state)))
				for _, b := range d.state {
					out = append(out, uint64(b))
				}
				continue
			}
		}
		out = append(out, uint64(sid), 0, 0)
	}
	return append(out, uint64(nd))
}

func c15eqInts(a, b []uint64) bool {
	if len(a) != len(b) {
		return false
	}
	for i := range a {
		if a[i] != b[i] {
			return false
		}
	}
	return true
}

// ---------- monitors ----------

type c15mon struct{ sig, text string }

type c15key struct {
	term, idx uint64
	sid       int
}

func (a c15key) less(b c15key) bool {
	if a.term != b.term {
		return a.term < b.term
	}
	if a.idx != b.idx {
		return a.idx < b.idx
	}
	return a.sid < b.sid
}

// sorted descending by (term,index,sid), no duplicates, at most retain
func c15monSorted(seen *c15seen, retain int, keyOf func(l c15listed) c15key) []c15mon {
	var ms []c15mon
	if len(seen.listed) > retain {
		ms = append(ms, c15mon{"list-exceeds-retain", fmt.Sprintf("List returned %d snapshots with retain=%d", len(seen.listed), retain)})
	}
	ids := map[string]bool{}
	for i, l := range seen.listed {
		if ids[l.id] {
			ms = append(ms, c15mon{"list-has-duplicates", fmt.Sprintf("snapshot sid %d appears twice in List", l.sid)})
		}
		ids[l.id] = true
		if i > 0 {
			a, b := keyOf(seen.listed[i-1]), keyOf(l)
			if !b.less(a) && a != b {
				ms = append(ms, c15mon{"list-not-sorted", fmt.Sprintf("List position %d (term %d index %d sid %d) is followed by a newer one (term %d index %d sid %d)", i-1, a.term, a.idx, a.sid, b.term, b.idx, b.sid)})
			}
		}
	}
	return ms
}

// per-sink facts of a script and its program
type c15sinkInfo struct {
	term, idx uint64
	data      []byte
	cancelled bool
	renameAt  int // position (1-based) of op 8, 0 if none
	closedAt  int // position of the last FS op of a Close that returned nil, 0 if none
}

func c15sinks(p *c15prog) map[int]*c15sinkInfo {
	m := map[int]*c15sinkInfo{}
	for i, o := range p.script.ops {
		switch o.kind {
		case 1:
			m[o.sid] = &c15sinkInfo{term: o.term, idx: o.index}
		case 2:
			m[o.sid].data = append(m[o.sid].data, o.data...)
		case 3:
			if i < len(p.res) && p.res[i] == 0 {
				m[o.sid].closedAt = p.endAt[i]
				if m[o.sid].closedAt == 0 {
					m[o.sid].closedAt = -1 // returned nil without any FS op: counts as finished at every k
				}
			}
		case 4:
			m[o.sid].cancelled = true
		}
	}
	for i, o := range p.ops {
		if o.kind == 8 && m[o.sid] != nil && m[o.sid].renameAt == 0 {
			m[o.sid].renameAt = i + 1
		}
	}
	return m
}

// the four conditions of component 1502
func c15monCrash(p *c15prog, sinks map[int]*c15sinkInfo, k int, seen *c15seen) []c15mon {
	var ms []c15mon
	retain := p.script.retain
	if seen.err != "" {
		return []c15mon{{"image-not-observable", seen.err}}
	}
	listed := map[int]bool{}
	for _, l := range seen.listed {
		s := sinks[l.sid]
		if s == nil {
			ms = append(ms, c15mon{"listed-unknown-snapshot", fmt.Sprintf("List returned ID %s which no sink of the script produced", strconv.Quote(l.id))})
			continue
		}
		listed[l.sid] = true
		// 1
		if !l.ok {
			ms = append(ms, c15mon{"listed-snapshot-does-not-open", fmt.Sprintf("sid %d (term %d index %d) is listed but Open/read fails", l.sid, s.term, s.idx)})
		} else if !bytes.Equal(l.data, s.data) {
			ms = append(ms, c15mon{"open-returned-wrong-bytes", fmt.Sprintf("sid %d opened with %d bytes, the script wrote %d bytes (or different content)", l.sid, len(l.data), len(s.data))})
		}
		// 1 (rename issued) and 4
		if s.cancelled {
			ms = append(ms, c15mon{"cancelled-snapshot-listed", fmt.Sprintf("sid %d was cancelled but is listed", l.sid)})
		} else if s.renameAt == 0 || s.renameAt > k {
			ms = append(ms, c15mon{"listed-without-rename", fmt.Sprintf("sid %d is listed but its rename is not among the first %d FS ops (rename at %d, 0 = never)", l.sid, k, s.renameAt)})
		}
	}
	// 2
	ms = append(ms, c15monSorted(seen, retain, func(l c15listed) c15key {
		if s := sinks[l.sid]; s != nil {
			return c15key{s.term, s.idx, l.sid}
		}
		return c15key{l.term, l.idx, l.sid}
	})...)
	// 3
	var sids []int
	for sid := range sinks {
		sids = append(sids, sid)
	}
	sort.Ints(sids)
	for _, sid := range sids {
		s := sinks[sid]
		if s.closedAt == 0 || s.closedAt > k || listed[sid] {
			continue
		}
		me := c15key{s.term, s.idx, sid}
		newer := 0
		for _, l := range seen.listed {
			if o := sinks[l.sid]; o != nil && me.less(c15key{o.term, o.idx, l.sid}) {
				newer++
			}
		}
		if newer < retain {
			ms = append(ms, c15mon{"closed-snapshot-not-listed", fmt.Sprintf("sid %d (term %d index %d): Close returned nil by FS op %d <= k=%d, it is not listed and only %d newer snapshots are listed (retain %d)", sid, s.term, s.idx, s.closedAt, k, newer, retain)})
		}
	}
	return ms
}

// ---------- component 1501: explicit images ----------

type c15xdir struct {
	sid       int
	tmp       int
	term, idx uint64
	metaKind  int
	stateKind int
	data      []byte
}

type c15ximage struct {
	retain int
	dirs   []c15xdir
}

func c15xname(d c15xdir) string { return fmt.Sprintf("%d-%d-%05d", d.term, d.idx, d.sid) }

func c15xparse(in []uint64) (*c15ximage, error) {
	if len(in) < 2 {
		return nil, fmt.Errorf("short input")
	}
	x := &c15ximage{retain: int(in[0])}
	if in[0] < 1 || in[0] > 1000 {
		return nil, fmt.Errorf("retain out of range")
	}
	nd := int(in[1])
	i := 2
	for d := 0; d < nd; d++ {
		if i+7 > len(in) {
			return nil, fmt.Errorf("truncated directory %d", d)
		}
		n := int(in[i+6])
		if n < 0 || i+7+n > len(in) {
			return nil, fmt.Errorf("truncated bytes of directory %d", d)
		}
		xd := c15xdir{sid: int(in[i]), tmp: int(in[i+1]), term: in[i+2], idx: in[i+3], metaKind: int(in[i+4]), stateKind: int(in[i+5])}
		if xd.tmp > 1 || xd.metaKind > 5 || xd.stateKind > 2 {
			return nil, fmt.Errorf("kind out of range in directory %d", d)
		}
		xd.data = make([]byte, n)
		for j := 0; j < n; j++ {
			if in[i+7+j] > 255 {
				return nil, fmt.Errorf("byte out of range")
			}
			xd.data[j] = byte(in[i+7+j])
		}
		x.dirs = append(x.dirs, xd)
		i += 7 + n
	}
	if i != len(in) {
		return nil, fmt.Errorf("trailing input")
	}
	return x, nil
}

func c15xencode(x *c15ximage) []uint64 {
	out := []uint64{uint64(x.retain), uint64(len(x.dirs))}
	for _, d := range x.dirs {
		out = append(out, uint64(d.sid), uint64(d.tmp), d.term, d.idx, uint64(d.metaKind), uint64(d.stateKind), uint64(len(d.data)))
		for _, b := range d.data {
			out = append(out, uint64(b))
		}
	}
	return out
}

// the shape of a real meta.json: taken from one real snapshot (Peers and Configuration as the real
// store writes them for Configuration{} / nil transport) and verified byte for byte against it.
type c15metaShape struct {
	peers []byte
	conf  raft.Configuration
	ok    bool
	why   string
}

func c15encodeMeta(sh *c15metaShape, version raft.SnapshotVersion, id string, index, term uint64, size int64, crc []byte) []byte {
	m := c15metaJSON{SnapshotMeta: raft.SnapshotMeta{Version: version, ID: id, Index: index, Term: term, Peers: sh.peers, Configuration: sh.conf, ConfigurationIndex: 0, Size: size}, CRC: crc}
	var buf bytes.Buffer
	if err := json.NewEncoder(&buf).Encode(&m); err != nil {
		panic(err)
	}
	return buf.Bytes()
}

// c15learnShape creates one real snapshot below scratch and checks that c15encodeMeta reproduces its meta.json.
func c15learnShape(scratch string) *c15metaShape {
	sh := &c15metaShape{}
	base := filepath.Join(scratch, "shape")
	defer os.RemoveAll(base)
	store, err := raft.NewFileSnapshotStore(base, 1, io.Discard)
	if err != nil {
		sh.why = err.Error()
		return sh
	}
	sink, err := store.Create(1, 7, 3, raft.Configuration{}, 0, nil)
	if err != nil {
		sh.why = err.Error()
		return sh
	}
	payload := []byte{1, 2, 3, 250}
	if _, err := sink.Write(payload); err != nil {
		sh.why = err.Error()
		return sh
	}
	if err := sink.Close(); err != nil {
		sh.why = err.Error()
		return sh
	}
	real, err := os.ReadFile(filepath.Join(base, "snapshots", sink.ID(), "meta.json"))
	if err != nil {
		sh.why = err.Error()
		return sh
	}
	var m c15metaJSON
	if err := json.Unmarshal(real, &m); err != nil {
		sh.why = err.Error()
		return sh
	}
	sh.peers, sh.conf = m.Peers, m.Configuration
	mine := c15encodeMeta(sh, 1, sink.ID(), 7, 3, int64(len(payload)), c15crc(payload))
	if !bytes.Equal(mine, real) {
		sh.why = fmt.Sprintf("re-encoded meta differs from the real one: %q vs %q", mine, real)
		return sh
	}
	sh.ok = true
	return sh
}

func c15xtree(sh *c15metaShape, x *c15ximage) *c15tree {
	t := &c15tree{}
	for _, d := range x.dirs {
		name := c15xname(d)
		cd := &c15dir{sid: d.sid, name: name, tmp: d.tmp == 1}
		if cd.tmp {
			cd.name += ".tmp"
		}
		n := int64(len(d.data))
		switch d.metaKind {
		case 1:
			cd.hasM, cd.meta = true, c15encodeMeta(sh, 1, name, d.idx, d.term, n, c15crc(d.data))
		case 2:
			cd.hasM, cd.meta = true, []byte("garbage")
		case 3:
			cd.hasM, cd.meta = true, c15encodeMeta(sh, 2, name, d.idx, d.term, n, c15crc(d.data))
		case 4:
			other := []byte{1}
			if len(d.data) > 0 {
				other = append([]byte{}, d.data...)
				other[0] ^= 1
			}
			cd.hasM, cd.meta = true, c15encodeMeta(sh, 1, name, d.idx, d.term, n, c15crc(other))
		case 5:
			cd.hasM, cd.meta = true, []byte{}
		}
		switch d.stateKind {
		case 1:
			cd.hasS, cd.state = true, append([]byte{}, d.data...)
		case 2:
			cd.hasS, cd.state = true, append([]byte{}, d.data[:len(d.data)/2]...)
		}
		// a later directory of the same name replaces the earlier one (same path on disk)
		replaced := false
		for i, o := range t.dirs {
			if o.name == cd.name {
				t.dirs[i], replaced = cd, true
			}
		}
		if !replaced {
			t.dirs = append(t.dirs, cd)
		}
	}
	return t
}

func c15xsid(id string) int {
	i := strings.LastIndexByte(id, '-')
	if i < 0 {
		return 0
	}
	v, err := strconv.Atoi(id[i+1:])
	if err != nil {
		return 0
	}
	return v
}

func c15monExplicit(x *c15ximage, seen *c15seen) []c15mon {
	if seen.err != "" {
		return []c15mon{{"image-not-observable", seen.err}}
	}
	var ms []c15mon
	for _, l := range seen.listed {
		if !l.ok {
			continue
		}
		good := false
		for _, d := range x.dirs {
			if c15xname(d) == l.id && d.tmp == 0 && d.metaKind == 1 && d.stateKind == 1 && bytes.Equal(d.data, l.data) {
				good = true
			}
		}
		if !good {
			ms = append(ms, c15mon{"open-returned-wrong-bytes", fmt.Sprintf("listed snapshot sid %d opened with %d bytes but no metaKind-1/stateKind-1 directory holds exactly these", l.sid, len(l.data))})
		}
	}
	ms = append(ms, c15monSorted(seen, x.retain, func(l c15listed) c15key { return c15key{l.term, l.idx, l.sid} })...)
	return ms
}
