package main

// Component 15 (FileSnapshotStore), parent side, part 1: run scripts in a child under strace and
// project the trace to the file-system op alphabet
//
//	1 sid      mkdir <name>.tmp            7 sid      fsync state.bin
//	2 sid      create/truncate meta.json   8 sid      rename <name>.tmp -> <name>
//	3 sid      write(s) meta.json          9          fsync of the store directory
//	4 sid      fsync meta.json             10 sid t   unlink meta.json (t=1: directory still .tmp)
//	5 sid      create state.bin            11 sid t   unlink state.bin
//	6 sid n    write(s) state.bin          12 sid t   rmdir of the snapshot directory
//	0 r        script op finished (r=0 nil, r=1 error)

import (
	"bufio"
	"fmt"
	"os"
	"os/exec"
	"path/filepath"
	"strconv"
	"strings"
)

const c15straceSet = "trace=mkdirat,mkdir,openat,write,fsync,fdatasync,renameat,renameat2,rename,unlinkat,unlink,rmdir,newfstatat"

// one projected file-system op
type c15fsop struct {
	kind int
	sid  int
	t    int    // kinds 10..12
	data []byte // kinds 3 and 6: the bytes written (collapsed)
	sop  int    // index of the script op that issued it
}

// the observed program of one script
type c15prog struct {
	script    *c15script
	in        []uint64
	names     map[int]string // sid -> snapshot name (ID)
	ops       []c15fsop      // FS ops in canonical order
	endAt     []int          // per script op: number of FS ops issued when it finished
	res       []int          // per script op: 0 nil, 1 error
	obs       []uint64
	anomalies []string
	// RemoveAll unlink order really seen (before canonicalisation)
	stateFirst, metaFirst int
	swapped               map[int]bool // 1-based positions p such that ops p,p+1 were really issued as 11,10
	// every successful syscall under the store dir that is not in the alphabet and not read-only
	extra []string
}

// ---------- strace line parsing ----------

type c15call struct {
	name string
	args []string
	ret  string
}

// splitArgs splits at top-level commas; strings are fully \x-escaped (-xx) and fd paths are <...>.
func c15splitArgs(s string) []string {
	var out []string
	depth, inq, ina := 0, false, false
	start := 0
	for i := 0; i < len(s); i++ {
		c := s[i]
		switch {
		case inq:
			if c == '\\' {
				i++
			} else if c == '"' {
				inq = false
			}
		case ina:
			if c == '>' {
				ina = false
			}
		case c == '"':
			inq = true
		case c == '<':
			ina = true
		case c == '{' || c == '[' || c == '(':
			depth++
		case c == '}' || c == ']' || c == ')':
			depth--
		case c == ',' && depth == 0:
			out = append(out, strings.TrimSpace(s[start:i]))
			start = i + 1
		}
	}
	if strings.TrimSpace(s[start:]) != "" || len(out) > 0 {
		out = append(out, strings.TrimSpace(s[start:]))
	}
	return out
}

// fd argument "7</path>" or "AT_FDCWD</path>" -> path ("" if strace printed none)
func c15fdPath(a string) string {
	i := strings.IndexByte(a, '<')
	if i < 0 || !strings.HasSuffix(a, ">") {
		return ""
	}
	p := a[i+1 : len(a)-1]
	// with -xx the annotation is \x-escaped like every other string
	if b, _, ok := c15str("\"" + p + "\""); ok {
		p = string(b)
	}
	p = strings.TrimSuffix(p, " (deleted)")
	return p
}

// string argument "\x41\x42"[...] -> bytes, truncated flag
func c15str(a string) ([]byte, bool, bool) {
	if len(a) < 2 || a[0] != '"' {
		return nil, false, false
	}
	end := strings.LastIndexByte(a, '"')
	if end <= 0 {
		return nil, false, false
	}
	body := a[1:end]
	trunc := strings.HasPrefix(a[end+1:], "...")
	out := make([]byte, 0, len(body)/4)
	for i := 0; i < len(body); {
		if body[i] == '\\' && i+3 < len(body)+0 && body[i+1] == 'x' {
			v, err := strconv.ParseUint(body[i+2:i+4], 16, 8)
			if err != nil {
				return nil, false, false
			}
			out = append(out, byte(v))
			i += 4
		} else if body[i] == '\\' && i+1 < len(body) {
			// not expected with -xx, but decode the usual escapes
			switch body[i+1] {
			case 'n':
				out = append(out, '\n')
			case 't':
				out = append(out, '\t')
			case 'r':
				out = append(out, '\r')
			case '\\', '"':
				out = append(out, body[i+1])
			default:
				return nil, false, false
			}
			i += 2
		} else {
			out = append(out, body[i])
			i++
		}
	}
	return out, trunc, true
}

func c15resolve(dirPath string, p string) string {
	if strings.HasPrefix(p, "/") {
		return filepath.Clean(p)
	}
	if dirPath == "" {
		return ""
	}
	return filepath.Clean(filepath.Join(dirPath, p))
}

// c15readTrace merges unfinished/resumed pairs and returns the completed calls in order of completion.
func c15readTrace(path string) ([]c15call, []string, error) {
	f, err := os.Open(path)
	if err != nil {
		return nil, nil, err
	}
	defer f.Close()
	sc := bufio.NewScanner(f)
	sc.Buffer(make([]byte, 1<<20), 1<<28)
	pending := map[string]string{}
	var calls []c15call
	var bad []string // lines that are neither signals/exits nor parseable calls: nothing may be dropped silently
	short := func(l string) string {
		if len(l) > 200 {
			return l[:200] + "..."
		}
		return l
	}
	for sc.Scan() {
		line := sc.Text()
		sp := strings.IndexByte(line, ' ')
		if sp <= 0 {
			if strings.TrimSpace(line) != "" {
				bad = append(bad, short(line))
			}
			continue
		}
		pid := line[:sp]
		rest := strings.TrimLeft(line[sp:], " ")
		if strings.HasPrefix(rest, "---") || strings.HasPrefix(rest, "+++") {
			continue
		}
		if strings.HasSuffix(rest, "<unfinished ...>") {
			pending[pid] = strings.TrimSuffix(rest, "<unfinished ...>")
			continue
		}
		if strings.HasPrefix(rest, "<... ") {
			i := strings.Index(rest, "resumed>")
			pre, ok := pending[pid]
			if i < 0 || !ok {
				bad = append(bad, short(line))
				continue
			}
			delete(pending, pid)
			rest = pre + rest[i+len("resumed>"):]
		}
		// "name(args) = ret"; resumed lines pad with blanks between ")" and "="
		lp := strings.IndexByte(rest, '(')
		eq := strings.LastIndex(rest, " = ")
		if lp <= 0 || eq < lp {
			bad = append(bad, short(line))
			continue
		}
		head := strings.TrimRight(rest[:eq], " ")
		if !strings.HasSuffix(head, ")") {
			bad = append(bad, short(line))
			continue
		}
		calls = append(calls, c15call{name: rest[:lp], args: c15splitArgs(head[lp+1 : len(head)-1]), ret: strings.TrimSpace(rest[eq+3:])})
	}
	for pid, pre := range pending {
		bad = append(bad, short(pid+" "+pre+"<unfinished, never resumed>"))
	}
	return calls, bad, sc.Err()
}

func c15retInt(ret string) (int, bool) {
	end := 0
	for end < len(ret) && (ret[end] == '-' || (ret[end] >= '0' && ret[end] <= '9')) {
		end++
	}
	v, err := strconv.Atoi(ret[:end])
	if err != nil {
		return 0, false
	}
	return v, true
}

// ---------- projection ----------

// c15project turns the calls of one child run into one program per script.
// storeOf(i) is the store directory of script i.
func c15project(calls []c15call, scripts []*c15script, ins [][]uint64, storeOf func(int) string) []*c15prog {
	progs := make([]*c15prog, len(scripts))
	cur := -1
	var p *c15prog
	var store string
	renamed := map[int]bool{}
	byName := map[string]int{}
	// raw (uncanonicalised, uncollapsed) ops of the current script op
	finishOp := func(opno, r int, name string) {
		if p == nil {
			return
		}
		if opno != len(p.endAt) {
			p.anomalies = append(p.anomalies, fmt.Sprintf("mark for script op %d arrived when %d ops had finished", opno, len(p.endAt)))
		}
		if name != "" && name != "-" {
			o := p.script.ops[len(p.endAt)]
			if sid, ok := byName[name]; !ok || sid != o.sid {
				p.anomalies = append(p.anomalies, fmt.Sprintf("Create of sid %d returned ID %s but the mkdir seen was for sid %d", o.sid, name, sid))
			}
		}
		p.endAt = append(p.endAt, len(p.ops))
		p.res = append(p.res, r)
	}
	addOp := func(o c15fsop) {
		o.sop = len(p.endAt)
		// collapse consecutive writes to the same file (within one script op)
		if (o.kind == 3 || o.kind == 6) && len(p.ops) > 0 {
			l := &p.ops[len(p.ops)-1]
			if l.kind == o.kind && l.sid == o.sid && l.sop == o.sop {
				l.data = append(l.data, o.data...)
				return
			}
		}
		p.ops = append(p.ops, o)
	}
	// classify a path below the store: returns sid, tmp flag, leaf ("" dir itself, "meta", "state", "?")
	classify := func(path string) (rel string, sid int, tmp int, leaf string, ok bool) {
		if path == store {
			return "", 0, 0, "store", true
		}
		if !strings.HasPrefix(path, store+"/") {
			return "", 0, 0, "", false
		}
		rel = path[len(store)+1:]
		parts := strings.Split(rel, "/")
		d := parts[0]
		if strings.HasSuffix(d, ".tmp") {
			tmp = 1
			d = strings.TrimSuffix(d, ".tmp")
		}
		sid = byName[d]
		switch {
		case len(parts) == 1:
			leaf = "dir"
		case len(parts) == 2 && parts[1] == "meta.json":
			leaf = "meta"
		case len(parts) == 2 && parts[1] == "state.bin":
			leaf = "state"
		default:
			leaf = "?"
		}
		return rel, sid, tmp, leaf, true
	}
	for _, c := range calls {
		ret, okRet := c15retInt(c.ret)
		// marks
		if c.name == "newfstatat" || c.name == "stat" || c.name == "lstat" {
			ai := 1
			if c.name != "newfstatat" {
				ai = 0
			}
			if len(c.args) > ai {
				if b, _, ok := c15str(c.args[ai]); ok && strings.HasPrefix(string(b), c15markRoot+"/") {
					parts := strings.Split(string(b)[len(c15markRoot)+1:], "/")
					if len(parts) < 2 {
						continue
					}
					no, err := strconv.Atoi(parts[0])
					if err != nil || no < 0 || no >= len(scripts) {
						continue
					}
					switch parts[1] {
					case "b":
						cur = no
						p = &c15prog{script: scripts[no], in: ins[no], names: map[int]string{}}
						progs[no] = p
						store = storeOf(no)
						renamed = map[int]bool{}
						byName = map[string]int{}
					case "e":
						if cur == no && p != nil {
							if len(p.endAt) != len(p.script.ops) {
								p.anomalies = append(p.anomalies, fmt.Sprintf("script ended after %d of %d ops", len(p.endAt), len(p.script.ops)))
							}
						}
						cur, p = -1, nil
					case "x":
						progs[no] = &c15prog{script: scripts[no], in: ins[no], names: map[int]string{}, anomalies: []string{"child could not run the script: " + strings.Join(parts[2:], "/")}}
						cur, p = -1, nil
					default:
						if cur != no || p == nil || len(parts) < 3 {
							continue
						}
						opno, err1 := strconv.Atoi(parts[1])
						r, err2 := strconv.Atoi(parts[2])
						if err1 != nil || err2 != nil {
							continue
						}
						name := ""
						if len(parts) > 3 {
							name = parts[3]
						}
						finishOp(opno, r, name)
					}
				}
			}
			continue
		}
		if p == nil || !okRet || ret < 0 {
			continue
		}
		anomaly := func(why string) {
			p.anomalies = append(p.anomalies, fmt.Sprintf("%s: %s(%s) = %s", why, c.name, strings.Join(c.args, ", "), c.ret))
		}
		pathArg := func(dirIdx, strIdx int) string {
			if strIdx >= len(c.args) {
				return ""
			}
			b, _, ok := c15str(c.args[strIdx])
			if !ok {
				return ""
			}
			dir := ""
			if dirIdx >= 0 && dirIdx < len(c.args) {
				dir = c15fdPath(c.args[dirIdx])
			}
			return c15resolve(dir, string(b))
		}
		switch c.name {
		case "mkdirat", "mkdir":
			var path string
			if c.name == "mkdirat" {
				path = pathArg(0, 1)
			} else {
				path = pathArg(-1, 0)
			}
			rel, _, tmp, leaf, under := classify(path)
			if !under {
				continue
			}
			if leaf != "dir" || tmp != 1 {
				anomaly("mkdir of an unexpected path below the store")
				continue
			}
			name := strings.TrimSuffix(rel, ".tmp")
			if _, dup := byName[name]; dup {
				anomaly("second mkdir of the same snapshot name")
				continue
			}
			sid := len(byName) + 1
			byName[name] = sid
			p.names[sid] = name
			addOp(c15fsop{kind: 1, sid: sid})
		case "openat", "open", "creat":
			var path, flags string
			switch c.name {
			case "openat":
				path = pathArg(0, 1)
				if len(c.args) > 2 {
					flags = c.args[2]
				}
			case "open":
				path = pathArg(-1, 0)
				if len(c.args) > 1 {
					flags = c.args[1]
				}
			default:
				path = pathArg(-1, 0)
				flags = "O_CREAT|O_WRONLY|O_TRUNC"
			}
			_, sid, _, leaf, under := classify(path)
			if !under {
				continue
			}
			if !strings.Contains(flags, "O_CREAT") && !strings.Contains(flags, "O_TRUNC") {
				continue // read-only (or plain write) open: the writes themselves are observed
			}
			switch {
			case leaf == "meta" && sid > 0:
				addOp(c15fsop{kind: 2, sid: sid})
			case leaf == "state" && sid > 0:
				addOp(c15fsop{kind: 5, sid: sid})
			default:
				anomaly("create of an unexpected path below the store")
			}
		case "write", "pwrite64", "writev":
			if len(c.args) < 2 {
				continue
			}
			path := c15fdPath(c.args[0])
			_, sid, _, leaf, under := classify(path)
			if !under {
				continue
			}
			if c.name != "write" || sid == 0 || (leaf != "meta" && leaf != "state") {
				anomaly("write to an unexpected file below the store")
				continue
			}
			b, trunc, ok := c15str(c.args[1])
			if !ok || (trunc && ret > len(b)) || ret > len(b) {
				anomaly("write payload not captured completely")
				continue
			}
			k := 3
			if leaf == "state" {
				k = 6
			}
			addOp(c15fsop{kind: k, sid: sid, data: append([]byte(nil), b[:ret]...)})
		case "fsync", "fdatasync":
			if len(c.args) < 1 {
				continue
			}
			_, sid, _, leaf, under := classify(c15fdPath(c.args[0]))
			if !under {
				continue
			}
			switch {
			case leaf == "store":
				addOp(c15fsop{kind: 9})
			case leaf == "meta" && sid > 0:
				addOp(c15fsop{kind: 4, sid: sid})
			case leaf == "state" && sid > 0:
				addOp(c15fsop{kind: 7, sid: sid})
			default:
				anomaly("fsync of an unexpected object below the store")
			}
		case "rename", "renameat", "renameat2":
			var from, to string
			if c.name == "rename" {
				from, to = pathArg(-1, 0), pathArg(-1, 1)
			} else {
				from, to = pathArg(0, 1), pathArg(2, 3)
			}
			relF, sidF, tmpF, leafF, underF := classify(from)
			relT, _, tmpT, leafT, underT := classify(to)
			if !underF && !underT {
				continue
			}
			if !(underF && underT && leafF == "dir" && leafT == "dir" && tmpF == 1 && tmpT == 0 && sidF > 0 && strings.TrimSuffix(relF, ".tmp") == relT) {
				anomaly("rename other than <name>.tmp -> <name>")
				continue
			}
			renamed[sidF] = true
			addOp(c15fsop{kind: 8, sid: sidF})
		case "unlinkat", "unlink", "rmdir":
			var path string
			rmdir := c.name == "rmdir"
			if c.name == "unlinkat" {
				path = pathArg(0, 1)
				if len(c.args) > 2 && strings.Contains(c.args[2], "AT_REMOVEDIR") {
					rmdir = true
				}
			} else {
				path = pathArg(-1, 0)
			}
			_, sid, tmp, leaf, under := classify(path)
			if !under {
				continue
			}
			if sid > 0 && ((tmp == 1) == renamed[sid]) {
				anomaly("directory name at unlink time disagrees with the renames seen so far")
			}
			switch {
			case rmdir && leaf == "dir" && sid > 0:
				addOp(c15fsop{kind: 12, sid: sid, t: tmp})
			case !rmdir && leaf == "meta" && sid > 0:
				addOp(c15fsop{kind: 10, sid: sid, t: tmp})
			case !rmdir && leaf == "state" && sid > 0:
				addOp(c15fsop{kind: 11, sid: sid, t: tmp})
			default:
				anomaly("unlink/rmdir of an unexpected path below the store")
			}
		default:
			// any other traced call that succeeded on the store: report it
			for i, a := range c.args {
				pp := c15fdPath(a)
				if pp == "" {
					if b, _, ok := c15str(a); ok && i < 2 {
						pp = string(b)
					}
				}
				if _, _, _, _, under := classify(pp); under && pp != "" {
					p.extra = append(p.extra, c.name)
					break
				}
			}
		}
	}
	for i, pr := range progs {
		if pr == nil {
			progs[i] = &c15prog{script: scripts[i], in: ins[i], names: map[int]string{}, anomalies: []string{"no trace for this script"}}
			continue
		}
		c15finishProg(pr)
	}
	return progs
}

// c15finishProg canonicalises the unlink order inside RemoveAll and builds the observation.
func c15finishProg(p *c15prog) {
	for i := 0; i+1 < len(p.ops); i++ {
		a, b := p.ops[i], p.ops[i+1]
		if a.sid == b.sid && a.sop == b.sop {
			if a.kind == 11 && b.kind == 10 {
				p.ops[i], p.ops[i+1] = b, a
				p.stateFirst++
				if p.swapped == nil {
					p.swapped = map[int]bool{}
				}
				p.swapped[i+1] = true
				i++
			} else if a.kind == 10 && b.kind == 11 {
				p.metaFirst++
				i++
			}
		}
	}
	// names must be distinct and, for equal (term,index), increase with the sid
	type ti struct{ t, i uint64 }
	last := map[ti]string{}
	for _, o := range p.script.ops {
		if o.kind != 1 {
			continue
		}
		n, ok := p.names[o.sid]
		if !ok {
			continue
		}
		k := ti{o.term, o.index}
		if l, seen := last[k]; seen && !(len(l) < len(n) || (len(l) == len(n) && l < n)) {
			p.anomalies = append(p.anomalies, fmt.Sprintf("snapshot names not increasing with sid: %s then %s", l, n))
		}
		last[k] = n
	}
	if len(p.endAt) != len(p.script.ops) && len(p.anomalies) == 0 {
		p.anomalies = append(p.anomalies, fmt.Sprintf("only %d of %d script ops were seen", len(p.endAt), len(p.script.ops)))
	}
	p.obs = p.obs[:0]
	at := 0
	for i := range p.endAt {
		for ; at < p.endAt[i]; at++ {
			o := p.ops[at]
			switch o.kind {
			case 6:
				p.obs = append(p.obs, 6, uint64(o.sid), uint64(len(o.data)))
			case 9:
				p.obs = append(p.obs, 9)
			case 10, 11, 12:
				p.obs = append(p.obs, uint64(o.kind), uint64(o.sid), uint64(o.t))
			default:
				p.obs = append(p.obs, uint64(o.kind), uint64(o.sid))
			}
		}
		p.obs = append(p.obs, 0, uint64(p.res[i]))
	}
}

// ---------- running a batch of scripts under strace ----------

func c15fmtInts(in []uint64) string {
	var sb strings.Builder
	for i, v := range in {
		if i > 0 {
			sb.WriteByte(' ')
		}
		sb.WriteString(strconv.FormatUint(v, 10))
	}
	return sb.String()
}

// c15runBatch runs the scripts (already parsed, with their encoded form) in ONE traced child.
// dir is a fresh scratch directory owned by the caller.
func c15runBatch(dir string, scripts []*c15script, ins [][]uint64) ([]*c15prog, error) {
	exe, err := os.Executable()
	if err != nil {
		return nil, err
	}
	root := filepath.Join(dir, "r")
	if err := os.MkdirAll(root, 0o755); err != nil {
		return nil, err
	}
	// the trace shows the paths as the kernel resolves them
	if rr, err := filepath.EvalSymlinks(root); err == nil {
		root = rr
	}
	job := filepath.Join(dir, "job")
	var sb strings.Builder
	for _, in := range ins {
		sb.WriteString(c15fmtInts(in))
		sb.WriteByte('\n')
	}
	if err := os.WriteFile(job, []byte(sb.String()), 0o644); err != nil {
		return nil, err
	}
	trace := filepath.Join(dir, "trace")
	cmd := exec.Command("strace", "-f", "-y", "-s", "8192", "-xx", "-e", c15straceSet, "-o", trace, exe, "c15child", root, job)
	// few threads in the traced child: every thread and every preemption signal is a ptrace stop
	cmd.Env = append(os.Environ(), "GOMAXPROCS=1", "GOGC=off")
	out, err := cmd.CombinedOutput()
	if err != nil {
		return nil, fmt.Errorf("strace/child failed: %v: %s", err, string(out))
	}
	if keep := os.Getenv("C15_KEEPTRACE"); keep != "" {
		// debugging aid: keep a copy of the raw trace
		if b, err := os.ReadFile(trace); err == nil {
			_ = os.MkdirAll(keep, 0o755)
			_ = os.WriteFile(filepath.Join(keep, filepath.Base(dir)+".trace"), b, 0o644)
		}
	}
	calls, bad, err := c15readTrace(trace)
	if err != nil {
		return nil, err
	}
	progs := c15project(calls, scripts, ins, func(i int) string { return filepath.Join(c15caseDir(root, i), "snapshots") })
	if len(bad) > 0 {
		for _, p := range progs {
			p.anomalies = append(p.anomalies, fmt.Sprintf("%d trace lines of this child could not be parsed, first: %s", len(bad), bad[0]))
		}
	}
	return progs, nil
}
