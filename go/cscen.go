package main

import (
	"fmt"
	"sort"
	"sync"
	"sync/atomic"
	"time"

	"github.com/hashicorp/raft"
)

// scenario plumbing: a scenario builds a cluster, drives it, and returns the history
type scenario struct {
	name string
	run  func(r *rng) *cluster
}

func basicCluster(o clusterOpts) *cluster {
	c := newCluster(o)
	c.bootstrap()
	c.startAll()
	return c
}

func scBasic(r *rng) *cluster {
	c := basicCluster(clusterOpts{voters: 3, trailing: 100, maxAppend: 4})
	c.elect(1, 2*time.Second)
	for i := 0; i < 5; i++ {
		c.call(1, "apply", uint64(100+i), 0).wait(2 * time.Second)
	}
	c.settle(2 * time.Second)
	return c
}

func dumpHistory(c *cluster, max int) {
	for i, e := range c.h.snapshot() {
		if i >= max {
			break
		}
		fmt.Printf("%4d %-9s n%d.%d a=%d b=%d c=%d d=%d e=%d %v %s\n", e.seq, e.kind, e.node, e.inst, e.a, e.b, e.c, e.d, e.e, e.ents, e.s)
	}
}

// ---------------------------------------------------------------- churn: the general fault mix
func pick(r *rng, ids []uint64) uint64 { return ids[r.intn(len(ids))] }

func (c *cluster) aliveIDs() []uint64 {
	var out []uint64
	for _, id := range c.ids {
		if c.nodes[id].alive {
			out = append(out, id)
		}
	}
	return out
}

func (c *cluster) ensureLeader(r *rng) *cnode {
	for try := 0; try < 6; try++ {
		if l := c.leader(); l != nil {
			return l
		}
		al := c.aliveIDs()
		if len(al) == 0 {
			return nil
		}
		id := pick(r, al)
		if c.elect(id, 150*time.Millisecond) {
			return c.nodes[id]
		}
		c.kickCandidate(id)
		waitFor(100*time.Millisecond, func() bool { return c.leader() != nil })
	}
	return c.leader()
}

// get a leader inside a group that lost its leader: every member's heartbeat timer fires (they
// forget the old leader), candidates that lose are re-armed until one wins
func (c *cluster) electAmong(r *rng, group []uint64, prefer uint64) *cnode {
	inGroup := func() *cnode {
		for _, id := range group {
			n := c.nodes[id]
			if n.alive && n.r.State() == raft.Leader {
				return n
			}
		}
		return nil
	}
	if prefer != 0 && c.nodes[prefer].alive {
		c.nodes[prefer].r.VerifFireHeartbeatTimeout()
		time.Sleep(time.Millisecond)
	}
	for _, id := range group {
		if id != prefer && c.nodes[id].alive && c.nodes[id].r.State() == raft.Follower {
			c.nodes[id].r.VerifFireHeartbeatTimeout()
		}
	}
	for try := 0; try < 8; try++ {
		if waitFor(40*time.Millisecond, func() bool { return inGroup() != nil }) {
			return inGroup()
		}
		id := group[r.intn(len(group))]
		if c.nodes[id].alive && c.nodes[id].r.State() == raft.Candidate {
			c.kickCandidate(id)
		} else if c.nodes[id].alive && c.nodes[id].r.State() == raft.Follower {
			c.nodes[id].r.VerifFireHeartbeatTimeout()
		}
	}
	return inGroup()
}

type churnOpts struct {
	clusterOpts
	steps     int
	crashes   bool
	snapshots bool
	transfers bool
	dupLinks  bool
}

func scChurn(r *rng, o churnOpts) *cluster {
	c := basicCluster(o.clusterOpts)
	pay := uint64(1000)
	var pending []*ccall
	c.ensureLeader(r)
	for s := 0; s < o.steps; s++ {
		switch x := r.intn(100); {
		case x < 38: // client writes, mostly on the leader
			id := pick(r, c.ids)
			if l := c.leader(); l != nil && r.chance(4, 5) {
				id = l.id
			}
			if c.nodes[id].alive {
				for k := 0; k < 1+r.intn(3); k++ {
					pay++
					pending = append(pending, c.call(id, "apply", pay, 0))
				}
			}
		case x < 48:
			c.settle(60 * time.Millisecond)
		case x < 58: // a follower times out
			al := c.aliveIDs()
			if len(al) > 0 {
				id := pick(r, al)
				c.nodes[id].r.VerifFireHeartbeatTimeout()
				time.Sleep(time.Duration(200+r.intn(1500)) * time.Microsecond)
			}
		case x < 66: // partition
			ids := append([]uint64(nil), c.ids...)
			for i := range ids {
				j := r.intn(i + 1)
				ids[i], ids[j] = ids[j], ids[i]
			}
			k := 1 + r.intn(len(ids)-1)
			c.partition(ids[:k], ids[k:])
		case x < 74:
			c.heal()
		case x < 80: // clean stop + restart
			id := pick(r, c.ids)
			n := c.nodes[id]
			if n.alive {
				n.stop()
			}
			if r.chance(2, 3) {
				n.start()
			}
		case x < 86 && o.crashes: // crash between two durable writes
			al := c.aliveIDs()
			if len(al) > 0 {
				n := c.nodes[pick(r, al)]
				n.crashAtOp(int64(1 + r.intn(4)))
				// provoke some durable activity
				if l := c.leader(); l != nil {
					pay++
					pending = append(pending, c.call(l.id, "apply", pay, 0))
				}
				n.r.VerifFireHeartbeatTimeout()
				if n.awaitCrash(40*time.Millisecond) && r.chance(3, 4) {
					n.start()
				}
			}
		case x < 90 && o.snapshots:
			al := c.aliveIDs()
			if len(al) > 0 {
				c.call(pick(r, al), "snapshot", 0, 0).wait(200 * time.Millisecond)
			}
		case x < 94 && o.transfers:
			if l := c.leader(); l != nil {
				c.call(l.id, "transfer", 0, 0).wait(300 * time.Millisecond)
			}
		case x < 97 && o.dupLinks:
			a, b := pick(r, c.ids), pick(r, c.ids)
			if a != b {
				c.net.set(a, b, []int{linkDup, linkLoseResp}[r.intn(2)])
			}
		default:
			for _, id := range c.ids {
				if !c.nodes[id].alive {
					c.nodes[id].start()
				}
			}
		}
	}
	// quiet period: everything back, one leader, one more write, converge
	c.heal()
	for _, id := range c.ids {
		if !c.nodes[id].alive {
			c.nodes[id].start()
		}
	}
	if l := c.ensureLeader(r); l != nil {
		pay++
		pending = append(pending, c.call(l.id, "apply", pay, 0))
	}
	c.settle(300 * time.Millisecond)
	deadline := time.Now().Add(150 * time.Millisecond)
	for _, p := range pending {
		if d := time.Until(deadline); d > 0 {
			p.wait(d)
		}
	}
	return c
}

// ---------------------------------------------------------------- election races
// candidates with requests / responses held in flight, released in random order
func scElection(r *rng) *cluster {
	nv := 3 + r.intn(3)
	c := basicCluster(clusterOpts{voters: nv, trailing: 100, maxAppend: 4, prevoteOff: r.chance(1, 2)})
	pay := uint64(2000)
	if r.chance(1, 2) {
		if l := c.ensureLeader(r); l != nil {
			pay++
			c.call(l.id, "apply", pay, 0).wait(100 * time.Millisecond)
		}
	}
	var held [][2]uint64
	steps := 8 + r.intn(14)
	for s := 0; s < steps; s++ {
		switch x := r.intn(100); {
		case x < 25: // hold the responses (or the requests) on some link
			a, b := pick(r, c.ids), pick(r, c.ids)
			if a != b {
				m := linkHoldResp
				if r.chance(1, 3) {
					m = linkHold
				}
				c.net.set(a, b, m)
				held = append(held, [2]uint64{a, b})
			}
		case x < 55: // a server times out
			id := pick(r, c.ids)
			if c.nodes[id].r.State() == raft.Candidate {
				c.kickCandidate(id)
			} else {
				c.nodes[id].r.VerifFireHeartbeatTimeout()
			}
			time.Sleep(time.Duration(300+r.intn(2000)) * time.Microsecond)
		case x < 85: // release something held
			if len(held) > 0 {
				k := r.intn(len(held))
				c.net.release(held[k][0], held[k][1], r.chance(5, 6))
				time.Sleep(time.Duration(200+r.intn(1000)) * time.Microsecond)
			}
		case x < 92: // open a link again
			if len(held) > 0 {
				k := r.intn(len(held))
				c.net.set(held[k][0], held[k][1], linkUp)
				for i := 0; i < 8; i++ {
					c.net.release(held[k][0], held[k][1], true)
				}
			}
		default:
			if l := c.leader(); l != nil {
				pay++
				c.call(l.id, "apply", pay, 0)
			}
		}
	}
	// flush everything held, then quiet period
	for _, h := range held {
		c.net.set(h[0], h[1], linkUp)
		for i := 0; i < 16; i++ {
			c.net.release(h[0], h[1], true)
		}
	}
	time.Sleep(2 * time.Millisecond)
	if l := c.ensureLeader(r); l != nil {
		pay++
		c.call(l.id, "apply", pay, 0).wait(150 * time.Millisecond)
	}
	c.settle(200 * time.Millisecond)
	return c
}

// scripted: A is candidate for T with both grants in flight; B wins T+1 with A's vote; then the
// stale grants reach A (random padding around the template)
func scStaleGrants(r *rng) *cluster {
	nv := 3
	if r.chance(1, 3) {
		nv = 5
	}
	c := basicCluster(clusterOpts{voters: nv, trailing: 100, maxAppend: 4, prevoteOff: true})
	ids := append([]uint64(nil), c.ids...)
	for i := range ids {
		j := r.intn(i + 1)
		ids[i], ids[j] = ids[j], ids[i]
	}
	a, b := ids[0], ids[1]
	for _, x := range ids[1:] {
		c.net.set(a, x, linkHoldResp)
	}
	c.nodes[a].r.VerifFireHeartbeatTimeout()
	// wait until every peer has answered A's vote request (the answers are held)
	countResp := func() int {
		k := 0
		for _, e := range c.h.snapshot() {
			if e.kind == "resp" && e.b == 1 && e.a == a {
				k++
			}
		}
		return k
	}
	waitFor(100*time.Millisecond, func() bool { return countResp() >= nv-1 })
	// B campaigns in the next term and wins with A's vote
	c.nodes[b].r.VerifFireHeartbeatTimeout()
	waitFor(100*time.Millisecond, func() bool { return c.nodes[b].r.State() == raft.Leader })
	// now the stale answers reach A, in random order, some lost
	for _, x := range ids[1:] {
		c.net.release(a, x, r.chance(9, 10))
		if r.chance(1, 2) {
			time.Sleep(time.Duration(100+r.intn(500)) * time.Microsecond)
		}
	}
	time.Sleep(3 * time.Millisecond)
	for _, x := range ids[1:] {
		c.net.set(a, x, linkUp)
		for i := 0; i < 8; i++ {
			c.net.release(a, x, true)
		}
	}
	if l := c.leader(); l != nil {
		c.call(l.id, "apply", 2100, 0).wait(100 * time.Millisecond)
	}
	time.Sleep(3 * time.Millisecond)
	return c
}

// ---------------------------------------------------------------- registry + runner
var scenarioFamilies = map[int]func(r *rng) *cluster{
	1: func(r *rng) *cluster {
		return scChurn(r, churnOpts{clusterOpts: clusterOpts{voters: 3 + r.intn(3), nonvoters: r.intn(2), trailing: []uint64{0, 2, 100}[r.intn(3)], maxAppend: 1 + r.intn(4)},
			steps: 10 + r.intn(15), crashes: true, snapshots: true, transfers: true, dupLinks: true})
	},
	2:  scElection,
	3:  scStaleGrants,
	4:  scIsolate,
	5:  scLeaseIsolation,
	6:  scHealthy,
	7:  scStaleTailSnapshot,
	8:  scConverge,
	9:  scGrowSingle,
	10: scVerify,
	11: scBarrier,
	12: scRestore,
}

type scResult struct {
	family                 int
	seed                   uint64
	events                 int
	leaders, acks, crashes int
	findings               []finding
}

func runScenario(family int, seed uint64) scResult {
	r := &rng{s: seed*1000003 + uint64(family)}
	c := scenarioFamilies[family](r)
	c.shutdown()
	res := scResult{family: family, seed: seed, findings: c.monitor()}
	if v, ok := scenarioNotes.LoadAndDelete(c); ok {
		seen := map[string]bool{}
		for _, f := range v.(*scNotes).fs {
			if !seen[f.prop+f.sig] {
				seen[f.prop+f.sig] = true
				res.findings = append(res.findings, f)
			}
		}
	}
	evs := c.h.snapshot()
	res.events = len(evs)
	for _, e := range evs {
		switch {
		case e.kind == "state" && e.a == uint64(raft.Leader):
			res.leaders++
		case e.kind == "ret" && e.b == 0:
			res.acks++
		case e.kind == "note" && (e.s == "crashed" || e.s == "stopped"):
			res.crashes++
		}
	}
	return res
}

// run count scenarios of a family, `par` at a time; one case line + monitor lines per scenario
func runScenarios(cw *caseWriter, family int, firstSeed uint64, count int, par int) {
	type job struct{ seed uint64 }
	jobs := make(chan uint64, count)
	results := make(chan scResult, count)
	for i := 0; i < count; i++ {
		jobs <- firstSeed + uint64(i)
	}
	close(jobs)
	for w := 0; w < par; w++ {
		go func() {
			for s := range jobs {
				results <- runScenario(family, s)
			}
		}()
	}
	all := make([]scResult, 0, count)
	for i := 0; i < count; i++ {
		all = append(all, <-results)
	}
	sort.Slice(all, func(i, j int) bool { return all[i].seed < all[j].seed })
	for _, res := range all {
		tag := fmt.Sprintf("h%d_%d_", family, res.seed)
		nt := res.leaders >= 1 && res.acks >= 1
		cw.emit(tag, 1000+family, []uint64{uint64(family), res.seed}, []uint64{uint64(res.events), uint64(res.leaders), uint64(res.acks), uint64(res.crashes), uint64(len(res.findings))}, nt)
		for _, f := range res.findings {
			cw.monitor(f.prop, tag, f.sig, "%s", f.text)
		}
		cw.stat(fmt.Sprintf("scen%d_events", family), res.events)
		cw.stat(fmt.Sprintf("scen%d_leader_events", family), res.leaders)
		cw.stat(fmt.Sprintf("scen%d_acks", family), res.acks)
		cw.stat(fmt.Sprintf("scen%d_crashes_or_stops", family), res.crashes)
	}
}

// ---------------------------------------------------------------- C14: isolation and rejoin (real timers)
func timedOpts(nv, nnv int) clusterOpts {
	return clusterOpts{voters: nv, nonvoters: nnv, trailing: 100, maxAppend: 8,
		timeouts: 60 * time.Millisecond, lease: 60 * time.Millisecond, commitTimeout: 5 * time.Millisecond}
}

// findings produced by the scenario itself (timing observations), reported with the monitors
type scNotes struct {
	mu sync.Mutex
	fs []finding
}

var scenarioNotes sync.Map // *cluster -> *scNotes

func noteFinding(c *cluster, prop, sig, format string, args ...interface{}) {
	v, _ := scenarioNotes.LoadOrStore(c, &scNotes{})
	n := v.(*scNotes)
	n.mu.Lock()
	n.fs = append(n.fs, finding{prop, sig, fmt.Sprintf(format, args...)})
	n.mu.Unlock()
}

func scIsolate(r *rng) *cluster {
	nv := 3 + 2*r.intn(2)
	c := basicCluster(timedOpts(nv, r.intn(2)))
	if !waitFor(3*time.Second, func() bool { return c.leader() != nil }) {
		return c
	}
	l := c.leader()
	for i := 0; i < 3; i++ {
		c.call(l.id, "apply", uint64(4000+i), 0).wait(300 * time.Millisecond)
	}
	c.settle(500 * time.Millisecond)
	l = c.leader()
	if l == nil {
		return c
	}
	// isolate a minority that does not contain the leader
	var others []uint64
	for _, id := range c.ids[:nv] {
		if id != l.id {
			others = append(others, id)
		}
	}
	k := 1
	if nv == 5 && r.chance(1, 2) {
		k = 2
	}
	iso := others[:k]
	isoSet := map[uint64]bool{}
	for _, id := range iso {
		isoSet[id] = true
	}
	var rest []uint64
	for _, id := range c.ids {
		if !isoSet[id] {
			rest = append(rest, id)
		}
	}
	term0 := map[uint64]uint64{}
	for _, id := range iso {
		term0[id] = c.nodes[id].r.CurrentTerm()
	}
	c.partition(iso, rest)
	if k == 2 && r.chance(1, 2) { // the isolated ones cannot talk to each other either
		c.net.setBoth(iso[0], iso[1], linkDown)
	}
	// many election timeouts pass
	dur := time.Duration(300+r.intn(500)) * time.Millisecond
	deadline := time.Now().Add(dur)
	pay := uint64(4100)
	for time.Now().Before(deadline) {
		if r.chance(1, 3) {
			if ll := c.leader(); ll != nil && !isoSet[ll.id] {
				pay++
				c.call(ll.id, "apply", pay, 0)
			}
		}
		time.Sleep(20 * time.Millisecond)
		for _, id := range iso {
			if t := c.nodes[id].r.CurrentTerm(); t != term0[id] {
				noteFinding(c, "C14", "isolated-server-term-increased", "server %d isolated from a majority went from term %d to %d", id, term0[id], t)
			}
		}
	}
	lb := c.leader()
	var termB uint64
	if lb != nil {
		termB = lb.r.CurrentTerm()
	}
	healSeq := c.h.add(hev{kind: "note", s: "heal"})
	c.heal()
	time.Sleep(250 * time.Millisecond)
	// rejoin: follower of the same leader, same term, and it never asked for votes
	la := c.leader()
	if lb != nil && la != nil && !isoSet[lb.id] {
		asked := false
		for _, e := range c.h.snapshot() {
			if e.seq > healSeq && e.kind == "send" && e.b == 1 && isoSet[e.node] {
				asked = true
			}
		}
		if asked {
			noteFinding(c, "C14", "rejoining-server-started-election", "a reconnected server sent RequestVote after rejoining (majority term was %d)", termB)
		}
		if la.r.CurrentTerm() != termB && asked {
			noteFinding(c, "C14", "rejoin-changed-cluster-term", "cluster term went from %d to %d after the isolated servers reconnected", termB, la.r.CurrentTerm())
		}
	}
	c.settle(500 * time.Millisecond)
	return c
}

// ---------------------------------------------------------------- C13: lease (real timers)
func scLeaseIsolation(r *rng) *cluster {
	nv := 3 + 2*r.intn(2)
	nnv := r.intn(3)
	o := timedOpts(nv, nnv)
	c := basicCluster(o)
	if !waitFor(3*time.Second, func() bool { return c.leader() != nil }) {
		return c
	}
	l := c.leader()
	c.call(l.id, "apply", 5000, 0).wait(300 * time.Millisecond)
	c.settle(300 * time.Millisecond)
	l = c.leader()
	if l == nil {
		return c
	}
	// the leader keeps fewer than a quorum of voters on its side, and possibly all non-voters
	keep := r.intn((nv+1)/2 - 0) // voters kept besides the leader: 0 .. quorum-2
	if keep > nv/2-1 {
		keep = nv/2 - 1
	}
	side := []uint64{l.id}
	var other []uint64
	for _, id := range c.ids[:nv] {
		if id == l.id {
			continue
		}
		if keep > 0 {
			side = append(side, id)
			keep--
		} else {
			other = append(other, id)
		}
	}
	for _, id := range c.ids[nv:] {
		if r.chance(2, 3) {
			side = append(side, id)
		} else {
			other = append(other, id)
		}
	}
	t0 := time.Now()
	c.partition(side, other)
	lease := o.lease
	// in half of the runs clients keep calling the isolated leader, much more often than the lease
	// lasts: the lease check must not be starved by a busy leader loop
	busy := r.chance(1, 2)
	stopLoad := make(chan struct{})
	loadDone := make(chan struct{})
	go func() {
		defer close(loadDone)
		pay := uint64(5200)
		for k := 0; busy; k++ {
			select {
			case <-stopLoad:
				return
			case <-time.After(lease / 25):
			}
			switch k % 3 {
			case 0:
				pay++
				c.call(l.id, "apply", pay, 0)
			case 1:
				l.r.VerifyLeader()
			default:
				l.r.GetConfiguration()
			}
		}
	}()
	stepped := waitFor(2*lease+400*time.Millisecond, func() bool { return l.r.State() != raft.Leader })
	close(stopLoad)
	<-loadDone
	d := time.Since(t0)
	c.h.add(hev{kind: "note", node: l.id, s: "stepdown-delay-us", a: uint64(d.Microseconds())})
	if !stepped {
		noteFinding(c, "C13", "isolated-leader-did-not-step-down", "leader %d kept leadership %v after losing its voter majority (lease %v, %d non-voters on its side, client load %v)", l.id, d, lease, len(side)-1, busy)
	} else if d > 2*lease+150*time.Millisecond {
		noteFinding(c, "C13", "isolated-leader-stepped-down-late", "leader %d stepped down after %v (lease %v)", l.id, d, lease)
	}
	if stepped {
		cc := c.call(l.id, "apply", 5001, 0)
		cc.wait(300 * time.Millisecond)
		if cc.err == nil {
			noteFinding(c, "C13", "write-accepted-after-step-down", "server %d acknowledged a write after giving up leadership", l.id)
		}
	}
	c.heal()
	waitFor(time.Second, func() bool { return c.leader() != nil })
	c.settle(500 * time.Millisecond)
	return c
}

func scHealthy(r *rng) *cluster {
	o := timedOpts(3+2*r.intn(2), r.intn(2))
	o.timeouts, o.lease = 250*time.Millisecond, 250*time.Millisecond
	c := basicCluster(o)
	if !waitFor(5*time.Second, func() bool { return c.leader() != nil }) {
		return c
	}
	time.Sleep(100 * time.Millisecond)
	l := c.leader()
	if l == nil {
		return c
	}
	term := l.r.CurrentTerm()
	mark := c.h.add(hev{kind: "note", s: "quiet-start"})
	deadline := time.Now().Add(1500 * time.Millisecond)
	k := uint64(5100)
	for time.Now().Before(deadline) {
		if r.chance(1, 4) {
			k++
			c.call(l.id, "apply", k, 0)
		}
		time.Sleep(25 * time.Millisecond)
	}
	for _, e := range c.h.snapshot() {
		if e.seq > mark && e.kind == "state" {
			noteFinding(c, "C13", "healthy-cluster-changed-leader", "server %d changed to state %d (term %d) in a fault-free run that started with leader %d in term %d", e.node, e.a, e.b, l.id, term)
		}
	}
	c.settle(500 * time.Millisecond)
	return c
}

// ---------------------------------------------------------------- snapshot + leader change (C02/C11/C12, finding F3)
func (c *cluster) reloadTrailing(id uint64, trailing uint64) {
	to := c.o.timeouts
	if to == 0 {
		to = time.Hour
	}
	c.nodes[id].r.ReloadConfig(raft.ReloadableConfig{TrailingLogs: trailing, SnapshotInterval: 100 * time.Hour, SnapshotThreshold: 1 << 40,
		HeartbeatTimeout: to, ElectionTimeout: to})
}

// old leader keeps a stale uncommitted tail; the others move on, snapshot and compact past it; the
// old leader catches up by snapshot; later it leads again and feeds a brand-new server
func scStaleTailSnapshot(r *rng) *cluster {
	maxApp := 1 + r.intn(4)
	c := newCluster(clusterOpts{voters: 3, trailing: 10240, maxAppend: maxApp, spares: 1})
	c.bootstrap()
	c.startAll()
	pay := uint64(7000)
	app := func(id uint64, k int, wait bool) {
		for i := 0; i < k; i++ {
			pay++
			cc := c.call(id, "apply", pay, 0)
			if wait {
				cc.wait(200 * time.Millisecond)
			}
		}
	}
	ids := []uint64{1, 2, 3}
	for i := range ids {
		j := r.intn(i + 1)
		ids[i], ids[j] = ids[j], ids[i]
	}
	l1, l2, f := ids[0], ids[1], ids[2]
	spare := c.spareIDs[0]
	if !c.elect(l1, time.Second) {
		return c
	}
	app(l1, 3+r.intn(4), true)
	c.settle(200 * time.Millisecond)
	// isolate the leader; it keeps accepting writes that will never commit
	c.partition([]uint64{l1}, []uint64{l2, f}, []uint64{spare})
	app(l1, 2+r.intn(5), false)
	time.Sleep(2 * time.Millisecond)
	if nl := c.electAmong(r, []uint64{l2, f}, l2); nl == nil {
		return c
	} else if nl.id != l2 {
		l2, f = f, l2
	}
	app(l2, 1+r.intn(3), true)
	// l2 snapshots past l1's stale tail and compacts its log
	app(l2, 6+r.intn(5), true)
	c.settle(200 * time.Millisecond)
	c.reloadTrailing(l2, uint64(r.intn(2)))
	c.call(l2, "snapshot", 0, 0).wait(300 * time.Millisecond)
	c.reloadTrailing(l2, 10240)
	app(l2, 1+r.intn(6), true)
	// heal: l1 catches up (by snapshot, since l2 compacted)
	c.partition([]uint64{l1, l2, f}, []uint64{spare})
	c.settle(500 * time.Millisecond)
	app(l2, 1, true)
	c.settle(300 * time.Millisecond)
	// l1 leads again
	c.call(l2, "transfer", 0, l1).wait(500 * time.Millisecond)
	waitFor(300*time.Millisecond, func() bool { return c.nodes[l1].r.State() == raft.Leader })
	if c.nodes[l1].r.State() != raft.Leader {
		c.elect(l1, 500*time.Millisecond)
	}
	// a fresh server joins: it is fed from l1's log store
	c.heal()
	if ll := c.leader(); ll != nil {
		c.call(ll.id, "addvoter", 0, spare).wait(500 * time.Millisecond)
		app(ll.id, 2, true)
	}
	c.settle(800 * time.Millisecond)
	return c
}

// ---------------------------------------------------------------- C12: convergence after faults stop (real timers)
func scConverge(r *rng) *cluster {
	nv := 3 + 2*r.intn(2)
	o := timedOpts(nv, r.intn(2))
	o.trailing = []uint64{0, 2, 100}[r.intn(3)]
	o.maxAppend = 1 + r.intn(8)
	c := basicCluster(o)
	if !waitFor(3*time.Second, func() bool { return c.leader() != nil }) {
		return c
	}
	pay := uint64(8000)
	// fault period
	end := time.Now().Add(time.Duration(200+r.intn(300)) * time.Millisecond)
	for time.Now().Before(end) {
		switch x := r.intn(10); {
		case x < 4:
			if l := c.leader(); l != nil {
				pay++
				c.call(l.id, "apply", pay, 0)
			}
		case x < 6:
			ids := append([]uint64(nil), c.ids...)
			for i := range ids {
				j := r.intn(i + 1)
				ids[i], ids[j] = ids[j], ids[i]
			}
			k := 1 + r.intn(len(ids)-1)
			c.partition(ids[:k], ids[k:])
		case x < 7:
			c.heal()
		case x < 8:
			n := c.nodes[pick(r, c.ids)]
			if n.alive {
				n.stop()
			} else {
				n.start()
			}
		case x < 9:
			al := c.aliveIDs()
			if len(al) > 0 {
				c.call(pick(r, al), "snapshot", 0, 0)
			}
		}
		time.Sleep(time.Duration(5+r.intn(25)) * time.Millisecond)
	}
	// faults stop
	c.heal()
	for _, id := range c.ids {
		if !c.nodes[id].alive {
			c.nodes[id].start()
		}
	}
	t0 := time.Now()
	mark := c.h.add(hev{kind: "note", s: "quiet"})
	bound := 20*o.timeouts + 500*time.Millisecond
	var okWrite bool
	converged := waitFor(bound, func() bool {
		l := c.leader()
		if l == nil {
			return false
		}
		if !okWrite {
			pay++
			cc := c.call(l.id, "apply", pay, 0)
			if cc.wait(100*time.Millisecond) && cc.err == nil {
				okWrite = true
			}
			return false
		}
		li := l.r.LastIndex()
		for _, id := range c.ids {
			if c.nodes[id].r.AppliedIndex() < li {
				return false
			}
		}
		return true
	})
	d := time.Since(t0)
	c.h.add(hev{kind: "note", s: "convergence-us", a: uint64(d.Microseconds())})
	if !converged {
		// livelock detector: snapshots installed again and again without progress
		inst := map[uint64]int{}
		for _, e := range c.h.snapshot() {
			if e.seq > mark && e.kind == "send" && e.b == 4 {
				inst[e.a]++
			}
		}
		worst := 0
		for _, k := range inst {
			if k > worst {
				worst = k
			}
		}
		noteFinding(c, "C12", "no-convergence-after-faults-stopped", "no single leader with every member caught up %v after the last fault (bound %v); most InstallSnapshot to one follower: %d", d, bound, worst)
	}
	return c
}

// ---------------------------------------------------------------- growing a single-voter cluster (finding F8)
func scGrowSingle(r *rng) *cluster {
	c := newCluster(clusterOpts{voters: 1, trailing: 100, maxAppend: 4, spares: 1})
	c.bootstrap()
	c.startAll()
	if !c.elect(1, time.Second) {
		return c
	}
	c.call(1, "apply", 9100, 0).wait(200 * time.Millisecond)
	// the spare cannot be reached yet: the configuration entry can only be stored by the old voter
	c.net.setBoth(1, c.spareIDs[0], linkDown)
	cc := c.call(1, "addvoter", 0, c.spareIDs[0])
	cc.wait(300 * time.Millisecond)
	time.Sleep(5 * time.Millisecond)
	c.net.setBoth(1, c.spareIDs[0], linkUp)
	c.call(1, "apply", 9101, 0).wait(300 * time.Millisecond)
	c.settle(300 * time.Millisecond)
	return c
}

// ---------------------------------------------------------------- C09: VerifyLeader
func scVerify(r *rng) *cluster {
	nv := 3 + 2*r.intn(2)
	if r.chance(1, 3) {
		nv = 5 // with three voters one reachable follower is already a majority
	}
	nnv := 1 + r.intn(2)
	c := basicCluster(clusterOpts{voters: nv, nonvoters: nnv, trailing: 100, maxAppend: 4})
	if !c.elect(pick(r, c.ids[:nv]), time.Second) {
		return c
	}
	l := c.leader()
	c.call(l.id, "apply", 9200, 0).wait(200 * time.Millisecond)
	c.settle(200 * time.Millisecond)
	// healthy: must succeed
	c.call(l.id, "verify", 0, 0).wait(300 * time.Millisecond)
	// cut the leader off from k voters (k from "one" to "all"); non-voters stay reachable
	var others []uint64
	for _, id := range c.ids[:nv] {
		if id != l.id {
			others = append(others, id)
		}
	}
	for i := range others {
		j := r.intn(i + 1)
		others[i], others[j] = others[j], others[i]
	}
	k := 1 + r.intn(len(others))
	if r.chance(1, 2) {
		// the leader keeps fewer than a quorum of voters (itself included): the call must not succeed
		k = nv/2 + 1 + r.intn(len(others)-nv/2)
		if k > len(others) {
			k = len(others)
		}
	}
	mode := r.intn(3)
	for _, id := range others[:k] {
		switch mode {
		case 0:
			c.net.setBoth(l.id, id, linkDown)
		case 1:
			c.net.set(l.id, id, linkLoseResp) // the follower hears the leader, the answers are lost
		case 2:
			c.net.set(l.id, id, linkHoldResp) // answers held, released after the call returned
		}
	}
	if r.chance(1, 3) {
		// the others elect a new leader before the call
		c.electAmong(r, others, others[0])
	}
	strict := mode == 0 && r.chance(1, 2)
	if strict {
		// links simply down: wait until nothing is in flight any more, then every acknowledgement the call
		// counts must belong to an exchange of its own
		c.settle(300 * time.Millisecond)
		c.h.add(hev{kind: "note", s: "quiet-before-verify"})
	}
	cc := c.call(l.id, "verify", 0, 0)
	if strict || r.chance(1, 2) {
		// writes while the call is pending: the reachable followers answer several exchanges, each of them
		// may be counted once only
		for i := 0; i < 4; i++ {
			c.call(l.id, "apply", uint64(9300+i), 0)
			time.Sleep(3 * time.Millisecond)
		}
	}
	cc.wait(150 * time.Millisecond)
	for _, id := range others[:k] {
		if mode == 2 {
			for i := 0; i < 4; i++ {
				c.net.release(l.id, id, true)
			}
		}
	}
	cc.wait(200 * time.Millisecond)
	// a second call while answers of earlier heartbeats may still be in flight
	if mode == 2 {
		c2 := c.call(l.id, "verify", 0, 0)
		time.Sleep(time.Millisecond)
		for _, id := range others[:k] {
			for i := 0; i < 4; i++ {
				c.net.release(l.id, id, true)
			}
		}
		c2.wait(200 * time.Millisecond)
	}
	c.heal()
	for _, id := range others {
		for i := 0; i < 8; i++ {
			c.net.release(l.id, id, true)
		}
	}
	time.Sleep(3 * time.Millisecond)
	return c
}

// ---------------------------------------------------------------- C08: barrier behind a slow FSM, definite failures
func scBarrier(r *rng) *cluster {
	c := basicCluster(clusterOpts{voters: 1 + 2*r.intn(2), trailing: 100, maxAppend: 1 + r.intn(4),
		fsmDelay: time.Duration(200+r.intn(1500)) * time.Microsecond, batchApply: r.chance(1, 2)})
	if !c.elect(1, time.Second) {
		return c
	}
	pay := uint64(9300)
	var calls []*ccall
	for round := 0; round < 2+r.intn(3); round++ {
		n := 1 + r.intn(6)
		for i := 0; i < n; i++ {
			pay++
			calls = append(calls, c.call(1, "apply", pay, 0))
		}
		// let the entries commit (the FSM is still busy), then ask for a barrier
		waitFor(100*time.Millisecond, func() bool { return c.nodes[1].r.CommitIndex() >= c.nodes[1].r.LastIndex() })
		b := c.call(1, "barrier", 0, 0)
		b.wait(500 * time.Millisecond)
		if r.chance(1, 2) {
			pay++
			calls = append(calls, c.call(1, "apply", pay, 0))
		}
	}
	for _, cc := range calls {
		cc.wait(300 * time.Millisecond)
	}
	c.settle(300 * time.Millisecond)
	return c
}

// ---------------------------------------------------------------- C20: user Restore
func scRestore(r *rng) *cluster {
	c := basicCluster(clusterOpts{voters: 3, trailing: []uint64{0, 100}[r.intn(2)], maxAppend: 1 + r.intn(4), monotonic: r.chance(1, 2), spares: 1})
	if !c.elect(1, time.Second) {
		return c
	}
	pay := uint64(9500)
	for i := 0; i < 2+r.intn(4); i++ {
		pay++
		c.call(1, "apply", pay, 0).wait(200 * time.Millisecond)
	}
	c.settle(200 * time.Millisecond)
	// a lagging follower
	lag := uint64(2 + r.intn(2))
	if r.chance(1, 2) {
		c.net.setBoth(1, lag, linkDown)
	}
	// writes in flight while the restore is requested: hold the answers of one follower so they stay uncommitted
	other := uint64(5) - lag
	if r.chance(1, 2) {
		c.net.set(1, other, linkHoldResp)
	}
	var pending []*ccall
	for i := 0; i < r.intn(4); i++ {
		pay++
		pending = append(pending, c.call(1, "apply", pay, 0))
	}
	if r.chance(1, 4) {
		pending = append(pending, c.call(1, "addvoter", 0, c.spareIDs[0]))
	}
	time.Sleep(time.Millisecond)
	last := c.nodes[1].r.LastIndex()
	idx := []uint64{0, 1, last - 1, last, last + 1, last + 10}[r.intn(6)]
	pay += 10
	rs := c.call(1, "restore", pay, idx)
	// let the restore's own no-op commit
	time.Sleep(2 * time.Millisecond)
	c.net.set(1, other, linkUp)
	for i := 0; i < 16; i++ {
		c.net.release(1, other, true)
	}
	rs.wait(500 * time.Millisecond)
	for i := 0; i < 1+r.intn(3); i++ {
		pay++
		c.call(1, "apply", pay+100, 0).wait(200 * time.Millisecond)
	}
	c.heal()
	for _, p := range pending {
		p.wait(200 * time.Millisecond)
	}
	c.settle(600 * time.Millisecond)
	return c
}

// ---------------------------------------------------------------- family 13: Figure 8 (five servers)
// A leads term T and stores two entries only on itself; E wins a later term with the votes of C and
// D, none of its AppendEntries is delivered, and stores different entries at those indices only on
// itself; A comes back and leads again with B and C: B receives everything, C only the OLD-term
// entries (a content filter on the link), D nothing.  A's old-term entries are then on a majority
// (A, B, C) but nothing of A's new term is.  A stops; E wins with C and D (its log ends in a higher
// term than theirs) and overwrites the indices.  A leader that commits by counting replicas of
// old-term entries lets B apply entries that are then replaced.
func scFigure8(r *rng) *cluster {
	c := basicCluster(clusterOpts{voters: 5, trailing: 100, maxAppend: 1, prevoteOff: true})
	note := func(f string, a ...interface{}) { c.h.add(hev{kind: "note", s: "fig8: " + fmt.Sprintf(f, a...)}) }
	ids := append([]uint64(nil), c.ids...)
	for i := range ids {
		j := r.intn(i + 1)
		ids[i], ids[j] = ids[j], ids[i]
	}
	A, B, C, D, E := ids[0], ids[1], ids[2], ids[3], ids[4]
	if !c.elect(A, 300*time.Millisecond) {
		note("A not elected")
		return c
	}
	c.call(A, "apply", 3001, 0).wait(300 * time.Millisecond)
	c.settle(200 * time.Millisecond)
	base := c.nodes[A].r.LastIndex()
	oldTerm := c.nodes[A].r.CurrentTerm()
	c.partition([]uint64{A}, []uint64{B, C, D, E})
	c.call(A, "apply", 3002, 0)
	c.call(A, "apply", 3007, 0)
	waitFor(50*time.Millisecond, func() bool { return c.nodes[A].r.LastIndex() >= base+2 })
	c.nodes[A].stop()
	clearLeaders := func(ids ...uint64) {
		for _, id := range ids {
			if c.nodes[id].alive {
				c.nodes[id].r.VerifSetLeader("", "")
			}
		}
	}
	// make cand the leader using only the votes of `voters`; candidates that lose a round are re-armed
	win := func(cand uint64, voters ...uint64) bool {
		clearLeaders(voters...)
		c.nodes[cand].r.VerifFireHeartbeatTimeout()
		for try := 0; try < 8; try++ {
			if waitFor(30*time.Millisecond, func() bool { return c.nodes[cand].r.State() == raft.Leader }) {
				return true
			}
			clearLeaders(voters...)
			if c.nodes[cand].r.State() == raft.Candidate {
				c.kickCandidate(cand)
			} else {
				c.nodes[cand].r.VerifFireHeartbeatTimeout()
			}
		}
		return c.nodes[cand].r.State() == raft.Leader
	}
	onlyVotes := func(cmd interface{}) bool {
		_, ok := cmd.(*raft.RequestVoteRequest)
		return ok
	}
	// E wins with C and D; nothing but its vote requests is delivered
	c.heal()
	c.partition([]uint64{E, C, D}, []uint64{A, B})
	c.net.setFilter(E, C, onlyVotes)
	c.net.setFilter(E, D, onlyVotes)
	if !win(E, C, D) {
		note("E did not win")
		return c
	}
	c.call(E, "apply", 3003, 0)
	c.call(E, "apply", 3004, 0)
	waitFor(50*time.Millisecond, func() bool { return c.nodes[E].r.LastIndex() >= base+3 })
	c.nodes[E].stop()
	c.net.setFilter(E, C, nil)
	c.net.setFilter(E, D, nil)
	// A returns and wins with B and C; C is only given entries of A's old term
	c.nodes[A].start()
	c.partition([]uint64{A, B, C}, []uint64{D, E})
	stored := func(node uint64, idx uint64) bool {
		for _, e := range c.h.snapshot() {
			if e.kind == "store" && e.node == node {
				for _, x := range e.ents {
					if x[0] == idx {
						return true
					}
				}
			}
		}
		return false
	}
	// C rejects what does not fit its log (that is how A learns where C is); once C holds A's old
	// entries, anything of A's new term is lost on the way to C
	c.net.setFilter(A, C, func(cmd interface{}) bool {
		if ae, ok := cmd.(*raft.AppendEntriesRequest); ok {
			for _, l := range ae.Entries {
				if l.Term > oldTerm && stored(C, base+2) {
					return false
				}
			}
		}
		return true
	})
	if !win(A, B, C) {
		note("A did not win again")
		c.net.setFilter(A, C, nil)
		c.heal()
		c.nodes[E].start()
		c.settle(300 * time.Millisecond)
		return c
	}
	ok1 := waitFor(60*time.Millisecond, func() bool { return stored(C, base+2) && stored(B, base+3) })
	time.Sleep(time.Duration(3+r.intn(4)) * time.Millisecond) // B hears the commit index A computed, if any
	note("C holds A's old-term entries up to %d and B also A's new entry: %v; B applied %d", base+2, ok1, c.nodes[B].r.AppliedIndex())
	c.nodes[A].stop()
	c.net.setFilter(A, C, nil)
	// E returns and wins with C and D, then overwrites
	c.nodes[E].start()
	c.partition([]uint64{E, C, D}, []uint64{A, B})
	if win(E, C, D) {
		c.call(E, "apply", 3005, 0).wait(300 * time.Millisecond)
	} else {
		note("E did not win at the end")
	}
	c.nodes[A].start()
	c.heal()
	if l := c.ensureLeader(r); l != nil {
		c.call(l.id, "apply", 3006, 0).wait(300 * time.Millisecond)
	}
	c.settle(400 * time.Millisecond)
	return c
}

func init() { scenarioFamilies[13] = scFigure8 }

// ---------------------------------------------------------------- family 14: pipeline replication with follower store faults
// The transport offers AppendEntriesPipeline, so after the first successful AppendEntries every replication goroutine
// runs pipelineReplicate / pipelineDecode (replication.go).  Then the log stores of one or both followers (and, when
// present, NOT the non-voter's) refuse writes for a while: the followers answer Success=false without an RPC error.
// Nothing the leader dispatches meanwhile may be committed, acknowledged or applied unless a voter majority stored it
// (history monitors commit-without-voter-majority / applied-without-voter-majority / acknowledged...); after the
// faults stop everything converges.
func scPipelineFaults(r *rng) *cluster {
	nnv := r.intn(2)
	c := basicCluster(clusterOpts{voters: 3, nonvoters: nnv, trailing: 100, maxAppend: 1 + r.intn(4), pipeline: true})
	note := func(f string, a ...interface{}) { c.h.add(hev{kind: "note", s: "pipe: " + fmt.Sprintf(f, a...)}) }
	l := c.ensureLeader(r)
	if l == nil {
		note("no leader")
		return c
	}
	for i := 0; i < 3; i++ {
		c.call(l.id, "apply", uint64(3100+i), 0).wait(300 * time.Millisecond)
	}
	c.settle(200 * time.Millisecond)
	var followers []uint64
	for _, id := range c.ids {
		if id != l.id && id <= uint64(c.o.voters) {
			followers = append(followers, id)
		}
	}
	failing := followers
	if r.chance(1, 3) {
		failing = followers[:1]
	}
	setFail := func(ids []uint64, n int) {
		for _, id := range ids {
			o := c.nodes[id].logs.orc
			o.mu.Lock()
			o.bits = make([]bool, n)
			for i := range o.bits {
				o.bits[i] = true
			}
			o.mu.Unlock()
		}
	}
	setFail(failing, 60)
	note("stores of %v refuse writes; pipelines opened so far %d", failing, atomic.LoadInt64(&c.pipesOpened))
	var pend []*ccall
	for i := 0; i < 2+r.intn(3); i++ {
		pend = append(pend, c.call(l.id, "apply", uint64(3200+i), 0))
		time.Sleep(time.Duration(r.intn(3)) * time.Millisecond)
	}
	time.Sleep(time.Duration(20+r.intn(40)) * time.Millisecond)
	setFail(failing, 0)
	note("stores healed; pipeline calls so far %d", atomic.LoadInt64(&c.pipeCalls))
	for _, p := range pend {
		p.wait(300 * time.Millisecond)
	}
	if nl := c.ensureLeader(r); nl != nil {
		c.call(nl.id, "apply", 3299, 0).wait(300 * time.Millisecond)
	}
	c.settle(400 * time.Millisecond)
	c.h.add(hev{kind: "note", s: fmt.Sprintf("pipe: pipelines opened %d, pipelined calls %d", atomic.LoadInt64(&c.pipesOpened), atomic.LoadInt64(&c.pipeCalls))})
	return c
}

func init() { scenarioFamilies[14] = scPipelineFaults }

// ---------------------------------------------------------------- family 15: a lagging voter exactly one term ahead (C12)
// Three voters with real timers.  C is cut off and falls behind; the leader A's RequestVote for the next term T+1 reaches
// only C (C grants: A's log is ahead); A crashes.  What remains is a majority that can communicate - B in term T with the
// complete log, C in term T+1 with a shorter one.  Within a bounded number of election timeouts B must be elected (its
// pre-vote for T+1 is granted by C, its election for T+1 is refused - C voted for A -, the next round succeeds) and accept writes.
func scOneTermAhead(r *rng) *cluster {
	o := timedOpts(3, 0)
	o.trailing = 100
	o.maxAppend = 1 + r.intn(4)
	c := basicCluster(o)
	note := func(f string, a ...interface{}) { c.h.add(hev{kind: "note", s: "ahead: " + fmt.Sprintf(f, a...)}) }
	if !waitFor(3*time.Second, func() bool { return c.leader() != nil }) {
		note("no first leader")
		return c
	}
	A := c.leader()
	pay := uint64(8600)
	for i := 0; i < 2; i++ {
		pay++
		c.call(A.id, "apply", pay, 0).wait(300 * time.Millisecond)
	}
	var others []uint64
	for _, id := range c.ids {
		if id != A.id {
			others = append(others, id)
		}
	}
	B, C := others[0], others[1]
	if r.chance(1, 2) {
		B, C = C, B
	}
	c.partition([]uint64{A.id, B}, []uint64{C})
	for i := 0; i < 2+r.intn(3); i++ {
		pay++
		c.call(A.id, "apply", pay, 0).wait(300 * time.Millisecond)
	}
	if c.leader() != A || A.r.State() != raft.Leader {
		note("leadership changed during the set-up")
		c.heal()
		c.settle(300 * time.Millisecond)
		return c
	}
	T := A.r.CurrentTerm()
	// A's vote request for T+1 reaches C, and only C
	tc := c.nodes[C].curTrans()
	if tc == nil {
		return c
	}
	ch := make(chan raft.RPCResponse, 1)
	req := &raft.RequestVoteRequest{RPCHeader: header(A.id, A.id), Term: T + 1, Candidate: []byte(addrStr(A.id)), LastLogIndex: A.r.LastIndex(), LastLogTerm: T}
	select {
	case tc.consumer <- raft.RPC{Command: req, RespChan: ch}:
	case <-time.After(200 * time.Millisecond):
		note("vote request not taken")
		return c
	}
	select {
	case <-ch:
	case <-time.After(300 * time.Millisecond):
	}
	A.stop()
	if c.nodes[C].r.CurrentTerm() != T+1 || c.nodes[B].r.CurrentTerm() != T {
		note("set-up missed: terms B %d C %d, wanted %d and %d", c.nodes[B].r.CurrentTerm(), c.nodes[C].r.CurrentTerm(), T, T+1)
		c.heal()
		c.nodes[A.id].start()
		c.settle(500 * time.Millisecond)
		return c
	}
	c.heal()
	c.h.add(hev{kind: "note", s: "quiet"})
	t0 := time.Now()
	bound := 20*o.timeouts + 500*time.Millisecond
	ok := waitFor(bound, func() bool {
		l := c.leader()
		if l == nil {
			return false
		}
		pay++
		cc := c.call(l.id, "apply", pay, 0)
		return cc.wait(100*time.Millisecond) && cc.err == nil
	})
	d := time.Since(t0)
	c.h.add(hev{kind: "note", s: "convergence-us", a: uint64(d.Microseconds())})
	if !ok {
		noteFinding(c, "C12", "no-leader-with-a-voter-one-term-ahead", "two of three voters can communicate (server %d in term %d with the complete log, server %d in term %d with a shorter one) and no leader accepted a write within %v (bound %v): terms now %d and %d",
			B, T, C, T+1, d, bound, c.nodes[B].r.CurrentTerm(), c.nodes[C].r.CurrentTerm())
	}
	c.nodes[A.id].start()
	c.settle(500 * time.Millisecond)
	return c
}

func init() { scenarioFamilies[15] = scOneTermAhead }

// ---------------------------------------------------------------- family 16: leadership transfers (C12, C17, C14)
// Three or five voters with real timers.
//
//	round trip:  A transfers to B, B transfers back to A; afterwards A - a stable leader with no transfer pending -
//	             must accept writes (C12: "has exactly one leader and accepts writes"; nothing of a finished transfer
//	             may linger in the leader state).
//	lost target: A transfers to B while B can hear (only) the TimeoutNow and can send nothing: the TimeoutNow is
//	             acknowledged, B campaigns alone. The LeadershipTransfer future must resolve within a bounded time
//	             while A keeps its quorum (C17); B, which cannot reach anybody, runs ONE election (the transfer's) and
//	             must not raise its term again however long it stays cut off (C14); after the links are repaired the
//	             cluster has a leader that accepts writes (C12).
func scTransfers(r *rng) *cluster {
	nv := 3
	if r.chance(1, 3) {
		nv = 5
	}
	o := timedOpts(nv, 0)
	c := basicCluster(o)
	note := func(f string, a ...interface{}) { c.h.add(hev{kind: "note", s: "transfer: " + fmt.Sprintf(f, a...)}) }
	if !waitFor(3*time.Second, func() bool { return c.leader() != nil }) {
		note("no first leader")
		return c
	}
	A := c.leader()
	pay := uint64(8800)
	for i := 0; i < 2; i++ {
		pay++
		c.call(A.id, "apply", pay, 0).wait(300 * time.Millisecond)
	}
	var others []uint64
	for _, id := range c.ids {
		if id != A.id {
			others = append(others, id)
		}
	}
	B := others[r.intn(len(others))]
	bound := 25*o.timeouts + 500*time.Millisecond
	writes := func(id uint64) (ok bool, codes map[uint64]int) {
		codes = map[uint64]int{}
		ok = waitFor(bound, func() bool {
			pay++
			cc := c.call(id, "apply", pay, 0)
			if !cc.wait(150 * time.Millisecond) {
				return false
			}
			codes[errCode(cc.err)]++
			return cc.err == nil
		})
		return ok, codes
	}
	if r.chance(1, 2) {
		// ---- round trip
		t1 := c.call(A.id, "transfer", 0, B)
		if !t1.wait(bound) {
			noteFinding(c, "C17", "leadership-transfer-future-never-resolved", "transfer %d -> %d (reachable target) did not resolve within %v", A.id, B, bound)
			return c
		}
		if !waitFor(bound, func() bool { l := c.leader(); return l != nil && l.id == B }) {
			note("first transfer did not make %d leader (err %v)", B, t1.err)
			c.settle(300 * time.Millisecond)
			return c
		}
		pay++
		c.call(B, "apply", pay, 0).wait(300 * time.Millisecond)
		t2 := c.call(B, "transfer", 0, A.id)
		if !t2.wait(bound) {
			noteFinding(c, "C17", "leadership-transfer-future-never-resolved", "transfer %d -> %d (reachable target) did not resolve within %v", B, A.id, bound)
			return c
		}
		if !waitFor(bound, func() bool { l := c.leader(); return l != nil && l.id == A.id }) {
			note("second transfer did not make %d leader again (err %v)", A.id, t2.err)
			c.settle(300 * time.Millisecond)
			return c
		}
		term := A.r.CurrentTerm()
		ok, codes := writes(A.id)
		if !ok && A.r.State() == raft.Leader && A.r.CurrentTerm() == term {
			noteFinding(c, "C12", "stable-leader-rejects-writes-after-transfers", "server %d led term %d for %v after the transfers %d -> %d -> %d had finished and answered every Apply with an error (codes %v; 5 = ErrLeadershipTransferInProgress)",
				A.id, term, bound, A.id, B, A.id, codes)
		}
		c.settle(300 * time.Millisecond)
		return c
	}
	// ---- lost target
	T := A.r.CurrentTerm()
	for _, id := range c.ids {
		if id != B {
			c.net.setFilter(B, id, func(cmd interface{}) bool { return false })
		}
	}
	for _, id := range c.ids {
		if id != B {
			c.net.setFilter(id, B, func(cmd interface{}) bool { _, ok := cmd.(*raft.TimeoutNowRequest); return ok })
		}
	}
	// B's log must be complete for the TimeoutNow to be sent at once: it is (the applies above were waited for); the
	// transfer's catch-up round needs one more AppendEntries if not - that one is dropped and the transfer fails early, which is fine
	t0 := time.Now()
	tr := c.call(A.id, "transfer", 0, B)
	resolved := tr.wait(bound)
	if !resolved && A.r.State() == raft.Leader && A.r.CurrentTerm() == T {
		noteFinding(c, "C17", "leadership-transfer-future-never-resolved", "transfer %d -> %d: the target acknowledged TimeoutNow and was cut off; server %d still leads term %d and the future has not resolved after %v",
			A.id, B, A.id, T, time.Since(t0))
	}
	// B stays cut off for a number of election timeouts
	time.Sleep(12 * o.timeouts)
	tb := c.nodes[B].r.CurrentTerm()
	if tb > T+1 {
		noteFinding(c, "C14", "isolated-transfer-target-inflates-its-term", "server %d was told to campaign (TimeoutNow) in term %d and could reach nobody: after %v its term is %d (one election, term %d, is the transfer's)",
			B, T, time.Since(t0), tb, T+1)
	}
	if resolved && A.r.State() == raft.Leader && A.r.CurrentTerm() == T {
		// the transfer is over on A: it accepts writes again
		ok, codes := writes(A.id)
		if !ok && A.r.State() == raft.Leader && A.r.CurrentTerm() == T {
			noteFinding(c, "C12", "stable-leader-rejects-writes-after-transfers", "server %d still leads term %d after its transfer to %d ended (err %v) and answered every Apply with an error (codes %v)", A.id, T, B, tr.err, codes)
		}
	}
	for _, id := range c.ids {
		if id != B {
			c.net.setFilter(B, id, nil)
			c.net.setFilter(id, B, nil)
		}
	}
	okw := waitFor(bound, func() bool {
		l := c.leader()
		if l == nil {
			return false
		}
		pay++
		cc := c.call(l.id, "apply", pay, 0)
		return cc.wait(150*time.Millisecond) && cc.err == nil
	})
	if !okw {
		noteFinding(c, "C12", "no-leader-accepts-writes-after-a-lost-transfer", "links repaired after the transfer %d -> %d: no leader accepted a write within %v", A.id, B, bound)
	}
	c.settle(300 * time.Millisecond)
	return c
}

func init() { scenarioFamilies[16] = scTransfers }

// ---------------------------------------------------------------- family 17: the lease rests on a voter that was promoted (C13)
// Two voters A, B and a non-voter C with real timers. During A's leadership C is promoted (AddVoter with the same id
// and address), then B is cut off: A and C are a majority of the three voters and C keeps answering, so the lease
// check must never depose A ("a leader whose majority keeps responding is never deposed") - whatever bookkeeping the
// replication to C carried over from the time it was a non-voter. A demotion variant checks the other direction:
// a demoted voter's answers no longer count.
func scPromotedLease(r *rng) *cluster {
	// a starved machine deposes a healthy leader too: an alarm is believed only if it repeats with timers five times as long
	c, deposed := scPromotedLeaseOnce(r, 200*time.Millisecond)
	if deposed != "" {
		c.shutdown()
		c2, again := scPromotedLeaseOnce(r, time.Second)
		if again != "" {
			noteFinding(c2, "C13", "leader-deposed-although-a-voter-majority-kept-responding", "%s (and before that with a 200ms lease: %s)", again, deposed)
		}
		return c2
	}
	return c
}

func scPromotedLeaseOnce(r *rng, lease time.Duration) (*cluster, string) {
	o := timedOpts(2, 1)
	o.timeouts, o.lease = lease, lease
	c := basicCluster(o)
	if !waitFor(5*time.Second, func() bool { return c.leader() != nil }) {
		return c, ""
	}
	A := c.leader()
	var B, C uint64
	for _, id := range c.ids {
		if id == A.id {
			continue
		}
		if int(id) <= c.o.voters {
			B = id
		} else {
			C = id
		}
	}
	if B == 0 || C == 0 {
		return c, ""
	}
	pay := uint64(8900)
	pay++
	c.call(A.id, "apply", pay, 0).wait(500 * time.Millisecond)
	pr := c.call(A.id, "addvoter", 0, C)
	if !pr.wait(2*time.Second) || pr.err != nil || A.r.State() != raft.Leader {
		c.h.add(hev{kind: "note", s: "promotion did not complete"})
		c.settle(300 * time.Millisecond)
		return c, ""
	}
	pay++
	c.call(A.id, "apply", pay, 0).wait(500 * time.Millisecond)
	term := A.r.CurrentTerm()
	c.partition([]uint64{A.id, C}, []uint64{B})
	t0 := time.Now()
	deposed := false
	for time.Since(t0) < 8*o.lease {
		if A.r.State() != raft.Leader || A.r.CurrentTerm() != term {
			deposed = true
			break
		}
		if r.chance(1, 3) {
			pay++
			c.call(A.id, "apply", pay, 0)
		}
		time.Sleep(10 * time.Millisecond)
	}
	msg := ""
	if deposed {
		msg = fmt.Sprintf("leader %d (term %d) and the promoted voter %d are 2 of 3 voters and stayed connected; %v after voter %d was cut off the leader is in state %v, term %d (lease %v)",
			A.id, term, C, time.Since(t0), B, A.r.State(), A.r.CurrentTerm(), lease)
	}
	c.heal()
	c.settle(500 * time.Millisecond)
	return c, msg
}

func init() { scenarioFamilies[17] = scPromotedLease }

// ---------------------------------------------------------------- family 19: two overlapping VerifyLeader calls (C09)
// Five voters, one-hour timers. The answers of C, D, E to the leader A are held; B answers. v1 is called: it has A and B.
// B is cut off, the cluster is quiet, v2 is called: it has A only. ONE held answer (C's) is released: v1 reaches its
// quorum of three (A, B, C); v2 has at most A and C - two of five - and must not be answered nil: each call needs its own
// majority of voters acknowledging after IT was made.
func scVerifyOverlap(r *rng) *cluster {
	c := basicCluster(clusterOpts{voters: 5, nonvoters: r.intn(2), trailing: 100, maxAppend: 4})
	if !c.elect(pick(r, c.ids[:5]), time.Second) {
		return c
	}
	l := c.leader()
	c.call(l.id, "apply", 9400, 0).wait(200 * time.Millisecond)
	c.settle(200 * time.Millisecond)
	var others []uint64
	for _, id := range c.ids[:5] {
		if id != l.id {
			others = append(others, id)
		}
	}
	for i := range others {
		j := r.intn(i + 1)
		others[i], others[j] = others[j], others[i]
	}
	B, held := others[0], others[1:]
	for _, id := range held {
		c.net.set(l.id, id, linkHoldResp)
	}
	v1 := c.call(l.id, "verify", 0, 0)
	v1.wait(30 * time.Millisecond) // pending: A and B of five
	c.net.setBoth(l.id, B, linkDown)
	c.settle(100 * time.Millisecond)
	c.h.add(hev{kind: "note", s: "quiet-before-verify"})
	v2 := c.call(l.id, "verify", 0, 0)
	v2.wait(30 * time.Millisecond)
	// one held answer comes back (it may belong to an exchange sent before v2 was made: finding F2b counts it for v2 as well)
	c.net.release(l.id, held[0], true)
	v1.wait(200 * time.Millisecond)
	v2.wait(100 * time.Millisecond)
	c.heal()
	for _, id := range others {
		for i := 0; i < 8; i++ {
			c.net.release(l.id, id, true)
		}
	}
	v1.wait(200 * time.Millisecond)
	v2.wait(200 * time.Millisecond)
	time.Sleep(3 * time.Millisecond)
	return c
}

func init() { scenarioFamilies[19] = scVerifyOverlap }

// ---------------------------------------------------------------- family 20: a deposed leader whose replication is still running (C03, C01)
// Three voters, one-hour election timers, CommitTimeout 5 ms (the replication goroutines wake up on their own).
// A leads term T and is cut off with an uncommitted tail. B is elected for T+1 by C, commits and ACKNOWLEDGES entries at
// the tail's indexes. The link A -> C is repaired and a vote request of term T+1 reaches A, whose stable store answers
// its next read of LastVoteTerm slowly: A has adopted T+1 and is Follower, but runLeader has not yet stopped the
// replication goroutines. Whatever they send in that window must not be accepted by C: it comes from a server that was
// never elected for T+1, and C holds acknowledged entries there. The history monitors (acknowledged entry replaced,
// committed entry deleted, two leaders in a term) decide.
func scDeposedStillSending(r *rng) *cluster {
	c := basicCluster(clusterOpts{voters: 3, trailing: 100, maxAppend: 4, commitTimeout: 5 * time.Millisecond})
	ids := append([]uint64(nil), c.ids...)
	for i := range ids {
		j := r.intn(i + 1)
		ids[i], ids[j] = ids[j], ids[i]
	}
	A, B, C := ids[0], ids[1], ids[2]
	if !c.elect(A, time.Second) {
		return c
	}
	pay := uint64(9500)
	pay++
	c.call(A, "apply", pay, 0).wait(300 * time.Millisecond)
	c.settle(200 * time.Millisecond)
	T := c.nodes[A].r.CurrentTerm()
	c.net.setBoth(A, B, linkDown)
	c.net.setBoth(A, C, linkDown)
	for i := 0; i < 2; i++ {
		pay++
		c.call(A, "apply", pay, 0) // the uncommitted tail of term T
	}
	time.Sleep(20 * time.Millisecond)
	l2 := c.electAmong(r, []uint64{B, C}, B)
	if l2 == nil {
		c.heal()
		c.settle(300 * time.Millisecond)
		return c
	}
	if l2.id == C {
		B, C = C, B // whichever of the two won is "B"
	}
	for i := 0; i < 2; i++ {
		pay++
		c.call(B, "apply", pay, 0).wait(300 * time.Millisecond) // acknowledged by B with C's copy
	}
	if c.nodes[A].r.State() != raft.Leader || c.nodes[A].r.CurrentTerm() != T || c.nodes[C].r.CurrentTerm() <= T {
		c.heal()
		c.settle(300 * time.Millisecond)
		return c
	}
	T1 := c.nodes[C].r.CurrentTerm()
	// A's next read of its vote record is slow; A -> C works again; a vote request of term T1 reaches A
	st := c.nodes[A].stable
	st.mu.Lock()
	st.readDelay = map[string]time.Duration{"LastVoteTerm": 60 * time.Millisecond}
	st.mu.Unlock()
	c.net.set(A, C, linkUp)
	if ta := c.nodes[A].curTrans(); ta != nil {
		ch := make(chan raft.RPCResponse, 1)
		req := &raft.RequestVoteRequest{RPCHeader: header(C, C), Term: T1, Candidate: []byte(addrStr(C)), LastLogIndex: 1, LastLogTerm: 1, LeadershipTransfer: true} // a transfer election ignores "we have a leader"
		select {
		case ta.consumer <- raft.RPC{Command: req, RespChan: ch}:
			select {
			case <-ch:
			case <-time.After(500 * time.Millisecond):
			}
		case <-time.After(200 * time.Millisecond):
		}
	}
	st.mu.Lock()
	st.readDelay = nil
	st.mu.Unlock()
	time.Sleep(30 * time.Millisecond)
	c.heal()
	c.settle(500 * time.Millisecond)
	return c
}

func init() { scenarioFamilies[20] = scDeposedStillSending }
