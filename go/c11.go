package main

// C11 (compaction arithmetic): real compactLogsWithTrailing on a stepper node over a recording
// MapLogStore vs Model/Compaction.v.
// input: first storeLast snap last trailing ; output: 0 | 1 lo hi   (the DeleteRange issued)

var c11n *node

func c11exec(cw *caseWriter, tag string, in []uint64) {
	first, storeLast, snap, last, trailing := in[0], in[1], in[2], in[3], in[4]
	if c11n == nil {
		var err error
		c11n, err = newNode(nodeOpts{id: 1}, nil, nil, nil)
		if err != nil {
			panic(err)
		}
	}
	st := c11n.logs
	// reset the store to hold first..storeLast
	st.mu.Lock()
	for k := range st.m {
		delete(st.m, k)
	}
	if first > 0 {
		for i := first; i <= storeLast; i++ {
			st.m[i] = mkLog(i, 1, 0, i)
		}
	}
	st.ops = nil
	st.mu.Unlock()
	err := c11n.r.VerifCompactLogsWithTrailing(snap, last, trailing)
	obs := []uint64{0}
	st.mu.Lock()
	ops := append([]storeOp(nil), st.ops...)
	st.mu.Unlock()
	nt := false
	if len(ops) > 0 {
		op := ops[0]
		obs = []uint64{1, op.lo, op.hi}
		nt = true
		// monitor: only entries at or below the snapshot, at least `trailing` left
		if op.hi > snap {
			cw.monitor("C11", tag, "compaction-deleted-above-snapshot", "DeleteRange(%d,%d) with snapshot index %d", op.lo, op.hi, snap)
		}
		if last >= op.hi && last-op.hi < trailing || last < op.hi {
			cw.monitor("C11", tag, "compaction-left-fewer-than-trailing", "DeleteRange(%d,%d) last=%d trailing=%d", op.lo, op.hi, last, trailing)
		}
		if len(ops) > 1 {
			cw.monitor("C11", tag, "compaction-more-than-one-delete", "%d store operations", len(ops))
		}
	}
	if err != nil {
		obs = append(obs, 99)
	}
	cw.emit(tag, 11, in, obs, nt)
}

func runC11(cw *caseWriter, tier string, seed uint64) {
	n := 0
	for first := uint64(0); first <= 8; first++ {
		for snap := uint64(0); snap <= 8; snap++ {
			for last := uint64(0); last <= 8; last++ {
				for trailing := uint64(0); trailing <= 8; trailing++ {
					storeLast := last
					if storeLast < first {
						storeLast = first
					}
					c11exec(cw, cw.tag("e"), []uint64{first, storeLast, snap, last, trailing})
					n++
				}
			}
		}
	}
	cw.stat("c11_exhaustive_cases", n)
	if c11n != nil {
		c11n.shutdown()
		c11n = nil
	}
}

// ---------------------------------------------------------------- snapshots taken in node sequences
func evSnapshot(cut int, fails []bool) []uint64 { return append([]uint64{9}, tail(cut, fails)...) }

func srvsEqual(a, b []srv) bool {
	if len(a) != len(b) {
		return false
	}
	for i := range a {
		if a[i] != b[i] {
			return false
		}
	}
	return true
}

// c11monitor: what a snapshot taken by the server must record, and what compaction may remove
func c11monitor(cw *caseWriter) func(tag string, in, obs []uint64) {
	return func(tag string, in, obs []uint64) {
		c := nsDecode(in)
		parts := nsSplit(obs)
		evs := nsEvents(in)
		if len(parts) == 0 {
			return
		}
		cur := parseState(stateOfBoot(parts[0]))
		for i, e := range evs {
			if i+1 >= len(parts) {
				break
			}
			o := parts[i+1]
			var next *nsState
			switch {
			case len(o) > 0 && o[0] == 10 && e.kind == 9:
				next = parseState(o[skipTrace(o, 2):])
				if cur != nil && next != nil && o[1] == 0 && len(next.snaps) > 0 {
					sn, cfg := next.snaps[0], next.snapCfgs[0]
					for _, p := range []string{"C11", "C10"} {
						if sn[2] != cur.sc[sCommittedIdx] || !srvsEqual(cfg, cur.committed) {
							cw.monitor(p, tag, "snapshot-records-a-configuration-that-is-not-the-committed-one", "event %d: snapshot at %d records configuration %v (index %d); the committed configuration was %v (index %d)", i, sn[0], cfg, sn[2], cur.committed, cur.sc[sCommittedIdx])
						}
						if sn[0] > cur.sc[sApplied] || sn[0] < sn[2] {
							cw.monitor(p, tag, "snapshot-index-outside-applied-history", "event %d: snapshot index %d, applied %d, configuration index %d", i, sn[0], cur.sc[sApplied], sn[2])
						}
						if int(sn[3]) != len(cur.fsm) {
							cw.monitor(p, tag, "snapshot-content-is-not-the-fsm-state", "event %d: snapshot holds %d items, the FSM held %d", i, sn[3], len(cur.fsm))
						}
					}
					// compaction: only entries at or below the snapshot, at least TrailingLogs left when that many existed
					kept := map[uint64]bool{}
					for _, l := range next.log {
						kept[l[0]] = true
					}
					removedAbove, before := false, 0
					for _, l := range cur.log {
						before++
						if !kept[l[0]] && l[0] > sn[0] {
							removedAbove = true
						}
					}
					if removedAbove {
						cw.monitor("C11", tag, "compaction-removed-entry-above-snapshot", "event %d: snapshot at %d", i, sn[0])
					}
					if uint64(before) >= c.trailing && uint64(len(next.log)) < c.trailing {
						cw.monitor("C11", tag, "compaction-left-fewer-than-trailing-logs", "event %d: %d entries left, TrailingLogs %d, %d before", i, len(next.log), c.trailing, before)
					}
					// every index up to the last is covered by the snapshot or present, contiguous above it
					last := next.sc[sLastLogIdx]
					for idx := sn[0] + 1; idx <= last; idx++ {
						if !kept[idx] {
							cw.monitor("C11", tag, "hole-above-snapshot", "event %d: index %d is neither in the log nor covered by the snapshot at %d", i, idx, sn[0])
							break
						}
					}
				}
			case len(o) > 0 && o[0] == 10:
				nresp := map[uint64]int{1: 2, 2: 2, 3: 5, 4: 3, 5: 0, 6: 5, 8: 1}[e.kind]
				if e.kind == 8 {
					continue
				}
				next = parseState(o[skipTrace(o, 1+nresp):])
			case len(o) > 0 && (o[0] == 20 || o[0] == 30):
				next = parseState(stateOfBoot(o[1:]))
			case len(o) > 0 && o[0] == 1:
				next = parseState(stateOfBoot(o))
			}
			cur = next
		}
	}
}
