package main

import (
	"time"

	"github.com/hashicorp/raft"
)

// C11 (compaction arithmetic): real compactLogsWithTrailing on a stepper node over a recording
// MapLogStore vs Model/Compaction.v.
// input: first storeLast snap last trailing ; output: 0 | 1 lo hi   (the DeleteRange issued)

var c11n *node

func c11exec(cw *caseWriter, tag string, in []uint64) {
	first, storeLast, snap, last, trailing := in[0], in[1], in[2], in[3], in[4]
	if c11n == nil {
		var err error
		c11n, err = newNode(nodeOpts{id: 1}, nil, nil, nil)
		if err != nil {
			panic(err)
		}
	}
	st := c11n.logs
	// reset the store to hold first..storeLast
	st.mu.Lock()
	for k := range st.m {
		delete(st.m, k)
	}
	if first > 0 {
		for i := first; i <= storeLast; i++ {
			st.m[i] = mkLog(i, 1, 0, i)
		}
	}
	st.ops = nil
	st.mu.Unlock()
	err := c11n.r.VerifCompactLogsWithTrailing(snap, last, trailing)
	obs := []uint64{0}
	st.mu.Lock()
	ops := append([]storeOp(nil), st.ops...)
	st.mu.Unlock()
	nt := false
	if len(ops) > 0 {
		op := ops[0]
		obs = []uint64{1, op.lo, op.hi}
		nt = true
		// monitor: only entries at or below the snapshot, at least `trailing` left
		if op.hi > snap {
			cw.monitor("C11", tag, "compaction-deleted-above-snapshot", "DeleteRange(%d,%d) with snapshot index %d", op.lo, op.hi, snap)
		}
		if last >= op.hi && last-op.hi < trailing || last < op.hi {
			cw.monitor("C11", tag, "compaction-left-fewer-than-trailing", "DeleteRange(%d,%d) last=%d trailing=%d", op.lo, op.hi, last, trailing)
		}
		if len(ops) > 1 {
			cw.monitor("C11", tag, "compaction-more-than-one-delete", "%d store operations", len(ops))
		}
	}
	if err != nil {
		obs = append(obs, 99)
	}
	cw.emit(tag, 11, in, obs, nt)
}

func runC11(cw *caseWriter, tier string, seed uint64) {
	runC11race(cw, tier, seed)
	n := 0
	for first := uint64(0); first <= 8; first++ {
		for snap := uint64(0); snap <= 8; snap++ {
			for last := uint64(0); last <= 8; last++ {
				for trailing := uint64(0); trailing <= 8; trailing++ {
					storeLast := last
					if storeLast < first {
						storeLast = first
					}
					c11exec(cw, cw.tag("e"), []uint64{first, storeLast, snap, last, trailing})
					n++
				}
			}
		}
	}
	cw.stat("c11_exhaustive_cases", n)
	if c11n != nil {
		c11n.shutdown()
		c11n = nil
	}
	runC15fail(cw, tier, seed)
	runC15big(cw, tier, seed)
	runC103(cw, tier, seed, 0) // snapshots and compaction inside the composed cluster system (Model/ClusterCommit.v, cstep true)
}

// ---------------------------------------------------------------- snapshots taken in node sequences
func evSnapshot(cut int, fails []bool) []uint64 { return append([]uint64{9}, tail(cut, fails)...) }

func srvsEqual(a, b []srv) bool {
	if len(a) != len(b) {
		return false
	}
	for i := range a {
		if a[i] != b[i] {
			return false
		}
	}
	return true
}

// c11monitor: what a snapshot taken by the server must record, and what compaction may remove
func c11monitor(cw *caseWriter) func(tag string, in, obs []uint64) {
	return func(tag string, in, obs []uint64) {
		c := nsDecode(in)
		parts := nsSplit(obs)
		evs := nsEvents(in)
		if len(parts) == 0 {
			return
		}
		cur := parseState(stateOfBoot(parts[0]))
		for i, e := range evs {
			if i+1 >= len(parts) {
				break
			}
			o := parts[i+1]
			var next *nsState
			switch {
			case len(o) > 0 && o[0] == 10 && e.kind == 9:
				next = parseState(o[skipTrace(o, 2):])
				if cur != nil && next != nil && o[1] == 0 && len(next.snaps) > 0 {
					// the snapshot just taken: the one the listing did not hold before (normally the first: newest by (term, index);
					// not so on start-up images whose snapshots carry a term above the log's)
					sn, cfg := next.snaps[0], next.snapCfgs[0]
					had := map[[4]uint64]int{}
					for _, x := range cur.snaps {
						had[x]++
					}
					for k, x := range next.snaps {
						if had[x] == 0 {
							sn, cfg = x, next.snapCfgs[k]
							break
						}
						had[x]--
					}
					for _, p := range []string{"C11", "C10"} {
						if sn[2] != cur.sc[sCommittedIdx] || !srvsEqual(cfg, cur.committed) {
							cw.monitor(p, tag, "snapshot-records-a-configuration-that-is-not-the-committed-one", "event %d: snapshot at %d records configuration %v (index %d); the committed configuration was %v (index %d)", i, sn[0], cfg, sn[2], cur.committed, cur.sc[sCommittedIdx])
						}
						if sn[0] > cur.sc[sApplied] || sn[0] < sn[2] {
							cw.monitor(p, tag, "snapshot-index-outside-applied-history", "event %d: snapshot index %d, applied %d, configuration index %d", i, sn[0], cur.sc[sApplied], sn[2])
						}
						if sn[0] < cur.sc[sLastSnapIdx] {
							// the FSM goroutine's index follows every restore: a snapshot can never be labelled below the snapshot the FSM was last restored from
							cw.monitor(p, tag, "snapshot-labelled-below-the-snapshot-the-fsm-was-restored-from", "event %d: snapshot taken at index %d, the server's last snapshot (restored into the FSM) is at %d", i, sn[0], cur.sc[sLastSnapIdx])
							if p == "C11" {
								cw.monitor("C20", tag, "snapshot-labelled-below-the-snapshot-the-fsm-was-restored-from", "event %d: snapshot taken at index %d after a restore at %d", i, sn[0], cur.sc[sLastSnapIdx])
								cw.monitor("C02", tag, "snapshot-labelled-below-the-snapshot-the-fsm-was-restored-from", "event %d: snapshot taken at index %d after a restore at %d", i, sn[0], cur.sc[sLastSnapIdx])
							}
						}
						if int(sn[3]) != len(cur.fsm) {
							cw.monitor(p, tag, "snapshot-content-is-not-the-fsm-state", "event %d: snapshot holds %d items, the FSM held %d", i, sn[3], len(cur.fsm))
						}
					}
					// compaction: only entries at or below the snapshot, at least TrailingLogs left when that many existed
					kept := map[uint64]bool{}
					for _, l := range next.log {
						kept[l[0]] = true
					}
					removedAbove, removedTrailing, before := false, uint64(0), 0
					lastBefore := cur.sc[sLastLogIdx]
					for _, l := range cur.log {
						before++
						if !kept[l[0]] && l[0] > sn[0] {
							removedAbove = true
						}
						// the TrailingLogs window: the last TrailingLogs indices of the log (a log with a gap below an installed
						// snapshot holds fewer entries than indices there: what counts is that none of the window is removed)
						if !kept[l[0]] && l[0]+c.trailing > lastBefore && removedTrailing == 0 {
							removedTrailing = l[0]
						}
					}
					if removedAbove {
						cw.monitor("C11", tag, "compaction-removed-entry-above-snapshot", "event %d: snapshot at %d", i, sn[0])
					}
					if removedTrailing != 0 {
						cw.monitor("C11", tag, "compaction-left-fewer-than-trailing-logs", "event %d: entry %d removed, last index %d, TrailingLogs %d (%d entries left, %d before)", i, removedTrailing, lastBefore, c.trailing, len(next.log), before)
					}
					// every index up to the last is covered by the snapshot or present, contiguous above it
					last := next.sc[sLastLogIdx]
					for idx := sn[0] + 1; idx <= last; idx++ {
						if !kept[idx] {
							cw.monitor("C11", tag, "hole-above-snapshot", "event %d: index %d is neither in the log nor covered by the snapshot at %d", i, idx, sn[0])
							break
						}
					}
				}
			case len(o) > 0 && o[0] == 10:
				nresp := map[uint64]int{1: 2, 2: 2, 3: 5, 4: 3, 5: 0, 6: 5, 8: 1}[e.kind]
				if e.kind == 8 {
					continue
				}
				next = parseState(o[skipTrace(o, 1+nresp):])
				if e.kind == 4 && !e.short && len(o) > 2 && o[2] == 1 && next != nil {
					// an InstallSnapshot answered success: the snapshot now stored carries the index and the term of the history's entry at
					// that index - the request's LastLogIndex / LastLogTerm - whatever term the sender is in
					found, other := false, uint64(0)
					for _, x := range next.snaps {
						if x[0] == e.li && x[1] == e.lt {
							found = true
						} else if x[0] == e.li {
							other = x[1]
						}
					}
					if !found && other != 0 {
						for _, p := range []string{"C11", "C10", "C02"} {
							cw.monitor(p, tag, "installed-snapshot-records-another-term-than-the-history", "event %d: InstallSnapshot (last index %d, last term %d, sender's term %d) stored a snapshot at %d with term %d", i, e.li, e.lt, e.term, e.li, other)
						}
					}
				}
			case len(o) > 0 && (o[0] == 20 || o[0] == 30):
				next = parseState(stateOfBoot(o[1:]))
			case len(o) > 0 && o[0] == 1:
				next = parseState(stateOfBoot(o))
			}
			cur = next
		}
	}
}

// ---------------------------------------------------------------- component 1011: a snapshot racing a configuration commit
// The FSM goroutine is held inside Apply; takeSnapshot starts; an AppendEntries then stores and
// commits a configuration entry; the FSM is released.  Whatever the interleaving, a snapshot that is
// written must carry the configuration of the committed history AT ITS INDEX: the last
// configuration entry at or below the snapshot index (monitored; no model replay).
func c11race(cw *caseWriter, tag string, seed uint64) {
	r := &rng{s: seed}
	cfg0 := cfgSAB
	cfg1 := []srv{{0, 1, 1}, {0, 2, 2}, {0, 3, 3}, {1, 4, 4}}
	logs, stable, snaps := NewMapLogStore(nil), NewMapStable(), NewSnapStore()
	logs.m[1] = &raft.Log{Index: 1, Term: 1, Type: raft.LogConfiguration, Data: raft.EncodeConfiguration(mkConfig(cfg0))}
	stable.kvInt["CurrentTerm"] = 3
	n, err := newNode(nodeOpts{id: 1, trailing: uint64(r.intn(3)), maxAppend: 4}, logs, stable, snaps)
	if err != nil {
		return
	}
	defer n.shutdown()
	n.fsm.gate = make(chan struct{})
	n.r.VerifStartFSM()
	stop := make(chan struct{})
	go n.r.VerifServeConfigurations(stop)
	defer close(stop)
	send := func(prevIdx, prevTerm uint64, es []*raft.Log, commit uint64) {
		req := &raft.AppendEntriesRequest{RPCHeader: header(3, 3), Term: 3, PrevLogEntry: prevIdx, PrevLogTerm: prevTerm, Entries: es, LeaderCommitIndex: commit}
		n.r.VerifProcessRPC(req, nil)
	}
	// two commands: the FSM goroutine takes the first and waits at the gate
	send(1, 1, []*raft.Log{mkLog(2, 3, 0, 302), mkLog(3, 3, 0, 303)}, 3)
	time.Sleep(time.Duration(100+r.intn(400)) * time.Microsecond)
	type res struct {
		id  string
		err error
	}
	done := make(chan res, 1)
	go func() { id, err := n.r.VerifTakeSnapshot(); done <- res{id, err} }()
	time.Sleep(time.Duration(200+r.intn(1500)) * time.Microsecond)
	// the configuration entry (index 4) and a command, both committed
	// (in half of the runs plain commands: a snapshot below lastApplied is then allowed to complete)
	withCfg := r.chance(1, 2)
	cfgEntry := &raft.Log{Index: 4, Term: 3, Type: raft.LogConfiguration, Data: raft.EncodeConfiguration(mkConfig(cfg1))}
	if !withCfg {
		cfgEntry = mkLog(4, 3, 0, 304)
	}
	send(3, 3, []*raft.Log{cfgEntry, mkLog(5, 3, 0, 305)}, 5)
	time.Sleep(time.Duration(r.intn(500)) * time.Microsecond)
	close(n.fsm.gate)
	var out res
	select {
	case out = <-done:
	case <-time.After(2 * time.Second):
		cw.monitor("C11", tag, "takesnapshot-did-not-return", "racing snapshot did not return within 2 s")
		return
	}
	obs := []uint64{b2u(out.err == nil)}
	if out.err == nil {
		metas, _ := snaps.List()
		if len(metas) > 0 {
			m := metas[0]
			obs = append(obs, m.Index, m.ConfigurationIndex, uint64(len(m.Configuration.Servers)))
			wantIdx, want := uint64(1), cfg0
			if m.Index >= 4 && withCfg {
				wantIdx, want = 4, cfg1
			}
			// C11: every index above the newest snapshot is still in the log (compaction removes only what the snapshot covers)
			logs.mu.Lock()
			for idx := m.Index + 1; idx <= n.r.LastIndex(); idx++ {
				if _, ok := logs.m[idx]; !ok {
					cw.monitor("C11", tag, "index-neither-in-snapshot-nor-in-log", "newest snapshot at index %d, last index %d, index %d is in neither", m.Index, n.r.LastIndex(), idx)
					// C12: a follower that needs that entry gets the same snapshot again and again (setupAppendEntries: ErrLogNotFound)
					cw.monitor("C12", tag, "index-neither-in-snapshot-nor-in-log", "newest snapshot at index %d, last index %d, index %d is in neither: a follower at %d can be sent neither the entry nor a newer snapshot", m.Index, n.r.LastIndex(), idx, m.Index)
					break
				}
			}
			logs.mu.Unlock()
			got := encConfig(m.Configuration)
			if m.ConfigurationIndex != wantIdx || !c15eqInts(got, encSrvs(want)) {
				cw.monitor("C11", tag, "snapshot-configuration-is-not-that-of-its-index", "snapshot at index %d records configuration index %d with %d servers; the last configuration entry at or below %d is index %d with %d servers",
					m.Index, m.ConfigurationIndex, len(m.Configuration.Servers), m.Index, wantIdx, len(want))
			}
		}
	}
	cw.emit(tag, 1011, []uint64{seed, b2u(withCfg)}, obs, out.err == nil)
}

func runC11race(cw *caseWriter, tier string, seed uint64) {
	cnt := 60
	if tier != "quick" {
		cnt = 1500
	}
	r := &rng{s: seed*131 + 7}
	for i := 0; i < cnt; i++ {
		c11race(cw, cw.tag("z"), r.next()%1000000+1)
	}
	cw.stat("c11_snapshot_races", cnt)
}
