package main

// C11 (compaction arithmetic): real compactLogsWithTrailing on a stepper node over a recording
// MapLogStore vs Model/Compaction.v.
// input: first storeLast snap last trailing ; output: 0 | 1 lo hi   (the DeleteRange issued)

var c11n *node

func c11exec(cw *caseWriter, tag string, in []uint64) {
	first, storeLast, snap, last, trailing := in[0], in[1], in[2], in[3], in[4]
	if c11n == nil {
		var err error
		c11n, err = newNode(nodeOpts{id: 1}, nil, nil, nil)
		if err != nil {
			panic(err)
		}
	}
	st := c11n.logs
	// reset the store to hold first..storeLast
	st.mu.Lock()
	for k := range st.m {
		delete(st.m, k)
	}
	if first > 0 {
		for i := first; i <= storeLast; i++ {
			st.m[i] = mkLog(i, 1, 0, i)
		}
	}
	st.ops = nil
	st.mu.Unlock()
	err := c11n.r.VerifCompactLogsWithTrailing(snap, last, trailing)
	obs := []uint64{0}
	st.mu.Lock()
	ops := append([]storeOp(nil), st.ops...)
	st.mu.Unlock()
	nt := false
	if len(ops) > 0 {
		op := ops[0]
		obs = []uint64{1, op.lo, op.hi}
		nt = true
		// monitor: only entries at or below the snapshot, at least `trailing` left
		if op.hi > snap {
			cw.monitor("C11", tag, "compaction-deleted-above-snapshot", "DeleteRange(%d,%d) with snapshot index %d", op.lo, op.hi, snap)
		}
		if last >= op.hi && last-op.hi < trailing || last < op.hi {
			cw.monitor("C11", tag, "compaction-left-fewer-than-trailing", "DeleteRange(%d,%d) last=%d trailing=%d", op.lo, op.hi, last, trailing)
		}
		if len(ops) > 1 {
			cw.monitor("C11", tag, "compaction-more-than-one-delete", "%d store operations", len(ops))
		}
	}
	if err != nil {
		obs = append(obs, 99)
	}
	cw.emit(tag, 11, in, obs, nt)
}

func runC11(cw *caseWriter, tier string, seed uint64) {
	n := 0
	for first := uint64(0); first <= 8; first++ {
		for snap := uint64(0); snap <= 8; snap++ {
			for last := uint64(0); last <= 8; last++ {
				for trailing := uint64(0); trailing <= 8; trailing++ {
					storeLast := last
					if storeLast < first {
						storeLast = first
					}
					c11exec(cw, cw.tag("e"), []uint64{first, storeLast, snap, last, trailing})
					n++
				}
			}
		}
	}
	cw.stat("c11_exhaustive_cases", n)
	if c11n != nil {
		c11n.shutdown()
		c11n = nil
	}
}
