package main

import (
	"bufio"
	"fmt"
	"os"
	"strconv"
	"strings"
	"time"
)

func itoa(n int) string { return strconv.Itoa(n) }

// replay: re-execute the inputs of a case file (lines "<tag> <comp> ints...") on the implementation
func replay(cw *caseWriter, path string) {
	f, err := os.Open(path)
	if err != nil {
		panic(err)
	}
	defer f.Close()
	sc := bufio.NewScanner(f)
	sc.Buffer(make([]byte, 1<<20), 1<<26)
	for sc.Scan() {
		fs := strings.Fields(strings.SplitN(sc.Text(), "|", 2)[0])
		if len(fs) < 2 || strings.HasPrefix(fs[0], "#") {
			continue
		}
		comp, _ := strconv.Atoi(fs[1])
		var in []uint64
		for _, x := range fs[2:] {
			v, _ := strconv.ParseUint(x, 10, 64)
			in = append(in, v)
		}
		tag := fs[0]
		switch comp {
		case 19, 1900:
			c19exec(cw, strings.TrimRight(tag, "cb"), in)
		case 1:
			c01clExec(cw, tag, in)
		case 1015:
			if len(in) == 2 {
				dir, err := os.MkdirTemp("", "c15failr")
				if err == nil {
					c15failCase(cw, tag, dir+"/s", in[0], int(in[1]))
					os.RemoveAll(dir)
				}
			}
		case 104:
			in2, obs, leaders := c101RunI(in, true, in[0]+1, true)
			c102monitorI(cw, tag, in2, obs, true, true)
			cw.emit(tag, 104, in2, obs, leaders >= 1)
		case 103:
			in2, obs, leaders := c101RunT(in, true, in[0]+1)
			c102monitorS(cw, tag, in2, obs, true)
			cw.emit(tag, 103, in2, obs, leaders >= 1)
		case 102:
			in2, obs, leaders := c101Run(in, true)
			c102monitor(cw, tag, in2, obs)
			cw.emit(tag, 102, in2, obs, leaders >= 1)
		case 101:
			in2, obs, leaders := c101Run(in, false)
			c101monitor(cw, tag, in2, obs)
			cw.emit(tag, 101, in2, obs, leaders >= 1)
		case 5:
			c05exec(cw, tag, in)
		case 6:
			nsRun(cw, tag, in, func(tag string, in, obs []uint64) {
				c06monitor(cw)(tag, in, obs)
				c04monitor(cw)(tag, in, obs)
				c07nMonitor(cw)(tag, in, obs)
				c10monitor(cw)(tag, in, obs)
				c12monitor(cw)(tag, in, obs)
				c11monitor(cw)(tag, in, obs)
			})
		case 7:
			c07exec(cw, tag, in, true)
		case 11:
			c11exec(cw, tag, in)
		case 12:
			c12replay(cw, tag, in)
		case 1201:
			cvExec(cw, tag, in)
		case 14, 1401:
			c14replay(cw, tag, in)
		case 8:
			lsRun(cw, tag, in, false)
		case 16:
			c16exec(cw, tag, in)
		case 15, 1501, 1502:
			c15exec(cw, tag, comp, in)
		case 17:
			c17exec(cw, tag, in)
		case 18, 1801, 1018:
			c18exec(cw, tag, comp, in)
		case 1011:
			c11race(cw, tag, in[0])
		case 1001, 1002, 1003, 1004, 1005, 1006, 1007, 1008, 1009, 1010, 1012, 1013, 1014, 1016, 1017, 1019, 1020:
			res := runScenario(int(in[0]), in[1])
			cw.emit(tag, comp, in, []uint64{uint64(res.events), uint64(res.leaders), uint64(res.acks), uint64(res.crashes), uint64(len(res.findings))}, true)
			for _, f := range res.findings {
				cw.monitor(f.prop, tag, f.sig, "%s", f.text)
			}
		default:
			fmt.Fprintln(os.Stderr, "replay: unknown component", comp)
		}
	}
}

// harness <component> <tier> <seed> <outfile>
// harness replay <casefile> - <outfile>
func main() {
	if len(os.Args) >= 2 && os.Args[1] == "c15child" {
		c15child(os.Args[2:])
		return
	}
	if len(os.Args) >= 2 && os.Args[1] == "c14batch" {
		c14Batch()
		return
	}
	if len(os.Args) >= 2 && os.Args[1] == "c15failchild" {
		c15failChild(os.Args[2:])
		return
	}
	if len(os.Args) >= 2 && os.Args[1] == "c104batch" {
		c104Batch()
		return
	}
	if len(os.Args) >= 2 && os.Args[1] == "c103batch" {
		c103Batch()
		return
	}
	if len(os.Args) >= 2 && os.Args[1] == "c102batch" {
		c102Batch()
		return
	}
	if len(os.Args) >= 2 && os.Args[1] == "c101batch" {
		c101Batch()
		return
	}
	if len(os.Args) >= 2 && os.Args[1] == "c01clbatch" {
		c01clBatch()
		return
	}
	if len(os.Args) >= 2 && os.Args[1] == "c17cell" {
		c17child(os.Args[2:])
		return
	}
	if len(os.Args) < 5 {
		fmt.Fprintln(os.Stderr, "usage: harness <component> <quick|thorough> <seed> <outfile>")
		os.Exit(2)
	}
	comp, tier := os.Args[1], os.Args[2]
	seed, _ := strconv.ParseUint(os.Args[3], 10, 64)
	cw := newCaseWriter(os.Args[4])
	defer cw.close()
	switch comp {
	case "replay":
		replay(cw, tier)
	case "c19":
		runC19(cw, tier, seed)
	case "c05":
		runC05(cw, tier, seed)
	case "c06":
		runC06(cw, tier, seed)
	case "c04":
		runC04(cw, tier, seed)
	case "c01":
		runC01(cw, tier, seed)
	case "c14":
		runC14(cw, tier, seed)
	case "c13":
		runC13(cw, tier, seed)
	case "c10":
		runC10(cw, tier, seed)
	case "c12":
		runC12(cw, tier, seed)
	case "c02":
		runC02(cw, tier, seed)
	case "c08":
		runC08(cw, tier, seed)
	case "c03":
		runC03(cw, tier, seed)
	case "c09":
		runC09(cw, tier, seed)
	case "c20":
		runC20(cw, tier, seed)
	case "c16":
		runC16(cw, tier, seed)
	case "c15":
		runC15(cw, tier, seed)
	case "c15fail":
		runC15fail(cw, tier, seed)
	case "c104":
		runC104(cw, tier, seed, 0)
	case "c103":
		runC103(cw, tier, seed, 0)
	case "c102":
		runC102(cw, tier, seed, 0)
	case "c101":
		runC101(cw, tier, seed)
	case "c01cl":
		runC01cluster(cw, tier, seed)
	case "c17":
		runC17(cw, tier, seed)
	case "c18":
		runC18(cw, tier, seed)
	case "c07":
		runC07(cw, tier, seed)
	case "c11":
		runC11(cw, tier, seed)
	case "dump":
		r := &rng{s: seed}
		_ = r
		c := scenarioFamilies[13](&rng{s: seed*1000003 + 7})
		c.shutdown()
		dumpHistory(c, 3000)
		fmt.Println(c.monitor())
	case "demo":
		t0 := time.Now()
		runScenarios(cw, 20, seed, 12, 6)
		fmt.Println("elapsed", time.Since(t0))
	default:
		fmt.Fprintln(os.Stderr, "unknown component", comp)
		os.Exit(2)
	}
}
