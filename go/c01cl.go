package main

import (
	"bufio"
	"bytes"
	"errors"
	"fmt"
	"io"
	"os"
	"runtime"
	"strconv"
	"strings"
	"sync"
	"time"

	"github.com/hashicorp/raft"
)

// component 1 — election scripts on a REAL cluster, compared with the composed cluster model
// (Model/Cluster.v: gstep).  n real servers (raft.NewRaft, every goroutine running, one-hour
// timers, pre-vote off) over a transport in which every RequestVote call is held twice: until the
// script lets the request reach its target, and again until the script lets the response return
// (or loses it).  Every other outgoing RPC fails (leaders' AppendEntries never arrive); the script
// injects the RPCs it wants.
//
//	input : n ; extra_1 .. extra_n (log length beyond the configuration entry) ; ops
//	ops   : 1 i          timer fires at i (heartbeat timeout / election timeout)
//	        2 i j        i's vote request is executed by j
//	        3 i j        j's answer reaches i
//	        4 j t c li lt   a stray RequestVote (term t, candidate c, last log (li, lt)) is executed by j
//	        5 j          j restarts
//	        6 j t l      an empty AppendEntries of term t from leader l is executed by j
//	observed per op: 1 ; per server: role term voteTerm voteCand+1 lastIndex ; number of Leader transitions so far
//
// The generator is adaptive (it only emits ops the real cluster can perform now); the model must
// find every op enabled and reach the same states.

type evCall struct {
	from, to uint64
	inst     int
	stage    int // 0 waiting to be delivered, 1 executed (answer held), 2 finished
	deliver  chan bool
	respGo   chan bool
}

type evNode struct {
	id       uint64
	r        *raft.Raft
	trans    *evTrans
	logs     *MapLogStore
	stable   *MapStable
	snaps    *SnapStore
	fsm      *RecFSM
	inst     int
	wasLdr   bool
	lastSeen uint64
}

type evCluster struct {
	mu      sync.Mutex
	n       int
	nodes   map[uint64]*evNode
	calls   map[[2]uint64]*evCall // the latest call per link
	leaders int
	lost    bool                 // the script lost control of the cluster's timing: it ends
	driven  map[uint64]*evDriven // by goroutine id: replicateTo calls run by the script (component 102)
	trail   uint64               // TrailingLogs of every server (0 = the default 100)
}

// one replicateTo(follower, lastIndex) call run by the script in its own goroutine
type evDriven struct {
	from, to, last uint64
	inst           int
	req            *raft.AppendEntriesRequest
	parked         chan struct{}                    // a request was built and waits in the transport
	verdict        chan *raft.AppendEntriesResponse // the follower's answer, or nil: the call fails
	done           chan struct{}                    // replicateTo returned
	// component 104: the call may turn to sendLatestSnapshot
	snapsOK  bool
	sreq     *raft.InstallSnapshotRequest
	sdata    []byte
	sverdict chan *raft.InstallSnapshotResponse
}

func goid() uint64 {
	var buf [64]byte
	n := runtime.Stack(buf[:], false)
	f := strings.Fields(string(buf[:n]))
	if len(f) < 2 {
		return 0
	}
	id, _ := strconv.ParseUint(f[1], 10, 64)
	return id
}

type evTrans struct {
	c        *evCluster
	id       uint64
	inst     int
	consumer chan raft.RPC
	dead     bool
}

var errEv = errors.New("not delivered")

func (t *evTrans) Consumer() <-chan raft.RPC                                { return t.consumer }
func (t *evTrans) LocalAddr() raft.ServerAddress                            { return addrStr(t.id) }
func (t *evTrans) EncodePeer(id raft.ServerID, a raft.ServerAddress) []byte { return []byte(a) }
func (t *evTrans) DecodePeer(b []byte) raft.ServerAddress                   { return raft.ServerAddress(b) }
func (t *evTrans) SetHeartbeatHandler(cb func(rpc raft.RPC))                {}
func (t *evTrans) AppendEntriesPipeline(id raft.ServerID, target raft.ServerAddress) (raft.AppendPipeline, error) {
	return nil, raft.ErrPipelineReplicationNotSupported
}
func (t *evTrans) AppendEntries(id raft.ServerID, target raft.ServerAddress, args *raft.AppendEntriesRequest, resp *raft.AppendEntriesResponse) error {
	// component 102: a replicateTo call driven by the script parks here until the script returns
	// the follower's answer or makes the call fail; the server's own replication goroutines never get through
	c := t.c
	if c.driven == nil {
		return errEv
	}
	c.mu.Lock()
	d := c.driven[goid()]
	c.mu.Unlock()
	if d == nil {
		return errEv
	}
	// replicateTo reuses one request variable for all its iterations: keep a copy
	cp := *args
	cp.Entries = append([]*raft.Log(nil), args.Entries...)
	d.req = &cp
	d.sreq = nil
	d.parked <- struct{}{}
	v := <-d.verdict
	if v == nil {
		return errEv
	}
	*resp = *v
	return nil
}
func (t *evTrans) InstallSnapshot(id raft.ServerID, target raft.ServerAddress, args *raft.InstallSnapshotRequest, resp *raft.InstallSnapshotResponse, data io.Reader) error {
	// component 104: the snapshot call of a replicateTo run by the script parks like its AppendEntries calls
	c := t.c
	if c.driven == nil {
		return errEv
	}
	c.mu.Lock()
	d := c.driven[goid()]
	c.mu.Unlock()
	if d == nil || !d.snapsOK {
		return errEv
	}
	cp := *args
	d.sreq = &cp
	d.sdata, _ = io.ReadAll(data)
	d.req = nil
	d.parked <- struct{}{}
	v := <-d.sverdict
	if v == nil {
		return errEv
	}
	*resp = *v
	return nil
}
func (t *evTrans) TimeoutNow(id raft.ServerID, target raft.ServerAddress, args *raft.TimeoutNowRequest, resp *raft.TimeoutNowResponse) error {
	return errEv
}
func (t *evTrans) RequestPreVote(id raft.ServerID, target raft.ServerAddress, args *raft.RequestPreVoteRequest, resp *raft.RequestPreVoteResponse) error {
	return errEv
}

func (t *evTrans) RequestVote(id raft.ServerID, target raft.ServerAddress, args *raft.RequestVoteRequest, resp *raft.RequestVoteResponse) error {
	c := t.c
	to := addrNum(target)
	call := &evCall{from: t.id, to: to, inst: t.inst, deliver: make(chan bool, 1), respGo: make(chan bool, 1)}
	c.mu.Lock()
	if old := c.calls[[2]uint64{t.id, to}]; old != nil && old.stage < 2 {
		old.cancel()
	}
	c.calls[[2]uint64{t.id, to}] = call
	c.mu.Unlock()
	if !<-call.deliver {
		return errEv
	}
	out, err := c.execute(to, args)
	c.mu.Lock()
	call.stage = 1
	c.mu.Unlock()
	if !<-call.respGo {
		return errEv
	}
	c.mu.Lock()
	call.stage = 2
	c.mu.Unlock()
	if err != nil {
		return err
	}
	*resp = *(out.(*raft.RequestVoteResponse))
	return nil
}

func (k *evCall) cancel() {
	select {
	case k.deliver <- false:
	default:
	}
	select {
	case k.respGo <- false:
	default:
	}
	k.stage = 2
}

// run an RPC at a server through its consumer channel
func (c *evCluster) execute(to uint64, cmd interface{}) (interface{}, error) {
	return c.executeR(to, cmd, nil)
}

func (c *evCluster) executeR(to uint64, cmd interface{}, body io.Reader) (interface{}, error) {
	c.mu.Lock()
	n := c.nodes[to]
	var t *evTrans
	if n != nil {
		t = n.trans
	}
	c.mu.Unlock()
	if t == nil || t.dead {
		return nil, errEv
	}
	ch := make(chan raft.RPCResponse, 1)
	select {
	case t.consumer <- raft.RPC{Command: cmd, Reader: body, RespChan: ch}:
	case <-time.After(2 * time.Second):
		return nil, errEv
	}
	select {
	case r := <-ch:
		return r.Response, r.Error
	case <-time.After(2 * time.Second):
		return nil, errEv
	}
}

func (c *evCluster) startNode(n *evNode) {
	n.inst++
	n.trans = &evTrans{c: c, id: n.id, inst: n.inst, consumer: make(chan raft.RPC, 16)}
	tl := uint64(100)
	if c.trail != 0 {
		tl = c.trail - 1
	}
	cf := baseConfig(nodeOpts{id: n.id, trailing: tl, maxAppend: 4, prevoteOff: true})
	n.fsm = &RecFSM{}
	r, err := raft.NewRaft(cf, n.fsm, n.logs, n.stable, n.snaps, n.trans)
	if err != nil {
		panic(err)
	}
	n.r = r
	n.wasLdr = false
}

func newEvCluster(extras []uint64) *evCluster { return newEvClusterT(extras, 0) }

// trail = TrailingLogs + 1 (0: the default)
func newEvClusterT(extras []uint64, trail uint64) *evCluster {
	c := &evCluster{n: len(extras), nodes: map[uint64]*evNode{}, calls: map[[2]uint64]*evCall{}, trail: trail}
	var cfg []srv
	for i := 1; i <= c.n; i++ {
		cfg = append(cfg, srv{0, uint64(i), uint64(i)})
	}
	for i := 1; i <= c.n; i++ {
		n := &evNode{id: uint64(i), logs: NewMapLogStore(nil), stable: NewMapStable(), snaps: NewSnapStore()}
		n.logs.m[1] = &raft.Log{Index: 1, Term: 1, Type: raft.LogConfiguration, Data: raft.EncodeConfiguration(mkConfig(cfg))}
		for k := uint64(2); k <= extras[i-1]+1; k++ {
			n.logs.m[k] = mkLog(k, 1, 0, 100+k)
		}
		n.stable.kvInt["CurrentTerm"] = 1
		c.nodes[n.id] = n
		c.startNode(n)
	}
	return c
}

func (c *evCluster) close() {
	c.mu.Lock()
	for _, k := range c.calls {
		if k.stage < 2 {
			k.cancel()
		}
	}
	c.mu.Unlock()
	for _, n := range c.nodes {
		n.trans.dead = true
		done := make(chan struct{})
		go func(r *raft.Raft) { r.Shutdown().Error(); close(done) }(n.r)
		select {
		case <-done:
		case <-time.After(time.Second):
		}
	}
}

func (c *evCluster) cancelFrom(i uint64) {
	c.mu.Lock()
	for key, k := range c.calls {
		if key[0] == i && k.stage < 2 {
			k.cancel()
		}
	}
	c.mu.Unlock()
}

func (c *evCluster) pendingFrom(i uint64, stage int) []uint64 {
	c.mu.Lock()
	defer c.mu.Unlock()
	var out []uint64
	for j := uint64(1); j <= uint64(c.n); j++ {
		if k := c.calls[[2]uint64{i, j}]; k != nil && k.stage == stage && k.inst == c.nodes[i].inst {
			out = append(out, j)
		}
	}
	return out
}

func (c *evCluster) snapshot() []uint64 {
	var out []uint64
	for i := uint64(1); i <= uint64(c.n); i++ {
		n := c.nodes[i]
		t, vt, vc := n.stable.Triple()
		_ = t
		vcand := uint64(0)
		n.stable.mu.Lock()
		_, has := n.stable.kv["LastVoteCand"]
		n.stable.mu.Unlock()
		if has {
			vcand = vc + 1
		}
		out = append(out, uint64(n.r.State()), n.r.CurrentTerm(), vt, vcand, n.r.LastIndex())
	}
	return out
}

// evQuiet: every goroutine of the process but the caller is blocked (select, channel, timer,
// mutex ...): nothing can move until the script does something.  Decisive whatever the machine
// load, provided nothing else runs in this process (the scripts run in child processes, one at a
// time).  Leaders' replication goroutines wake on their back-off timers, fail (no AppendEntries
// is delivered) and block again; they never change what is observed.
var evStackBuf = make([]byte, 4<<20)

func evQuiet() bool {
	n := runtime.Stack(evStackBuf, true)
	running, active := 0, 0
	for _, blk := range bytes.Split(evStackBuf[:n], []byte("\n\n")) {
		if !bytes.HasPrefix(blk, []byte("goroutine ")) {
			continue
		}
		i, j := bytes.IndexByte(blk, '['), bytes.IndexByte(blk, ']')
		if i < 0 || j < i {
			continue
		}
		st := blk[i+1 : j]
		switch {
		case bytes.HasPrefix(st, []byte("running")):
			running++
		case bytes.HasPrefix(st, []byte("runnable")):
			active++
		case bytes.HasPrefix(st, []byte("syscall")):
			if !bytes.Contains(blk, []byte("os/signal")) {
				active++
			}
		}
	}
	return running <= 1 && active == 0
}

var evAlone = false // set in the child processes: the quiescence test is meaningful
var evFallbacks = 0

// wait until nothing moves any more
func (c *evCluster) settle() []uint64 {
	c.waitQuiet()
	return c.settled()
}

func (c *evCluster) waitQuiet() {
	var prev []uint64
	same := 0
	quietSeen := !evAlone
	for i := 0; i < 4000 && !(same >= 4 && quietSeen); i++ {
		time.Sleep(150 * time.Microsecond)
		if evAlone {
			quietSeen = evQuiet()
			if !quietSeen {
				same = 0
				if i == 3999 {
					evFallbacks++
				}
				continue
			}
		}
		cur := c.snapshot()
		c.mu.Lock()
		cur = append(cur, uint64(len(c.calls)))
		for a := uint64(1); a <= uint64(c.n); a++ {
			// in key order: map iteration order is random
			for b := uint64(1); b <= uint64(c.n); b++ {
				if k := c.calls[[2]uint64{a, b}]; k != nil {
					cur = append(cur, a, b, uint64(k.stage))
				}
			}
		}
		c.mu.Unlock()
		if c15eqInts(cur, prev) {
			same++
		} else {
			same = 0
		}
		prev = cur
	}
}

func (c *evCluster) settled() []uint64 {
	for i := uint64(1); i <= uint64(c.n); i++ {
		// a new leader stores the no-op of its term before anything else: wait for it
		n := c.nodes[i]
		if n.r.State() == raft.Leader && !n.wasLdr {
			li := n.lastSeen
			c17wait(func() bool { return n.r.LastIndex() > li }, 100*time.Millisecond)
		}
		n.lastSeen = n.r.LastIndex()
	}
	obs := c.snapshot()
	for i := uint64(1); i <= uint64(c.n); i++ {
		n := c.nodes[i]
		if n.r.State() != raft.Candidate {
			// the invocation is over: what it still had in flight is lost (the model has no session any more)
			c.cancelFrom(i)
		}
		isL := n.r.State() == raft.Leader
		if isL && !n.wasLdr {
			c.leaders++
		}
		n.wasLdr = isL
	}
	return append(obs, uint64(c.leaders))
}

// one op; returns false if the real cluster cannot perform it now
func (c *evCluster) do(op []uint64) bool {
	switch op[0] {
	case 1:
		n := c.nodes[op[1]]
		switch n.r.State() {
		case raft.Leader:
			return false
		case raft.Candidate:
			c.cancelFrom(n.id) // the answers of the invocation that is abandoned are lost
			time.Sleep(300 * time.Microsecond)
			t0 := n.r.CurrentTerm()
			// long enough that the timer of the NEXT invocation cannot fire before it is set back to one hour
			n.r.VerifSetElectionTimeout(15 * time.Millisecond)
			c17wait(func() bool { return n.r.CurrentTerm() > t0 || n.r.State() != raft.Candidate }, 2*time.Second)
			n.r.VerifSetElectionTimeout(time.Hour)
			// (checked once nothing can move any more: the second firing may land just after the timer was set back)
			c.waitQuiet()
			if n.r.CurrentTerm() > t0+1 {
				// the short timer fired more than once before it was set back (the process was
				// descheduled for longer than the timeout): the script has lost control, it ends here
				c.lost = true
				return false
			}
		default:
			n.r.VerifFireHeartbeatTimeout()
			c17wait(func() bool { return n.r.State() != raft.Follower }, 2*time.Second)
		}
		// the new invocation has asked every peer
		c17wait(func() bool { return n.r.State() == raft.Leader || len(c.pendingFrom(n.id, 0)) == c.n-1 }, 2*time.Second)
	case 2:
		c.mu.Lock()
		k := c.calls[[2]uint64{op[1], op[2]}]
		c.mu.Unlock()
		if k == nil || k.stage != 0 {
			return false
		}
		k.deliver <- true
		c17wait(func() bool { c.mu.Lock(); defer c.mu.Unlock(); return k.stage == 1 }, 2*time.Second)
	case 3:
		c.mu.Lock()
		k := c.calls[[2]uint64{op[1], op[2]}]
		c.mu.Unlock()
		if k == nil || k.stage != 1 {
			return false
		}
		k.respGo <- true
		c17wait(func() bool { c.mu.Lock(); defer c.mu.Unlock(); return k.stage == 2 }, 2*time.Second)
	case 4:
		req := &raft.RequestVoteRequest{RPCHeader: raft.RPCHeader{ProtocolVersion: 3, ID: []byte(idStr(op[3])), Addr: []byte(addrStr(op[3]))},
			Term: op[2], LastLogIndex: op[4], LastLogTerm: op[5]}
		c.execute(op[1], req)
	case 5:
		n := c.nodes[op[1]]
		c.cancelFrom(n.id)
		n.trans.dead = true
		done := make(chan struct{})
		go func() { n.r.Shutdown().Error(); close(done) }()
		select {
		case <-done:
		case <-time.After(time.Second):
		}
		n.logs, n.stable, n.snaps = n.logs.Clone(), n.stable.Clone(), n.snaps.Clone()
		c.mu.Lock()
		c.startNode(n)
		c.mu.Unlock()
	case 6:
		req := &raft.AppendEntriesRequest{RPCHeader: raft.RPCHeader{ProtocolVersion: 3, ID: []byte(idStr(op[3])), Addr: []byte(addrStr(op[3]))}, Term: op[2]}
		c.execute(op[1], req)
	}
	return true
}

func c01clRun(extras []uint64, ops [][]uint64) (in []uint64, obs []uint64, leaders int) {
	c := newEvCluster(extras)
	defer c.close()
	c.settle()
	in = append([]uint64{uint64(len(extras))}, extras...)
	for _, op := range ops {
		if c.lost {
			break
		}
		if !c.do(op) {
			continue
		}
		in = append(in, op...)
		obs = append(obs, 1)
		obs = append(obs, c.settle()...)
	}
	return in, obs, c.leaders
}

// adaptive generation: ops are chosen from what the cluster can do now
func c01clGen(r *rng, n int, steps int) (in []uint64, obs []uint64, leaders int) {
	extras := make([]uint64, n)
	for i := range extras {
		extras[i] = uint64(r.intn(3))
	}
	c := newEvCluster(extras)
	defer c.close()
	c.settle()
	in = append([]uint64{uint64(n)}, extras...)
	emit := func(op []uint64) {
		if c.lost || !c.do(op) {
			return
		}
		in = append(in, op...)
		obs = append(obs, 1)
		obs = append(obs, c.settle()...)
	}
	for s := 0; s < steps && !c.lost; s++ {
		var cands [][]uint64
		for i := uint64(1); i <= uint64(n); i++ {
			if c.nodes[i].r.State() != raft.Leader {
				cands = append(cands, []uint64{1, i})
			}
			for _, j := range c.pendingFrom(i, 0) {
				// requests are delivered with priority
				cands = append(cands, []uint64{2, i, j}, []uint64{2, i, j}, []uint64{2, i, j})
			}
			for _, j := range c.pendingFrom(i, 1) {
				cands = append(cands, []uint64{3, i, j}, []uint64{3, i, j}, []uint64{3, i, j})
			}
		}
		x := r.intn(100)
		switch {
		case x < 5:
			emit([]uint64{5, uint64(1 + r.intn(n))})
		case x < 10:
			j := uint64(1 + r.intn(n))
			emit([]uint64{4, j, c.nodes[j].r.CurrentTerm() + uint64(r.intn(3)), uint64(1 + r.intn(n)), uint64(r.intn(5)), uint64(r.intn(3))})
		case x < 14:
			// an AppendEntries from another server: a server never addresses itself (replication
			// skips the local server), and the model does not cover runLeader's exit path for a
			// leader told by "itself" to step down
			j := uint64(1 + r.intn(n))
			if n >= 2 {
				ld := 1 + (j-1+uint64(1+r.intn(n-1)))%uint64(n)
				emit([]uint64{6, j, c.nodes[j].r.CurrentTerm() + uint64(r.intn(2)), ld})
			}
		default:
			if len(cands) > 0 {
				emit(cands[r.intn(len(cands))])
			}
		}
	}
	return in, obs, c.leaders
}

func c01clExec(cw *caseWriter, tag string, in []uint64) {
	n := int(in[0])
	extras := in[1 : 1+n]
	var ops [][]uint64
	p := 1 + n
	for p < len(in) {
		l := map[uint64]int{1: 2, 2: 3, 3: 3, 4: 6, 5: 2, 6: 4}[in[p]]
		if l == 0 || p+l > len(in) {
			break
		}
		ops = append(ops, in[p:p+l])
		p += l
	}
	in2, obs, leaders := c01clRun(extras, ops)
	cw.emit(tag, 1, in2, obs, leaders >= 1)
}

// The scripts run in child processes (harness c01clbatch), one script at a time per process, so
// that "every goroutine is blocked" is a usable definition of quiescence (evQuiet).
//
//	stdin : lines "tag subseed"      stdout: lines "tag leaders nin in... nobs obs..." ; "#fallbacks k"
func c01clBatch() {
	evAlone = true
	sc := bufio.NewScanner(os.Stdin)
	w := bufio.NewWriter(os.Stdout)
	defer w.Flush()
	for sc.Scan() {
		f := strings.Fields(sc.Text())
		if len(f) != 2 {
			continue
		}
		subseed, _ := strconv.ParseUint(f[1], 10, 64)
		sub := &rng{s: subseed}
		n := 2 + sub.intn(4)
		steps := 12 + sub.intn(30)
		in, obs, leaders := c01clGen(sub, n, steps)
		fmt.Fprintf(w, "%s %d %d", f[0], leaders, len(in))
		for _, x := range in {
			fmt.Fprintf(w, " %d", x)
		}
		fmt.Fprintf(w, " %d", len(obs))
		for _, x := range obs {
			fmt.Fprintf(w, " %d", x)
		}
		fmt.Fprintln(w)
	}
	fmt.Fprintf(w, "#fallbacks %d\n", evFallbacks)
}

func runC01cluster(cw *caseWriter, tier string, seed uint64) {
	r := &rng{s: seed*7919 + 11}
	count := 250
	if tier != "quick" {
		count = 4000
	}
	evBatches(cw, "c01clbatch", "e", 1, count, r, "c01cl", nil)
}
