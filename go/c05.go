package main

import (
	"github.com/hashicorp/raft"
)

// C05: real commitment (through the tag-exported wrapper) vs Model/Commitment.v,
// plus the property monitor evaluated on the implementation.
// input: cfg, start, ops (1 id idx | 2 cfg); output: commit index after new and after each op.

type c05op struct {
	kind    int
	id, idx uint64
	cfg     []srv
}

func c05encode(cfg []srv, start uint64, ops []c05op) []uint64 {
	in := encSrvs(cfg)
	in = append(in, start)
	for _, o := range ops {
		if o.kind == 1 {
			in = append(in, 1, o.id, o.idx)
		} else {
			in = append(in, 2)
			in = append(in, encSrvs(o.cfg)...)
		}
	}
	return in
}

func c05decode(in []uint64) (cfg []srv, start uint64, ops []c05op) {
	cfg, p := decSrvs(in, 0)
	start = in[p]
	p++
	for p < len(in) {
		if in[p] == 1 {
			ops = append(ops, c05op{kind: 1, id: in[p+1], idx: in[p+2]})
			p += 3
		} else if in[p] == 2 {
			var c []srv
			c, p = decSrvs(in, p+1)
			ops = append(ops, c05op{kind: 2, cfg: c})
		} else {
			break
		}
	}
	return
}

func voterSet(cfg []srv) map[uint64]bool {
	m := map[uint64]bool{}
	for _, s := range cfg {
		if s.suff == 0 {
			m[s.id] = true
		}
	}
	return m
}

func c05exec(cw *caseWriter, tag string, in []uint64) {
	cfg, start, ops := c05decode(in)
	c := raft.VerifNewCommitment(mkConfig(cfg), start)
	obs := []uint64{c.CommitIndex()}
	// monitor state: what each current voter has reported
	voters := voterSet(cfg)
	reported := map[uint64]uint64{}
	prev := c.CommitIndex()
	nontrivial := false
	check := func(step int) {
		q := c.CommitIndex()
		if q < prev {
			cw.monitor("C05", tag, "commit-index-decreased", "step %d: %d -> %d", step, prev, q)
		}
		if q != prev {
			nontrivial = true
			cnt := 0
			for v := range voters {
				if reported[v] >= q {
					cnt++
				}
			}
			if 2*cnt <= len(voters) {
				cw.monitor("C05", tag, "commit-without-voter-majority", "step %d: commit %d held by %d of %d voters", step, q, cnt, len(voters))
				// C07: a non-voter (or a server that is no longer a voter) is never counted in commitment
				cw.monitor("C07", tag, "commit-without-voter-majority", "step %d: commit %d held by %d of %d voters (something that is not a voter was counted)", step, q, cnt, len(voters))
			}
			if q < start {
				cw.monitor("C05", tag, "commit-below-start-index", "step %d: commit %d < startIndex %d", step, q, start)
			}
		}
		prev = q
	}
	check(0)
	for k, o := range ops {
		if o.kind == 1 {
			c.Match(idStr(o.id), o.idx)
			if voters[o.id] && o.idx > reported[o.id] {
				reported[o.id] = o.idx
			}
		} else {
			c.SetConfiguration(mkConfig(o.cfg))
			nv := voterSet(o.cfg)
			for v := range reported {
				if !nv[v] {
					delete(reported, v)
				}
			}
			voters = nv
		}
		obs = append(obs, c.CommitIndex())
		check(k + 1)
	}
	cw.emit(tag, 5, in, obs, nontrivial)
	cw.stat("c05_ops", len(ops))
	if nontrivial {
		cw.stat("c05_cases_commit_advances", 1)
	}
}

func c05tables(cw *caseWriter, maxN int, starts []uint64, maxMatch uint64, sampleDen int, r *rng) int {
	n := 0
	for ns := 1; ns <= maxN; ns++ {
		nsuff := 1
		nmatch := 1
		for i := 0; i < ns; i++ {
			nsuff *= 3
			nmatch *= int(maxMatch + 1)
		}
		for sf := 0; sf < nsuff; sf++ {
			cfg := make([]srv, ns)
			x := sf
			for i := 0; i < ns; i++ {
				cfg[i] = srv{uint64(x % 3), uint64(i + 1), uint64(i + 1)}
				x /= 3
			}
			for mt := 0; mt < nmatch; mt++ {
				for _, st := range starts {
					if sampleDen > 1 && r.intn(sampleDen) != 0 {
						continue
					}
					var ops []c05op
					y := mt
					for i := 0; i < ns; i++ {
						ops = append(ops, c05op{kind: 1, id: uint64(i + 1), idx: uint64(y) % (maxMatch + 1)})
						y /= int(maxMatch + 1)
					}
					// then one configuration change: drop the last server, then flip the first one's suffrage
					if ns > 1 {
						ops = append(ops, c05op{kind: 2, cfg: append([]srv(nil), cfg[:ns-1]...)})
					}
					flipped := append([]srv(nil), cfg...)
					flipped[0].suff = (flipped[0].suff + 1) % 3
					ops = append(ops, c05op{kind: 2, cfg: flipped})
					c05exec(cw, cw.tag("t"), c05encode(cfg, st, ops))
					n++
				}
			}
		}
	}
	return n
}

func c05random(cw *caseWriter, r *rng, count int) {
	for c := 0; c < count; c++ {
		ns := 1 + r.intn(9)
		mk := func() []srv {
			k := 1 + r.intn(ns)
			cfg := make([]srv, k)
			for i := range cfg {
				id := uint64(1 + r.intn(ns))
				if r.chance(9, 10) {
					id = uint64(i + 1) // mostly well-formed (unique ids)
				}
				suff := uint64(0)
				if r.chance(1, 3) {
					suff = uint64(1 + r.intn(2))
				}
				cfg[i] = srv{suff, id, uint64(i + 1)}
			}
			return cfg
		}
		cfg := mk()
		start := uint64(r.intn(6))
		nops := 1 + r.intn(30)
		var ops []c05op
		for k := 0; k < nops; k++ {
			if r.chance(1, 8) {
				ops = append(ops, c05op{kind: 2, cfg: mk()})
			} else {
				ops = append(ops, c05op{kind: 1, id: uint64(r.intn(ns + 2)), idx: uint64(r.intn(12))})
			}
		}
		c05exec(cw, cw.tag("r"), c05encode(cfg, start, ops))
	}
}

// component 501: follower commit arithmetic is exercised through the appendEntries handler (C04);
// here the pure function is swept exhaustively on the model side only via the C04 component.

func runC05(cw *caseWriter, tier string, seed uint64) {
	r := &rng{s: seed}
	if tier == "quick" {
		n := c05tables(cw, 3, []uint64{0, 1, 2, 3}, 3, 1, r)
		n += c05tables(cw, 4, []uint64{0, 2}, 2, 4, r)
		cw.stat("c05_table_cases", n)
		c05random(cw, r, 4000)
		cw.stat("c05_random_cases", 4000)
	} else {
		n := c05tables(cw, 4, []uint64{0, 1, 2, 3}, 3, 1, r)
		n += c05tables(cw, 5, []uint64{0, 2}, 2, 3, r)
		cw.stat("c05_table_cases", n)
		c05random(cw, r, 60000)
		cw.stat("c05_random_cases", 60000)
	}
	// the current-term rule lives in setupLeaderState + the leader loop: leader sequences (with the C05 monitor)
	c08gen(cw, tier, &rng{s: seed*17 + 1})
	c05commitBack(cw, &rng{s: seed + 5}) // the follower's commit index never moves backwards (handler level)
	runC102(cw, tier, seed, 2)
	runC104(cw, tier, seed, 2) // snapshot transfer inside the composed cluster system (Model/ClusterSnap.v)
	// pipeline replication (pipelineReplicate / pipelineDecode) with follower store faults: history monitors
	if tier == "quick" {
		runScenarios(cw, 14, seed*100000, 40, 8)
	} else {
		runScenarios(cw, 14, seed*100000, 600, 8)
	}
}
