package main

import (
	"bufio"
	"fmt"
	"os"
	"strconv"
	"strings"
)

// component 102 — commitment scripts on a REAL cluster, compared with Model/ClusterCommit.v (cstep):
// component 101 plus
//
//	8 i j next last  the REAL replicateTo(j, last) runs at leader i (hook VerifReplicateTo, in its own goroutine): it
//	       builds the request from the follower's real nextIndex (= next) and blocks in the transport
//	12 n   the n-th answer a follower's handler gave, which answers the request replicateTo is blocked in,
//	       returns to it: the REAL code processes it (handleStaleTerm / updateLastAppended -> commitment.match /
//	       nextIndex) and builds the next request (a further op 8) or returns; the REAL leader loop then advances
//	       the commit index and hands the entries to the REAL FSM goroutine
//	13 i j the blocked call fails instead (timeout): its answer is never used
//
// observed per op: 1 ; per server: role term voteTerm voteCand+1 lastIndex commit applied nfsm fsm* nlog (idx term type data)* ;
// Leader transitions ; requests ; answers ; the newest request
func c102Batch() {
	evAlone = true
	sc := bufio.NewScanner(os.Stdin)
	w := bufio.NewWriter(os.Stdout)
	defer w.Flush()
	for sc.Scan() {
		f := strings.Fields(sc.Text())
		if len(f) != 2 {
			continue
		}
		var in, obs []uint64
		var leaders int
		if strings.HasPrefix(f[1], "D") {
			// a directed script (minimised failures of earlier runs): they run first
			k, _ := strconv.Atoi(f[1][1:])
			in, obs, leaders = c101Run(c102directed[k], true)
		} else {
			subseed, _ := strconv.ParseUint(f[1], 10, 64)
			sub := &rng{s: subseed}
			n := 2 + sub.intn(4)
			steps := 50 + sub.intn(70)
			in, obs, leaders = c101Gen(sub, n, steps, true)
		}
		fmt.Fprintf(w, "%s %d %d", f[0], leaders, len(in))
		for _, x := range in {
			fmt.Fprintf(w, " %d", x)
		}
		fmt.Fprintf(w, " %d", len(obs))
		for _, x := range obs {
			fmt.Fprintf(w, " %d", x)
		}
		fmt.Fprintln(w)
	}
	fmt.Fprintf(w, "#fallbacks %d\n", evFallbacks)
}

// run under C02, C03 and C05 (which = 0, 1, 2: different scripts for each)
// directed scripts for component 102
var c102directed = [][]uint64{
	// F11 (a): leader 1's replicateTo(3, lastIndex = 1) uses a lastIndex read before its no-op was stored and is
	// sent after the commit index reached 4; server 3 holds the stale tail 71,72 of its own earlier leadership
	{3, 0, 0, 0, 1, 3, 2, 3, 2, 3, 3, 2, 7, 3, 71, 7, 3, 72, 1, 1, 1, 1, 2, 1, 2, 3, 1, 2, 7, 1, 81, 7, 1, 82, 8, 1, 2, 2, 4, 10, 0, 99, 12, 0, 14, 1, 9, 1, 3, 10, 1, 8, 1, 3, 2, 1, 10, 2},
}

func runC102(cw *caseWriter, tier string, seed uint64, which uint64) {
	r := &rng{s: (seed*3+which)*15485863 + 3}
	count := 100
	if tier != "quick" {
		count = 1500
	}
	evBatchesD(cw, "c102batch", "k", 102, count, len(c102directed), r, "c102", func(tag string, in, obs []uint64) { c102monitor(cw, tag, in, obs) })
}

// property monitors on what the real servers did (C02 / C03 / C05), after every op
func c102monitor(cw *caseWriter, tag string, in []uint64, obs []uint64) {
	c102monitorS(cw, tag, in, obs, false)
}

// snap: component 103 (input starts with TrailingLogs; per server the newest snapshot follows the nextIndex list)
func c102monitorS(cw *caseWriter, tag string, in []uint64, obs []uint64, snap bool) {
	c102monitorI(cw, tag, in, obs, snap, false)
}

// inst: component 104 (two more counters before the acknowledgements)
func c102monitorI(cw *caseWriter, tag string, in []uint64, obs []uint64, snap bool, inst bool) {
	if snap {
		in = in[1:]
	}
	n := int(in[0])
	type ent struct{ term, ty, data uint64 }
	type node struct {
		role, term, last, commit, applied, snapIdx uint64
		fsm                                        []uint64
		log                                        map[uint64]ent
	}
	nops := 0
	for q := 1 + n; q < len(in); {
		if in[q] == 99 {
			q++
			continue
		}
		l := lgOpLen[in[q]]
		if l == 0 || q+l > len(in) {
			break
		}
		if in[q] == 12 {
			cw.stats["c102_answers_processed"]++
		}
		if in[q] == 13 {
			cw.stats["c102_calls_failed"]++
		}
		q += l
		nops++
	}
	p := 0
	lastSnap := make([]uint64, n)
	wentBack := make([]bool, n)
	var acked [][2]uint64
	var maxCommit uint64
	for step := 0; p < len(obs) && step < nops; step++ {
		if obs[p] == 2 { // a step whose resulting state was not observed
			p++
			continue
		}
		p++
		nodes := make([]node, n)
		for i := 0; i < n; i++ {
			nd := node{role: obs[p], term: obs[p+1], last: obs[p+4], commit: obs[p+5], applied: obs[p+6], log: map[uint64]ent{}}
			k := int(obs[p+7])
			p += 8
			nd.fsm = obs[p : p+k]
			p += k
			k = int(obs[p])
			p++
			for e := 0; e < k; e++ {
				nd.log[obs[p]] = ent{obs[p+1], obs[p+2], obs[p+3]}
				p += 4
			}
			p += 1 + int(obs[p]) // a leader's nextIndex per peer
			if snap {
				nd.snapIdx = obs[p]
				p += 2
			}
			nodes[i] = nd
			maxCommit = max(maxCommit, nd.commit)
			// (after a restart lastApplied is the restored snapshot's index while the volatile commit index starts at 0 again)
			if snap && len(wentBack) == n && nd.snapIdx < lastSnap[i] {
				wentBack[i] = true // an InstallSnapshot of a snapshot OLDER than the server's own was executed (a late or repeated request)
			}
			if snap && len(lastSnap) == n {
				if nd.snapIdx > lastSnap[i] {
					wentBack[i] = false
				}
				lastSnap[i] = nd.snapIdx
			}
			if (nd.applied > nd.commit && nd.applied > nd.snapIdx) || nd.commit > max(nd.last, nd.snapIdx) {
				sig := "commit-index-outside-applied-and-last"
				if snap && wentBack[i] {
					// F12: installSnapshot accepts a snapshot older than the one the server already has
					sig += "-after-installing-an-older-snapshot"
				}
				cw.monitor("C05", tag, sig, "step %d server %d: applied %d commit %d last %d", step, i+1, nd.applied, nd.commit, nd.last)
			}
		}
		p += 3
		if obs[p-2] > 0 {
			p += 4
			p += 1 + 2*int(obs[p])
		}
		// the Apply calls acknowledged by this step: every leader of a term at least the highest term now
		// holding... (checked against the final state below); here: the acknowledged entry is committed
		// on the acknowledging side at that index with that payload
		if inst {
			p += 2
		}
		nacks := int(obs[p])
		p++
		for k := 0; k < nacks; k++ {
			acked = append(acked, [2]uint64{obs[p], obs[p+1]})
			cw.stats["c102_applies_acknowledged"]++
			p += 2
		}
		// C03/C08: what was acknowledged stays: no running server knows that index committed with another payload,
		// and every leader of the highest term holds it
		var topTerm uint64
		for _, nd := range nodes {
			topTerm = max(topTerm, nd.term)
		}
		for _, ak := range acked {
			for i, nd := range nodes {
				e, ok := nd.log[ak[0]]
				if ok && ak[0] <= nd.commit && (e.ty != 0 || e.data != ak[1]) {
					cw.monitor("C03", tag, "acknowledged-entry-replaced", "step %d: Apply of payload %d was acknowledged at index %d; server %d knows that index committed with %v", step, ak[1], ak[0], i+1, e)
					cw.monitor("C08", tag, "acknowledged-entry-replaced", "step %d: Apply of payload %d was acknowledged at index %d; server %d knows that index committed with %v", step, ak[1], ak[0], i+1, e)
				}
				if nd.role == 2 && nd.term == topTerm && ak[0] > nd.snapIdx && (!ok || e.ty != 0 || e.data != ak[1]) {
					cw.monitor("C03", tag, "leader-lacks-acknowledged-entry", "step %d: Apply of payload %d was acknowledged at index %d; leader %d of term %d holds %v (present %v)", step, ak[1], ak[0], i+1, nd.term, e, ok)
				}
			}
		}
		for a := 0; a < n; a++ {
			for b := 0; b < n; b++ {
				if a == b {
					continue
				}
				A, B := nodes[a], nodes[b]
				if a < b {
					m := min(len(A.fsm), len(B.fsm))
					for i := 0; i < m; i++ {
						if A.fsm[i] != B.fsm[i] {
							cw.monitor("C02", tag, "fsm-histories-differ-across-servers", "step %d: the FSMs of servers %d and %d differ at position %d: %d vs %d", step, a+1, b+1, i, A.fsm[i], B.fsm[i])
							break
						}
					}
					for i := uint64(1); i <= min(A.commit, B.commit); i++ {
						ea, oka := A.log[i]
						eb, okb := B.log[i]
						if oka && okb && ea != eb {
							sig := "committed-entries-differ-across-servers"
							if i <= A.snapIdx || i <= B.snapIdx {
								// F3-ii: a stale never-committed entry kept in the log store BELOW an installed snapshot
								sig += "-index-at-or-below-own-snapshot"
							}
							cw.monitor("C02", tag, sig, "step %d: index %d is committed at servers %d and %d with different entries %v vs %v (newest snapshots at %d and %d)", step, i, a+1, b+1, ea, eb, A.snapIdx, B.snapIdx)
							break
						}
					}
				}
				if a < b && snap {
					// C04 Log Matching on the real logs (the composed systems with snapshots)
					var top uint64
					for idx, ea := range A.log {
						if eb, ok := B.log[idx]; ok && ea.term == eb.term && idx > top {
							top = idx
						}
					}
					for idx, ea := range A.log {
						if eb, ok := B.log[idx]; ok && idx <= top && ea != eb {
							sig := "log-mismatch-below-common-entry"
							if idx <= A.snapIdx || idx <= B.snapIdx {
								sig += "-at-or-below-own-snapshot" // F3-ii
							}
							cw.monitor("C04", tag, sig, "step %d: servers %d and %d agree at index %d (same term) but differ at index %d: %v vs %v (newest snapshots at %d and %d)", step, a+1, b+1, top, idx, ea, eb, A.snapIdx, B.snapIdx)
							break
						}
					}
				}
				// leader completeness: B leads in a term at least A's
				if B.role == 2 && B.term >= A.term {
					for i := uint64(1); i <= A.commit; i++ {
						ea, oka := A.log[i]
						eb, okb := B.log[i]
						if oka && i > B.snapIdx && (!okb || ea != eb) {
							sig := "leader-lacks-committed-entry"
							if i <= A.snapIdx {
								// F3-ii: what server a holds there is a stale entry below its own installed snapshot, not the committed one
								sig += "-index-at-or-below-own-snapshot"
							}
							cw.monitor("C03", tag, sig, "step %d: server %d (term %d, newest snapshot %d) knows index %d committed as %v; leader %d of term %d holds %v (present %v)", step, a+1, A.term, A.snapIdx, i, ea, b+1, B.term, eb, okb)
							break
						}
					}
				}
			}
		}
	}
	if maxCommit > 1 {
		cw.stats["c102_scripts_with_commits"]++
	}
}

// component 103 — component 102 plus takeSnapshot at any server (op 11) with a small TrailingLogs, compared with
// Model/ClusterCommit.v run_clustersnap (cstep true): snapshots and compaction inside the composed system
func c103Batch() {
	evAlone = true
	sc := bufio.NewScanner(os.Stdin)
	w := bufio.NewWriter(os.Stdout)
	defer w.Flush()
	for sc.Scan() {
		f := strings.Fields(sc.Text())
		if len(f) != 2 {
			continue
		}
		subseed, _ := strconv.ParseUint(f[1], 10, 64)
		sub := &rng{s: subseed}
		n := 2 + sub.intn(4)
		steps := 60 + sub.intn(80)
		trail := uint64(1 + sub.intn(4)) // TrailingLogs 0..3
		in, obs, leaders := c101GenT(sub, n, steps, true, trail)
		fmt.Fprintf(w, "%s %d %d", f[0], leaders, len(in))
		for _, x := range in {
			fmt.Fprintf(w, " %d", x)
		}
		fmt.Fprintf(w, " %d", len(obs))
		for _, x := range obs {
			fmt.Fprintf(w, " %d", x)
		}
		fmt.Fprintln(w)
	}
	fmt.Fprintf(w, "#fallbacks %d\n", evFallbacks)
}

func runC103(cw *caseWriter, tier string, seed uint64, which uint64) {
	r := &rng{s: (seed*5+which)*32452843 + 7}
	count := 60
	if tier != "quick" {
		count = 1000
	}
	evBatches(cw, "c103batch", "s", 103, count, r, "c103", func(tag string, in, obs []uint64) {
		c102monitorS(cw, tag, in, obs, true)
		// how many snapshots were taken with effect
		for q := 2 + int(in[1]); q < len(in); {
			if in[q] == 99 {
				q++
				continue
			}
			l := lgOpLen[in[q]]
			if l == 0 {
				break
			}
			if in[q] == 11 {
				cw.stats["c103_snapshot_ops"]++
			}
			q += l
		}
	})
}

// component 104 — component 103 plus snapshot transfer: the REAL replicateTo turns to sendLatestSnapshot when an entry
// it needs has been compacted away; the InstallSnapshot request parks in the transport, is executed by the target's REAL
// handler at any later time (any number of times), the answer returns to the blocked call; compared with
// Model/ClusterSnap.v (sstep).  This system contains known finding F3-ii.
func c104Batch() {
	evAlone = true
	sc := bufio.NewScanner(os.Stdin)
	w := bufio.NewWriter(os.Stdout)
	defer w.Flush()
	for sc.Scan() {
		f := strings.Fields(sc.Text())
		if len(f) != 2 {
			continue
		}
		var in, obs []uint64
		var leaders int
		if strings.HasPrefix(f[1], "D") {
			k, _ := strconv.Atoi(f[1][1:])
			in, obs, leaders = c101RunI(c104directed[k], true, c104directed[k][0]+1, true)
		} else {
			subseed, _ := strconv.ParseUint(f[1], 10, 64)
			sub := &rng{s: subseed}
			n := 2 + sub.intn(4)
			steps := 90 + sub.intn(110)
			trail := uint64(1 + sub.intn(2)) // TrailingLogs 0..1
			in, obs, leaders = c101GenI(sub, n, steps, true, trail, true)
		}
		fmt.Fprintf(w, "%s %d %d", f[0], leaders, len(in))
		for _, x := range in {
			fmt.Fprintf(w, " %d", x)
		}
		fmt.Fprintf(w, " %d", len(obs))
		for _, x := range obs {
			fmt.Fprintf(w, " %d", x)
		}
		fmt.Fprintln(w)
	}
	fmt.Fprintf(w, "#fallbacks %d\n", evFallbacks)
}

// directed scripts for component 104 (filled in below)
var c104directed = [][]uint64{
	// F3-ii in the composed system (found by this component): server 1 installs the snapshot (5,5) and keeps the stale
	// entry (2, term 3) in its log store; later it holds (6, term 7) like server 3 and differs from it at index 2
	{1, 3, 0, 1, 0, 1, 2, 1, 1, 2, 1, 3, 1, 1, 2, 1, 3, 2, 2, 1, 3, 1, 3, 11, 1, 11, 1, 8, 1, 2, 2, 2, 11, 1, 1, 3, 2, 3, 1, 3, 3, 1, 2, 3, 2, 3, 3, 2, 5, 1, 1, 2, 2, 2, 3, 2, 2, 1, 3, 2, 3, 11, 2, 8, 2, 1, 3, 3, 7, 2, 501, 11, 2, 10, 1, 10, 1, 10, 0, 8, 2, 3, 3, 4, 10, 2, 12, 3, 8, 2, 3, 2, 4, 13, 2, 3, 12, 1, 8, 2, 1, 2, 3, 13, 2, 1, 7, 2, 502, 11, 2, 10, 2, 11, 2, 10, 1, 10, 3, 10, 2, 7, 2, 503, 5, 3, 8, 2, 3, 2, 5, 10, 5, 99, 12, 8, 14, 2, 11, 2, 10, 3, 10, 0, 11, 3, 4, 3, 5, 3, 0, 1, 7, 2, 504, 1, 3, 4, 3, 6, 1, 2, 2, 2, 3, 1, 10, 1, 15, 2, 1, 5, 16, 0, 17, 0, 2, 3, 2, 3, 3, 2, 1, 1, 2, 1, 2, 2, 1, 3, 3, 3, 1, 3, 1, 2, 3, 1, 3, 1, 1, 2, 1, 2, 3, 1, 2, 2, 1, 3, 3, 1, 3, 16, 0, 8, 1, 3, 6, 1, 10, 6, 12, 12, 11, 2, 10, 5, 8, 2, 3, 6, 7, 10, 6, 8, 1, 3, 6, 6, 10, 8, 99, 12, 15, 14, 1, 8, 1, 2, 6, 4, 10, 8, 1, 3, 1, 3, 10, 6, 5, 2, 1, 3, 2, 3, 1, 2, 3, 2, 3, 3, 1, 10, 8, 3, 3, 2, 11, 2, 16, 0, 11, 1, 1, 2, 2, 2, 3, 3, 2, 3, 2, 2, 1, 3, 2, 1, 1, 2, 2, 2, 3, 2, 2, 1, 3, 2, 3, 3, 2, 1},
}

func runC104(cw *caseWriter, tier string, seed uint64, which uint64) {
	r := &rng{s: (seed*7+which)*49979687 + 1}
	count := 60
	if tier != "quick" {
		count = 1000
	}
	evBatchesD(cw, "c104batch", "i", 104, count, len(c104directed), r, "c104", func(tag string, in, obs []uint64) {
		c102monitorI(cw, tag, in, obs, true, true)
		for q := 2 + int(in[1]); q < len(in); {
			if in[q] == 99 {
				q++
				continue
			}
			l := lgOpLen[in[q]]
			if l == 0 {
				break
			}
			switch in[q] {
			case 15:
				cw.stats["c104_snapshot_requests"]++
			case 16:
				cw.stats["c104_snapshot_deliveries"]++
			case 17:
				cw.stats["c104_snapshot_answers_processed"]++
			}
			q += l
		}
	})
}
