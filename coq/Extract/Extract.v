Require Extraction.
Require Import ExtrOcamlBasic.
From RaftModel Require Import Dispatch.
Extraction "model.ml" run_case.
