(* Converge.v — the two sides of catch-up composed: the leader's replicateTo (Model/Replicate.v)
   against the follower's appendEntries handler (Model/Node.v), no store failure, no snapshot
   transfer.  One trip = what replicateTo sends for its current nextIndex, the follower's handler
   on that request, the leader's update from the answer. *)
From Coq Require Import List NArith Bool.
From stdpp Require Import gmap.
From RaftModel Require Import Base Config Compaction Commitment Node NodeCodec Leader Replicate.
Open Scope N_scope.

Definition cu_round (PL PF : params) (sL : nstate) (rs : rstate) (sF : nstate) (last : N)
  : option (rstate * nstate * option bool) :=
  match setup_send PL sL (r_next rs) last with
  | SendAE pi pt es c =>
    let a := mkAReq (v_term sL) (p_self PL) (p_self PL) pi pt es c in
    match append_entries PF sF [] a with
    | Done sF' r _ _ =>
      let '(rs', ret) := round_step (v_term sL) rs (SendAE pi pt es c)
                                    (FAppend (ar_term r) (ar_last r) (ar_success r) (ar_noretry r)) last in
      Some (rs', sF', ret)
    | Panic _ _ => None
    end
  | _ => None
  end.

(* replicateTo(s, last): trips until it returns; result: leader bookkeeping, follower state, trips made *)
Fixpoint cu_run (fuel : nat) (PL PF : params) (sL : nstate) (rs : rstate) (sF : nstate) (last : N)
  : option (rstate * nstate * nat) :=
  match fuel with
  | O => None
  | S f =>
    match cu_round PL PF sL rs sF last with
    | Some (rs', sF', Some _) => Some (rs', sF', 1%nat)
    | Some (rs', sF', None) =>
      match cu_run f PL PF sL rs' sF' last with
      | Some (a, b, k) => Some (a, b, S k)
      | None => None
      end
    | None => None
    end
  end.

(* the leader: a full log 1..n of entries of known types, no snapshot *)
Definition leader_ok (PL : params) (sL : nstate) (n : N) : Prop :=
  (forall i e, d_log sL !! i = Some e -> e_idx e = i) /\
  (forall i, 0 < i <= n -> exists e, d_log sL !! i = Some e /\ (prepare_kind (e_ty e) =? 3) = false) /\
  v_lastSnapIdx sL = 0 /\ 1 <= p_maxappend PL.

(* the follower: any log without holes below its cached last index (stale, divergent, longer or
   shorter than the leader's), cache consistent, no snapshot, in the leader's term *)
Definition follower_ok (T : N) (sF : nstate) : Prop :=
  v_term sF = T /\ v_role sF = Follower /\
  (forall i, v_lastLogIdx sF < i -> d_log sF !! i = None) /\
  (0 < v_lastLogIdx sF -> exists e, d_log sF !! v_lastLogIdx sF = Some e /\ e_term e = v_lastLogTerm sF) /\
  (forall i e, d_log sF !! i = Some e -> e_idx e = i) /\
  (forall i, 0 < i <= v_lastLogIdx sF -> exists e, d_log sF !! i = Some e /\ (prepare_kind (e_ty e) =? 3) = false) /\
  v_lastSnapIdx sF = 0 /\ v_applied sF <= v_lastLogIdx sF.

(* the Log Matching premise between the two logs (an invariant of real histories, C04): where they
   hold the same term at an index, they hold the same terms at every earlier index *)
Definition log_matching_premise (sL sF : nstate) : Prop :=
  forall i e e', d_log sL !! i = Some e -> d_log sF !! i = Some e' -> e_term e = e_term e' ->
  forall j ej, 0 < j <= i -> d_log sL !! j = Some ej -> exists ej', d_log sF !! j = Some ej' /\ e_term ej' = e_term ej.

(* at every index the follower holds an entry with the leader's term *)
Definition caught_up (sL sF : nstate) (n : N) : Prop :=
  forall i e, 0 < i <= n -> d_log sL !! i = Some e -> exists e', d_log sF !! i = Some e' /\ e_term e' = e_term e.

(* ---------------------------------------------------------------- component 1201: both sides real, end to end *)
(* input: maxapp T ; nL (idx term ty data)* ; nF (idx term ty data)* ; next0     (last = the leader's last index)
   output: 0 (does not terminate / panic) | 1 next trips nF' (idx term)* *)
Definition boot_plain (P : params) (T : N) (es : list entry) : option nstate :=
  match recover P (image_of T 0 0 es 0 []) with RecOk s _ => Some s | _ => None end.

Definition run_converge (inp : list N) : list N :=
  match inp with
  | maxapp :: T :: r0 =>
    let '(esL, r1) := dec_entries_n r0 in
    let '(esF, r2) := dec_entries_n r1 in
    match r2 with
    | next0 :: _ =>
      let PL := mkP 1 false false false 100 maxapp (fun _ => []) in
      let PF := mkP 2 false false false 100 maxapp (fun _ => []) in
      match boot_plain PL T esL, boot_plain PF T esF with
      | Some sL0, Some sF =>
        let sL := set_leader (set_state sL0 Leader) 1 1 in
        let last := v_lastLogIdx sL in
        match cu_run (N.to_nat (next0 + last) + 2) PL PF sL (mkRS next0 0 0) sF last with
        | Some (rs, sF', k) =>
          let l := sorted_log (d_log sF') in
          [1; r_next rs; N.of_nat k; N.of_nat (length l)] ++ flat_map (fun e => [e_idx e; e_term e]) l
        | None => [0]
        end
      | _, _ => [0]
      end
    | [] => []
    end
  | _ => []
  end.
