(* Base.v — common datatypes of the model.  No proofs in Model/. *)
From Coq Require Export List NArith Bool Lia.
From Coq Require Export ZifyBool ZifyN ZifyNat.
Export ListNotations.
Open Scope N_scope.

(* A log entry: index, term, type (LogType as its iota value), payload id.
   The payload id stands for (Data, Extensions): the harness gives each distinct
   byte string its own id; AppendedAt is not part of the protocol. *)
Record entry := mkE { e_idx : N; e_term : N; e_ty : N; e_data : N }.

Definition entry_eqb (a b : entry) : bool :=
  (e_idx a =? e_idx b) && (e_term a =? e_term b) && (e_ty a =? e_ty b) && (e_data a =? e_data b).

(* LogType values, log.go *)
Definition LogCommand : N := 0.
Definition LogNoop : N := 1.
Definition LogAddPeerDeprecated : N := 2.
Definition LogRemovePeerDeprecated : N := 3.
Definition LogBarrier : N := 4.
Definition LogConfiguration : N := 5.

(* Flat encoding of entries for the correspondence driver. *)
Definition enc_entry (e : entry) : list N := [e_idx e; e_term e; e_ty e; e_data e].

Fixpoint dec_entries (n : nat) (l : list N) : list entry * list N :=
  match n with
  | O => ([], l)
  | S n' =>
    match l with
    | i :: t :: ty :: d :: rest =>
      let '(es, rest') := dec_entries n' rest in (mkE i t ty d :: es, rest')
    | _ => ([], [])
    end
  end.

Definition b2n (b : bool) : N := if b then 1 else 0.
Definition n2b (n : N) : bool := negb (n =? 0).
