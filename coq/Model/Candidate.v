(* Candidate.v — model of runCandidate (raft.go): pre-vote round, election round, tallies. *)
From Coq Require Import List NArith Bool.
From stdpp Require Import gmap.
From RaftModel Require Import Base Config Compaction Node.
Open Scope N_scope.

(* local variables of one runCandidate invocation *)
Record cand := mkCand {
  c_term : N;            (* term := currentTerm + 1 at entry: what pre-vote results are compared with *)
  c_prevote : bool;      (* still in the pre-vote phase (prevoteCh != nil) *)
  c_voting : bool;       (* voteCh != nil *)
  c_pvGranted : N; c_pvRefused : N; c_granted : N;
  c_needed : N;          (* votesNeeded := quorumSize() at entry *)
}.

(* result of a peer (or of the server itself) as the loop sees it *)
Record vresult := mkVR { vr_term : N; vr_granted : bool }.

(* own entries pushed into the channel by preElectSelf / electSelf *)
Definition self_is_voter (P : params) (s : nstate) : bool :=
  existsb (fun sv => is_voter sv && (s_id sv =? p_self P)) (v_latest s).

(* entering runCandidate.  prevoteOn = !r.preVoteDisabled.  Returns the loop state, the node state
   and the results the server pushes for itself. *)
Definition cand_enter (P : params) (prevoteOn : bool) (s : nstate) (fs : list bool)
  : outcome (cand * list vresult) :=
  let term := v_term s + 1 in
  let needed := quorum_size (v_latest s) in
  if prevoteOn && negb (v_transfer s) then
    Done s (mkCand term true false 0 0 0 needed,
            if self_is_voter P s then [mkVR term true] else []) [] fs
  else
    match elect_self P s fs with
    | Done s' (q, self) tr fs' =>
      Done s' (mkCand term false (match self with None => false | _ => true end) 0 0 0 needed,
               match self with Some true => [mkVR (vq_term q) true] | _ => [] end) tr fs'
    | Panic s' tr => Panic s' tr
    end.

Inductive cand_next :=
| CStay (c : cand) (self : list vresult)   (* keep looping; self = results the server pushes for itself *)
| CFollower                                (* setState(Follower); return *)
| CLeader.                                 (* setState(Leader); return *)

(* case preVote := <-prevoteCh *)
Definition on_prevote (P : params) (c : cand) (s : nstate) (fs : list bool) (v : vresult)
  : outcome cand_next :=
  if negb (c_prevote c) then Done s (CStay c []) [] fs       (* channel is nil: cannot happen *)
  else if c_term c <? vr_term v then
    match do_set_term (set_state s Follower) fs (vr_term v) with
    | Some (s1, fs1) => Done s1 CFollower [ESetTerm (vr_term v) true] fs1
    | None => Panic (set_state s Follower) [ESetTerm (vr_term v) false]
    end
  else
    let g := if vr_granted v then c_pvGranted c + 1 else c_pvGranted c in
    let rf := if vr_granted v then c_pvRefused c else c_pvRefused c + 1 in
    if c_needed c <=? g then
      (* pre-vote won: start the real election *)
      match elect_self P s fs with
      | Done s' (q, self) tr fs' =>
        Done s' (CStay (mkCand (c_term c) false (match self with None => false | _ => true end) 0 0 (c_granted c) (c_needed c))
                       (match self with Some true => [mkVR (vq_term q) true] | _ => [] end)) tr fs'
      | Panic s' tr => Panic s' tr
      end
    else Done s (CStay (mkCand (c_term c) true false g rf (c_granted c) (c_needed c)) []) [] fs.

(* case vote := <-voteCh *)
Definition on_vote (P : params) (c : cand) (s : nstate) (fs : list bool) (v : vresult) : outcome cand_next :=
  if negb (c_voting c) then Done s (CStay c []) [] fs
  else if v_term s <? vr_term v then
    match do_set_term (set_state s Follower) fs (vr_term v) with
    | Some (s1, fs1) => Done s1 CFollower [ESetTerm (vr_term v) true] fs1
    | None => Panic (set_state s Follower) [ESetTerm (vr_term v) false]
    end
  else
    let g := if vr_granted v then c_granted c + 1 else c_granted c in
    if c_needed c <=? g
    then Done (set_leader (set_state s Leader) (p_self P) (p_self P)) CLeader [] fs
    else Done s (CStay (mkCand (c_term c) (c_prevote c) true (c_pvGranted c) (c_pvRefused c) g (c_needed c)) []) [] fs.

(* ---------------------------------------------------------------- a candidate session *)
Inductive cev :=
| CPre (v : vresult)        (* a peer's pre-vote result arrives *)
| CVote (v : vresult)       (* a peer's vote result arrives *)
| CTimeout.                 (* election timer: runCandidate returns and is entered again *)

Inductive csess :=
| SCand (s : nstate) (c : cand)
| SFollower (s : nstate)
| SLeader (s : nstate)
| SDead (s : nstate).       (* panic: the process died *)

Definition sess_state (x : csess) : nstate :=
  match x with SCand s _ | SFollower s | SLeader s | SDead s => s end.

(* feed the server's own results (already in the channel) *)
Fixpoint feed_self (P : params) (fuel : nat) (s : nstate) (c : cand) (self : list vresult) (tr : list ev)
  : csess * list ev :=
  match fuel, self with
  | _, [] => (SCand s c, tr)
  | O, _ => (SCand s c, tr)
  | S f, v :: rest =>
    let o := if c_prevote c then on_prevote P c s [] v else on_vote P c s [] v in
    match o with
    | Done s' (CStay c' self') tr' _ => feed_self P f s' c' (rest ++ self') (tr ++ tr')
    | Done s' CFollower tr' _ => (SFollower s', tr ++ tr')
    | Done s' CLeader tr' _ => (SLeader s', tr ++ tr')
    | Panic s' tr' => (SDead s', tr ++ tr')
    end
  end.

(* leaving runCandidate: the deferred reset of candidateFromLeadershipTransfer runs *)
Definition exit_loop (x : csess * list ev) : csess * list ev :=
  match fst x with
  | SFollower s => (SFollower (set_transfer s false), snd x)
  | SLeader s => (SLeader (set_transfer s false), snd x)
  | _ => x
  end.

Definition sess_enter (P : params) (prevoteOn : bool) (s : nstate) : csess * list ev :=
  match cand_enter P prevoteOn (set_state s Candidate) [] with
  | Done s' (c, self) tr _ => exit_loop (feed_self P 4 s' c self tr)
  | Panic s' tr => (SDead s', tr)
  end.

Definition sess_step (P : params) (prevoteOn : bool) (x : csess) (e : cev) : csess * list ev :=
  match x with
  | SCand s c =>
    match e with
    | CTimeout =>
      (* runCandidate returns; the deferred reset of the transfer flag runs; entered again *)
      sess_enter P prevoteOn (set_transfer s false)
    | CPre v =>
      match on_prevote P c s [] v with
      | Done s' (CStay c' self) tr _ => exit_loop (feed_self P 4 s' c' self tr)
      | Done s' CFollower tr _ => (SFollower (set_transfer s' false), tr)
      | Done s' CLeader tr _ => (SLeader (set_transfer s' false), tr)
      | Panic s' tr => (SDead s', tr)
      end
    | CVote v =>
      match on_vote P c s [] v with
      | Done s' (CStay c' self) tr _ => exit_loop (feed_self P 4 s' c' self tr)
      | Done s' CFollower tr _ => (SFollower (set_transfer s' false), tr)
      | Done s' CLeader tr _ => (SLeader (set_transfer s' false), tr)
      | Panic s' tr => (SDead s', tr)
      end
    end
  | _ => (x, [])
  end.

Fixpoint sess_run (P : params) (prevoteOn : bool) (x : csess) (evs : list cev) : csess * list ev :=
  match evs with
  | [] => (x, [])
  | e :: r => let '(x', tr) := sess_step P prevoteOn x e in
              let '(x'', tr') := sess_run P prevoteOn x' r in (x'', tr ++ tr')
  end.

(* ---------------------------------------------------------------- flat encoding (component 14)
   input: self prevoteOn transfer ; cfg ; term vterm vcand lastIdx lastTerm ; events: 1 t g | 2 t g | 3
   output per stage (enter, then each event): kind role v_term d_term d_vterm vcand leader ntrace trace.. *)
Definition enc_sess (x : csess) : list N :=
  let s := sess_state x in
  [match x with SCand _ _ => 0 | SFollower _ => 1 | SLeader _ => 2 | SDead _ => 3 end;
   v_role s; v_term s; d_term s; d_vterm s; match d_vcand s with None => 0 | Some c => c + 1 end; v_leader s;
   b2n (v_transfer s)].

Definition enc_stable_ev (e : ev) : list N :=
  match e with
  | ESetTerm t ok => [1; t; b2n ok]
  | ESetVoteTerm t ok => [2; t; b2n ok]
  | ESetVoteCand c ok => [3; c; b2n ok]
  | _ => []
  end.

Fixpoint dec_cevs (fuel : nat) (l : list N) : list cev :=
  match fuel with
  | O => []
  | S f =>
    match l with
    | 1 :: t :: g :: r => CPre (mkVR t (n2b g)) :: dec_cevs f r
    | 2 :: t :: g :: r => CVote (mkVR t (n2b g)) :: dec_cevs f r
    | 3 :: r => CTimeout :: dec_cevs f r
    | _ => []
    end
  end.

Fixpoint sess_trace (P : params) (prevoteOn : bool) (x : csess) (evs : list cev) : list N :=
  match evs with
  | [] => []
  | e :: r => let '(x', tr) := sess_step P prevoteOn x e in
              enc_sess x' ++ flat_map enc_stable_ev tr ++ [99] ++ sess_trace P prevoteOn x' r
  end.

Definition run_candidate (inp : list N) : list N :=
  match inp with
  | self :: pv :: tr :: r0 =>
    let '(cfg, r1) := dec_config r0 in
    match r1 with
    | term :: vterm :: vcand :: li :: lt :: r2 =>
      let P := mkP self false false false 100 4 (fun _ => cfg) in
      let s := mkNS term vterm (if vcand =? 0 then None else Some (vcand - 1)) ∅ 0 0 []
                    Follower term 0 0 li lt 0 0 cfg 1 cfg 1 0 0 (n2b tr) [] (0, 0) in
      let '(x0, tr0) := sess_enter P (n2b pv) s in
      enc_sess x0 ++ flat_map enc_stable_ev tr0 ++ [99] ++ sess_trace P (n2b pv) x0 (dec_cevs (length r2) r2)
    | _ => []
    end
  | _ => []
  end.

(* ---------------------------------------------------------------- sessions with a failing stable store (component 1401)
   The same loop with a failure oracle per stage (entering, and each event): the bits are consumed by the
   durable operations of that stage in program order (setCurrentTerm, then persistVote's two writes), what is
   left over is dropped.  sess_enter / sess_step above are these functions with empty oracles; they are kept
   as they are because the proofs speak about them. *)
Fixpoint feed_self_f (P : params) (fuel : nat) (s : nstate) (c : cand) (self : list vresult) (tr : list ev) (fs : list bool)
  : csess * list ev :=
  match fuel, self with
  | _, [] => (SCand s c, tr)
  | O, _ => (SCand s c, tr)
  | S f, v :: rest =>
    let o := if c_prevote c then on_prevote P c s fs v else on_vote P c s fs v in
    match o with
    | Done s' (CStay c' self') tr' fs' => feed_self_f P f s' c' (rest ++ self') (tr ++ tr') fs'
    | Done s' CFollower tr' _ => (SFollower s', tr ++ tr')
    | Done s' CLeader tr' _ => (SLeader s', tr ++ tr')
    | Panic s' tr' => (SDead s', tr ++ tr')
    end
  end.

Definition sess_enter_f (P : params) (prevoteOn : bool) (s : nstate) (fs : list bool) : csess * list ev :=
  match cand_enter P prevoteOn (set_state s Candidate) fs with
  | Done s' (c, self) tr fs' => exit_loop (feed_self_f P 4 s' c self tr fs')
  | Panic s' tr => (SDead s', tr)
  end.

Definition sess_step_f (P : params) (prevoteOn : bool) (x : csess) (e : cev) (fs : list bool) : csess * list ev :=
  match x with
  | SCand s c =>
    match e with
    | CTimeout => sess_enter_f P prevoteOn (set_transfer s false) fs
    | CPre v =>
      match on_prevote P c s fs v with
      | Done s' (CStay c' self) tr fs' => exit_loop (feed_self_f P 4 s' c' self tr fs')
      | Done s' CFollower tr _ => (SFollower (set_transfer s' false), tr)
      | Done s' CLeader tr _ => (SLeader (set_transfer s' false), tr)
      | Panic s' tr => (SDead s', tr)
      end
    | CVote v =>
      match on_vote P c s fs v with
      | Done s' (CStay c' self) tr fs' => exit_loop (feed_self_f P 4 s' c' self tr fs')
      | Done s' CFollower tr _ => (SFollower (set_transfer s' false), tr)
      | Done s' CLeader tr _ => (SLeader (set_transfer s' false), tr)
      | Panic s' tr => (SDead s', tr)
      end
    end
  | _ => (x, [])
  end.

Definition dec_fbits (l : list N) : list bool * list N :=
  match l with
  | n :: r => (map n2b (firstn (N.to_nat n) r), skipn (N.to_nat n) r)
  | [] => ([], [])
  end.

(* events: 1 t g nf f.. | 2 t g nf f.. | 3 nf f.. *)
Fixpoint sess_trace_f (P : params) (prevoteOn : bool) (fuel : nat) (x : csess) (l : list N) : list N :=
  match fuel with
  | O => []
  | S f =>
    let go := fun (e : cev) (r : list N) =>
      let '(fs, r') := dec_fbits r in
      let '(x', tr) := sess_step_f P prevoteOn x e fs in
      enc_sess x' ++ flat_map enc_stable_ev tr ++ [99] ++ sess_trace_f P prevoteOn f x' r' in
    match l with
    | 1 :: t :: g :: r => go (CPre (mkVR t (n2b g))) r
    | 2 :: t :: g :: r => go (CVote (mkVR t (n2b g))) r
    | 3 :: r => go CTimeout r
    | _ => []
    end
  end.

(* component 1401: as component 14, with the failure bits of the entering stage after the image and
   the bits of each event after it *)
Definition run_candidate_f (inp : list N) : list N :=
  match inp with
  | self :: pv :: tr :: r0 =>
    let '(cfg, r1) := dec_config r0 in
    match r1 with
    | term :: vterm :: vcand :: li :: lt :: r2 =>
      let P := mkP self false false false 100 4 (fun _ => cfg) in
      let s := mkNS term vterm (if vcand =? 0 then None else Some (vcand - 1)) ∅ 0 0 []
                    Follower term 0 0 li lt 0 0 cfg 1 cfg 1 0 0 (n2b tr) [] (0, 0) in
      let '(fs0, r3) := dec_fbits r2 in
      let '(x0, tr0) := sess_enter_f P (n2b pv) s fs0 in
      enc_sess x0 ++ flat_map enc_stable_ev tr0 ++ [99] ++ sess_trace_f P (n2b pv) (length r3) x0 r3
    | _ => []
    end
  | _ => []
  end.
