(* FileSnapSpec.v — vocabulary of the C15 statements: what a history (script) wrote, which Close
   calls had returned at a crash point, what "newest first" means. No proofs here. *)
From Coq Require Import List NArith Bool.
From RaftModel Require Import FileSnap.
Import ListNotations.
Open Scope N_scope.

(* the sids created by a script *)
Fixpoint created (script : list sop) : list N :=
  match script with
  | [] => []
  | SCreate sid _ _ :: r => sid :: created r
  | _ :: r => created r
  end.

(* (term, index) given to Create *)
Fixpoint created_as (script : list sop) (sid : N) : option (N * N) :=
  match script with
  | [] => None
  | SCreate s t i :: r => if s =? sid then Some (t, i) else created_as r sid
  | _ :: r => created_as r sid
  end.

(* the bytes written to the sink before it was closed or cancelled *)
Fixpoint written_aux (script : list sop) (sid : N) (acc : list N) : list N :=
  match script with
  | [] => acc
  | SWrite s b :: r => if s =? sid then written_aux r sid (acc ++ b) else written_aux r sid acc
  | SClose s :: r | SCancel s :: r => if s =? sid then acc else written_aux r sid acc
  | _ :: r => written_aux r sid acc
  end.
Definition written (script : list sop) (sid : N) : list N := written_aux script sid [].

(* how the sink ended: Some true = Close came first, Some false = Cancel came first, None = still open *)
Fixpoint ended (script : list sop) (sid : N) : option bool :=
  match script with
  | [] => None
  | SClose s :: r => if s =? sid then Some true else ended r sid
  | SCancel s :: r => if s =? sid then Some false else ended r sid
  | _ :: r => ended r sid
  end.

(* number of file-system ops issued up to and including the first Close of sid (None: no Close) *)
Fixpoint close_end (script : list sop) (segs : list (list fsop)) (sid : N) (pos : nat) : option nat :=
  match script, segs with
  | o :: r, seg :: rs =>
    let pos' := (pos + length seg)%nat in
    match o with
    | SClose s => if s =? sid then Some pos' else close_end r rs sid pos'
    | _ => close_end r rs sid pos'
    end
  | _, _ => None
  end.

(* Close(sid) had returned nil when the crash happened after op k *)
Definition close_returned (sfirst : bool) (retain : N) (script : list sop) (sid : N) (k : nat) : Prop :=
  ended script sid = Some true /\
  exists e, close_end script (snd (run_script sfirst (mkStore retain [] []) script)) sid 0 = Some e /\ (e <= k)%nat.

(* newest first by (term, index, sid) *)
Fixpoint sorted_desc (l : list (N * metaval)) : Prop :=
  match l with
  | [] => True
  | x :: r => (forall y, In y r -> key_lt y x = true) /\ sorted_desc r
  end.

(* a well-formed history: sids are fresh at Create, and Write / Close / Cancel name a sink that was
   created before (the harness generates only such histories; the Go API cannot express others) *)
Fixpoint wf_from (seen : list N) (script : list sop) : Prop :=
  match script with
  | [] => True
  | SCreate sid _ _ :: r => ~ In sid seen /\ wf_from (sid :: seen) r
  | SWrite sid _ :: r | SClose sid :: r | SCancel sid :: r => In sid seen /\ wf_from seen r
  end.
Definition well_formed (script : list sop) : Prop := wf_from [] script.
