(* Notify.v — leadership notifications (raft.go runLeader entry / deferred exit; util.go
   overrideNotifyBool on the 1-slot leaderCh; Config.NotifyCh), with consumers of any speed.
   What runLeader sends on entry and on exit is not written here: it comes from the table generated
   from the Go source (Model/LoopTable.v: runleader_entry / runleader_exit). *)
From Coq Require Import List NArith String Bool.
Import ListNotations.
Open Scope string_scope.
Open Scope N_scope.

Record nstate' := mkN {
  n_leader : bool;              (* the main loop is inside runLeader *)
  n_notify : list bool;         (* NotifyCh: sent, not yet received (FIFO) *)
  n_lch : option bool;          (* the 1-slot leaderCh *)
  n_sent : list bool;           (* ghost: everything ever sent on NotifyCh *)
  n_recv : list bool;           (* ghost: everything the NotifyCh consumer received *)
  n_lsent : list bool;          (* ghost: everything ever written to leaderCh *)
  n_lrecv : list bool;          (* ghost: everything the LeaderCh consumer received *)
}.

Definition n_init : nstate' := mkN false [] None [] [] [] [].

Inductive nop := NGain | NLose | NReadNotify | NReadLeaderCh.

(* overrideNotifyBool on a 1-slot channel: an old value is dropped, the new one stored *)
Definition override (buf : option bool) (v : bool) : option bool := Some v.

Definition send_one (s : nstate') (m : string * bool) : nstate' :=
  let '(ch, v) := m in
  if String.eqb ch "leaderCh"
  then mkN (n_leader s) (n_notify s) (override (n_lch s) v) (n_sent s) (n_recv s) (n_lsent s ++ [v]) (n_lrecv s)
  else if String.eqb ch "notify"
  then mkN (n_leader s) (n_notify s ++ [v]) (n_lch s) (n_sent s ++ [v]) (n_recv s) (n_lsent s) (n_lrecv s)
  else s.

Definition set_lead (s : nstate') (b : bool) : nstate' :=
  mkN b (n_notify s) (n_lch s) (n_sent s) (n_recv s) (n_lsent s) (n_lrecv s).

(* step; output: 0/1 = value read, 2 = nothing to read, 3 = no observation *)
Definition nstep (entry exit : list (string * bool)) (s : nstate') (o : nop) : nstate' * N :=
  match o with
  | NGain => if n_leader s then (s, 3) else (fold_left send_one entry (set_lead s true), 3)
  | NLose => if n_leader s then (fold_left send_one exit (set_lead s false), 3) else (s, 3)
  | NReadNotify =>
    match n_notify s with
    | v :: r => (mkN (n_leader s) r (n_lch s) (n_sent s) (n_recv s ++ [v]) (n_lsent s) (n_lrecv s), if v then 1 else 0)
    | [] => (s, 2)
    end
  | NReadLeaderCh =>
    match n_lch s with
    | Some v => (mkN (n_leader s) (n_notify s) None (n_sent s) (n_recv s) (n_lsent s) (n_lrecv s ++ [v]), if v then 1 else 0)
    | None => (s, 2)
    end
  end.

Fixpoint nrun (entry exit : list (string * bool)) (s : nstate') (ops : list nop) : nstate' * list N :=
  match ops with
  | [] => (s, [])
  | o :: r => let '(s1, out) := nstep entry exit s o in
              let '(s2, outs) := nrun entry exit s1 r in (s2, out :: outs)
  end.

(* the notifications the code must send: the new role on both channels *)
Definition notes_ok (entry exit : list (string * bool)) : bool :=
  let eqn := fun (a b : list (string * bool)) =>
    (Nat.eqb (List.length a) (List.length b)) &&
    forallb (fun p => String.eqb (fst (fst p)) (fst (snd p)) && Bool.eqb (snd (fst p)) (snd (snd p))) (combine a b) in
  eqn entry [("leaderCh", true); ("notify", true)] && eqn exit [("leaderCh", false); ("notify", false)].

(* strictly alternating, starting with b *)
Fixpoint alt (b : bool) (l : list bool) : Prop :=
  match l with [] => True | x :: r => x = b /\ alt (negb b) r end.

(* component 18: ops 1 gain 2 lose 3 read NotifyCh 4 read LeaderCh ; per op: output, leader? *)
Definition dec_nop (n : N) : option nop :=
  match n with 1 => Some NGain | 2 => Some NLose | 3 => Some NReadNotify | 4 => Some NReadLeaderCh | _ => None end.

Fixpoint run_notify_ops (entry exit : list (string * bool)) (s : nstate') (l : list N) : list N :=
  match l with
  | [] => []
  | x :: r =>
    match dec_nop x with
    | None => []
    | Some o => let '(s1, out) := nstep entry exit s o in
                out :: (if n_leader s1 then 1 else 0) :: run_notify_ops entry exit s1 r
    end
  end.

(* component 1801: overrideNotifyBool on a real 1-slot channel: ops 0/1 = override with that value,
   2 = receive; output per receive op: value or 2 *)
Fixpoint run_override (buf : option bool) (l : list N) : list N :=
  match l with
  | [] => []
  | 2 :: r => match buf with Some v => (if v then 1 else 0) :: run_override None r | None => 2 :: run_override None r end
  | x :: r => run_override (override buf (negb (x =? 0))) r
  end.
