(* Paths.v — decision procedures over the control-flow paths that go/gotables extracts from the Go
   source on every run (Model/LoopTable.v: case_paths, api_paths).  The path enumeration is
   syntactic and over-approximates the executions of a case body (every branch of every if / select,
   inner loops taken 0 and 1 times), so "every listed path satisfies P" covers every execution of
   that piece of code with respect to the ORDER and PRESENCE of the recorded events. *)
From Coq Require Import List String Bool.
From RaftModel Require Import LoopTable.
Import ListNotations.
Open Scope string_scope.

Definition event : Type := string * string * string.
Definition ev_kind (e : event) : string := fst (fst e).
Definition ev_a (e : event) : string := snd (fst e).
Definition ev_b (e : event) : string := snd e.

Definition mem (x : string) (l : list string) : bool := existsb (String.eqb x) l.

(* the errors after which the property promises that the command is never stored or applied *)
Definition definite_errors : list string := ["ErrNotLeader"; "ErrLeadershipTransferInProgress"].

(* methods of the Raft receiver that only read state *)
Definition reader_calls : list string := ["getLeadershipTransferInProgress"; "config"; "getState"; "getCurrentTerm"; "getCommitIndex"; "getLastIndex"].

Definition is_definite_respond (e : event) : bool := String.eqb (ev_kind e) "respond" && mem (ev_b e) definite_errors.
Definition is_effect_call (e : event) : bool := String.eqb (ev_kind e) "call" && negb (mem (ev_a e) reader_calls).
Definition is_send (e : event) : bool := String.eqb (ev_kind e) "send".
Definition is_error_return (e : event) : bool := String.eqb (ev_kind e) "ret" && prefix "errorFuture{" (ev_a e).
Definition is_respond (e : event) : bool := String.eqb (ev_kind e) "respond".

(* a path that answers the received future with a definite error performs no effectful call at all
   (in particular neither dispatchLogs nor appendConfigurationEntry nor restoreUserSnapshot), answers
   nothing else, and hands the future to nobody *)
Definition rejected_path_ok (p : list event) : bool :=
  if existsb is_definite_respond p
  then negb (existsb is_effect_call p) && negb (existsb is_send p)
       && forallb (fun e => negb (is_respond e) || is_definite_respond e) p
  else true.

(* the queues that carry commands which would be stored: Apply/Barrier, membership changes, user restores *)
Definition storing_queues : list string := ["applyCh"; "configurationChangeCh"; "userRestoreCh"].

Definition case_rejections_ok (row : string * string * list (list event)) : bool :=
  let '(_, q, ps) := row in
  if mem q storing_queues then forallb rejected_path_ok ps else true.

(* outside leaderLoop a stored-command queue is ONLY ever answered ErrNotLeader: a non-leader stores nothing *)
Definition nonleader_case_ok (row : string * string * list (list event)) : bool :=
  let '(lp, q, ps) := row in
  if mem q storing_queues && negb (String.eqb lp "leaderLoop")
  then forallb (fun p => existsb is_definite_respond p && rejected_path_ok p) ps && negb (match ps with [] => true | _ => false end)
  else true.

(* API constructors: a path that returns an errorFuture (ErrEnqueueTimeout, ErrRaftShutdown) has not sent
   the future to any queue; a path that sent it returns the future itself *)
Definition api_path_ok (p : list event) : bool :=
  if existsb is_error_return p then negb (existsb is_send p) else existsb is_send p.

Definition api_row_ok (row : string * list (list event)) : bool := forallb api_path_ok (snd row).

(* the rows the statements speak about are present (a renamed loop or queue must not make them vacuous) *)
Definition has_case (lp q : string) : bool :=
  existsb (fun row : string * string * list (list event) => let '(l, q', ps) := row in String.eqb l lp && String.eqb q q' && negb (match ps with [] => true | _ => false end)) case_paths.
Definition has_api (f : string) : bool :=
  existsb (fun row : string * list (list event) => String.eqb (fst row) f && negb (match snd row with [] => true | _ => false end)) api_paths.

Definition rows_present : bool :=
  forallb (fun lp => forallb (has_case lp) storing_queues) ["runFollower"; "runCandidate"; "leaderLoop"]
  && forallb has_api ["ApplyLog"; "Barrier"; "requestConfigChange"].

Definition paths_ok : bool :=
  rows_present && forallb case_rejections_ok case_paths && forallb nonleader_case_ok case_paths && forallb api_row_ok api_paths.

(* the leader's restore case: refused during a leadership transfer without touching anything; otherwise
   restoreUserSnapshot runs and its own result answers the future *)
Definition restore_case_ok : bool :=
  existsb (fun row : string * string * list (list event) =>
    let '(l, q, ps) := row in
    String.eqb l "leaderLoop" && String.eqb q "userRestoreCh" &&
    forallb (fun p => if existsb (fun e => String.eqb (ev_kind e) "T" && String.eqb (ev_a e) "r.getLeadershipTransferInProgress()") p
                      then existsb is_definite_respond p && rejected_path_ok p
                      else existsb (fun e => String.eqb (ev_kind e) "call" && String.eqb (ev_a e) "restoreUserSnapshot") p) ps) case_paths.

(* non-vacuity of the rejection statements: the follower loop answers applyCh with ErrNotLeader on every path;
   the leader loop has a rejecting path (transfer in progress) and a dispatching one *)
Definition rejections_exist : bool :=
  existsb (fun row : string * string * list (list event) => let '(l, q, ps) := row in
     String.eqb l "runFollower" && String.eqb q "applyCh" && forallb (existsb is_definite_respond) ps) case_paths &&
  existsb (fun row : string * string * list (list event) => let '(l, q, ps) := row in
     String.eqb l "leaderLoop" && String.eqb q "applyCh" && existsb (existsb is_definite_respond) ps
     && existsb (existsb (fun e => String.eqb (ev_kind e) "call" && String.eqb (ev_a e) "dispatchLogs")) ps) case_paths.
