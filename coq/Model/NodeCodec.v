(* NodeCodec.v — flat encoding of node images, events and observations for the correspondence
   driver ("node sequence" component): a server is booted from a durable image with NewRaft and
   fed a sequence of RPCs / stimuli, each optionally cut by a crash after its k-th durable
   operation and followed by a restart. *)
From Coq Require Import List NArith Bool.
From stdpp Require Import gmap.
From RaftModel Require Import Base Config Compaction Node.
Open Scope N_scope.

(* ---------- decoding helpers ---------- *)
Definition take (n : N) (l : list N) : list N * list N := (firstn (N.to_nat n) l, skipn (N.to_nat n) l).

Definition dec_entries_n (l : list N) : list entry * list N :=
  match l with n :: r => dec_entries (N.to_nat n) r | [] => ([], []) end.

Definition dec_list (l : list N) : list N * list N :=
  match l with n :: r => take n r | [] => ([], []) end.

Fixpoint dec_snaps (n : nat) (l : list N) : list snapshot * list N :=
  match n with
  | O => ([], l)
  | S n' =>
    match l with
    | idx :: term :: r =>
      let '(cfg, r1) := dec_config r in
      match r1 with
      | cfgidx :: r2 =>
        let '(data, r3) := dec_list r2 in
        match r3 with
        | ok :: r4 => let '(ss, r5) := dec_snaps n' r4 in
                      (mkSnap idx term cfg cfgidx data (n2b ok) :: ss, r5)
        | [] => ([], [])
        end
      | [] => ([], [])
      end
    | _ => ([], [])
    end
  end.

Fixpoint dec_cfgtab (n : nat) (l : list N) : list (N * config) * list N :=
  match n with
  | O => ([], l)
  | S n' =>
    match l with
    | id :: r => let '(cfg, r1) := dec_config r in
                 let '(t, r2) := dec_cfgtab n' r1 in ((id, cfg) :: t, r2)
    | [] => ([], [])
    end
  end.

Fixpoint lookup_cfg (t : list (N * config)) (id : N) : config :=
  match t with
  | [] => []
  | (k, c) :: r => if k =? id then c else lookup_cfg r id
  end.

Definition image_of (term vterm vcand : N) (es : list entry) (pcommit : N) (snaps : list snapshot) : nstate :=
  mkNS term vterm (if vcand =? 0 then None else Some (vcand - 1))
       (log_store ∅ es) pcommit pcommit snaps
       Follower 0 0 0 0 0 0 0 [] 0 [] 0 0 0 false [] (0, 0).

(* ---------- encoding of observations ---------- *)
Fixpoint insert_entry (x : entry) (l : list entry) : list entry :=
  match l with
  | [] => [x]
  | y :: r => if e_idx x <=? e_idx y then x :: l else y :: insert_entry x r
  end.
Definition sorted_log (m : gmap N entry) : list entry :=
  fold_right insert_entry [] (map snd (map_to_list m)).

Definition enc_ev (e : ev) : list N :=
  match e with
  | ESetTerm t ok => [1; t; b2n ok]
  | ESetVoteTerm t ok => [2; t; b2n ok]
  | ESetVoteCand c ok => [3; c; b2n ok]
  | EStore es ok => 4 :: N.of_nat (length es) :: flat_map enc_entry es ++ [b2n ok]
  | EDelete lo hi ok => [5; lo; hi; b2n ok]
  | EStage c => [6; c]
  | ESnap i t ok => [7; i; t; b2n ok]
  | EApply e => 8 :: enc_entry e
  | EConf i => [9; i]
  | ERestore d => 10 :: N.of_nat (length d) :: d
  end.

Definition enc_trace (tr : list ev) : list N := N.of_nat (length tr) :: flat_map enc_ev tr.

Definition enc_state (s : nstate) : list N :=
  [v_role s; v_term s; d_term s; d_vterm s; match d_vcand s with None => 0 | Some c => c + 1 end;
   v_commit s; v_applied s; v_lastLogIdx s; v_lastLogTerm s; v_lastSnapIdx s; v_lastSnapTerm s;
   v_latestIdx s; v_committedIdx s; v_leader s; v_leaderId s; b2n (v_transfer s)]
  ++ enc_config (v_latest s) ++ enc_config (v_committed s)
  ++ N.of_nat (length (v_fsm s)) :: v_fsm s
  ++ (let l := sorted_log (d_log s) in N.of_nat (length l) :: flat_map enc_entry l)
  ++ [d_pcommit s]
  ++ (let l := list_snaps (d_snaps s) in
      N.of_nat (length l) :: flat_map (fun sn => [sn_idx sn; sn_term sn; sn_cfgidx sn; N.of_nat (length (sn_data sn))] ++ enc_config (sn_cfg sn)) l).

(* ---------- crash cuts ---------- *)
Definition is_durable (e : ev) : bool :=
  match e with EApply _ | EConf _ | ERestore _ | EStage _ => false | _ => true end.

(* replay one trace item on a durable image (volatile part irrelevant) *)
Definition apply_ev (P : params) (snapinfo : option snapshot) (s : nstate) (e : ev) : nstate :=
  match e with
  | ESetTerm t true => set_durable_term s t
  | ESetVoteTerm t true => set_vterm s t
  | ESetVoteCand c true => set_vcand s (Some c)
  | EStore es true => set_log s (log_store (d_log s) es) (d_staged s) (if p_track P then d_staged s else d_pcommit s)
  | EDelete lo hi true => set_log s (log_delete (d_log s) lo hi) (d_staged s) (d_pcommit s)
  | EStage c => if p_track P then set_log s (d_log s) c (d_pcommit s) else s
  | ESnap _ _ true => match snapinfo with Some sn => set_snaps s (d_snaps s ++ [sn]) | None => s end
  | _ => s
  end.

(* the durable image after the first k durable operations of a trace *)
Fixpoint cut_image (P : params) (snapinfo : option snapshot) (s : nstate) (tr : list ev) (k : nat) : nstate :=
  match k, tr with
  | O, _ => s
  | _, [] => s
  | S k', e :: r =>
    if is_durable e then cut_image P snapinfo (apply_ev P snapinfo s e) r k'
    else cut_image P snapinfo (apply_ev P snapinfo s e) r k
  end.

Definition count_durable (tr : list ev) : nat := length (filter is_durable tr).

(* ---------- events ---------- *)
Inductive nevent :=
| NVote (q : vreq)
| NPreVote (q : vreq)
| NAppend (a : areq)
| NInstall (q : ireq)
| NTimeoutNow
| NElect
| NRestart
| NTimeoutDecision
| NSnapshot.        (* takeSnapshot (the snapshot goroutine) *)

Definition dec_bool (n : N) : bool := n2b n.

(* one event: kind, payload, then cut, nfails, fails *)
Definition dec_event (l : list N) : option (nevent * N * list bool * list N) :=
  let tail := fun (ev : nevent) (r : list N) =>
    match r with
    | cut :: r1 => let '(fl, r2) := dec_list r1 in Some (ev, cut, map n2b fl, r2)
    | [] => None
    end in
  match l with
  | 1 :: t :: id :: ad :: li :: lt :: tr :: r => tail (NVote (mkVReq t id ad li lt (n2b tr))) r
  | 2 :: t :: id :: ad :: li :: lt :: r => tail (NPreVote (mkVReq t id ad li lt false)) r
  | 3 :: t :: ad :: id :: pi :: pt :: r =>
    let '(es, r1) := dec_entries_n r in
    match r1 with
    | lc :: r2 => tail (NAppend (mkAReq t ad id pi pt es lc)) r2
    | [] => None
    end
  | 4 :: t :: ad :: id :: li :: lt :: r =>
    let '(cfg, r1) := dec_config r in
    match r1 with
    | ci :: r2 =>
      let '(data, r3) := dec_list r2 in
      match r3 with
      | sh :: r4 => tail (NInstall (mkIReq t ad id li lt cfg ci data (n2b sh))) r4
      | [] => None
      end
    | [] => None
    end
  | 5 :: r => tail NTimeoutNow r
  | 6 :: r => tail NElect r
  | 7 :: r => tail NRestart r
  | 8 :: r => tail NTimeoutDecision r
  | 9 :: r => tail NSnapshot r
  | _ => None
  end.

(* a running node, or a dead one (NewRaft failed): only the durable image is left *)
Inductive nrun := Up (s : nstate) | Down (s : nstate).

Definition image (r : nrun) : nstate := match r with Up s | Down s => s end.

Definition boot (P : params) (img : nstate) : nrun * list N :=
  match recover P img with
  | RecOk s tr => (Up s, 1 :: enc_trace tr ++ enc_state s)
  | RecErr => (Down img, [2])
  | RecPanic => (Down img, [3])
  | RecBlocks => (Down img, [4])
  end.

(* structured observation of one event (what the theorems speak about) *)
Inductive nobs :=
| OVote (q : vreq) (t : N) (g : bool)
| OPreVote (q : vreq) (t : N) (g : bool)
| OAppend (a : areq) (r : aresp)
| OInstall (q : ireq) (r : N * bool * bool)
| OElect (q : vreq) (self : option bool)
| OLost            (* the process died inside the handler (crash cut or panic): no response *)
| ONone.

(* after a handler: either it completed, or the process died (panic, or crash cut at k) and is
   restarted from the image *)
Definition finish {R} (P : params) (enc_r : R -> list N) (mk : R -> nobs) (snapinfo : option snapshot)
           (pre : nstate) (cut : N) (o : outcome R) : nrun * nobs * list N :=
  match o with
  | Done s r tr _ =>
    if (0 <? cut) && (N.to_nat cut <=? count_durable tr)%nat
    then (* crashed inside the handler: the response is lost *)
      let img := cut_image P snapinfo pre tr (N.to_nat cut) in
      let '(r', out) := boot P img in (r', OLost, 20 :: out)
    else (Up s, mk r, 10 :: enc_r r ++ enc_trace tr ++ enc_state s)
  | Panic s tr =>
    let img := cut_image P snapinfo pre tr (length tr) in
    let '(r', out) := boot P img in (r', OLost, 30 :: out)
  end.

Definition step_full (P : params) (r : nrun) (e : nevent) (cut : N) (fs : list bool) : nrun * nobs * list N :=
  match r, e with
  | _, NRestart => let '(r', out) := boot P (image r) in (r', ONone, out)
  | Down s, _ => (Down s, ONone, [0])
  | Up s, NVote q =>
    finish P (fun x : N * bool => [fst x; b2n (snd x)]) (fun x => OVote q (fst x) (snd x)) None s cut (request_vote s fs q)
  | Up s, NPreVote q =>
    let '(t, g) := request_prevote s q in (Up s, OPreVote q t g, [10; t; b2n g] ++ enc_trace [] ++ enc_state s)
  | Up s, NAppend a =>
    finish P (fun x : aresp => [ar_term x; ar_last x; b2n (ar_success x); b2n (ar_noretry x); b2n (ar_err x)])
           (fun x => OAppend a x) None s cut (append_entries P s fs a)
  | Up s, NInstall q =>
    finish P (fun x : N * bool * bool => [fst (fst x); b2n (snd (fst x)); b2n (snd x)]) (fun x => OInstall q x)
           (Some (mkSnap (iq_lastIdx q) (iq_lastTerm q) (iq_cfg q) (iq_cfgIdx q) (iq_data q) true))
           s cut (install_snapshot P s fs q)
  | Up s, NTimeoutNow => let s' := timeout_now s in (Up s', ONone, 10 :: enc_trace [] ++ enc_state s')
  | Up s, NElect =>
    finish P (fun x : vreq * option bool =>
                [vq_term (fst x); vq_lastIdx (fst x); vq_lastTerm (fst x); b2n (vq_transfer (fst x));
                 match snd x with None => 0 | Some false => 1 | Some true => 2 end])
           (fun x => OElect (fst x) (snd x))
           None s cut (elect_self P s fs)
  | Up s, NTimeoutDecision => (Up s, ONone, [10; follower_timeout_decision P s])
  | Up s, NSnapshot =>
    let '(fi, ft) := fsm_index s in
    finish P (fun x : N => [x]) (fun _ => ONone)
           (Some (mkSnap fi ft (v_committed s) (v_committedIdx s) (v_fsm s) true))
           s cut (take_snapshot P s fs)
  end.

Definition step_event (P : params) (r : nrun) (e : nevent) (cut : N) (fs : list bool) : nrun * list N :=
  let '(r', _, out) := step_full P r e cut fs in (r', out).

Fixpoint run_events (P : params) (fuel : nat) (r : nrun) (l : list N) : list N :=
  match fuel with
  | O => []
  | S f =>
    match dec_event l with
    | None => []
    | Some (e, cut, fs, rest) =>
      let '(r', out) := step_event P r e cut fs in
      (N.of_nat (length out) :: out) ++ run_events P f r' rest
    end
  end.

(* component 6: self monotonic track trailing maxappend ; cfgtab ; restoreCommitted ; image ; events *)
Definition run_nodeseq (inp : list N) : list N :=
  match inp with
  | self :: mono :: track :: trailing :: maxapp :: ntab :: r0 =>
    let '(tab, r1) := dec_cfgtab (N.to_nat ntab) r0 in
    match r1 with
    | rc :: term :: vterm :: vcand :: r2 =>
    let P := mkP self (n2b mono) (n2b track && n2b rc) (n2b rc) trailing maxapp (lookup_cfg tab) in
      let '(es, r3) := dec_entries_n r2 in
      match r3 with
      | pcommit :: nsn :: r4 =>
        let '(snaps, r5) := dec_snaps (N.to_nat nsn) r4 in
          let '(run0, out0) := boot P (image_of term vterm vcand es pcommit snaps) in
          (N.of_nat (length out0) :: out0) ++ run_events P (length r5) run0 r5
      | _ => []
      end
    | _ => []
    end
  | _ => []
  end.
