(* LeaderCodec.v — flat encoding for the leader-sequence component (8): a server booted from an
   image, put in Leader state (setState + setupLeaderState), then driven through dispatchLogs,
   match reports, commit processing, membership changes, user restore, verifyLeader. *)
From Coq Require Import List NArith Bool.
From stdpp Require Import gmap.
From RaftModel Require Import Base Config Compaction Commitment Node NodeCodec Leader.
Open Scope N_scope.

Fixpoint insert_fres (x : fres) (l : list fres) : list fres :=
  match l with
  | [] => [x]
  | y :: r => if fr_id x <=? fr_id y then x :: l else y :: insert_fres x r
  end.
Definition enc_fres (l : list fres) : list N :=
  let s := fold_right insert_fres [] l in
  N.of_nat (length s) :: flat_map (fun f => [fr_id f; fr_index f; fr_err f; fr_resp f]) s.

Fixpoint insert_pair (x : N * N) (l : list (N * N)) : list (N * N) :=
  match l with
  | [] => [x]
  | y :: r => if fst x <=? fst y then x :: l else y :: insert_pair x r
  end.

Definition enc_lstate (ls : lstate) : list N :=
  let ms := fold_right insert_pair [] (map_to_list (cm_match (l_cm ls))) in
  enc_state (l_node ls)
  ++ [cm_commit (l_cm ls); cm_start (l_cm ls)]
  ++ N.of_nat (length ms) :: flat_map (fun p => [fst p; snd p]) ms
  ++ N.of_nat (length (l_inflight ls)) :: map (fun x => e_idx (fst x)) (l_inflight ls).

(* payload id of the entry that encodes a configuration: its key in the case's table *)
Fixpoint encode_cfg (t : list (N * config)) (c : config) : N :=
  match t with
  | [] => 0
  | (k, c') :: r => if config_eqb c c' then k else encode_cfg r c
  end.

Fixpoint dec_reqs (n : nat) (l : list N) : list (N * N * N) * list N :=
  match n with
  | O => ([], l)
  | S n' =>
    match l with
    | ty :: data :: fid :: r => let '(x, r') := dec_reqs n' r in ((ty, data, fid) :: x, r')
    | _ => ([], [])
    end
  end.

Inductive lop :=
| LDispatch (reqs : list (N * N * N)) (fs : list bool)
| LMatch (id idx : N)
| LCommit
| LConfig (q : creq) (fid : N) (fs : list bool)
| LRestore (metaIdx : N) (data : list N) (sizeOk : bool) (fs : list bool)
| LVerify
| LGate
| LVote (leader : bool) (with_resolved : bool).   (* a replication goroutine votes on the LAST verify future *)

Definition dec_fails (l : list N) : list bool * list N :=
  let '(fl, r) := dec_list l in (map n2b fl, r).

Definition dec_lop (l : list N) : option (lop * list N) :=
  match l with
  | 1 :: n :: r =>
    let '(reqs, r1) := dec_reqs (N.to_nat n) r in
    let '(fs, r2) := dec_fails r1 in Some (LDispatch reqs fs, r2)
  | 2 :: id :: idx :: r => Some (LMatch id idx, r)
  | 3 :: r => Some (LCommit, r)
  | 4 :: cmd :: id :: ad :: prev :: fid :: r =>
    let '(fs, r1) := dec_fails r in Some (LConfig (mkReq cmd id ad prev) fid fs, r1)
  | 5 :: mi :: r =>
    let '(data, r1) := dec_list r in
    match r1 with
    | so :: r2 => let '(fs, r3) := dec_fails r2 in Some (LRestore mi data (n2b so) fs, r3)
    | [] => None
    end
  | 6 :: r => Some (LVerify, r)
  | 7 :: r => Some (LGate, r)
  | 8 :: ld :: wr :: r => Some (LVote (n2b ld) (n2b wr), r)
  | _ => None
  end.

(* the last verify future of the run (not part of the leader state): votes, quorumSize, and how it stands:
   0 still collecting votes (notifyCh set), 1 handed over with a quorum (or answered at once: single voter),
   2 handed over on a denial.  verifyFuture.vote is a no-op once the future was handed over. *)
Definition vstate : Type := option (N * N * N).

Definition vote_step (vf : vstate) (leader : bool) : vstate :=
  match vf with
  | None => None
  | Some (votes, q, 0) =>
    let '(v, r) := verify_vote votes q leader in
    Some (v, q, match r with None => 0 | Some true => 1 | Some false => 2 end)
  | Some _ => vf
  end.

(* a dead leader state (panic inside processLogs) ends the case *)
Definition step_lop (P : params) (tab : list (N * config)) (ls : lstate) (vf : vstate) (o : lop)
  : option lstate * vstate * list N :=
  match o with
  | LDispatch reqs fs =>
    let '(ls', res, tr, _) := dispatch P ls fs reqs in
    (Some ls', vf, 1 :: enc_fres res ++ enc_trace tr ++ enc_lstate ls')
  | LMatch id idx => let ls' := peer_match ls id idx in (Some ls', vf, 2 :: enc_lstate ls')
  | LCommit =>
    match leader_commit ls with
    | None => (None, vf, [39])
    | Some (ls', tr, res) => (Some ls', vf, 3 :: enc_fres res ++ enc_trace tr ++ enc_lstate ls')
    end
  | LConfig q fid fs =>
    let '(ls', res, tr, _) := append_config P (encode_cfg tab) ls fs q fid in
    (Some ls', vf, 4 :: enc_fres res ++ enc_trace tr ++ enc_lstate ls')
  | LRestore mi data so fs =>
    let '(ls', code, res, tr, _) := restore_user P ls fs mi data so in
    (Some ls', vf, 5 :: code :: enc_fres res ++ enc_trace tr ++ enc_lstate ls')
  | LVerify =>
    let '(votes, q, now, peers) := verify_leader P (l_node ls) in
    (Some ls, Some (votes, q, if now then 1 else 0),
     6 :: votes :: q :: b2n now :: N.of_nat (length peers) :: fold_right (fun x l => x :: l) [] peers)
  | LGate => (Some ls, vf, [7; b2n (config_gate_open ls)])
  | LVote leader wr =>
    let vf' := vote_step vf leader in
    (Some ls, vf',
     match vf' with
     | None => [8]
     | Some (votes, q, res) => 8 :: votes :: q :: (if wr then [res] else [])
     end)
  end.

Fixpoint run_lops (P : params) (tab : list (N * config)) (fuel : nat) (ls : lstate) (vf : vstate) (l : list N) : list N :=
  match fuel with
  | O => []
  | S f =>
    match dec_lop l with
    | None => []
    | Some (o, rest) =>
      let '(ls', vf', out) := step_lop P tab ls vf o in
      (N.of_nat (length out) :: out) ++
      match ls' with Some x => run_lops P tab f x vf' rest | None => [] end
    end
  end.

(* component 8: header and image exactly as component 6, then the leader ops *)
Definition run_leaderseq (inp : list N) : list N :=
  match inp with
  | self :: mono :: track :: trailing :: maxapp :: ntab :: r0 =>
    let '(tab, r1) := dec_cfgtab (N.to_nat ntab) r0 in
    match r1 with
    | rc :: term :: vterm :: vcand :: r2 =>
      let P := mkP self (n2b mono) (n2b track && n2b rc) (n2b rc) trailing maxapp (lookup_cfg tab) in
      let '(es, r3) := dec_entries_n r2 in
      match r3 with
      | pcommit :: nsn :: r4 =>
        let '(snaps, r5) := dec_snaps (N.to_nat nsn) r4 in
        match recover P (image_of term vterm vcand es pcommit snaps) with
        | RecOk s _ =>
          let ls := leader_setup (set_leader (set_state s Leader) self self) in
          let out0 := 1 :: enc_lstate ls in
          (N.of_nat (length out0) :: out0) ++ run_lops P tab (length r5) ls None r5
        | _ => [1; 0]
        end
      | _ => []
      end
    | _ => []
    end
  | _ => []
  end.
