(* Leader.v — leader-side logic of raft.go on the main goroutine: setupLeaderState, dispatchLogs,
   the commitCh case of leaderLoop (commit processing, processLogs with futures, the FSM batch
   with its response pairing), appendConfigurationEntry and its gate, restoreUserSnapshot,
   verifyLeader.  Futures are identified by a number chosen by the caller. *)
From Coq Require Import List NArith Bool.
From stdpp Require Import gmap.
From RaftModel Require Import Base Config Compaction Commitment Node.
Open Scope N_scope.

(* error codes of futures *)
Definition E_OK : N := 0.
Definition E_STORE : N := 7.        (* the StoreLogs error *)
Definition E_ABORTED : N := 6.      (* ErrAbortedByRestore *)
Definition E_CONFIG : N := 8.       (* nextConfiguration error *)
Definition E_LOST : N := 2.         (* ErrLeadershipLost *)

Record lstate := mkLS {
  l_node : nstate;
  l_cm : commitment;
  l_inflight : list (entry * N);     (* (entry, future id), in index order *)
}.

(* a future resolved: id, index, error code, response *)
Record fres := mkFR { fr_id : N; fr_index : N; fr_err : N; fr_resp : N }.

(* the FSM's answer for a payload (harness FSM: respOf) *)
Definition resp_of (data : N) : N := data * 7 + 3.

(* setupLeaderState *)
Definition leader_setup (s : nstate) : lstate :=
  mkLS s (cm_new (v_latest s) (last_index s + 1)) [].

(* ---------------------------------------------------------------- dispatchLogs *)
Fixpoint number_logs (last term : N) (reqs : list (N * N * N)) : list (entry * N) :=
  match reqs with
  | [] => []
  | (ty, data, fid) :: r => (mkE (last + 1) term ty data, fid) :: number_logs (last + 1) term r
  end.

Definition dispatch (P : params) (ls : lstate) (fs : list bool) (reqs : list (N * N * N))
  : lstate * list fres * list ev * list bool :=
  let s := l_node ls in
  let numbered := number_logs (last_index s) (v_term s) reqs in
  let es := map fst numbered in
  let infl := l_inflight ls ++ numbered in
  let '(s1, trs) := do_stage P s (v_commit s) in
  let '(s2, ok, fs') := do_store P s1 fs es in
  if negb ok then
    (mkLS (set_state s2 Follower) (l_cm ls) infl,
     map (fun x => mkFR (snd x) (e_idx (fst x)) E_STORE 0) numbered, trs ++ [EStore es false], fs')
  else
    let li := e_idx (last_of es) in
    (mkLS (set_lastlog s2 li (v_term s)) (cm_step (l_cm ls) (CMatch (p_self P) li)) infl,
     [], trs ++ [EStore es true], fs').

(* a replication goroutine reports a follower's match index *)
Definition peer_match (ls : lstate) (id idx : N) : lstate :=
  mkLS (l_node ls) (cm_step (l_cm ls) (CMatch id idx)) (l_inflight ls).

(* ---------------------------------------------------------------- the FSM goroutine: applyBatch *)
Definition should_send (e : entry) : bool := (e_ty e =? LogCommand) || (e_ty e =? LogConfiguration).

(* the user FSM's ApplyBatch on the sendable logs, in order *)
Definition fsm_batch_responses (logs : list entry) : list N :=
  map (fun e => if e_ty e =? LogCommand then resp_of (e_data e) else 0) logs.

(* walk the requests with the running counter i into the responses *)
Fixpoint pair_responses (reqs : list (entry * option N)) (resps : list N) : list fres :=
  match reqs with
  | [] => []
  | (e, fut) :: r =>
    if should_send e then
      let resp := hd 0 resps in
      match fut with
      | Some fid => mkFR fid (e_idx e) E_OK resp :: pair_responses r (tl resps)
      | None => pair_responses r (tl resps)
      end
    else
      match fut with
      | Some fid => mkFR fid (e_idx e) E_OK 0 :: pair_responses r resps
      | None => pair_responses r resps
      end
  end.

Definition apply_batch (reqs : list (entry * option N)) : list fres :=
  pair_responses reqs (fsm_batch_responses (filter should_send (map fst reqs))).

(* ---------------------------------------------------------------- processLogs with futures *)
(* groupFutures is a map keyed by index: a later future for the same index replaces an earlier one *)
Definition lookup_future (infl : list (entry * N)) (idx : N) : option (entry * N) :=
  find (fun x => e_idx (fst x) =? idx) (rev infl).

(* entries lastApplied+1 .. lastApplied+n: from the in-flight futures or the log store *)
Fixpoint collect_with_futures (m : gmap N entry) (infl : list (entry * N)) (idx : N) (n : nat)
  : option (list (entry * option N)) :=
  match n with
  | O => Some []
  | S n' =>
    let next := idx + 1 in
    let item := match lookup_future infl next with
                | Some (e, fid) => Some (e, Some fid)
                | None => match m !! next with Some e => Some (e, None) | None => None end
                end in
    match item with
    | None => None
    | Some (e, f) =>
      if prepare_kind (e_ty e) =? 3 then None
      else match collect_with_futures m infl next n' with
           | None => None
           | Some r => Some ((e, f) :: r)
           end
    end
  end.

(* results: futures of entries that never reach the FSM are answered at once; the others by the
   FSM goroutine, batch by batch (the batching does not change the pairing) *)
Definition process_logs_f (s : nstate) (infl : list (entry * N)) (index : N)
  : option (nstate * list ev * list fres) :=
  if index <=? v_applied s then Some (s, [], [])
  else match collect_with_futures (d_log s) infl (v_applied s) (N.to_nat (index - v_applied s)) with
       | None => None
       | Some items =>
         let handed := filter (fun x => prepare_kind (e_ty (fst x)) =? 1) items in
         let direct := filter (fun x => negb (prepare_kind (e_ty (fst x)) =? 1)) items in
         Some (set_applied_fsm s index (fold_left fsm_apply (map fst handed) (v_fsm s))
                               (match last_opt (map fst handed) with Some e => (e_idx e, e_term e) | None => v_fsmLast s end),
               flat_map fsm_events (map fst handed),
               flat_map (fun x => match snd x with
                                  | Some fid => [mkFR fid (e_idx (fst x)) E_OK 0]
                                  | None => [] end) direct
               ++ apply_batch handed)
       end.

(* ---------------------------------------------------------------- case <-r.leaderState.commitCh *)
Fixpoint ready_prefix (infl : list (entry * N)) (ci : N) : list (entry * N) * list (entry * N) :=
  match infl with
  | [] => ([], [])
  | x :: r => if ci <? e_idx (fst x) then ([], infl)
              else let '(a, b) := ready_prefix r ci in (x :: a, b)
  end.

Definition leader_commit (ls : lstate) : option (lstate * list ev * list fres) :=
  let s := l_node ls in
  let old := v_commit s in
  let ci := cm_commit (l_cm ls) in
  let s1 := set_commit s ci in
  let s2 := if (old <? v_latestIdx s1) && (v_latestIdx s1 <=? ci)
            then set_committed s1 (v_latest s1) (v_latestIdx s1) else s1 in
  let '(ready, rest) := ready_prefix (l_inflight ls) ci in
  match ready with
  | [] => Some (mkLS s2 (l_cm ls) rest, [], [])
  | _ =>
    let lastIdx := e_idx (fst (last ready (mkE 0 0 0 0, 0))) in
    match process_logs_f s2 ready lastIdx with
    | None => None
    | Some (s3, tr, res) => Some (mkLS s3 (l_cm ls) rest, tr, res)
    end
  end.

(* ---------------------------------------------------------------- membership changes *)
Definition config_gate_open (ls : lstate) : bool :=
  (v_latestIdx (l_node ls) =? v_committedIdx (l_node ls)) && (cm_start (l_cm ls) <=? v_commit (l_node ls)).

(* appendConfigurationEntry; encode maps a configuration to the payload id of its entry *)
Definition append_config (P : params) (encode : config -> N) (ls : lstate) (fs : list bool) (q : creq) (fid : N)
  : lstate * list fres * list ev * list bool :=
  let s := l_node ls in
  match next_config (v_latest s) (v_latestIdx s) q with
  | None => (ls, [mkFR fid 0 E_CONFIG 0], [], fs)
  | Some cfg =>
    let '(ls1, res, tr, fs') := dispatch P ls fs [(LogConfiguration, encode cfg, fid)] in
    let idx := last_index s + 1 in
    (mkLS (set_latest (l_node ls1) cfg idx) (cm_step (l_cm ls1) (CSetCfg cfg)) (l_inflight ls1), res, tr, fs')
  end.

(* ---------------------------------------------------------------- restoreUserSnapshot *)
(* result code: 0 ok, 1 refused (configuration change outstanding), 2 snapshot store error *)
Definition restore_user (P : params) (ls : lstate) (fs : list bool) (metaIdx : N) (data : list N) (sizeOk : bool)
  : lstate * N * list fres * list ev * list bool :=
  let s := l_node ls in
  if negb (v_committedIdx s =? v_latestIdx s) then (ls, 1, [], [], fs)
  else
    let aborted := map (fun x => mkFR (snd x) (e_idx (fst x)) E_ABORTED 0) (l_inflight ls) in
    let ls0 := mkLS s (l_cm ls) [] in
    let term := v_term s in
    let li := N.max metaIdx (last_index s) + 1 in
    let '(fc, fs1) := next_fail fs in
    if fc then (ls0, 2, aborted, [ESnap li term false], fs1)
    else if negb sizeOk then (ls0, 2, aborted, [], fs1)
    else
      let '(fcl, fs2) := next_fail fs1 in
      if fcl then (ls0, 2, aborted, [ESnap li term false], fs2)
      else
        let sn := mkSnap li term (v_latest s) (v_latestIdx s) data true in
        let s1 := set_snaps s (d_snaps s ++ [sn]) in
        let s2 := set_lastsnap (set_applied_fsm (set_lastlog s1 li term) li data (li, term)) li term in
        if p_monotonic P then
          let range := remove_old (log_first (d_log s2)) (log_last (d_log s2)) in
          let '(s3, trc, fs3) := run_compaction s2 fs2 range in
          (mkLS s3 (l_cm ls) [], 0, aborted, [ESnap li term true; ERestore data] ++ trc, fs3)
        else (mkLS s2 (l_cm ls) [], 0, aborted, [ESnap li term true; ERestore data], fs2)
  .

(* ---------------------------------------------------------------- verifyLeader *)
(* (votes, quorumSize, answered at once?, peers the request is registered with) *)
Definition verify_leader (P : params) (s : nstate) : N * N * bool * list N :=
  let q := quorum_size (v_latest s) in
  if q =? 1 then (1, q, true, [])
  else (1, q, false,
        (* after the "fix:" commit: only voters of the latest configuration are registered
           (hasVote on the peer's id); the pinned tree registered every peer, non-voters included *)
        map s_id (filter (fun sv => negb (s_id sv =? p_self P) && has_vote (v_latest s) (s_id sv)) (v_latest s))).

(* a peer's exchange votes; returns the new count and whether the future is now resolved
   (Some true: leadership confirmed, Some false: denied) *)
Definition verify_vote (votes quorum : N) (leader : bool) : N * option bool :=
  if leader then
    let v := votes + 1 in (v, if quorum <=? v then Some true else None)
  else (votes, Some false).
