(* LogCache.v — model of log_cache.go over an abstract backend, and the reference
   map store used by the harness (harness/store.go: MapLogStore). *)
From Coq Require Import List NArith Bool.
From stdpp Require Import gmap.
From RaftModel Require Import Base.
Open Scope N_scope.

(* ---------- operations and observable results ---------- *)
Inductive lop :=
| OGet (i : N)
| OStore (es : list entry)
| ODelete (lo hi : N)
| OFirst
| OLast.

(* Errors are projected to a small enum: LogCache.StoreLogs wraps the backend's error
   text, which is the only place where the two differ literally. *)
Inductive lres :=
| RErr                       (* any error (incl. ErrLogNotFound) *)
| ROk                        (* nil error from StoreLogs / DeleteRange *)
| REntry (e : entry)         (* GetLog hit *)
| RIdx (i : N).              (* FirstIndex / LastIndex *)

(* ---------- an abstract backend ---------- *)
Record backend := {
  B : Type;
  bget : B -> N -> option entry;             (* None: any error *)
  bstore : B -> list entry -> B * bool;      (* bool: nil error? *)
  bdelete : B -> N -> N -> B * bool;
  bfirst : B -> option N;
  blast : B -> option N;
}.

Definition backend_step (bk : backend) (b : B bk) (o : lop) : B bk * lres :=
  match o with
  | OGet i => (b, match bget bk b i with Some e => REntry e | None => RErr end)
  | OStore es => let '(b', ok) := bstore bk b es in (b', if ok then ROk else RErr)
  | ODelete lo hi => let '(b', ok) := bdelete bk b lo hi in (b', if ok then ROk else RErr)
  | OFirst => (b, match bfirst bk b with Some i => RIdx i | None => RErr end)
  | OLast => (b, match blast bk b with Some i => RIdx i | None => RErr end)
  end.

(* ---------- the cache ---------- *)
(* cache []*Log of fixed length cap: slot k holds at most one entry. *)
Record cache (bk : backend) := mkCache {
  c_cap : N;
  c_slots : gmap N entry;
  c_back : B bk;
}.
Arguments mkCache {bk}. Arguments c_cap {bk}. Arguments c_slots {bk}. Arguments c_back {bk}.

Definition cache_new {bk} (cap : N) (b : B bk) : cache bk := mkCache cap ∅ b.

Definition fill_slots (cap : N) (slots : gmap N entry) (es : list entry) : gmap N entry :=
  fold_left (fun s e => <[ e_idx e mod cap := e ]> s) es slots.

Definition cache_step {bk} (c : cache bk) (o : lop) : cache bk * lres :=
  match o with
  | OGet i =>
    match c_slots c !! (i mod c_cap c) with
    | Some e => if e_idx e =? i then (c, REntry e)
                else (c, match bget bk (c_back c) i with Some e => REntry e | None => RErr end)
    | None => (c, match bget bk (c_back c) i with Some e => REntry e | None => RErr end)
    end
  | OStore es =>
    let '(b', ok) := bstore bk (c_back c) es in
    if ok then (mkCache (c_cap c) (fill_slots (c_cap c) (c_slots c) es) b', ROk)
    else (mkCache (c_cap c) (c_slots c) b', RErr)
  | ODelete lo hi =>
    let '(b', ok) := bdelete bk (c_back c) lo hi in
    (mkCache (c_cap c) ∅ b', if ok then ROk else RErr)
  | OFirst => (c, match bfirst bk (c_back c) with Some i => RIdx i | None => RErr end)
  | OLast => (c, match blast bk (c_back c) with Some i => RIdx i | None => RErr end)
  end.

Fixpoint run {S O R} (step : S -> O -> S * R) (s : S) (ops : list O) : S * list R :=
  match ops with
  | [] => (s, [])
  | o :: ops' => let '(s', r) := step s o in
                 let '(s'', rs) := run step s' ops' in (s'', r :: rs)
  end.

(* ---------- the reference map store (what harness/store.go implements) ---------- *)
(* Entries keyed by index; FirstIndex/LastIndex are the least/greatest key, 0 when empty.
   Each mutating call carries a failure bit consumed from an oracle list kept in the state:
   a failing call returns an error and has no effect. *)
Record mstore := mkMS { ms_map : gmap N entry; ms_fail : list bool }.

Definition keys_of (m : gmap N entry) : list N := map fst (map_to_list m).
Definition min_key (m : gmap N entry) : N :=
  match keys_of m with [] => 0 | k :: ks => fold_left N.min ks k end.
Definition max_key (m : gmap N entry) : N := fold_left N.max (keys_of m) 0.

Definition store_entries (m : gmap N entry) (es : list entry) : gmap N entry :=
  fold_left (fun s e => <[ e_idx e := e ]> s) es m.

(* delete keys lo..hi (inclusive); done by filtering so that huge ranges cost nothing *)
Definition delete_range (m : gmap N entry) (lo hi : N) : gmap N entry :=
  base.filter (fun kv : N * entry => negb ((lo <=? fst kv) && (fst kv <=? hi)) = true) m.

Definition next_fail (s : mstore) : bool * list bool :=
  match ms_fail s with [] => (false, []) | f :: fs => (f, fs) end.

Definition ms_backend : backend := {|
  B := mstore;
  bget := fun s i => ms_map s !! i;
  bstore := fun s es =>
    let '(f, fs) := next_fail s in
    if f then (mkMS (ms_map s) fs, false) else (mkMS (store_entries (ms_map s) es) fs, true);
  bdelete := fun s lo hi =>
    let '(f, fs) := next_fail s in
    if f then (mkMS (ms_map s) fs, false) else (mkMS (delete_range (ms_map s) lo hi) fs, true);
  bfirst := fun s => Some (min_key (ms_map s));
  blast := fun s => Some (max_key (ms_map s));
|}.

(* ---------- flat encoding for the correspondence driver ---------- *)
(* input: cap, nfail, fail bits..., then ops:
     1 i | 2 n e1..en | 3 lo hi | 4 | 5
   output per op: 0 (err) | 1 (ok) | 2 i t ty d | 3 i *)
Fixpoint dec_ops (fuel : nat) (l : list N) : list lop :=
  match fuel with
  | O => []
  | S f =>
    match l with
    | 1 :: i :: r => OGet i :: dec_ops f r
    | 2 :: n :: r => let '(es, r') := dec_entries (N.to_nat n) r in OStore es :: dec_ops f r'
    | 3 :: lo :: hi :: r => ODelete lo hi :: dec_ops f r
    | 4 :: r => OFirst :: dec_ops f r
    | 5 :: r => OLast :: dec_ops f r
    | _ => []
    end
  end.

Definition enc_res (r : lres) : list N :=
  match r with
  | RErr => [0] | ROk => [1] | REntry e => 2 :: enc_entry e | RIdx i => [3; i]
  end.

Definition run_logcache (inp : list N) : list N :=
  match inp with
  | cap :: nf :: r =>
    let fails := map n2b (firstn (N.to_nat nf) r) in
    let ops := dec_ops (length r) (skipn (N.to_nat nf) r) in
    let c0 := @cache_new ms_backend cap (mkMS ∅ fails) in
    flat_map enc_res (snd (run cache_step c0 ops))
  | _ => []
  end.

(* the bare reference store on the same input *)
Definition run_barestore (inp : list N) : list N :=
  match inp with
  | cap :: nf :: r =>
    let fails := map n2b (firstn (N.to_nat nf) r) in
    let ops := dec_ops (length r) (skipn (N.to_nat nf) r) in
    flat_map enc_res (snd (run (backend_step ms_backend) (mkMS ∅ fails) ops))
  | _ => []
  end.
