(* Config.v — model of configuration.go: Server, Configuration, hasVote, inConfiguration,
   checkConfiguration, nextConfiguration; and quorumSize (raft.go). *)
From RaftModel Require Import Base.
Open Scope N_scope.

(* ServerSuffrage: Voter = 0, Nonvoter = 1, Staging = 2.  IDs and addresses are N, with 0
   standing for the empty string. *)
Definition Voter : N := 0.
Definition Nonvoter : N := 1.
Definition Staging : N := 2.

Record server := mkSrv { s_suff : N; s_id : N; s_addr : N }.
Definition config := list server.

Definition is_voter (s : server) : bool := s_suff s =? Voter.

(* hasVote: suffrage of the FIRST server with that id *)
Fixpoint has_vote (c : config) (id : N) : bool :=
  match c with
  | [] => false
  | s :: r => if s_id s =? id then is_voter s else has_vote r id
  end.

Fixpoint in_config (c : config) (id : N) : bool :=
  match c with
  | [] => false
  | s :: r => if s_id s =? id then true else in_config r id
  end.

Definition voters (c : config) : list N := map s_id (filter is_voter c).

(* quorumSize: voters/2 + 1 *)
Definition quorum_size (c : config) : N := N.of_nat (length (filter is_voter c)) / 2 + 1.

Fixpoint mem (x : N) (l : list N) : bool :=
  match l with [] => false | y :: r => (x =? y) || mem x r end.
Fixpoint nodup_b (l : list N) : bool :=
  match l with [] => true | x :: r => negb (mem x r) && nodup_b r end.

(* checkConfiguration: nil error? *)
Definition check_config (c : config) : bool :=
  forallb (fun s => negb (s_id s =? 0)) c &&
  forallb (fun s => negb (s_addr s =? 0)) c &&
  nodup_b (map s_id c) &&
  nodup_b (map s_addr c) &&
  negb (Nat.eqb (length (filter is_voter c)) 0).

(* ConfigurationChangeCommand: AddVoter = 0, AddNonvoter = 1, DemoteVoter = 2,
   RemoveServer = 3, Promote = 4 *)
Record creq := mkReq { r_cmd : N; r_id : N; r_addr : N; r_prev : N }.

(* apply f to the first server satisfying p; tells whether one was found *)
Fixpoint update_first (p : server -> bool) (f : server -> server) (c : config) : config * bool :=
  match c with
  | [] => ([], false)
  | s :: r => if p s then (f s :: r, true)
              else let '(r', b) := update_first p f r in (s :: r', b)
  end.

Fixpoint remove_first (p : server -> bool) (c : config) : config :=
  match c with
  | [] => []
  | s :: r => if p s then r else s :: remove_first p r
  end.

Definition apply_change (cur : config) (q : creq) : config :=
  let same := fun s => s_id s =? r_id q in
  if r_cmd q =? 0 then (* AddVoter *)
    let '(c', found) := update_first same
        (fun s => if is_voter s then mkSrv (s_suff s) (s_id s) (r_addr q)
                  else mkSrv Voter (r_id q) (r_addr q)) cur in
    if found then c' else cur ++ [mkSrv Voter (r_id q) (r_addr q)]
  else if r_cmd q =? 1 then (* AddNonvoter *)
    let '(c', found) := update_first same
        (fun s => if negb (s_suff s =? Nonvoter) then mkSrv (s_suff s) (s_id s) (r_addr q)
                  else mkSrv Nonvoter (r_id q) (r_addr q)) cur in
    if found then c' else cur ++ [mkSrv Nonvoter (r_id q) (r_addr q)]
  else if r_cmd q =? 2 then (* DemoteVoter *)
    fst (update_first same (fun s => mkSrv Nonvoter (s_id s) (s_addr s)) cur)
  else if r_cmd q =? 3 then (* RemoveServer *)
    remove_first same cur
  else if r_cmd q =? 4 then (* Promote: first server with that id AND suffrage Staging *)
    fst (update_first (fun s => same s && (s_suff s =? Staging))
                      (fun s => mkSrv Voter (s_id s) (s_addr s)) cur)
  else cur.

(* nextConfiguration: None = error *)
Definition next_config (cur : config) (cur_idx : N) (q : creq) : option config :=
  if (0 <? r_prev q) && negb (r_prev q =? cur_idx) then None
  else let c' := apply_change cur q in
       if check_config c' then Some c' else None.

(* ---------- flat encoding ---------- *)
Fixpoint dec_servers (n : nat) (l : list N) : config * list N :=
  match n with
  | O => ([], l)
  | S n' =>
    match l with
    | su :: id :: ad :: rest =>
      let '(ss, rest') := dec_servers n' rest in (mkSrv su id ad :: ss, rest')
    | _ => ([], [])
    end
  end.
Definition dec_config (l : list N) : config * list N :=
  match l with n :: r => dec_servers (N.to_nat n) r | [] => ([], []) end.
Definition enc_config (c : config) : list N :=
  N.of_nat (length c) :: flat_map (fun s => [s_suff s; s_id s; s_addr s]) c.

(* component 7: input cfg, idx, cmd id addr prev
   output: check(cur) ; 0 | 1 cfg' ; then has_vote/in_config of ids 0..5 in cur *)
Definition run_nextconfig (inp : list N) : list N :=
  let '(cur, r) := dec_config inp in
  match r with
  | idx :: cmd :: id :: ad :: prev :: _ =>
    b2n (check_config cur) ::
    (match next_config cur idx (mkReq cmd id ad prev) with
     | None => [0]
     | Some c' => 1 :: enc_config c'
     end) ++ map (fun i => b2n (has_vote cur i) + 2 * b2n (in_config cur i)) [0;1;2;3;4;5]
      ++ [quorum_size cur]
  | _ => []
  end.

(* structural equality of configurations *)
Definition server_eqb (a b : server) : bool :=
  (s_suff a =? s_suff b) && (s_id a =? s_id b) && (s_addr a =? s_addr b).
Fixpoint config_eqb (a b : config) : bool :=
  match a, b with
  | [], [] => true
  | x :: r, y :: r' => server_eqb x y && config_eqb r r'
  | _, _ => false
  end.
