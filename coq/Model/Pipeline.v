(* Pipeline.v — NetworkTransport's AppendEntries pipeline at message level (net_transport.go:
   netPipeline, decodeResponses) and the byte-level framing argument with an abstract codec. *)
From RaftModel Require Import Base.
Open Scope N_scope.

(* script: 1 k = the sender issues request k ; 2 = the handler answers the oldest request it holds
   with that request's response ; 3 = the connection is killed ; 4 = the handler answers the oldest
   request with an error (in-band: the stream stays in sync, only that request fails) *)
Inductive pop := PSend (k : N) | PAnswer | PKill | PError.

Record pstate := mkPS {
  ps_pending : list N;                 (* sent, not yet answered, oldest first *)
  ps_killed : bool;
  ps_results : list (N * option N);    (* request -> Some tag of the response delivered | None = error *)
}.

Definition pipe_step (s : pstate) (o : pop) : pstate :=
  match o with
  | PSend k =>
    if ps_killed s then mkPS (ps_pending s) true (ps_results s ++ [(k, None)])
    else mkPS (ps_pending s ++ [k]) false (ps_results s)
  | PAnswer =>
    match ps_pending s with
    | h :: r => if ps_killed s then s else mkPS r false (ps_results s ++ [(h, Some h)])
    | [] => s
    end
  | PError =>
    match ps_pending s with
    | h :: r => if ps_killed s then s else mkPS r false (ps_results s ++ [(h, None)])
    | [] => s
    end
  | PKill =>
    mkPS [] true (ps_results s ++ map (fun k => (k, None)) (ps_pending s))
  end.

Definition pipe_close (s : pstate) : list (N * option N) :=
  ps_results s ++ map (fun k => (k, None)) (ps_pending s).

Definition pipe_run (ops : list pop) : list (N * option N) :=
  pipe_close (fold_left pipe_step ops (mkPS [] false [])).

Fixpoint lookup_res (l : list (N * option N)) (k : N) : option (option N) :=
  match l with
  | [] => None
  | (k', r) :: t => if k' =? k then Some r else lookup_res t k
  end.

Fixpoint dec_pops (fuel : nat) (l : list N) : list pop :=
  match fuel with
  | O => []
  | S f =>
    match l with
    | 1 :: k :: r => PSend k :: dec_pops f r
    | 2 :: r => PAnswer :: dec_pops f r
    | 3 :: r => PKill :: dec_pops f r
    | 4 :: r => PError :: dec_pops f r
    | _ => []
    end
  end.

Fixpoint sends_of (ops : list pop) : list N :=
  match ops with
  | [] => []
  | PSend k :: r => k :: sends_of r
  | _ :: r => sends_of r
  end.

(* component 16: per request in send order: 1 tag | 2 *)
Definition run_pipeline (inp : list N) : list N :=
  let ops := dec_pops (length inp) inp in
  let res := pipe_run ops in
  flat_map (fun k => match lookup_res res k with
                     | Some (Some t) => [1; t]
                     | _ => [2]
                     end) (sends_of ops).

(* ---------------------------------------------------------------- byte level, abstract codec *)
Section Framing.
  Variable msg : Type.
  Variable enc : msg -> list N.
  Variable dec : list N -> option (msg * list N).

  (* decode as many messages as the stream holds (fuel = an upper bound on their number) *)
  Fixpoint decode_stream (fuel : nat) (bytes : list N) : list msg :=
    match fuel with
    | O => []
    | S f => match bytes with
             | [] => []
             | _ => match dec bytes with
                    | Some (m, rest) => m :: decode_stream f rest
                    | None => []
                    end
             end
    end.
End Framing.
