(* Dispatch.v — the single entry point the extracted driver calls:
   component number and flat input -> flat output. *)
From RaftModel Require Import Base LogCache Config Commitment Compaction Node NodeCodec Candidate Lease Leader LeaderCodec Pipeline LoopTable Futures Notify FileSnap Cluster Replicate Converge ClusterLog ClusterCommit ClusterSnap.
Open Scope N_scope.

(* the table generated from the Go source on this run *)
Definition the_table : table := mkT loops stepdown_flushes apis chan_caps error_selects_shutdown stopped_closed_after_wait.

Definition run_case (comp : N) (inp : list N) : list N :=
  match comp with
  | 19 => run_logcache inp
  | 1900 => run_barestore inp
  | 5 => run_commitment inp
  | 501 => run_follower_commit inp
  | 7 => run_nextconfig inp
  | 11 => run_compact inp
  | 6 => run_nodeseq inp
  | 14 => run_candidate inp
  | 1401 => run_candidate_f inp
  | 8 => run_leaderseq inp
  | 1 => run_cluster inp
  | 101 => run_clusterlog inp
  | 102 => run_clustercommit inp
  | 103 => run_clustersnap inp
  | 104 => run_clusterinstall inp
  | 12 => run_replseq inp
  | 1201 => run_converge inp
  | 15 => run_fsprogram inp
  | 1501 => run_image inp
  | 1502 => run_crash inp
  | 16 => run_pipeline inp
  | 17 => run_futures the_table inp
  | 18 => run_notify_ops runleader_entry runleader_exit n_init inp
  | 1801 => run_override None inp
  | 13 => run_lease inp
  | 1301 => run_validate_timing inp
  | 1302 => [min_check_interval]
  | 1303 => run_lease_floor inp
  | _ => []
  end.
