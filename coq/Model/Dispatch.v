(* Dispatch.v — the single entry point the extracted driver calls:
   component number and flat input -> flat output. *)
From RaftModel Require Import Base LogCache.
Open Scope N_scope.

Definition run_case (comp : N) (inp : list N) : list N :=
  match comp with
  | 19 => run_logcache inp
  | 1900 => run_barestore inp
  | _ => []
  end.
