(* Node.v — one server: durable stores + volatile state, and the RPC handlers of raft.go as
   total functions.  Every durable store call consumes one bit of a failure oracle and is
   recorded in the trace, in program order, so that "a crash after the k-th durable operation"
   is the image obtained by replaying the first k trace items.  Protocol version 3 throughout
   (LogAddPeerDeprecated / LogRemovePeerDeprecated entries are outside the model). *)
From Coq Require Import List NArith Bool.
From stdpp Require Import gmap.
From RaftModel Require Import Base Config Compaction.
Open Scope N_scope.

(* ---------------------------------------------------------------- parameters *)
Record params := mkP {
  p_self : N;                (* LocalID = sN, local address = aN *)
  p_monotonic : bool;        (* MonotonicLogStore && IsMonotonic() *)
  p_track : bool;            (* RestoreCommittedLogs && CommitTrackingLogStore *)
  p_rc : bool;               (* RestoreCommittedLogs *)
  p_trailing : N;            (* TrailingLogs *)
  p_maxappend : N;           (* MaxAppendEntries *)
  p_decode : N -> config;    (* DecodeConfiguration on a payload id *)
}.

(* ---------------------------------------------------------------- state *)
Record snapshot := mkSnap {
  sn_idx : N; sn_term : N; sn_cfg : config; sn_cfgidx : N;
  sn_data : list N;          (* FSM content: the payload ids applied *)
  sn_ok : bool;              (* Open succeeds *)
}.

Record nstate := mkNS {
  (* durable: StableStore *)
  d_term : N; d_vterm : N; d_vcand : option N;
  (* durable: LogStore *)
  d_log : gmap N entry;
  d_staged : N;              (* StageCommitIndex value, durable with the next successful StoreLogs *)
  d_pcommit : N;             (* durable commit index *)
  (* durable: SnapshotStore, in creation order (newest last) *)
  d_snaps : list snapshot;
  (* volatile *)
  v_role : N;                (* 0 Follower, 1 Candidate, 2 Leader *)
  v_term : N; v_commit : N; v_applied : N;
  v_lastLogIdx : N; v_lastLogTerm : N; v_lastSnapIdx : N; v_lastSnapTerm : N;
  v_latest : config; v_latestIdx : N; v_committed : config; v_committedIdx : N;
  v_leader : N; v_leaderId : N;   (* advertised leader address / id, 0 = none *)
  v_transfer : bool;              (* candidateFromLeadershipTransfer *)
  v_fsm : list N;                 (* user FSM content *)
  v_fsmLast : N * N;              (* runFSM's (lastIndex, lastTerm): last entry or snapshot handed to the FSM goroutine since it started *)
}.

Definition Follower : N := 0.
Definition Candidate : N := 1.
Definition Leader : N := 2.

(* record updates, written out (no axioms, no plugins) *)
Definition set_durable_term (s : nstate) (t : N) : nstate :=
  mkNS t (d_vterm s) (d_vcand s) (d_log s) (d_staged s) (d_pcommit s) (d_snaps s)
       (v_role s) (v_term s) (v_commit s) (v_applied s) (v_lastLogIdx s) (v_lastLogTerm s)
       (v_lastSnapIdx s) (v_lastSnapTerm s) (v_latest s) (v_latestIdx s) (v_committed s)
       (v_committedIdx s) (v_leader s) (v_leaderId s) (v_transfer s) (v_fsm s) (v_fsmLast s).
Definition set_vterm (s : nstate) (t : N) : nstate :=
  mkNS (d_term s) t (d_vcand s) (d_log s) (d_staged s) (d_pcommit s) (d_snaps s)
       (v_role s) (v_term s) (v_commit s) (v_applied s) (v_lastLogIdx s) (v_lastLogTerm s)
       (v_lastSnapIdx s) (v_lastSnapTerm s) (v_latest s) (v_latestIdx s) (v_committed s)
       (v_committedIdx s) (v_leader s) (v_leaderId s) (v_transfer s) (v_fsm s) (v_fsmLast s).
Definition set_vcand (s : nstate) (c : option N) : nstate :=
  mkNS (d_term s) (d_vterm s) c (d_log s) (d_staged s) (d_pcommit s) (d_snaps s)
       (v_role s) (v_term s) (v_commit s) (v_applied s) (v_lastLogIdx s) (v_lastLogTerm s)
       (v_lastSnapIdx s) (v_lastSnapTerm s) (v_latest s) (v_latestIdx s) (v_committed s)
       (v_committedIdx s) (v_leader s) (v_leaderId s) (v_transfer s) (v_fsm s) (v_fsmLast s).
Definition set_log (s : nstate) (l : gmap N entry) (staged pcommit : N) : nstate :=
  mkNS (d_term s) (d_vterm s) (d_vcand s) l staged pcommit (d_snaps s)
       (v_role s) (v_term s) (v_commit s) (v_applied s) (v_lastLogIdx s) (v_lastLogTerm s)
       (v_lastSnapIdx s) (v_lastSnapTerm s) (v_latest s) (v_latestIdx s) (v_committed s)
       (v_committedIdx s) (v_leader s) (v_leaderId s) (v_transfer s) (v_fsm s) (v_fsmLast s).
Definition set_snaps (s : nstate) (l : list snapshot) : nstate :=
  mkNS (d_term s) (d_vterm s) (d_vcand s) (d_log s) (d_staged s) (d_pcommit s) l
       (v_role s) (v_term s) (v_commit s) (v_applied s) (v_lastLogIdx s) (v_lastLogTerm s)
       (v_lastSnapIdx s) (v_lastSnapTerm s) (v_latest s) (v_latestIdx s) (v_committed s)
       (v_committedIdx s) (v_leader s) (v_leaderId s) (v_transfer s) (v_fsm s) (v_fsmLast s).
Definition set_role (s : nstate) (r : N) : nstate :=
  mkNS (d_term s) (d_vterm s) (d_vcand s) (d_log s) (d_staged s) (d_pcommit s) (d_snaps s)
       r (v_term s) (v_commit s) (v_applied s) (v_lastLogIdx s) (v_lastLogTerm s)
       (v_lastSnapIdx s) (v_lastSnapTerm s) (v_latest s) (v_latestIdx s) (v_committed s)
       (v_committedIdx s) (v_leader s) (v_leaderId s) (v_transfer s) (v_fsm s) (v_fsmLast s).
Definition set_vol_term (s : nstate) (t : N) : nstate :=
  mkNS (d_term s) (d_vterm s) (d_vcand s) (d_log s) (d_staged s) (d_pcommit s) (d_snaps s)
       (v_role s) t (v_commit s) (v_applied s) (v_lastLogIdx s) (v_lastLogTerm s)
       (v_lastSnapIdx s) (v_lastSnapTerm s) (v_latest s) (v_latestIdx s) (v_committed s)
       (v_committedIdx s) (v_leader s) (v_leaderId s) (v_transfer s) (v_fsm s) (v_fsmLast s).
Definition set_commit (s : nstate) (c : N) : nstate :=
  mkNS (d_term s) (d_vterm s) (d_vcand s) (d_log s) (d_staged s) (d_pcommit s) (d_snaps s)
       (v_role s) (v_term s) c (v_applied s) (v_lastLogIdx s) (v_lastLogTerm s)
       (v_lastSnapIdx s) (v_lastSnapTerm s) (v_latest s) (v_latestIdx s) (v_committed s)
       (v_committedIdx s) (v_leader s) (v_leaderId s) (v_transfer s) (v_fsm s) (v_fsmLast s).
Definition set_applied (s : nstate) (a : N) (fsm : list N) : nstate :=
  mkNS (d_term s) (d_vterm s) (d_vcand s) (d_log s) (d_staged s) (d_pcommit s) (d_snaps s)
       (v_role s) (v_term s) (v_commit s) a (v_lastLogIdx s) (v_lastLogTerm s)
       (v_lastSnapIdx s) (v_lastSnapTerm s) (v_latest s) (v_latestIdx s) (v_committed s)
       (v_committedIdx s) (v_leader s) (v_leaderId s) (v_transfer s) fsm (v_fsmLast s).
Definition set_lastlog (s : nstate) (i t : N) : nstate :=
  mkNS (d_term s) (d_vterm s) (d_vcand s) (d_log s) (d_staged s) (d_pcommit s) (d_snaps s)
       (v_role s) (v_term s) (v_commit s) (v_applied s) i t
       (v_lastSnapIdx s) (v_lastSnapTerm s) (v_latest s) (v_latestIdx s) (v_committed s)
       (v_committedIdx s) (v_leader s) (v_leaderId s) (v_transfer s) (v_fsm s) (v_fsmLast s).
Definition set_lastsnap (s : nstate) (i t : N) : nstate :=
  mkNS (d_term s) (d_vterm s) (d_vcand s) (d_log s) (d_staged s) (d_pcommit s) (d_snaps s)
       (v_role s) (v_term s) (v_commit s) (v_applied s) (v_lastLogIdx s) (v_lastLogTerm s)
       i t (v_latest s) (v_latestIdx s) (v_committed s)
       (v_committedIdx s) (v_leader s) (v_leaderId s) (v_transfer s) (v_fsm s) (v_fsmLast s).
Definition set_latest (s : nstate) (c : config) (i : N) : nstate :=
  mkNS (d_term s) (d_vterm s) (d_vcand s) (d_log s) (d_staged s) (d_pcommit s) (d_snaps s)
       (v_role s) (v_term s) (v_commit s) (v_applied s) (v_lastLogIdx s) (v_lastLogTerm s)
       (v_lastSnapIdx s) (v_lastSnapTerm s) c i (v_committed s)
       (v_committedIdx s) (v_leader s) (v_leaderId s) (v_transfer s) (v_fsm s) (v_fsmLast s).
Definition set_committed (s : nstate) (c : config) (i : N) : nstate :=
  mkNS (d_term s) (d_vterm s) (d_vcand s) (d_log s) (d_staged s) (d_pcommit s) (d_snaps s)
       (v_role s) (v_term s) (v_commit s) (v_applied s) (v_lastLogIdx s) (v_lastLogTerm s)
       (v_lastSnapIdx s) (v_lastSnapTerm s) (v_latest s) (v_latestIdx s) c
       i (v_leader s) (v_leaderId s) (v_transfer s) (v_fsm s) (v_fsmLast s).
Definition set_leader (s : nstate) (a i : N) : nstate :=
  mkNS (d_term s) (d_vterm s) (d_vcand s) (d_log s) (d_staged s) (d_pcommit s) (d_snaps s)
       (v_role s) (v_term s) (v_commit s) (v_applied s) (v_lastLogIdx s) (v_lastLogTerm s)
       (v_lastSnapIdx s) (v_lastSnapTerm s) (v_latest s) (v_latestIdx s) (v_committed s)
       (v_committedIdx s) a i (v_transfer s) (v_fsm s) (v_fsmLast s).
Definition set_transfer (s : nstate) (b : bool) : nstate :=
  mkNS (d_term s) (d_vterm s) (d_vcand s) (d_log s) (d_staged s) (d_pcommit s) (d_snaps s)
       (v_role s) (v_term s) (v_commit s) (v_applied s) (v_lastLogIdx s) (v_lastLogTerm s)
       (v_lastSnapIdx s) (v_lastSnapTerm s) (v_latest s) (v_latestIdx s) (v_committed s)
       (v_committedIdx s) (v_leader s) (v_leaderId s) b (v_fsm s) (v_fsmLast s).

(* lastApplied, the FSM content and the FSM goroutine's last index in one update (one level of
   nesting: the proofs' conversion checks grow with the depth of nested updates) *)
Definition set_applied_fsm (s : nstate) (a : N) (fsm : list N) (x : N * N) : nstate :=
  mkNS (d_term s) (d_vterm s) (d_vcand s) (d_log s) (d_staged s) (d_pcommit s) (d_snaps s)
       (v_role s) (v_term s) (v_commit s) a (v_lastLogIdx s) (v_lastLogTerm s)
       (v_lastSnapIdx s) (v_lastSnapTerm s) (v_latest s) (v_latestIdx s) (v_committed s)
       (v_committedIdx s) (v_leader s) (v_leaderId s) (v_transfer s) fsm x.
Definition set_fsmlast (s : nstate) (x : N * N) : nstate :=
  mkNS (d_term s) (d_vterm s) (d_vcand s) (d_log s) (d_staged s) (d_pcommit s) (d_snaps s)
       (v_role s) (v_term s) (v_commit s) (v_applied s) (v_lastLogIdx s) (v_lastLogTerm s)
       (v_lastSnapIdx s) (v_lastSnapTerm s) (v_latest s) (v_latestIdx s) (v_committed s)
       (v_committedIdx s) (v_leader s) (v_leaderId s) (v_transfer s) (v_fsm s) x.

(* setState: any state transition clears the advertised leader *)
Definition set_state (s : nstate) (r : N) : nstate := set_role (set_leader s 0 0) r.

(* getLastIndex / getLastEntry (state.go) *)
Definition last_index (s : nstate) : N := N.max (v_lastLogIdx s) (v_lastSnapIdx s).
Definition last_entry (s : nstate) : N * N :=
  if v_lastSnapIdx s <=? v_lastLogIdx s then (v_lastLogIdx s, v_lastLogTerm s)
  else (v_lastSnapIdx s, v_lastSnapTerm s).

(* ---------------------------------------------------------------- trace *)
Inductive ev :=
| ESetTerm (t : N) (ok : bool)
| ESetVoteTerm (t : N) (ok : bool)
| ESetVoteCand (c : N) (ok : bool)
| EStore (es : list entry) (ok : bool)
| EDelete (lo hi : N) (ok : bool)
| EStage (c : N)
| ESnap (idx term : N) (ok : bool)       (* snapshot Create..Close *)
| EApply (e : entry)                     (* FSM.Apply *)
| EConf (idx : N)                        (* ConfigurationStore.StoreConfiguration *)
| ERestore (data : list N).              (* FSM.Restore *)

Definition next_fail (fs : list bool) : bool * list bool :=
  match fs with [] => (false, []) | f :: r => (f, r) end.

(* result of a handler: R on normal return; a panic kills the process (= crash) *)
Inductive outcome (R : Type) :=
| Done (s : nstate) (r : R) (tr : list ev) (fs : list bool)
| Panic (s : nstate) (tr : list ev).
Arguments Done {R}. Arguments Panic {R}.

(* ---------------------------------------------------------------- store primitives *)
Definition keys_of (m : gmap N entry) : list N := map fst (map_to_list m).
Definition log_first (m : gmap N entry) : N :=
  match keys_of m with [] => 0 | k :: ks => fold_left N.min ks k end.
Definition log_last (m : gmap N entry) : N := fold_left N.max (keys_of m) 0.
Definition log_store (m : gmap N entry) (es : list entry) : gmap N entry :=
  fold_left (fun s e => <[ e_idx e := e ]> s) es m.
Definition log_delete (m : gmap N entry) (lo hi : N) : gmap N entry :=
  base.filter (fun kv : N * entry => negb ((lo <=? fst kv) && (fst kv <=? hi)) = true) m.

(* StoreLogs: on success the staged commit index becomes durable with it *)
Definition do_store (P : params) (s : nstate) (fs : list bool) (es : list entry)
  : nstate * bool * list bool :=
  let '(f, fs') := next_fail fs in
  if f then (s, false, fs')
  else (set_log s (log_store (d_log s) es) (d_staged s)
                (if p_track P then d_staged s else d_pcommit s), true, fs').

Definition do_delete (s : nstate) (fs : list bool) (lo hi : N) : nstate * bool * list bool :=
  let '(f, fs') := next_fail fs in
  if f then (s, false, fs')
  else (set_log s (log_delete (d_log s) lo hi) (d_staged s) (d_pcommit s), true, fs').

Definition do_stage (P : params) (s : nstate) (c : N) : nstate * list ev :=
  if p_track P then (set_log s (d_log s) c (d_pcommit s), [EStage c]) else (s, []).

(* setCurrentTerm: persist first, panic if that fails *)
Definition do_set_term (s : nstate) (fs : list bool) (t : N) : option (nstate * list bool) :=
  let '(f, fs') := next_fail fs in
  if f then None else Some (set_vol_term (set_durable_term s t) t, fs').

(* persistVote: LastVoteCand first, then LastVoteTerm (order after the "fix:" commit in /repo;
   the pinned tree wrote the term first, see Proofs/VoteProofs.v pinned_order_refuted) *)
Definition persist_vote (s : nstate) (fs : list bool) (t c : N)
  : nstate * bool * list ev * list bool :=
  let '(f1, fs1) := next_fail fs in
  if f1 then (s, false, [ESetVoteCand c false], fs1)
  else let s1 := set_vcand s (Some c) in
       let '(f2, fs2) := next_fail fs1 in
       if f2 then (s1, false, [ESetVoteCand c true; ESetVoteTerm t false], fs2)
       else (set_vterm s1 t, true, [ESetVoteCand c true; ESetVoteTerm t true], fs2).

(* ---------------------------------------------------------------- RequestVote *)
Record vreq := mkVReq {
  vq_term : N; vq_id : N (* 0: no ID in the header *); vq_addr : N;
  vq_lastIdx : N; vq_lastTerm : N; vq_transfer : bool }.

Definition log_ok (s : nstate) (qLastIdx qLastTerm : N) : bool :=
  let '(lastIdx, lastTerm) := last_entry s in
  negb (qLastTerm <? lastTerm) && negb ((lastTerm =? qLastTerm) && (qLastIdx <? lastIdx)).

Definition nonempty (c : config) : bool := match c with [] => false | _ => true end.

(* response: (Term, Granted) *)
Definition request_vote (s : nstate) (fs : list bool) (q : vreq) : outcome (N * bool) :=
  let t0 := v_term s in
  if negb (vq_id q =? 0) && nonempty (v_latest s) && negb (in_config (v_latest s) (vq_id q))
  then Done s (t0, false) [] fs
  else if negb (v_leader s =? 0) && negb (v_leader s =? vq_addr q) && negb (vq_transfer q)
  then Done s (t0, false) [] fs
  else if vq_term q <? v_term s then Done s (t0, false) [] fs
  else
    (* newer term: follower first, then persist the term (panic on failure) *)
    let bump := v_term s <? vq_term q in
    match (if bump then
             match do_set_term (set_state s Follower) fs (vq_term q) with
             | Some (s1, fs1) => Some (s1, fs1, [ESetTerm (vq_term q) true])
             | None => None
             end
           else Some (s, fs, [])) with
    | None => Panic (set_state s Follower) [ESetTerm (vq_term q) false]
    | Some (s1, fs1, tr1) =>
      let t1 := if bump then vq_term q else t0 in
      if negb (vq_id q =? 0) && nonempty (v_latest s1) && negb (has_vote (v_latest s1) (vq_id q))
      then Done s1 (t1, false) tr1 fs1
      else
        match (if d_vterm s1 =? vq_term q then d_vcand s1 else None) with
        | Some c =>   (* voted in this term already: re-grant only to the same candidate *)
          Done s1 (t1, c =? vq_addr q) tr1 fs1
        | None =>
          if negb (log_ok s1 (vq_lastIdx q) (vq_lastTerm q)) then Done s1 (t1, false) tr1 fs1
          else let '(s2, ok, tr2, fs2) := persist_vote s1 fs1 (vq_term q) (vq_addr q) in
               Done s2 (t1, ok) (tr1 ++ tr2) fs2
        end
    end.

(* ---------------------------------------------------------------- RequestPreVote *)
Definition request_prevote (s : nstate) (q : vreq) : N * bool :=
  let t0 := v_term s in
  if nonempty (v_latest s) && negb (in_config (v_latest s) (vq_id q)) then (t0, false)
  else if negb (v_leader s =? 0) && negb (v_leader s =? vq_addr q) then (t0, false)
  else if vq_term q <? v_term s then (t0, false)
  else let t1 := if v_term s <? vq_term q then vq_term q else t0 in
       if nonempty (v_latest s) && negb (has_vote (v_latest s) (vq_id q)) then (t1, false)
       else (t1, log_ok s (vq_lastIdx q) (vq_lastTerm q)).

(* ---------------------------------------------------------------- processLogs *)
(* prepareLog: which entries reach the FSM goroutine; 3 = unknown type (panic) *)
Definition prepare_kind (ty : N) : N :=
  if (ty =? LogCommand) || (ty =? LogBarrier) then 1        (* handed over *)
  else if ty =? LogConfiguration then 1
  else if (ty =? LogNoop) || (ty =? LogAddPeerDeprecated) || (ty =? LogRemovePeerDeprecated) then 0
  else 3.

(* what the FSM goroutine does with a handed-over entry (FSM implements ConfigurationStore) *)
Definition fsm_events (e : entry) : list ev :=
  if e_ty e =? LogCommand then [EApply e]
  else if e_ty e =? LogConfiguration then [EConf (e_idx e)]
  else [].

Definition fsm_apply (fsm : list N) (e : entry) : list N :=
  if e_ty e =? LogCommand then fsm ++ [e_data e] else fsm.

(* entries idx+1 .. idx+n of the store, in order; None on a missing entry or unknown type *)
Fixpoint collect_logs (m : gmap N entry) (idx : N) (n : nat) : option (list entry) :=
  match n with
  | O => Some []
  | S n' =>
    match m !! (idx + 1) with
    | None => None
    | Some e =>
      if prepare_kind (e_ty e) =? 3 then None
      else match collect_logs m (idx + 1) n' with
           | None => None
           | Some r => Some (e :: r)
           end
    end
  end.

(* processLogs(index, nil): None = panic *)
Definition last_opt (l : list entry) : option entry :=
  match l with [] => None | x :: r => Some (last r x) end.

Definition process_logs (s : nstate) (index : N) : option (nstate * list ev) :=
  if index <=? v_applied s then Some (s, [])
  else match collect_logs (d_log s) (v_applied s) (N.to_nat (index - v_applied s)) with
       | None => None
       | Some es =>
         let handed := filter (fun e => prepare_kind (e_ty e) =? 1) es in
         Some (set_applied_fsm s index (fold_left fsm_apply handed (v_fsm s))
                               (match last_opt handed with Some e => (e_idx e, e_term e) | None => v_fsmLast s end),
               flat_map fsm_events handed)
       end.

(* ---------------------------------------------------------------- AppendEntries *)
Record areq := mkAReq {
  aq_term : N; aq_addr : N; aq_id : N; aq_prevIdx : N; aq_prevTerm : N;
  aq_entries : list entry; aq_commit : N }.

(* response: Term, LastLog, Success, NoRetryBackoff, rpc error? *)
Record aresp := mkAResp { ar_term : N; ar_last : N; ar_success : bool; ar_noretry : bool; ar_err : bool }.

(* processConfigurationLogEntry *)
Definition process_config_entry (P : params) (s : nstate) (e : entry) : nstate :=
  if e_ty e =? LogConfiguration
  then set_latest (set_committed s (v_latest s) (v_latestIdx s)) (p_decode P (e_data e)) (e_idx e)
  else s.

Inductive scan_result :=
| ScanNew (es : list entry)                 (* entries beyond the log *)
| ScanConflict (at_idx : N) (es : list entry)  (* first stored entry whose term differs *)
| ScanMissing                               (* GetLog failed *)
| ScanNone.                                 (* all duplicates *)

Fixpoint scan_entries (m : gmap N entry) (lastLogIdx : N) (es : list entry) : scan_result :=
  match es with
  | [] => ScanNone
  | e :: r =>
    if lastLogIdx <? e_idx e then ScanNew es
    else match m !! e_idx e with
         | None => ScanMissing
         | Some se => if e_term e =? e_term se then scan_entries m lastLogIdx r
                      else ScanConflict (e_idx e) es
         end
  end.

Definition last_of (es : list entry) : entry := last es (mkE 0 0 0 0).

(* "Verify the last log entry": Some true = matches, Some false = term mismatch, None = GetLog failed *)
Definition prev_check (s2 : nstate) (a : areq) : option bool :=
  if 0 <? aq_prevIdx a then
    let '(lastIdx, lastTerm) := last_entry s2 in
    if aq_prevIdx a =? lastIdx then Some (aq_prevTerm a =? lastTerm)
    else if aq_prevIdx a =? v_lastSnapIdx s2 then Some (aq_prevTerm a =? v_lastSnapTerm s2)   (* snapshot boundary (fix: commit) *)
    else match d_log s2 !! aq_prevIdx a with
         | None => None
         | Some pe => Some (aq_prevTerm a =? e_term pe)
         end
  else Some true.

(* result of the "Process any new entries" block: continue (inl (Some _)), or answer now (inr _) *)
Definition ae_cont : Type := option (nstate * list ev * list bool) + aresp * nstate * list ev * list bool.

(* stage the commit index, StoreLogs, process configuration entries, setLastLog *)
Definition store_new (P : params) (fail_resp : aresp) (lc : N)
           (s3 : nstate) (tr3 : list ev) (fs3 : list bool) (news : list entry) : ae_cont :=
  let lastNew := e_idx (last_of news) in
  let '(s4, trs) := do_stage P s3 (N.min lc lastNew) in
  let '(s5, ok, fs5) := do_store P s4 fs3 news in
  if negb ok then inr (fail_resp, s5, tr3 ++ trs ++ [EStore news false], fs5)
  else let s6 := fold_left (process_config_entry P) news s5 in
       let s7 := set_lastlog s6 (e_idx (last_of news)) (e_term (last_of news)) in
       inl (Some (s7, tr3 ++ trs ++ [EStore news true], fs5)).

(* a.Entries[i-1] for the conflicting a.Entries[i], or the request's previous entry for i = 0:
   news is the suffix a.Entries[i:] *)
Definition conflict_pred (a : areq) (news : list entry) : N * N :=
  match rev (firstn (length (aq_entries a) - length news) (aq_entries a)) with
  | e :: _ => (e_idx e, e_term e)
  | [] => (aq_prevIdx a, aq_prevTerm a)
  end.

Definition ae_entries (P : params) (fail_resp : aresp) (s2 : nstate) (tr1 : list ev) (fs1 : list bool) (a : areq)
  : ae_cont :=
  match aq_entries a with
  | [] => inl (Some (s2, tr1, fs1))
  | _ =>
    let lastLogIdx := v_lastLogIdx s2 in
    match scan_entries (d_log s2) lastLogIdx (aq_entries a) with
    | ScanNone => inl (Some (s2, tr1, fs1))
    | ScanMissing => inr (fail_resp, s2, tr1, fs1)
    | ScanNew news => store_new P fail_resp (aq_commit a) s2 tr1 fs1 news
    | ScanConflict ci news =>
      let '(s3, ok, fs3) := do_delete s2 fs1 ci lastLogIdx in
      if negb ok then inr (fail_resp, s3, tr1 ++ [EDelete ci lastLogIdx false], fs3)
      else (* the cached last log moves to the entry before the truncation point at once (fix: commit) *)
           let '(pi, pt) := conflict_pred a news in
           let s3c := set_lastlog s3 pi pt in
           let s3' := if ci <=? v_latestIdx s3c
                      then set_latest s3c (v_committed s3c) (v_committedIdx s3c) else s3c in
           store_new P fail_resp (aq_commit a) s3' (tr1 ++ [EDelete ci lastLogIdx true]) fs3 news
    end
  end.

(* "Update the commit index" and the final answer *)
(* the last index the request vouches for: its last entry, or its previous entry when it carries none *)
Definition last_new (a : areq) : N :=
  match aq_entries a with [] => aq_prevIdx a | es => e_idx (last_of es) end.

(* fix: commit: the commit index follows min(LeaderCommit, index of the last entry of the request)
   (and the own last index), and never moves backwards *)
Definition ae_commit (ok_resp : aresp) (s8 : nstate) (tr8 : list ev) (fs8 : list bool) (a : areq) : outcome aresp :=
  if (0 <? aq_commit a) && (v_commit s8 <? aq_commit a) then
    let idx := N.min (aq_commit a) (N.min (last_new a) (last_index s8)) in
    if v_commit s8 <? idx then
      let s9 := set_commit s8 idx in
      let s10 := if v_latestIdx s9 <=? idx
                 then set_committed s9 (v_latest s9) (v_latestIdx s9) else s9 in
      match process_logs s10 idx with
      | None => Panic s10 tr8
      | Some (s11, tra) => Done s11 ok_resp (tr8 ++ tra) fs8
      end
    else Done s8 ok_resp tr8 fs8
  else Done s8 ok_resp tr8 fs8.

(* everything after the term check / term bump / setLeader: s0 is the state at entry (for the
   LastLog field of the response), s2 the state after the bump, rt the response term *)
Definition ae_body (P : params) (s0 s2 : nstate) (rt : N) (tr1 : list ev) (fs1 : list bool) (a : areq)
  : outcome aresp :=
  let fail_resp := fun noretry => mkAResp rt (last_index s0) false noretry false in
  match prev_check s2 a with
  | None => Done s2 (fail_resp true) tr1 fs1
  | Some false => Done s2 (fail_resp true) tr1 fs1
  | Some true =>
    match ae_entries P (fail_resp false) s2 tr1 fs1 a with
    | inr (resp, s', tr', fs') => Done s' resp tr' fs'
    | inl None => Panic s2 tr1
    | inl (Some (s8, tr8, fs8)) => ae_commit (mkAResp rt (last_index s0) true false false) s8 tr8 fs8 a
    end
  end.

Definition append_entries (P : params) (s : nstate) (fs : list bool) (a : areq) : outcome aresp :=
  let r0 := mkAResp (v_term s) (last_index s) false false false in
  if aq_term a <? v_term s then Done s r0 [] fs
  else
    let bump := (v_term s <? aq_term a) || (negb (v_role s =? Follower) && negb (v_transfer s)) in
    match (if bump then
             match do_set_term (set_state s Follower) fs (aq_term a) with
             | Some (s1, fs1) => Some (s1, fs1, [ESetTerm (aq_term a) true])
             | None => None
             end
           else Some (s, fs, [])) with
    | None => Panic (set_state s Follower) [ESetTerm (aq_term a) false]
    | Some (s1, fs1, tr1) =>
      let rt := if bump then aq_term a else v_term s in
      ae_body P s (set_leader s1 (aq_addr a) (aq_id a)) rt tr1 fs1 a
    end.

(* ---------------------------------------------------------------- InstallSnapshot *)
Record ireq := mkIReq {
  iq_term : N; iq_addr : N; iq_id : N; iq_lastIdx : N; iq_lastTerm : N;
  iq_cfg : config; iq_cfgIdx : N; iq_data : list N;
  iq_short : bool (* fewer bytes on the wire than Size says *) }.

(* compactLogs / removeOldLogs on this node: the DeleteRange it issues (errors only logged) *)
Definition run_compaction (s : nstate) (fs : list bool) (range : option (N * N))
  : nstate * list ev * list bool :=
  match range with
  | None => (s, [], fs)
  | Some (lo, hi) =>
    let '(s', ok, fs') := do_delete s fs lo hi in (s', [EDelete lo hi ok], fs')
  end.

(* response: Term, Success, rpc error? *)
Definition is_body (P : params) (s2 : nstate) (rt : N) (tr1 : list ev) (fs1 : list bool) (q : ireq)
  : outcome (N * bool * bool) :=
      (* Create *)
      let '(fc, fs2) := next_fail fs1 in
      if fc then Done s2 (rt, false, true) (tr1 ++ [ESnap (iq_lastIdx q) (iq_lastTerm q) false]) fs2
      else if iq_short q then Done s2 (rt, false, true) tr1 fs2     (* Cancel: nothing durable *)
      else
        (* Close *)
        let '(fcl, fs3) := next_fail fs2 in
        if fcl then Done s2 (rt, false, true) (tr1 ++ [ESnap (iq_lastIdx q) (iq_lastTerm q) false]) fs3
        else
          let sn := mkSnap (iq_lastIdx q) (iq_lastTerm q) (iq_cfg q) (iq_cfgIdx q) (iq_data q) true in
          let s3 := set_snaps s2 (d_snaps s2 ++ [sn]) in
          (* FSM restore, then volatile bookkeeping *)
          let s4 := set_applied_fsm s3 (iq_lastIdx q) (iq_data q) (iq_lastIdx q, iq_lastTerm q) in
          let s5 := set_lastsnap s4 (iq_lastIdx q) (iq_lastTerm q) in
          let s6 := set_committed (set_latest s5 (iq_cfg q) (iq_cfgIdx q)) (iq_cfg q) (iq_cfgIdx q) in
          (* after the "fix:" commits in /repo: a monotonic store is wiped and the cached tail reset;
             otherwise a tail from the snapshot index on that does not follow the snapshot (the log holds
             the snapshot's last entry with another term, or does not hold it and the server's previous
             snapshot is not this one) is deleted first, then compaction *)
          if p_monotonic P then
            let range := remove_old (log_first (d_log s6)) (log_last (d_log s6)) in
            match range with
            | None =>      (* nothing to delete: compactLogsWithTrailing returns nil *)
              Done (set_lastlog s6 0 0) (rt, true, false)
                   (tr1 ++ [ESnap (iq_lastIdx q) (iq_lastTerm q) true; ERestore (iq_data q)]) fs3
            | Some (lo, hi) =>
              let '(s7, ok, fs4) := do_delete s6 fs3 lo hi in
              Done (if ok then set_lastlog s7 0 0 else s7) (rt, true, false)
                   (tr1 ++ [ESnap (iq_lastIdx q) (iq_lastTerm q) true; ERestore (iq_data q); EDelete lo hi ok]) fs4
            end
          else
            let stale_tail :=
              (iq_lastIdx q <=? v_lastLogIdx s6) &&
              match d_log s6 !! iq_lastIdx q with
              | Some e => negb (e_term e =? iq_lastTerm q)
              | None =>
                (* the entry was compacted away: the tail agrees with the snapshot only if it already
                   followed this very snapshot (the same snapshot delivered again) - s2 is the state
                   before the bookkeeping above (fix: commit) *)
                negb ((v_lastSnapIdx s2 =? iq_lastIdx q) && (v_lastSnapTerm s2 =? iq_lastTerm q))
              end in
            let '(s6', trt, fs3') :=
              if stale_tail then
                let '(s', ok, fs') := do_delete s6 fs3 (iq_lastIdx q) (v_lastLogIdx s6) in
                (if ok then set_lastlog s' 0 0 else s', [EDelete (iq_lastIdx q) (v_lastLogIdx s6) ok], fs')
              else (s6, [], fs3) in
            let range := compact (log_first (d_log s6')) (iq_lastIdx q) (v_lastLogIdx s6') (p_trailing P) in
            let '(s7, trc, fs4) := run_compaction s6' fs3' range in
            Done s7 (rt, true, false)
                 (tr1 ++ [ESnap (iq_lastIdx q) (iq_lastTerm q) true; ERestore (iq_data q)] ++ trt ++ trc) fs4.

(* response: Term, Success, rpc error? *)
Definition install_snapshot (P : params) (s : nstate) (fs : list bool) (q : ireq)
  : outcome (N * bool * bool) :=
  let t0 := v_term s in
  if iq_term q <? v_term s then Done s (t0, false, false) [] fs
  else
    let bump := v_term s <? iq_term q in
    match (if bump then
             match do_set_term (set_state s Follower) fs (iq_term q) with
             | Some (s1, fs1) => Some (s1, fs1, [ESetTerm (iq_term q) true])
             | None => None
             end
           else Some (s, fs, [])) with
    | None => Panic (set_state s Follower) [ESetTerm (iq_term q) false]
    | Some (s1, fs1, tr1) =>
      let rt := if bump then iq_term q else t0 in
      is_body P (set_leader s1 (iq_addr q) (iq_id q)) rt tr1 fs1 q
    end.

(* ---------------------------------------------------------------- takeSnapshot (snapshot.go) *)
(* runFSM's (lastIndex, lastTerm) *)
Definition fsm_index (s : nstate) : N * N := v_fsmLast s.

(* result: 0 ok, 2 ErrNothingNewToSnapshot, 3 refused (configuration entry not yet applied),
   4 snapshot store error, 5 compaction failed (the snapshot is durable) *)
Definition take_snapshot (P : params) (s : nstate) (fs : list bool) : outcome N :=
  let '(fi, ft) := fsm_index s in
  if fi =? 0 then Done s 2 [] fs
  else if fi <? v_committedIdx s then Done s 3 [] fs
  else
    let '(fc, fs1) := next_fail fs in
    if fc then Done s 4 [ESnap fi ft false] fs1
    else
      let '(fcl, fs2) := next_fail fs1 in
      if fcl then Done s 4 [ESnap fi ft false] fs2
      else
        let sn := mkSnap fi ft (v_committed s) (v_committedIdx s) (v_fsm s) true in
        let s1 := set_lastsnap (set_snaps s (d_snaps s ++ [sn])) fi ft in
        let range := compact (log_first (d_log s1)) fi (v_lastLogIdx s1) (p_trailing P) in
        let '(s2, trc, fs3) := run_compaction s1 fs2 range in
        let failed := existsb (fun e => match e with EDelete _ _ false => true | _ => false end) trc in
        Done s2 (if failed then 5 else 0) (ESnap fi ft true :: trc) fs3.

(* ---------------------------------------------------------------- TimeoutNow *)
Definition timeout_now (s : nstate) : nstate :=
  set_transfer (set_state (set_leader s 0 0) Candidate) true.

(* ---------------------------------------------------------------- electSelf (durable part) *)
(* returns the request sent to peers, and whether the own vote was counted (Some true),
   the vote channel is nil because persisting failed (None), or self is not a voter (Some false) *)
Definition elect_self (P : params) (s : nstate) (fs : list bool) : outcome (vreq * option bool) :=
  let nt := v_term s + 1 in
  match do_set_term s fs nt with
  | None => Panic s [ESetTerm nt false]
  | Some (s1, fs1) =>
    let '(li, lt) := last_entry s1 in
    let q := mkVReq nt (p_self P) (p_self P) li lt (v_transfer s1) in
    if existsb (fun sv => is_voter sv && (s_id sv =? p_self P)) (v_latest s1) then
      let '(s2, ok, tr2, fs2) := persist_vote s1 fs1 nt (p_self P) in
      Done s2 (q, if ok then Some true else None) (ESetTerm nt true :: tr2) fs2
    else Done s1 (q, Some false) [ESetTerm nt true] fs1
  end.

(* runFollower on a heartbeat timeout without contact:
   0 no known peers, 1 not part of stable configuration, 2 become candidate, 3 non-voter *)
Definition follower_timeout_decision (P : params) (s : nstate) : N :=
  if v_latestIdx s =? 0 then 0
  else if (v_latestIdx s =? v_committedIdx s) && negb (has_vote (v_latest s) (p_self P)) then 1
  else if has_vote (v_latest s) (p_self P) then 2 else 3.

(* ---------------------------------------------------------------- NewRaft *)
(* snapshot store listing: newest first by (term, index), later creation first on ties *)
Fixpoint insert_snap (x : snapshot) (l : list snapshot) : list snapshot :=
  match l with
  | [] => [x]
  | y :: r =>
    if (sn_term y <? sn_term x) || ((sn_term y =? sn_term x) && (sn_idx y <=? sn_idx x))
    then x :: l else y :: insert_snap x r
  end.
Definition list_snaps (l : list snapshot) : list snapshot := fold_left (fun acc x => insert_snap x acc) l [].

Inductive recovered :=
| RecOk (s : nstate) (tr : list ev)
| RecErr            (* NewRaft returns an error *)
| RecPanic          (* NewRaft panics *)
| RecBlocks.        (* NewRaft never returns *)

Definition fresh_volatile (s : nstate) : nstate :=
  mkNS (d_term s) (d_vterm s) (d_vcand s) (d_log s) (d_staged s) (d_pcommit s) (d_snaps s)
       Follower 0 0 0 0 0 0 0 [] 0 [] 0 0 0 false [] (0, 0).

(* configuration scan from..lastIdx; None = GetLog failed (panic) *)
Fixpoint scan_configs (P : params) (s : nstate) (from : N) (n : nat) : option nstate :=
  match n with
  | O => Some s
  | S n' =>
    match d_log s !! from with
    | None => None
    | Some e => scan_configs P (process_config_entry P s e) (from + 1) n'
    end
  end.

(* last log entry of the store (NewRaft: LastIndex + GetLog) *)
Definition rec_last (s1 : nstate) : option entry :=
  let li := log_last (d_log s1) in
  if 0 <? li then d_log s1 !! li else Some (mkE 0 0 0 0).

(* restoreSnapshot: first usable snapshot of the listing; None = "failed to load any existing snapshots" *)
Definition rec_snapshot (s2 : nstate) : option (nstate * list ev) :=
  let listing := list_snaps (d_snaps s2) in
  match find sn_ok listing with
  | Some sn =>
    Some (set_latest (set_committed (set_lastsnap (set_applied s2 (sn_idx sn) (sn_data sn))
                                                   (sn_idx sn) (sn_term sn))
                                     (sn_cfg sn) (sn_cfgidx sn))
                     (sn_cfg sn) (sn_cfgidx sn), [ERestore (sn_data sn)])
  | None => match listing with [] => Some (s2, []) | _ => None end
  end.

(* capacity of fsmMutateCh (api.go NewRaft): processLogs runs here before runFSM exists, so the
   (cap+1)-th batch blocks for ever *)
Definition fsm_mutate_cap : N := 128.

Definition handed_count (s : nstate) (index : N) : N :=
  if index <=? v_applied s then 0
  else match collect_logs (d_log s) (v_applied s) (N.to_nat (index - v_applied s)) with
       | None => 0
       | Some es => N.of_nat (length (filter (fun e => prepare_kind (e_ty e) =? 1) es))
       end.

Inductive rec_c := RcErr | RcPanic | RcBlocks | RcOk (s : nstate) (tr : list ev).

(* restoreFromCommittedLogs *)
Definition rec_committed (P : params) (s3 : nstate) : rec_c :=
  if p_rc P then
    if negb (p_track P) then RcErr                          (* ErrIncompatibleLogStore *)
    else let ci := N.min (d_pcommit s3) (log_last (d_log s3)) in
         match process_logs (set_commit s3 ci) ci with
         | None => RcPanic
         | Some (s4, tr4) =>
           let batches := (handed_count (set_commit s3 ci) ci + p_maxappend P - 1) / p_maxappend P in
           if fsm_mutate_cap <? batches then RcBlocks else RcOk s4 tr4
         end
  else RcOk s3 [].

Definition recover (P : params) (img : nstate) : recovered :=
  let s1 := set_vol_term (fresh_volatile img) (d_term img) in
  match rec_last s1 with
  | None => RecErr
  | Some le =>
    let s2 := set_lastlog s1 (e_idx le) (e_term le) in
    match rec_snapshot s2 with
    | None => RecErr
    | Some (s3, tr3) =>
      match rec_committed P s3 with
      | RcErr => RecErr
      | RcPanic => RecPanic
      | RcBlocks => RecBlocks
      | RcOk s4 tr4 =>
        let from := v_lastSnapIdx s4 + 1 in   (* after the fix: commit in /repo; the pinned tree started at max(snapshot, lastApplied)+1 *)
        match scan_configs P s4 from (N.to_nat (e_idx le + 1 - from)) with
        | None => RecPanic
        | Some s5 =>
          (* after the "fix:" commit (finding F13): a commit index restored from the log store that covers the latest
             configuration entry marks that configuration committed (the leader loop never would) *)
          let s6 := if (0 <? v_commit s5) && (v_latestIdx s5 <=? v_commit s5)
                    then set_committed s5 (v_latest s5) (v_latestIdx s5) else s5 in
          RecOk s6 (ESetTerm (d_term img) true :: tr3 ++ tr4)   (* NewRaft: r.setCurrentTerm(currentTerm) writes the term back *)
        end
      end
    end
  end.
