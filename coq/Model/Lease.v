(* Lease.v — model of checkLeaderLease (raft.go) and of the lease timer arithmetic in leaderLoop.
   Time is N nanoseconds. *)
From RaftModel Require Import Base Config.
Open Scope N_scope.

(* minCheckInterval = 10ms (raft.go); compared with the code's constant on every run *)
Definition min_check_interval : N := 10000000.

Fixpoint lookup_contact (cs : list (N * N)) (id : N) : N :=
  match cs with
  | [] => 0
  | (k, t) :: r => if k =? id then t else lookup_contact r id
  end.

(* one pass over configurations.latest.Servers: (contacted, maxDiff) *)
Fixpoint lease_scan (cfg : config) (self : N) (contacts : list (N * N)) (lease now : N) (acc : N * N) : N * N :=
  match cfg with
  | [] => acc
  | sv :: r =>
    let '(contacted, maxDiff) := acc in
    if is_voter sv then
      if s_id sv =? self then lease_scan r self contacts lease now (contacted + 1, maxDiff)
      else
        let diff := now - lookup_contact contacts (s_id sv) in
        if diff <=? lease
        then lease_scan r self contacts lease now (contacted + 1, N.max maxDiff diff)
        else lease_scan r self contacts lease now (contacted, maxDiff)
    else lease_scan r self contacts lease now acc
  end.

(* checkLeaderLease: (steps down?, maxDiff) *)
Definition check_lease (cfg : config) (self : N) (contacts : list (N * N)) (lease now : N) : bool * N :=
  let '(contacted, maxDiff) := lease_scan cfg self contacts lease now (0, 0) in
  (contacted <? quorum_size cfg, maxDiff).

(* leaderLoop: checkInterval := lease - maxDiff, at least minCheckInterval *)
Definition next_interval (lease maxDiff : N) : N := N.max (lease - maxDiff) min_check_interval.

(* ValidateConfig, the timing part (durations in ns): nil error? *)
Definition ms : N := 1000000.
Definition validate_timing (heartbeat election commit lease : N) : bool :=
  (5 * ms <=? heartbeat) && (5 * ms <=? election) && (ms <=? commit) && (5 * ms <=? lease) &&
  (lease <=? heartbeat) && (heartbeat <=? election).

(* component 13: cfg, self, lease, now, ncontacts, (id time)* -> stepdown, maxDiff, nextInterval
   component 1301: heartbeat election commit lease -> ok ;  component 1302: -> minCheckInterval *)
Fixpoint dec_pairs (n : nat) (l : list N) : list (N * N) :=
  match n, l with
  | S n', a :: b :: r => (a, b) :: dec_pairs n' r
  | _, _ => []
  end.

Definition run_lease (inp : list N) : list N :=
  let '(cfg, r) := dec_config inp in
  match r with
  | self :: lease :: now :: nc :: r' =>
    let '(sd, md) := check_lease cfg self (dec_pairs (N.to_nat nc) r') lease now in
    (* durations reported in buckets of a tenth of the lease (rounded): the implementation reads the
       clock itself, and the harness uses a 2 s lease so that a loaded machine's jitter stays inside a bucket *)
    [b2n sd; (md + lease / 20) / (lease / 10); (next_interval lease md + lease / 20) / (lease / 10)]
  | _ => []
  end.

Definition run_validate_timing (inp : list N) : list N :=
  match inp with
  | h :: e :: c :: l :: _ => [b2n (validate_timing h e c l)]
  | _ => []
  end.

(* component 1303: same input as component 13, for contacts so old that lease - maxDiff falls below
   minCheckInterval: stepdown, maxDiff in buckets of a tenth of the lease (rounded), and the next
   interval in whole multiples of minCheckInterval, capped at 2 (floor division: at the floor it is exactly 1
   whatever the latency between the harness's and the implementation's clock readings, without the floor it
   is 0; 2 = well above the floor, where the exact multiple would depend on that latency) *)
Definition run_lease_floor (inp : list N) : list N :=
  let '(cfg, r) := dec_config inp in
  match r with
  | self :: lease :: now :: nc :: r' =>
    let '(sd, md) := check_lease cfg self (dec_pairs (N.to_nat nc) r') lease now in
    [b2n sd; (md + lease / 20) / (lease / 10); N.min 2 (next_interval lease md / min_check_interval)]
  | _ => []
  end.
