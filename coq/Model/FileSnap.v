(* FileSnap.v — FileSnapshotStore (file_snapshot.go): the file-system op program of Create / Write /
   Close / Cancel / ReapSnapshots, a file system with a volatile and a durable view, crashes, and
   List / Open on what survives.

   Persistence model (stated, trusted): directory operations (mkdir, create, rename, unlink,
   rmdir) reach the disk in program order, so a crash keeps a prefix of them; any fsync (of a file
   or of the directory) makes every earlier directory operation durable; a file's content written
   after its last fsync is ARBITRARY after the crash (a function `junk` of what was written and of
   what was last synced - the theorems quantify over all such functions).

   meta.json is kept abstract: empty, the encoding of a metadata record, or something that does not
   decode.  CRC64 is idealised as the content itself (equal bytes <=> equal sum). *)
From Coq Require Import List NArith Bool.
Import ListNotations.
Open Scope N_scope.

Record metaval := mkMV { mv_version : N; mv_term : N; mv_index : N; mv_crc : option (list N) }.
Inductive mcontent := MEmpty | MFull (m : metaval) | MBad.

Record mfile := mkMF { mf_c : mcontent; mf_synced : mcontent; mf_dirty : bool }.
Record sfile := mkSF { sf_c : list N; sf_synced : list N; sf_dirty : bool }.
Record dir := mkDir { d_sid : N; d_tmp : bool; d_meta : option mfile; d_state : option sfile }.
Definition fs := list dir.

Inductive fsop :=
| FMkdir (sid : N)
| FCreateMeta (sid : N) | FWriteMeta (sid : N) (m : metaval) | FSyncMeta (sid : N)
| FCreateState (sid : N) | FWriteState (sid : N) (bytes : list N) | FSyncState (sid : N)
| FRename (sid : N) | FSyncParent
| FUnlinkMeta (sid : N) | FUnlinkState (sid : N) | FRmdir (sid : N).

Definition upd (f : fs) (sid : N) (g : dir -> dir) : fs :=
  map (fun d => if d_sid d =? sid then g d else d) f.

Fixpoint find_dir (f : fs) (sid : N) : option dir :=
  match f with
  | [] => None
  | d :: r => if d_sid d =? sid then Some d else find_dir r sid
  end.

Definition fs_apply (f : fs) (o : fsop) : fs :=
  match o with
  | FMkdir sid => f ++ [mkDir sid true None None]
  | FCreateMeta sid =>
    upd f sid (fun d => mkDir (d_sid d) (d_tmp d)
      (Some (mkMF MEmpty (match d_meta d with Some x => mf_synced x | None => MEmpty end) true)) (d_state d))
  | FWriteMeta sid m =>
    upd f sid (fun d => mkDir (d_sid d) (d_tmp d)
      (match d_meta d with Some x => Some (mkMF (MFull m) (mf_synced x) true) | None => None end) (d_state d))
  | FSyncMeta sid =>
    upd f sid (fun d => mkDir (d_sid d) (d_tmp d)
      (match d_meta d with Some x => Some (mkMF (mf_c x) (mf_c x) false) | None => None end) (d_state d))
  | FCreateState sid =>
    upd f sid (fun d => mkDir (d_sid d) (d_tmp d) (d_meta d)
      (Some (mkSF [] (match d_state d with Some x => sf_synced x | None => [] end) true)))
  | FWriteState sid bytes =>
    upd f sid (fun d => mkDir (d_sid d) (d_tmp d) (d_meta d)
      (match d_state d with Some x => Some (mkSF (sf_c x ++ bytes) (sf_synced x) true) | None => None end))
  | FSyncState sid =>
    upd f sid (fun d => mkDir (d_sid d) (d_tmp d) (d_meta d)
      (match d_state d with Some x => Some (mkSF (sf_c x) (sf_c x) false) | None => None end))
  | FRename sid => upd f sid (fun d => mkDir (d_sid d) false (d_meta d) (d_state d))
  | FSyncParent => f
  | FUnlinkMeta sid => upd f sid (fun d => mkDir (d_sid d) (d_tmp d) None (d_state d))
  | FUnlinkState sid => upd f sid (fun d => mkDir (d_sid d) (d_tmp d) (d_meta d) None)
  | FRmdir sid => filter (fun d => negb (d_sid d =? sid)) f
  end.

Definition fs_run (f : fs) (ops : list fsop) : fs := fold_left fs_apply ops f.

(* ---------------------------------------------------------------- List / Open *)
Definition dec_meta (c : mcontent) : option metaval := match c with MFull m => Some m | _ => None end.

(* a directory List considers: not temporary, metadata readable, version supported (0..1) *)
Definition eligible (d : dir) : option metaval :=
  if d_tmp d then None
  else match d_meta d with
       | Some x => match dec_meta (mf_c x) with
                   | Some m => if mv_version m <=? 1 then Some m else None
                   | None => None
                   end
       | None => None
       end.

(* snapMetaSlice.Less on (term, index, id); ids of equal (term,index) order like the sids *)
Definition key_lt (a b : N * metaval) : bool :=
  if negb (mv_term (snd a) =? mv_term (snd b)) then mv_term (snd a) <? mv_term (snd b)
  else if negb (mv_index (snd a) =? mv_index (snd b)) then mv_index (snd a) <? mv_index (snd b)
  else fst a <? fst b.

(* newest first *)
Fixpoint insert_desc (x : N * metaval) (l : list (N * metaval)) : list (N * metaval) :=
  match l with
  | [] => [x]
  | y :: r => if key_lt y x then x :: l else y :: insert_desc x r
  end.
Definition sort_desc (l : list (N * metaval)) : list (N * metaval) := fold_right insert_desc [] l.

Definition candidates (f : fs) : list (N * metaval) :=
  flat_map (fun d => match eligible d with Some m => [(d_sid d, m)] | None => [] end) f.

Definition get_snapshots (f : fs) : list (N * metaval) := sort_desc (candidates f).

Definition list_snaps (retain : N) (f : fs) : list (N * metaval) := firstn (N.to_nat retain) (get_snapshots f).

Fixpoint list_eqb (a b : list N) : bool :=
  match a, b with
  | [], [] => true
  | x :: r, y :: r' => (x =? y) && list_eqb r r'
  | _, _ => false
  end.

(* Open(id): the directory named id (not id.tmp), metadata readable, state file present, checksum *)
Fixpoint find_final (f : fs) (sid : N) : option dir :=
  match f with
  | [] => None
  | d :: r => if (d_sid d =? sid) && negb (d_tmp d) then Some d else find_final r sid
  end.

Definition open_snap (f : fs) (sid : N) : option (list N) :=
  match find_final f sid with
  | Some d =>
    match d_meta d, d_state d with
    | Some x, Some y =>
      match dec_meta (mf_c x) with
      | Some m => match mv_crc m with
                  | Some c => if list_eqb c (sf_c y) then Some (sf_c y) else None
                  | None => None
                  end
      | None => None
      end
    | _, _ => None
    end
  | None => None
  end.

(* ---------------------------------------------------------------- the store *)
Record sink := mkSink { k_sid : N; k_term : N; k_index : N; k_buf : list N; k_done : bool }.
Record store := mkStore { st_retain : N; st_fs : fs; st_sinks : list sink }.

Inductive sop := SCreate (sid term index : N) | SWrite (sid : N) (bytes : list N) | SClose (sid : N) | SCancel (sid : N).

Fixpoint find_sink (l : list sink) (sid : N) : option sink :=
  match l with
  | [] => None
  | k :: r => if k_sid k =? sid then Some k else find_sink r sid
  end.

Definition upd_sink (l : list sink) (sid : N) (g : sink -> sink) : list sink :=
  map (fun k => if k_sid k =? sid then g k else k) l.

(* os.RemoveAll of a snapshot directory; state_first = the readdir order of the platform *)
Definition remove_all (state_first : bool) (f : fs) (sid : N) : list fsop :=
  match find_dir f sid with
  | Some d =>
    let um := match d_meta d with Some _ => [FUnlinkMeta sid] | None => [] end in
    let us := match d_state d with Some _ => [FUnlinkState sid] | None => [] end in
    (if state_first then us ++ um else um ++ us) ++ [FRmdir sid]
  | None => []
  end.

Definition flush_ops (k : sink) : list fsop :=
  (match k_buf k with [] => [] | _ => [FWriteState (k_sid k) (k_buf k)] end) ++ [FSyncState (k_sid k)].

(* ReapSnapshots on the file system as it is now *)
Definition reap_ops (state_first : bool) (retain : N) (f : fs) : list fsop :=
  flat_map (fun x => remove_all state_first f (fst x)) (skipn (N.to_nat retain) (get_snapshots f)).

Definition exec_op (sfirst : bool) (st : store) (o : sop) : store * list fsop :=
  match o with
  | SCreate sid term index =>
    let ops := [FMkdir sid; FCreateMeta sid; FWriteMeta sid (mkMV 1 term index None); FSyncMeta sid; FCreateState sid] in
    (mkStore (st_retain st) (fs_run (st_fs st) ops) (st_sinks st ++ [mkSink sid term index [] false]), ops)
  | SWrite sid bytes =>
    (mkStore (st_retain st) (st_fs st)
             (upd_sink (st_sinks st) sid (fun k => if k_done k then k else mkSink (k_sid k) (k_term k) (k_index k) (k_buf k ++ bytes) false)), [])
  | SClose sid =>
    match find_sink (st_sinks st) sid with
    | Some k =>
      if k_done k then (st, [])
      else
        let ops1 := flush_ops k ++
                    [FCreateMeta sid; FWriteMeta sid (mkMV 1 (k_term k) (k_index k) (Some (k_buf k))); FSyncMeta sid;
                     FRename sid; FSyncParent] in
        let f1 := fs_run (st_fs st) ops1 in
        let ops2 := reap_ops sfirst (st_retain st) f1 in
        (mkStore (st_retain st) (fs_run f1 ops2)
                 (upd_sink (st_sinks st) sid (fun k => mkSink (k_sid k) (k_term k) (k_index k) (k_buf k) true)),
         ops1 ++ ops2)
    | None => (st, [])
    end
  | SCancel sid =>
    match find_sink (st_sinks st) sid with
    | Some k =>
      if k_done k then (st, [])
      else
        let ops1 := flush_ops k in
        let f1 := fs_run (st_fs st) ops1 in
        let ops2 := remove_all sfirst f1 sid in
        (mkStore (st_retain st) (fs_run f1 ops2)
                 (upd_sink (st_sinks st) sid (fun k => mkSink (k_sid k) (k_term k) (k_index k) (k_buf k) true)),
         ops1 ++ ops2)
    | None => (st, [])
    end
  end.

(* the whole script: the op program, as one list per script op *)
Fixpoint run_script (sfirst : bool) (st : store) (script : list sop) : store * list (list fsop) :=
  match script with
  | [] => (st, [])
  | o :: r =>
    let '(st1, ops) := exec_op sfirst st o in
    let '(st2, rest) := run_script sfirst st1 r in (st2, ops :: rest)
  end.

Definition program (sfirst : bool) (retain : N) (script : list sop) : list fsop :=
  concat (snd (run_script sfirst (mkStore retain [] []) script)).

(* ---------------------------------------------------------------- crash *)
(* is the file (sid, which) dirty after these ops: created / truncated / written after its last fsync *)
Fixpoint dirty_after (ops : list fsop) (sid : N) (state : bool) (acc : bool) : bool :=
  match ops with
  | [] => acc
  | o :: r =>
    let acc' :=
      match o with
      | FCreateMeta s | FWriteMeta s _ => if (s =? sid) && negb state then true else acc
      | FSyncMeta s => if (s =? sid) && negb state then false else acc
      | FCreateState s | FWriteState s _ => if (s =? sid) && state then true else acc
      | FSyncState s => if (s =? sid) && state then false else acc
      | _ => acc
      end in
    dirty_after r sid state acc'
  end.

Definition is_sync (o : fsop) : bool :=
  match o with FSyncMeta _ | FSyncState _ | FSyncParent => true | _ => false end.

(* position (1-based) of the last fsync among the ops, 0 if none *)
Fixpoint last_sync_aux (ops : list fsop) (pos best : nat) : nat :=
  match ops with
  | [] => best
  | o :: r => last_sync_aux r (S pos) (if is_sync o then S pos else best)
  end.
Definition last_sync (ops : list fsop) : nat := last_sync_aux ops 0 0.

(* what survives: the tree after op j; every file dirty at k holds junk *)
Definition crash_tree (ops : list fsop) (k j : nat)
           (jm : N -> mcontent -> mcontent -> mcontent) (js : N -> list N -> list N -> list N) : fs :=
  let fj := fs_run [] (firstn j ops) in
  let opsk := firstn k ops in
  map (fun d =>
         mkDir (d_sid d) (d_tmp d)
               (match d_meta d with
                | Some x => Some (if dirty_after opsk (d_sid d) false false
                                  then mkMF (jm (d_sid d) (mf_c x) (mf_synced x)) (mf_synced x) true else x)
                | None => None end)
               (match d_state d with
                | Some y => Some (if dirty_after opsk (d_sid d) true false
                                  then mkSF (js (d_sid d) (sf_c y) (sf_synced y)) (sf_synced y) true else y)
                | None => None end)) fj.

Definition crash_ok (ops : list fsop) (k j : nat) : bool :=
  Nat.leb k (length ops) && Nat.leb j k && Nat.leb (last_sync (firstn k ops)) j.

(* the junk used by the correspondence check: 0 empty, 1 first half, 2 unchanged, 3 three bytes of
   garbage appended, 4 what was last synced *)
Definition jm_code (code : N) (_ : N) (c synced : mcontent) : mcontent :=
  match code with
  | 0 => MEmpty
  | 1 => match c with MEmpty => MEmpty | _ => MBad end
  | 3 => match c with MFull m => MFull m | _ => MBad end
  | 4 => synced
  | _ => c
  end.
Definition js_code (code : N) (_ : N) (c synced : list N) : list N :=
  match code with
  | 0 => []
  | 1 => firstn (Nat.div2 (length c)) c
  | 3 => c ++ [255; 255; 255]
  | 4 => synced
  | _ => c
  end.

(* ---------------------------------------------------------------- flat encoding (components 15 / 1501 / 1502) *)
Fixpoint take_n (n : nat) (l : list N) : list N * list N :=
  match n with
  | O => ([], l)
  | S n' => match l with [] => ([], []) | x :: r => let '(a, b) := take_n n' r in (x :: a, b) end
  end.

Fixpoint dec_script (fuel : nat) (l : list N) : list sop :=
  match fuel with
  | O => []
  | S f =>
    match l with
    | 1 :: sid :: term :: index :: r => SCreate sid term index :: dec_script f r
    | 2 :: sid :: n :: r => let '(bytes, r') := take_n (N.to_nat n) r in SWrite sid bytes :: dec_script f r'
    | 3 :: sid :: r => SClose sid :: dec_script f r
    | 4 :: sid :: r => SCancel sid :: dec_script f r
    | _ => []
    end
  end.

Definition tmp_flag (f : fs) (sid : N) : N :=
  match find_dir f sid with Some d => if d_tmp d then 1 else 0 | None => 0 end.

(* one op in the harness' alphabet, given the file system before it *)
Definition enc_fsop (f : fs) (o : fsop) : list N :=
  match o with
  | FMkdir s => [1; s] | FCreateMeta s => [2; s] | FWriteMeta s _ => [3; s] | FSyncMeta s => [4; s]
  | FCreateState s => [5; s] | FWriteState s b => [6; s; N.of_nat (length b)] | FSyncState s => [7; s]
  | FRename s => [8; s] | FSyncParent => [9]
  | FUnlinkMeta s => [10; s; tmp_flag f s] | FUnlinkState s => [11; s; tmp_flag f s] | FRmdir s => [12; s; tmp_flag f s]
  end.

Fixpoint enc_ops (f : fs) (ops : list fsop) : list N * fs :=
  match ops with
  | [] => ([], f)
  | o :: r => let '(rest, f') := enc_ops (fs_apply f o) r in (enc_fsop f o ++ rest, f')
  end.

Fixpoint enc_segments (f : fs) (segs : list (list fsop)) : list N :=
  match segs with
  | [] => []
  | s :: r => let '(e, f') := enc_ops f s in e ++ [0; 0] ++ enc_segments f' r
  end.

(* component 15: retain, script -> op program with a boundary after every script op *)
Definition run_fsprogram (inp : list N) : list N :=
  match inp with
  | retain :: r =>
    let script := dec_script (length r) r in
    enc_segments [] (snd (run_script false (mkStore retain [] []) script))
  | [] => []
  end.

(* observation of List/Open *)
Definition enc_listing (retain : N) (f : fs) : list N :=
  let l := list_snaps retain f in
  N.of_nat (length l) ::
  flat_map (fun x => match open_snap f (fst x) with
                     | Some bytes => fst x :: 1 :: N.of_nat (length bytes) :: bytes
                     | None => [fst x; 0; 0]
                     end) l
  ++ [N.of_nat (length (filter (fun d => negb (d_tmp d)) f))].

(* component 1502: k j code retain script *)
Definition run_crash (inp : list N) : list N :=
  match inp with
  | k :: j :: code :: retain :: r =>
    let script := dec_script (length r) r in
    let ops := program false retain script in
    if crash_ok ops (N.to_nat k) (N.to_nat j)
    then enc_listing retain (crash_tree ops (N.to_nat k) (N.to_nat j) (jm_code code) (js_code code))
    else [999]
  | _ => []
  end.

(* component 1501: an explicit image *)
Definition flip_first (b : list N) : list N :=
  match b with [] => [1] | x :: r => N.lxor x 1 :: r end.

Fixpoint dec_image (n : nat) (l : list N) : fs :=
  match n with
  | O => []
  | S n' =>
    match l with
    | sid :: tmp :: term :: index :: mk :: sk :: len :: r =>
      let '(bytes, r') := take_n (N.to_nat len) r in
      let meta :=
        match mk with
        | 0 => None
        | 1 => Some (mkMF (MFull (mkMV 1 term index (Some bytes))) MEmpty false)
        | 2 => Some (mkMF MBad MEmpty false)
        | 3 => Some (mkMF (MFull (mkMV 2 term index (Some bytes))) MEmpty false)
        | 4 => Some (mkMF (MFull (mkMV 1 term index (Some (flip_first bytes)))) MEmpty false)
        | _ => Some (mkMF MEmpty MEmpty false)
        end in
      let state :=
        match sk with
        | 0 => None
        | 1 => Some (mkSF bytes [] false)
        | _ => Some (mkSF (firstn (Nat.div2 (length bytes)) bytes) [] false)
        end in
      mkDir sid (negb (tmp =? 0)) meta state :: dec_image n' r'
    | _ => []
    end
  end.

Definition run_image (inp : list N) : list N :=
  match inp with
  | retain :: nd :: r => enc_listing retain (dec_image (N.to_nat nd) r)
  | _ => []
  end.
