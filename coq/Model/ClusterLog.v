(* ClusterLog.v — the cluster transition system with LOG REPLICATION: Model/Cluster.v (elections,
   restarts, crash cuts, store failures) extended with what a leader does to logs:
     - dispatchLogs at a leader (Model/Leader.v: dispatch) — the no-op of a new leader is already
       part of Cluster.become_leader;
     - a replication goroutine building an AppendEntries from the leader's log
       (Model/Replicate.v: setup_send; replication.go setupAppendEntries), or a heartbeat
       (replication.go heartbeat: Term and leader only), for ANY nextIndex and any lastIndex the
       leader once had — an over-approximation of the goroutine's bookkeeping;
     - the network: requests are kept for ever once sent; delivery executes the follower's
       appendEntries handler (Model/Node.v through step_full, with crash cuts and store failures),
       any number of times, in any order, arbitrarily late, or never.
   This is the system over which Log Matching is stated (Props/C04.v).  Responses to the leader
   only move nextIndex/commitment, which the system does not constrain, so they are not modelled.

   NOT in this system (and said so in the theorem names): InstallSnapshot (with it the statement is
   false on this code, known finding F3-ii) and user Restore. *)
From Coq Require Import List NArith Bool.
From stdpp Require Import gmap.
From RaftModel Require Import Base Config Compaction Commitment Node NodeCodec Candidate Leader Replicate Cluster.
Open Scope N_scope.

Record amsg := mkAM { am_from : N; am_to : N; am_req : areq }.

Record lgstate := mkLG { lg_g : gstate; lg_msgs : list amsg }.

Inductive llabel :=
| LElect (l : glabel)                       (* a step of the election system; inputs restricted, see input_ok *)
| LPropose (i ty data : N) (fs : list bool) (* dispatchLogs of one entry at leader i *)
| LSend (i j next last : N)                 (* replicateTo(j): setupAppendEntries(nextIndex = next, lastIndex = last) *)
| LHeartbeat (i j : N)                      (* heartbeat(j) *)
| LDeliver (k : nat) (cut : N) (fs : list bool).  (* the k-th request sent so far is executed by its target *)

(* inputs from outside the modelled network: stray vote and pre-vote requests from anyone, restarts,
   TimeoutNow, and (if snaps) takeSnapshot with its compaction.  AppendEntries reach a server only
   through LDeliver; InstallSnapshot is not part of the system. *)
Definition input_ok (snaps : bool) (e : nevent) : bool :=
  match e with
  | NVote _ | NPreVote _ | NRestart | NTimeoutNow => true
  | NSnapshot => snaps
  | _ => false
  end.

Definition label_ok (snaps : bool) (l : glabel) : bool :=
  match l with
  | GInput _ e _ _ => input_ok snaps e
  | _ => true
  end.

Definition set_node_run (g : gstate) (i : N) (n : gnode) (r : nrun) : gstate :=
  mkG (upd_node (g_nodes g) i (mkGN (gn_P n) r (keep_sess r (gn_sess n)) (gn_next n)))
      (g_resps g) (g_leaders g) (g_grants g).

Definition lstep (snaps : bool) (cfgs : list config) (g : lgstate) (l : llabel) : option lgstate :=
  match l with
  | LElect gl =>
    if label_ok snaps gl then
      match gstep cfgs (lg_g g) gl with
      | Some g' => Some (mkLG g' (lg_msgs g))
      | None => None
      end
    else None
  | LPropose i ty data fs =>
    match find_node (g_nodes (lg_g g)) i with
    | Some n =>
      match gn_run n with
      | Up s =>
        if v_role s =? Leader then
          (* the leader's commitment and inflight list do not influence what is stored *)
          let '(ls', _, _, _) := dispatch (gn_P n) (leader_setup s) fs [(ty, data, 0)] in
          Some (mkLG (set_node_run (lg_g g) i n (Up (l_node ls'))) (lg_msgs g))
        else None
      | Down _ => None
      end
    | None => None
    end
  | LSend i j next last =>
    match find_node (g_nodes (lg_g g)) i with
    | Some n =>
      match gn_run n with
      | Up s =>
        if (v_role s =? Leader) && negb (i =? j) && (1 <=? next) && (last <=? last_index s) then
          match setup_send (gn_P n) s next last with
          | SendAE pi pt es c =>
            Some (mkLG (lg_g g) (lg_msgs g ++ [mkAM i j (mkAReq (v_term s) i i pi pt es c)]))
          | _ => None        (* a snapshot would be sent, or nothing *)
          end
        else None
      | Down _ => None
      end
    | None => None
    end
  | LHeartbeat i j =>
    match find_node (g_nodes (lg_g g)) i with
    | Some n =>
      match gn_run n with
      | Up s =>
        if (v_role s =? Leader) && negb (i =? j) then
          Some (mkLG (lg_g g) (lg_msgs g ++ [mkAM i j (mkAReq (v_term s) i i 0 0 [] 0)]))
        else None
      | Down _ => None
      end
    | None => None
    end
  | LDeliver k cut fs =>
    match nth_error (lg_msgs g) k with
    | Some m =>
      match gstep cfgs (lg_g g) (GInput (am_to m) (NAppend (am_req m)) cut fs) with
      | Some g' => Some (mkLG g' (lg_msgs g))
      | None => None
      end
    | None => None
    end
  end.

Fixpoint lrun (snaps : bool) (cfgs : list config) (g : lgstate) (ls : list llabel) : option lgstate :=
  match ls with
  | [] => Some g
  | l :: r => match lstep snaps cfgs g l with Some g' => lrun snaps cfgs g' r | None => None end
  end.

(* ---------------------------------------------------------------- what is stated about it *)
Definition log_of (n : gnode) : gmap N entry := d_log (image (gn_run n)).

(* Log Matching: two logs that hold an entry of the same term at an index hold the SAME entry at
   every index up to it that both still retain (compaction removes entries from below) *)
Definition log_matching (g : lgstate) : Prop :=
  forall a b, In a (g_nodes (lg_g g)) -> In b (g_nodes (lg_g g)) ->
  forall i ea eb, log_of a !! i = Some ea -> log_of b !! i = Some eb -> e_term ea = e_term eb ->
  forall k ka kb, k <= i -> log_of a !! k = Some ka -> log_of b !! k = Some kb -> ka = kb.

(* within one log terms never decrease as the index grows, and an entry is stored under its own index *)
Definition terms_monotone (g : lgstate) : Prop :=
  forall a, In a (g_nodes (lg_g g)) ->
  forall i j ei ej, i <= j -> log_of a !! i = Some ei -> log_of a !! j = Some ej ->
    e_term ei <= e_term ej /\ e_idx ei = i.

(* ---------------------------------------------------------------- flat encoding (component 101) *)
(* as component 1 (label 6, an injected AppendEntries, is not enabled here), plus:
   7 i data (propose a command) | 8 i j next last | 9 i j | 10 k
   output per label: 0 | 1, per node: role term vterm vcand+1 lastIndex nlog (idx term ty data)*, number of leaders,
   number of requests, the newest request: term prevIdx prevTerm commit n (idx term)* (absent when there is none) *)
Definition enc_lnode (n : gnode) : list N :=
  let l := sorted_log (log_of n) in
  enc_gnode n ++ N.of_nat (length l) :: flat_map (fun e => [e_idx e; e_term e; e_ty e; e_data e]) l.

Definition enc_amsg (m : amsg) : list N :=
  let a := am_req m in
  [aq_term a; aq_prevIdx a; aq_prevTerm a; aq_commit a; N.of_nat (length (aq_entries a))]
  ++ flat_map (fun e => [e_idx e; e_term e]) (aq_entries a).

Definition enc_lgstate (g : lgstate) : list N :=
  flat_map enc_lnode (g_nodes (lg_g g)) ++ [N.of_nat (length (g_leaders (lg_g g))); N.of_nat (length (lg_msgs g))]
  ++ match rev (lg_msgs g) with m :: _ => enc_amsg m | [] => [] end.

Definition dec_llabel (l : list N) : option (llabel * list N) :=
  match l with
  | 7 :: i :: data :: r => Some (LPropose i LogCommand data [], r)
  | 8 :: i :: j :: next :: last :: r => Some (LSend i j next last, r)
  | 9 :: i :: j :: r => Some (LHeartbeat i j, r)
  | 10 :: k :: r => Some (LDeliver (N.to_nat k) 0 [], r)
  | _ => match dec_glabel l with Some (gl, r) => Some (LElect gl, r) | None => None end
  end.

Fixpoint run_llabels (cfg : config) (fuel : nat) (g : lgstate) (l : list N) : list N :=
  match fuel with
  | O => []
  | S f =>
    match dec_llabel l with
    | None => []
    | Some (lb, rest) =>
      match lstep true [cfg] g lb with
      | Some g' => (1 :: enc_lgstate g') ++ run_llabels cfg f g' rest
      | None => 0 :: run_llabels cfg f g rest
      end
    end
  end.

Definition run_clusterlog (inp : list N) : list N :=
  match inp with
  | n :: r =>
    let cfg := mk_cfg (N.to_nat n) in
    let '(extras, r') := take_extras (N.to_nat n) r in
    let nodes := map (fun p => mk_node cfg (N.of_nat (fst p)) (snd p)) (combine (seq 1 (N.to_nat n)) extras) in
    run_llabels cfg (length r') (mkLG (mkG nodes [] [] []) []) r'
  | [] => []
  end.
