(* Commitment.v — model of commitment.go *)
From Coq Require Import List NArith Bool.
From stdpp Require Import gmap.
From RaftModel Require Import Base Config.
Open Scope N_scope.

Fixpoint insert_sorted (x : N) (l : list N) : list N :=
  match l with
  | [] => [x]
  | y :: r => if x <=? y then x :: l else y :: insert_sorted x r
  end.
Definition sort_N (l : list N) : list N := fold_right insert_sorted [] l.

Record commitment := mkCm {
  cm_match : gmap N N;      (* matchIndexes: voter id -> index *)
  cm_commit : N;            (* commitIndex *)
  cm_start : N;             (* startIndex *)
}.

Definition match_vals (m : gmap N N) : list N := map snd (map_to_list m).

(* matched[(len(matched)-1)/2] of the sorted values *)
Definition quorum_match (m : gmap N N) : N :=
  let s := sort_N (match_vals m) in
  nth ((length s - 1) / 2)%nat s 0.

Definition recalculate (c : commitment) : commitment :=
  if (size (cm_match c) =? 0)%nat then c
  else let q := quorum_match (cm_match c) in
       if (cm_commit c <? q) && (cm_start c <=? q)
       then mkCm (cm_match c) q (cm_start c) else c.

(* newCommitment: a slot (0) for every server with Suffrage == Voter *)
Definition voter_slots (cfg : config) (old : gmap N N) : gmap N N :=
  fold_left (fun m s => if is_voter s then <[ s_id s := default 0 (old !! s_id s) ]> m else m)
            cfg ∅.

Definition cm_new (cfg : config) (start : N) : commitment :=
  mkCm (voter_slots cfg ∅) 0 start.

Inductive cop := CMatch (id idx : N) | CSetCfg (cfg : config).

Definition cm_step (c : commitment) (o : cop) : commitment :=
  match o with
  | CMatch id idx =>
    match cm_match c !! id with
    | Some prev => if prev <? idx
                   then recalculate (mkCm (<[ id := idx ]> (cm_match c)) (cm_commit c) (cm_start c))
                   else c
    | None => c
    end
  | CSetCfg cfg =>
    recalculate (mkCm (voter_slots cfg (cm_match c)) (cm_commit c) (cm_start c))
  end.

Definition cm_run (c : commitment) (ops : list cop) : commitment := fold_left cm_step ops c.

(* follower side, raft.go appendEntries: "Update the commit index" (after the fix: commit): the
   minimum of LeaderCommit, the last index the request vouches for and the own last index, never backwards *)
Definition follower_commit (commit leaderCommit lastNew lastIndex : N) : N :=
  if (0 <? leaderCommit) && (commit <? leaderCommit) then
    let idx := N.min leaderCommit (N.min lastNew lastIndex) in
    if commit <? idx then idx else commit
  else commit.

Fixpoint dec_cops (fuel : nat) (l : list N) : list cop :=
  match fuel with
  | O => []
  | S f =>
    match l with
    | 1 :: id :: idx :: r => CMatch id idx :: dec_cops f r
    | 2 :: r => let '(cfg, r') := dec_config r in CSetCfg cfg :: dec_cops f r'
    | _ => []
    end
  end.

Fixpoint cm_trace (c : commitment) (ops : list cop) : list N :=
  match ops with
  | [] => []
  | o :: r => let c' := cm_step c o in cm_commit c' :: cm_trace c' r
  end.

Definition run_commitment (inp : list N) : list N :=
  let '(cfg, r) := dec_config inp in
  match r with
  | start :: r' =>
    let c := cm_new cfg start in
    cm_commit c :: cm_trace c (dec_cops (length r') r')
  | _ => []
  end.

(* component 501: follower commit arithmetic: commit LC last -> commit' *)
Definition run_follower_commit (inp : list N) : list N :=
  match inp with
  | c :: lc :: ln :: last :: _ => [follower_commit c lc ln last]
  | _ => []
  end.
