(* Replicate.v — the leader side of catch-up (replication.go: replicateTo, setupAppendEntries,
   setPreviousLog, setNewLogs, updateLastAppended, sendLatestSnapshot): one follower's nextIndex
   under the follower's answers.  The follower's side is Model/Node.v. *)
From Coq Require Import List NArith Bool.
From stdpp Require Import gmap.
From RaftModel Require Import Base Config Compaction Commitment Node NodeCodec Leader.
Open Scope N_scope.

Record rstate := mkRS { r_next : N; r_failures : N; r_match : N (* highest index reported to the commitment (it keeps the maximum), 0 = none *) }.

(* what replicateTo is about to send *)
Inductive rsend :=
| SendAE (prevIdx prevTerm : N) (es : list entry) (commit : N)
| SendSnap (idx term : N)        (* sendLatestSnapshot: the newest snapshot *)
| SendNothing.                   (* setupAppendEntries failed for another reason / no snapshot *)

Fixpoint get_range (m : gmap N entry) (from : N) (n : nat) : option (list entry) :=
  match n with
  | O => Some []
  | S n' => match m !! from with
            | None => None
            | Some e => match get_range m (from + 1) n' with Some r => Some (e :: r) | None => None end
            end
  end.

(* setPreviousLog: None = ErrLogNotFound *)
Definition prev_of (s : nstate) (next : N) : option (N * N) :=
  if next =? 1 then Some (0, 0)
  else if next - 1 =? v_lastSnapIdx s then Some (v_lastSnapIdx s, v_lastSnapTerm s)
  else match d_log s !! (next - 1) with Some e => Some (e_idx e, e_term e) | None => None end.

Definition newest_snap (s : nstate) : option snapshot :=
  match list_snaps (d_snaps s) with sn :: _ => Some sn | [] => None end.

Definition setup_send (P : params) (s : nstate) (next last : N) : rsend :=
  match prev_of s next with
  | None => match newest_snap s with Some sn => SendSnap (sn_idx sn) (sn_term sn) | None => SendNothing end
  | Some (pi, pt) =>
    let maxIdx := N.min (next + p_maxappend P - 1) last in
    match get_range (d_log s) next (N.to_nat (maxIdx + 1 - next)) with
    | Some es => SendAE pi pt es (v_commit s)
    | None => match newest_snap s with Some sn => SendSnap (sn_idx sn) (sn_term sn) | None => SendNothing end
    end
  end.

(* the follower's answer as the leader sees it *)
Inductive fresp :=
| FErr                                             (* transport error *)
| FAppend (term lastLog : N) (success noRetry : bool)
| FSnap (term : N) (success : bool).

(* outcome of one trip round START..CHECK_MORE: the new state, and whether replicateTo returns
   (Some true = stop, stale term / Some false = return) or loops (None) *)
Definition last_idx_of (es : list entry) : N := e_idx (last es (mkE 0 0 0 0)).

Definition round_step (term : N) (rs : rstate) (snd : rsend) (a : fresp) (last : N) : rstate * option bool :=
  match snd, a with
  | SendNothing, _ => (rs, Some false)
  | SendAE _ _ es _, FErr => (mkRS (r_next rs) (r_failures rs + 1) (r_match rs), Some false)
  | SendAE _ _ es _, FAppend t lastLog ok noRetry =>
    if term <? t then (rs, Some true)
    else if ok then
      let rs' := match es with
                 | [] => mkRS (r_next rs) 0 (r_match rs)
                 | _ => mkRS (last_idx_of es + 1) 0 (N.max (r_match rs) (last_idx_of es))
                 end in
      (rs', if r_next rs' <=? last then None else Some false)
    else
      let nx := N.max (N.min (r_next rs - 1) (lastLog + 1)) 1 in
      let rs' := mkRS nx (if noRetry then 0 else r_failures rs + 1) (r_match rs) in
      (rs', if nx <=? last then None else Some false)
  | SendSnap idx _, FErr => (mkRS (r_next rs) (r_failures rs + 1) (r_match rs), Some false)
  | SendSnap idx _, FSnap t ok =>
    if term <? t then (rs, Some true)
    else if ok then
      let rs' := mkRS (idx + 1) 0 (N.max (r_match rs) idx) in (rs', if idx + 1 <=? last then None else Some false)
    else
      let rs' := mkRS (r_next rs) (r_failures rs + 1) (r_match rs) in
      (rs', if r_next rs <=? last then None else Some false)
  | SendAE _ _ _ _, FSnap _ _ => (rs, Some false)     (* not a well-formed script *)
  | SendSnap _ _, FAppend _ _ _ _ => (rs, Some false)
  end.

Definition enc_send (x : rsend) : list N :=
  match x with
  | SendAE pi pt es c => [1; pi; pt; N.of_nat (length es); match es with [] => 0 | e :: _ => e_idx e end; last_idx_of es; c]
  | SendSnap i t => [2; i; t]
  | SendNothing => [3]
  end.

(* replicateTo(s, last) against a list of answers: the requests sent, then the final state *)
Fixpoint replicate_to (P : params) (s : nstate) (rs : rstate) (last : N) (answers : list fresp) : list N :=
  let snd := setup_send P s (r_next rs) last in
  match snd with
  | SendNothing => enc_send snd ++ [9; r_next rs; r_failures rs; r_match rs; 0]
  | _ =>
    match answers with
    | [] => [9; r_next rs; r_failures rs; r_match rs; 2]        (* script exhausted *)
    | a :: rest =>
      let '(rs', ret) := round_step (v_term s) rs snd a last in
      enc_send snd ++
      match ret with
      | Some stop => [9; r_next rs'; r_failures rs'; r_match rs'; if stop then 1 else 0]
      | None => replicate_to P s rs' last rest
      end
    end
  end.

Fixpoint dec_fresps (n : nat) (l : list N) : list fresp * list N :=
  match n with
  | O => ([], l)
  | S n' =>
    match l with
    | 0 :: r => let '(x, r') := dec_fresps n' r in (FErr :: x, r')
    | 1 :: t :: ll :: ok :: nr :: r => let '(x, r') := dec_fresps n' r in (FAppend t ll (n2b ok) (n2b nr) :: x, r')
    | 2 :: t :: ok :: r => let '(x, r') := dec_fresps n' r in (FSnap t (n2b ok) :: x, r')
    | _ => ([], [])
    end
  end.

(* component 12: header and image as components 6/8 (the server is made leader), then calls:
   next0 last nanswers answers...   -> requests sent + final (next, failures, match, returned) *)
Fixpoint run_repl_calls (P : params) (s : nstate) (fuel : nat) (l : list N) : list N :=
  match fuel with
  | O => []
  | S f =>
    match l with
    | next0 :: last :: na :: r =>
      let '(ans, r') := dec_fresps (N.to_nat na) r in
      let out := replicate_to P s (mkRS next0 0 0) last ans in
      (N.of_nat (length out) :: out) ++ run_repl_calls P s f r'
    | _ => []
    end
  end.

Definition run_replseq (inp : list N) : list N :=
  match inp with
  | self :: mono :: track :: trailing :: maxapp :: ntab :: r0 =>
    let '(tab, r1) := dec_cfgtab (N.to_nat ntab) r0 in
    match r1 with
    | rc :: term :: vterm :: vcand :: r2 =>
      let P := mkP self (n2b mono) (n2b track && n2b rc) (n2b rc) trailing maxapp (lookup_cfg tab) in
      let '(es, r3) := dec_entries_n r2 in
      match r3 with
      | pcommit :: nsn :: r4 =>
        let '(snaps, r5) := dec_snaps (N.to_nat nsn) r4 in
        match recover P (image_of term vterm vcand es pcommit snaps) with
        | RecOk s _ => 1 :: run_repl_calls P (set_leader (set_state s Leader) self self) (length r5) r5
        | _ => [0]
        end
      | _ => []
      end
    | _ => []
    end
  | _ => []
  end.
