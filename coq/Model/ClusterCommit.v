(* ClusterCommit.v — Model/ClusterLog.v plus COMMITMENT: the answers of the followers travel back,
   the leader's replication code records what a follower stores (replication.go updateLastAppended ->
   commitment.match), the leader loop advances the commit index and hands the committed entries to
   its FSM (raft.go leaderLoop, case commitCh: Model/Leader.v leader_commit), followers learn the
   commit index from the requests (already in the handler, Model/Node.v ae_commit).
   This is the system over which State Machine Safety and Leader Completeness are stated
   (Props/C02.v, Props/C03.v).

   Per leadership the leader keeps (Model/Leader.v lstate): the commitment (matchIndexes of the voters
   of its latest configuration, startIndex = the index of its no-op) and the inflight list.  They are
   created when the server becomes leader and abandoned when it stops being one. *)
From Coq Require Import List NArith Bool.
From stdpp Require Import gmap.
From RaftModel Require Import Base Config Compaction Commitment Node NodeCodec Candidate Leader Replicate Cluster ClusterLog.
Open Scope N_scope.

Record lead := mkLead { ld_cm : commitment; ld_infl : list (entry * N) }.

(* an answer travelling back: to which request (position in lg_msgs), and what the follower said *)
Record ares := mkARes { rs_req : nat; rs_resp : aresp }.

Record cgstate := mkCG {
  cg_l : lgstate;
  cg_lead : list (N * lead);     (* by server id: the leadership state of the servers that are Leader *)
  cg_hb : list nat;              (* which requests of lg_msgs are heartbeats (their answers are not used for commitment) *)
  cg_ans : list ares;
}.

Inductive clabel :=
| CBase (l : llabel)             (* a step of the replication system *)
| CAck (n : nat).                (* the n-th answer is processed by the replication goroutine that sent the request *)

Fixpoint find_lead (l : list (N * lead)) (i : N) : option lead :=
  match l with
  | [] => None
  | (j, x) :: r => if j =? i then Some x else find_lead r i
  end.

Definition set_lead (l : list (N * lead)) (i : N) (x : lead) : list (N * lead) :=
  (i, x) :: filter (fun p => negb (fst p =? i)) l.

(* setupLeaderState + the no-op of runLeader, read off the state become_leader produced: the
   commitment starts at the no-op's index and the leader has matched it; the no-op is in flight *)
Definition fresh_lead (P : params) (s : nstate) : lead :=
  let li := last_index s in
  mkLead (cm_step (cm_new (v_latest s) li) (CMatch (p_self P) li))
         (match d_log s !! li with Some e => [(e, 0)] | None => [] end).

Definition role_of (r : nrun) : N := match r with Up s => v_role s | Down _ => 9 end.

(* servers that have just become Leader get a fresh leadership state *)
Definition refresh_leads (before after : list gnode) (l : list (N * lead)) : list (N * lead) :=
  fold_left (fun acc n =>
               match gn_run n, find_node before (gn_id n) with
               | Up s, Some n0 =>
                 if (v_role s =? Leader) && negb (role_of (gn_run n0) =? Leader)
                 then set_lead acc (gn_id n) (fresh_lead (gn_P n) s) else acc
               | _, _ => acc
               end) after l.

Definition is_hb (g : cgstate) (k : nat) : bool := existsb (Nat.eqb k) (cg_hb g).

Definition cstep (snaps : bool) (cfgs : list config) (g : cgstate) (l : clabel) : option cgstate :=
  match l with
  | CBase bl =>
    match lstep snaps cfgs (cg_l g) bl with
    | None => None
    | Some l' =>
      let nodes0 := g_nodes (lg_g (cg_l g)) in
      let leads1 :=
        match bl with
        | LPropose i ty data fs =>
          (* the same dispatchLogs, now with the leader's real commitment and inflight list *)
          match find_node nodes0 i, find_lead (cg_lead g) i with
          | Some n, Some ld =>
            match gn_run n with
            | Up s =>
              let '(ls', _, _, _) := dispatch (gn_P n) (mkLS s (ld_cm ld) (ld_infl ld)) fs [(ty, data, 0)] in
              set_lead (cg_lead g) i (mkLead (l_cm ls') (l_inflight ls'))
            | Down _ => cg_lead g
            end
          | _, _ => cg_lead g
          end
        | _ => cg_lead g
        end in
      let leads2 := refresh_leads nodes0 (g_nodes (lg_g l')) leads1 in
      let hb' := match bl with LHeartbeat _ _ => cg_hb g ++ [length (lg_msgs (cg_l g))] | _ => cg_hb g end in
      let ans' :=
        match bl with
        | LDeliver k cut fs =>
          match nth_error (lg_msgs (cg_l g)) k with
          | Some m =>
            match find_node nodes0 (am_to m) with
            | Some nj =>
              match step_full (gn_P nj) (gn_run nj) (NAppend (am_req m)) cut fs with
              | (_, OAppend _ r, _) => cg_ans g ++ [mkARes k r]
              | _ => cg_ans g
              end
            | None => cg_ans g
            end
          | None => cg_ans g
          end
        | _ => cg_ans g
        end in
      Some (mkCG l' leads2 hb' ans')
    end
  | CAck n =>
    match nth_error (cg_ans g) n with
    | None => None
    | Some a =>
      match nth_error (lg_msgs (cg_l g)) (rs_req a) with
      | None => None
      | Some m =>
        if is_hb g (rs_req a) then None        (* heartbeat(): the answer only refreshes lastContact *)
        else
          let i := am_from m in
          match find_node (g_nodes (lg_g (cg_l g))) i, find_lead (cg_lead g) i with
          | Some n, Some ld =>
            match gn_run n with
            | Up s =>
              (* the replication goroutine of THIS leadership: it ends when the server stops leading *)
              if negb ((v_role s =? Leader) && (v_term s =? aq_term (am_req m))) then None
              else
                let r := rs_resp a in
                if aq_term (am_req m) <? ar_term r then
                  (* handleStaleTerm -> leaderLoop stepDown: setState(Follower) *)
                  Some (mkCG (mkLG (set_node_run (lg_g (cg_l g)) i n (Up (set_state s Follower))) (lg_msgs (cg_l g)))
                             (cg_lead g) (cg_hb g) (cg_ans g))
                else if ar_success r then
                  match aq_entries (am_req m) with
                  | [] => Some g                  (* updateLastAppended: nothing to record *)
                  | es =>
                    let ls1 := peer_match (mkLS s (ld_cm ld) (ld_infl ld)) (am_to m) (e_idx (last_of es)) in
                    (* commitCh is notified only when the commitment's commit index advanced *)
                    if cm_commit (l_cm ls1) =? cm_commit (ld_cm ld) then
                      Some (mkCG (cg_l g) (set_lead (cg_lead g) i (mkLead (l_cm ls1) (l_inflight ls1))) (cg_hb g) (cg_ans g))
                    else
                    match leader_commit ls1 with
                    | Some (ls2, _, _) =>
                      Some (mkCG (mkLG (set_node_run (lg_g (cg_l g)) i n (Up (l_node ls2))) (lg_msgs (cg_l g)))
                                 (set_lead (cg_lead g) i (mkLead (l_cm ls2) (l_inflight ls2))) (cg_hb g) (cg_ans g))
                    | None => None                (* processLogs would panic: an entry at or below the commit index is missing *)
                    end
                  end
                else Some g                       (* a refusal only moves nextIndex *)
            | Down _ => None
            end
          | _, _ => None
          end
      end
    end
  end.

Fixpoint crun (snaps : bool) (cfgs : list config) (g : cgstate) (ls : list clabel) : option cgstate :=
  match ls with
  | [] => Some g
  | l :: r => match cstep snaps cfgs g l with Some g' => crun snaps cfgs g' r | None => None end
  end.

(* ---------------------------------------------------------------- what is stated about it *)
Definition cnodes (g : cgstate) : list gnode := g_nodes (lg_g (cg_l g)).

(* State Machine Safety: what two running servers know to be committed is the same history *)
Definition committed_agree (g : cgstate) : Prop :=
  forall a b sa sb, In a (cnodes g) -> In b (cnodes g) -> gn_run a = Up sa -> gn_run b = Up sb ->
  forall i ea eb, i <= v_commit sa -> i <= v_commit sb ->
    d_log sa !! i = Some ea -> d_log sb !! i = Some eb -> ea = eb.

(* Leader Completeness: a leader whose term is at least the term of a running server holds every
   entry that server knows to be committed *)
Definition leader_complete (g : cgstate) : Prop :=
  forall a l sa sl, In a (cnodes g) -> In l (cnodes g) -> gn_run a = Up sa -> gn_run l = Up sl ->
  v_role sl = Leader -> v_term sa <= v_term sl ->
  forall i e, i <= v_commit sa -> d_log sa !! i = Some e -> d_log sl !! i = Some e.

(* what the FSM of a running server was given is the committed prefix of its own log, in order:
   applied <= commit <= last index *)
Definition applied_within_commit (g : cgstate) : Prop :=
  forall a sa, In a (cnodes g) -> gn_run a = Up sa -> v_applied sa <= v_commit sa /\ v_commit sa <= last_index sa.

(* ---------------------------------------------------------------- flat encoding (component 102) *)
(* as component 101, plus:  12 n (process the n-th answer)
   output per label: 0 | 1, per node: role term vterm vcand+1 lastIndex commit applied nfsm fsm* nlog (idx term ty data)*,
   leaders, requests, answers, newest request as in component 101 *)
Definition enc_cnode (n : gnode) : list N :=
  let s := image (gn_run n) in
  let l := sorted_log (log_of n) in
  enc_gnode n ++ [v_commit s; v_applied s; N.of_nat (length (v_fsm s))] ++ v_fsm s
  ++ N.of_nat (length l) :: flat_map (fun e => [e_idx e; e_term e; e_ty e; e_data e]) l.

Definition enc_cgstate (g : cgstate) : list N :=
  flat_map enc_cnode (cnodes g)
  ++ [N.of_nat (length (g_leaders (lg_g (cg_l g)))); N.of_nat (length (lg_msgs (cg_l g))); N.of_nat (length (cg_ans g))]
  ++ match rev (lg_msgs (cg_l g)) with m :: _ => enc_amsg m | [] => [] end.

Definition dec_clabel (l : list N) : option (clabel * list N) :=
  match l with
  | 12 :: n :: r => Some (CAck (N.to_nat n), r)
  | _ => match dec_llabel l with Some (bl, r) => Some (CBase bl, r) | None => None end
  end.

Fixpoint run_clabels (cfg : config) (fuel : nat) (g : cgstate) (l : list N) : list N :=
  match fuel with
  | O => []
  | S f =>
    match dec_clabel l with
    | None => []
    | Some (lb, rest) =>
      match cstep true [cfg] g lb with
      | Some g' => (1 :: enc_cgstate g') ++ run_clabels cfg f g' rest
      | None => 0 :: run_clabels cfg f g rest
      end
    end
  end.

Definition run_clustercommit (inp : list N) : list N :=
  match inp with
  | n :: r =>
    let cfg := mk_cfg (N.to_nat n) in
    let '(extras, r') := take_extras (N.to_nat n) r in
    let nodes := map (fun p => mk_node cfg (N.of_nat (fst p)) (snd p)) (combine (seq 1 (N.to_nat n)) extras) in
    run_clabels cfg (length r') (mkCG (mkLG (mkG nodes [] [] []) []) [] [] []) r'
  | [] => []
  end.
