(* ClusterCommit.v — Model/ClusterLog.v plus COMMITMENT: the answers of the followers travel back,
   the leader's replication code records what a follower stores (replication.go updateLastAppended ->
   commitment.match), the leader loop advances the commit index and hands the committed entries to
   its FSM (raft.go leaderLoop, case commitCh: Model/Leader.v leader_commit), followers learn the
   commit index from the requests (already in the handler, Model/Node.v ae_commit).
   This is the system over which State Machine Safety and Leader Completeness are stated
   (Props/C02.v, Props/C03.v).

   Per leadership the leader keeps (Model/Leader.v lstate): the commitment (matchIndexes of the voters
   of its latest configuration, startIndex = the index of its no-op) and the inflight list.  They are
   created when the server becomes leader and abandoned when it stops being one. *)
From Coq Require Import List NArith Bool.
From stdpp Require Import gmap.
From RaftModel Require Import Base Config Compaction Commitment Node NodeCodec Candidate Leader Replicate Cluster ClusterLog.
Open Scope N_scope.

(* per follower (replication.go followerReplication): nextIndex, and the request whose answer the
   synchronous replicateTo is waiting for (its position in lg_msgs) *)
Record lead := mkLead {
  ld_cm : commitment; ld_infl : list (entry * N);
  ld_next0 : N;                    (* nextIndex every follower starts with: lastIndex + 1 at setupLeaderState *)
  ld_next : list (N * N);          (* followers whose nextIndex has moved since *)
  ld_out : list (N * nat);         (* follower -> outstanding request *)
  ld_notified : bool;              (* commitCh holds a notification the leader loop has not consumed yet *)
}.

Fixpoint assoc {A} (l : list (N * A)) (j : N) : option A :=
  match l with
  | [] => None
  | (k, x) :: r => if k =? j then Some x else assoc r j
  end.
Definition assoc_set {A} (l : list (N * A)) (j : N) (x : A) : list (N * A) :=
  (j, x) :: filter (fun p => negb (fst p =? j)) l.
Definition assoc_del {A} (l : list (N * A)) (j : N) : list (N * A) := filter (fun p => negb (fst p =? j)) l.

Definition next_of (ld : lead) (j : N) : N := match assoc (ld_next ld) j with Some x => x | None => ld_next0 ld end.
Definition with_cm (ld : lead) (cm : commitment) (infl : list (entry * N)) : lead :=
  mkLead cm infl (ld_next0 ld) (ld_next ld) (ld_out ld) (ld_notified ld).
Definition with_next (ld : lead) (j nx : N) : lead :=
  mkLead (ld_cm ld) (ld_infl ld) (ld_next0 ld) (assoc_set (ld_next ld) j nx) (ld_out ld) (ld_notified ld).
Definition with_out (ld : lead) (j : N) (o : option nat) : lead :=
  mkLead (ld_cm ld) (ld_infl ld) (ld_next0 ld) (ld_next ld)
         (match o with Some k => assoc_set (ld_out ld) j k | None => assoc_del (ld_out ld) j end) (ld_notified ld).
Definition with_notified (ld : lead) (b : bool) : lead :=
  mkLead (ld_cm ld) (ld_infl ld) (ld_next0 ld) (ld_next ld) (ld_out ld) b.

(* an answer travelling back: to which request (position in lg_msgs), and what the follower said *)
Record ares := mkARes { rs_req : nat; rs_resp : aresp }.

Record cgstate := mkCG {
  cg_l : lgstate;
  cg_lead : list (N * lead);     (* by server id: the leadership state of the servers that are Leader *)
  cg_hb : list nat;              (* which requests of lg_msgs are heartbeats (their answers are not used for commitment) *)
  cg_ans : list ares;
}.

Inductive clabel :=
| CBase (l : llabel)             (* a step of the replication system; LSend is replicateTo's START: it uses the follower's
                                    nextIndex and there is no request outstanding for that follower *)
| CAck (n : nat)                 (* the n-th answer, which answers the outstanding request, returns to replicateTo *)
| CGiveUp (i j : N)              (* the transport call of the outstanding request fails (timeout, error): replicateTo returns *)
| CCommit (i : N).               (* leaderLoop, case commitCh: the commit index moves to the commitment's, ready entries go to the FSM *)

Fixpoint find_lead (l : list (N * lead)) (i : N) : option lead :=
  match l with
  | [] => None
  | (j, x) :: r => if j =? i then Some x else find_lead r i
  end.

Definition set_lead (l : list (N * lead)) (i : N) (x : lead) : list (N * lead) :=
  (i, x) :: filter (fun p => negb (fst p =? i)) l.

(* setupLeaderState + the no-op of runLeader, read off the state become_leader produced: the
   commitment starts at the no-op's index and the leader has matched it; the no-op is in flight *)
Definition fresh_lead (P : params) (s : nstate) : lead :=
  let li := last_index s in
  mkLead (cm_step (cm_new (v_latest s) li) (CMatch (p_self P) li))
         (match d_log s !! li with Some e => [(e, 0)] | None => [] end)
         li [] [] false.

Definition role_of (r : nrun) : N := match r with Up s => v_role s | Down _ => 9 end.

(* servers that have just become Leader get a fresh leadership state *)
Definition refresh_leads (before after : list gnode) (l : list (N * lead)) : list (N * lead) :=
  fold_left (fun acc n =>
               match gn_run n, find_node before (gn_id n) with
               | Up s, Some n0 =>
                 if (v_role s =? Leader) && negb (role_of (gn_run n0) =? Leader)
                 then set_lead acc (gn_id n) (fresh_lead (gn_P n) s) else acc
               | _, _ => acc
               end) after l.

Definition is_hb (g : cgstate) (k : nat) : bool := existsb (Nat.eqb k) (cg_hb g).

(* LSend as replicateTo issues it: the follower's nextIndex, nothing outstanding *)
Definition send_ok (g : cgstate) (bl : llabel) : bool :=
  match bl with
  | LSend i j next last =>
    match find_lead (cg_lead g) i with
    | Some ld => (next =? next_of ld j) && match assoc (ld_out ld) j with None => true | Some _ => false end
    | None => false
    end
  | _ => true
  end.

Definition cstep (snaps : bool) (cfgs : list config) (g : cgstate) (l : clabel) : option cgstate :=
  match l with
  | CBase bl =>
    if negb (send_ok g bl) then None else
    match lstep snaps cfgs (cg_l g) bl with
    | None => None
    | Some l' =>
      let nodes0 := g_nodes (lg_g (cg_l g)) in
      let leads1 :=
        match bl with
        | LPropose i ty data fs =>
          (* the same dispatchLogs, now with the leader's real commitment and inflight list *)
          match find_node nodes0 i, find_lead (cg_lead g) i with
          | Some n, Some ld =>
            match gn_run n with
            | Up s =>
              let '(ls', _, _, _) := dispatch (gn_P n) (mkLS s (ld_cm ld) (ld_infl ld)) fs [(ty, data, 0)] in
              set_lead (cg_lead g) i (with_cm ld (l_cm ls') (l_inflight ls'))
            | Down _ => cg_lead g
            end
          | _, _ => cg_lead g
          end
        | LSend i j _ _ =>
          match find_lead (cg_lead g) i with
          | Some ld => set_lead (cg_lead g) i (with_out ld j (Some (length (lg_msgs (cg_l g)))))
          | None => cg_lead g
          end
        | _ => cg_lead g
        end in
      let leads2 := refresh_leads nodes0 (g_nodes (lg_g l')) leads1 in
      let hb' := match bl with LHeartbeat _ _ => cg_hb g ++ [length (lg_msgs (cg_l g))] | _ => cg_hb g end in
      let ans' :=
        match bl with
        | LDeliver k cut fs =>
          match nth_error (lg_msgs (cg_l g)) k with
          | Some m =>
            match find_node nodes0 (am_to m) with
            | Some nj =>
              match step_full (gn_P nj) (gn_run nj) (NAppend (am_req m)) cut fs with
              | (_, OAppend _ r, _) => cg_ans g ++ [mkARes k r]
              | _ => cg_ans g
              end
            | None => cg_ans g
            end
          | None => cg_ans g
          end
        | _ => cg_ans g
        end in
      Some (mkCG l' leads2 hb' ans')
    end
  | CGiveUp i j =>
    match find_node (g_nodes (lg_g (cg_l g))) i, find_lead (cg_lead g) i with
    | Some n, Some ld =>
      match gn_run n, assoc (ld_out ld) j with
      | Up s, Some _ =>
        if v_role s =? Leader
        then Some (mkCG (cg_l g) (set_lead (cg_lead g) i (with_out ld j None)) (cg_hb g) (cg_ans g))
        else None
      | _, _ => None
      end
    | _, _ => None
    end
  | CCommit i =>
    match find_node (g_nodes (lg_g (cg_l g))) i, find_lead (cg_lead g) i with
    | Some n, Some ld =>
      match gn_run n with
      | Up s =>
        if (v_role s =? Leader) && ld_notified ld then
          match leader_commit (mkLS s (ld_cm ld) (ld_infl ld)) with
          | Some (ls2, _, _) =>
            Some (mkCG (mkLG (set_node_run (lg_g (cg_l g)) i n (Up (l_node ls2))) (lg_msgs (cg_l g)))
                       (set_lead (cg_lead g) i (with_notified (with_cm ld (l_cm ls2) (l_inflight ls2)) false)) (cg_hb g) (cg_ans g))
          | None => None                (* processLogs would panic: an entry at or below the commit index is missing *)
          end
        else None
      | Down _ => None
      end
    | _, _ => None
    end
  | CAck n =>
    match nth_error (cg_ans g) n with
    | None => None
    | Some a =>
      match nth_error (lg_msgs (cg_l g)) (rs_req a) with
      | None => None
      | Some m =>
        let i := am_from m in
        let j := am_to m in
        match find_node (g_nodes (lg_g (cg_l g))) i, find_lead (cg_lead g) i with
        | Some n, Some ld0 =>
          match gn_run n with
          | Up s =>
            (* the answer to the call replicateTo is blocked in, during the same leadership *)
            if negb ((v_role s =? Leader) && (v_term s =? aq_term (am_req m))
                     && match assoc (ld_out ld0) j with Some k => Nat.eqb k (rs_req a) | None => false end) then None
            else
              let ld := with_out ld0 j None in
              let r := rs_resp a in
              if aq_term (am_req m) <? ar_term r then
                (* handleStaleTerm -> leaderLoop stepDown: setState(Follower) *)
                Some (mkCG (mkLG (set_node_run (lg_g (cg_l g)) i n (Up (set_state s Follower))) (lg_msgs (cg_l g)))
                           (set_lead (cg_lead g) i ld) (cg_hb g) (cg_ans g))
              else if ar_success r then
                match aq_entries (am_req m) with
                | [] => Some (mkCG (cg_l g) (set_lead (cg_lead g) i ld) (cg_hb g) (cg_ans g))   (* updateLastAppended: nothing to record *)
                | es =>
                  let li := e_idx (last_of es) in
                  let ld1 := with_next ld j (li + 1) in
                  let ls1 := peer_match (mkLS s (ld_cm ld1) (ld_infl ld1)) j li in
                  (* the replication goroutine only records the match; commitCh is notified when the commitment's
                     commit index advanced, and the leader loop acts on it later (CCommit): a request built in
                     between still carries the old commit index *)
                  let ld2 := with_cm ld1 (l_cm ls1) (l_inflight ls1) in
                  Some (mkCG (cg_l g)
                             (set_lead (cg_lead g) i
                                (if cm_commit (l_cm ls1) =? cm_commit (ld_cm ld1) then ld2 else with_notified ld2 true))
                             (cg_hb g) (cg_ans g))
                end
              else
                (* a refusal: nextIndex = max(min(nextIndex-1, resp.LastLog+1), 1) *)
                let nx := N.max (N.min (next_of ld j - 1) (ar_last r + 1)) 1 in
                Some (mkCG (cg_l g) (set_lead (cg_lead g) i (with_next ld j nx)) (cg_hb g) (cg_ans g))
          | Down _ => None
          end
        | _, _ => None
        end
      end
    end
  end.

Fixpoint crun (snaps : bool) (cfgs : list config) (g : cgstate) (ls : list clabel) : option cgstate :=
  match ls with
  | [] => Some g
  | l :: r => match cstep snaps cfgs g l with Some g' => crun snaps cfgs g' r | None => None end
  end.

(* ---------------------------------------------------------------- what is stated about it *)
Definition cnodes (g : cgstate) : list gnode := g_nodes (lg_g (cg_l g)).

(* State Machine Safety: what two running servers know to be committed is the same history *)
Definition committed_agree (g : cgstate) : Prop :=
  forall a b sa sb, In a (cnodes g) -> In b (cnodes g) -> gn_run a = Up sa -> gn_run b = Up sb ->
  forall i ea eb, i <= v_commit sa -> i <= v_commit sb ->
    d_log sa !! i = Some ea -> d_log sb !! i = Some eb -> ea = eb.

(* Leader Completeness: a leader whose term is at least the term of a running server holds every
   entry that server knows to be committed *)
Definition leader_complete (g : cgstate) : Prop :=
  forall a l sa sl, In a (cnodes g) -> In l (cnodes g) -> gn_run a = Up sa -> gn_run l = Up sl ->
  v_role sl = Leader -> v_term sa <= v_term sl ->
  forall i e, i <= v_commit sa -> d_log sa !! i = Some e -> d_log sl !! i = Some e.

(* what the FSM of a running server was given is the committed prefix of its own log, in order:
   applied <= commit <= last index *)
Definition applied_within_commit (g : cgstate) : Prop :=
  forall a sa, In a (cnodes g) -> gn_run a = Up sa -> v_applied sa <= v_commit sa /\ v_commit sa <= last_index sa.

(* ---------------------------------------------------------------- acknowledgements to clients *)
(* the Apply / Barrier / no-op futures answered WITHOUT error by a step (leaderLoop, case commitCh ->
   processLogs -> the FSM goroutine answers the future): the leader's term and the entry *)
Definition step_acks (g : cgstate) (l : clabel) : list (N * entry) :=
  match l with
  | CCommit i =>
    match find_node (g_nodes (lg_g (cg_l g))) i, find_lead (cg_lead g) i with
    | Some n, Some ld =>
      match gn_run n with
      | Up s =>
        if (v_role s =? Leader) && ld_notified ld then
          match leader_commit (mkLS s (ld_cm ld) (ld_infl ld)) with
          | Some (ls2, _, res) =>
            flat_map (fun r => if fr_err r =? E_OK
                               then match d_log (l_node ls2) !! fr_index r with Some e => [(v_term s, e)] | None => [] end
                               else []) res
          | None => []
          end
        else []
      | Down _ => []
      end
    | _, _ => []
    end
  | _ => []
  end.

(* everything acknowledged along a run *)
Fixpoint run_acks (snaps : bool) (cfgs : list config) (g : cgstate) (ls : list clabel) : list (N * entry) :=
  match ls with
  | [] => []
  | l :: r => step_acks g l ++ match cstep snaps cfgs g l with Some g' => run_acks snaps cfgs g' r | None => [] end
  end.

(* Durable acknowledgements: an entry acknowledged by a leader of term T is held, at its index, by every
   leader of a term >= T (in its log: no snapshots in this system), and is what every running server
   that knows that index committed holds there *)
Definition acks_permanent (acks : list (N * entry)) (g : cgstate) : Prop :=
  forall T e, In (T, e) acks ->
  (forall l sl, In l (cnodes g) -> gn_run l = Up sl -> v_role sl = Leader -> T <= v_term sl ->
     d_log sl !! e_idx e = Some e) /\
  (forall a sa ea, In a (cnodes g) -> gn_run a = Up sa -> e_idx e <= v_commit sa ->
     d_log sa !! e_idx e = Some ea -> ea = e).

(* ---------------------------------------------------------------- flat encoding (component 102) *)
(* as component 101, plus:  12 n (the n-th answer returns to replicateTo) | 13 i j (the outstanding call of i to j fails)
   | 14 i (the leader loop consumes commitCh) | 99 <label> (no state dump)
   output per label: 0 | 1, per node: role term vterm vcand+1 lastIndex commit applied nfsm fsm* nlog (idx term ty data)* npeers nextIndex*,
   leaders, requests, answers, newest request as in component 101, then nacks (index payload)*: the Apply calls acknowledged by this step *)
Definition enc_cnode (g : cgstate) (n : gnode) : list N :=
  let s := image (gn_run n) in
  let l := sorted_log (log_of n) in
  enc_gnode n ++ [v_commit s; v_applied s; N.of_nat (length (v_fsm s))] ++ v_fsm s
  ++ N.of_nat (length l) :: flat_map (fun e => [e_idx e; e_term e; e_ty e; e_data e]) l
  ++ (* a leader: the nextIndex of every other server, in id order *)
     match gn_run n, find_lead (cg_lead g) (gn_id n) with
     | Up s', Some ld =>
       if v_role s' =? Leader
       then let peers := filter (fun j => negb (j =? gn_id n)) (map gn_id (cnodes g)) in
            N.of_nat (length peers) :: map (next_of ld) peers
       else [0]
     | _, _ => [0]
     end.

Definition enc_cgstate (g : cgstate) : list N :=
  flat_map (enc_cnode g) (cnodes g)
  ++ [N.of_nat (length (g_leaders (lg_g (cg_l g)))); N.of_nat (length (lg_msgs (cg_l g))); N.of_nat (length (cg_ans g))]
  ++ match rev (lg_msgs (cg_l g)) with m :: _ => enc_amsg m | [] => [] end.

Definition dec_clabel (l : list N) : option (clabel * list N) :=
  match l with
  | 12 :: n :: r => Some (CAck (N.to_nat n), r)
  | 13 :: i :: j :: r => Some (CGiveUp i j, r)
  | 14 :: i :: r => Some (CCommit i, r)
  | _ => match dec_llabel l with Some (bl, r) => Some (CBase bl, r) | None => None end
  end.

(* a label preceded by 99 is taken without a state dump (output 2): the harness could not observe the
   state in between (the leader loop and the replication goroutine had both moved on) *)
Fixpoint run_clabels (cfg : config) (fuel : nat) (g : cgstate) (l : list N) : list N :=
  match fuel with
  | O => []
  | S f =>
    let '(silent, l1) := match l with 99 :: r => (true, r) | _ => (false, l) end in
    match dec_clabel l1 with
    | None => []
    | Some (lb, rest) =>
      match cstep true [cfg] g lb with
      | Some g' =>
        (* after the state: the client commands acknowledged by this step, (index, payload) *)
        let acks := filter (fun te => e_ty (snd te) =? LogCommand) (step_acks g lb) in
        (if silent then [2]
         else 1 :: enc_cgstate g' ++ N.of_nat (length acks) :: flat_map (fun te => [e_idx (snd te); e_data (snd te)]) acks)
        ++ run_clabels cfg f g' rest
      | None => 0 :: run_clabels cfg f g rest
      end
    end
  end.

Definition run_clustercommit (inp : list N) : list N :=
  match inp with
  | n :: r =>
    let cfg := mk_cfg (N.to_nat n) in
    let '(extras, r') := take_extras (N.to_nat n) r in
    let nodes := map (fun p => mk_node cfg (N.of_nat (fst p)) (snd p)) (combine (seq 1 (N.to_nat n)) extras) in
    run_clabels cfg (length r') (mkCG (mkLG (mkG nodes [] [] []) []) [] [] []) r'
  | [] => []
  end.

(* ---------------------------------------------------------------- component 103: with takeSnapshot *)
(* as component 102 with TrailingLogs chosen by the input and one more label:
     11 j   takeSnapshot at server j (the snapshot goroutine: FSM snapshot, sink, compactLogs)
   input : trailing ; n ; extras ; labels.   Per node the dump also carries the newest snapshot (index term). *)
Definition with_trailing (t : N) (n : gnode) : gnode :=
  let P := gn_P n in
  mkGN (mkP (p_self P) (p_monotonic P) (p_track P) (p_rc P) t (p_maxappend P) (p_decode P)) (gn_run n) (gn_sess n) (gn_next n).

Definition enc_snode (g : cgstate) (n : gnode) : list N :=
  let s := image (gn_run n) in enc_cnode g n ++ [v_lastSnapIdx s; v_lastSnapTerm s].

Definition enc_sgstate (g : cgstate) : list N :=
  flat_map (enc_snode g) (cnodes g)
  ++ [N.of_nat (length (g_leaders (lg_g (cg_l g)))); N.of_nat (length (lg_msgs (cg_l g))); N.of_nat (length (cg_ans g))]
  ++ match rev (lg_msgs (cg_l g)) with m :: _ => enc_amsg m | [] => [] end.

Definition dec_slabel (l : list N) : option (clabel * list N) :=
  match l with
  | 11 :: j :: r => Some (CBase (LElect (GInput j NSnapshot 0 [])), r)
  | _ => dec_clabel l
  end.

Fixpoint run_slabels (cfg : config) (fuel : nat) (g : cgstate) (l : list N) : list N :=
  match fuel with
  | O => []
  | S f =>
    let '(silent, l1) := match l with 99 :: r => (true, r) | _ => (false, l) end in
    match dec_slabel l1 with
    | None => []
    | Some (lb, rest) =>
      match cstep true [cfg] g lb with
      | Some g' =>
        let acks := filter (fun te => e_ty (snd te) =? LogCommand) (step_acks g lb) in
        (if silent then [2]
         else 1 :: enc_sgstate g' ++ N.of_nat (length acks) :: flat_map (fun te => [e_idx (snd te); e_data (snd te)]) acks)
        ++ run_slabels cfg f g' rest
      | None => 0 :: run_slabels cfg f g rest
      end
    end
  end.

Definition run_clustersnap (inp : list N) : list N :=
  match inp with
  | t :: n :: r =>
    let cfg := mk_cfg (N.to_nat n) in
    let '(extras, r') := take_extras (N.to_nat n) r in
    let nodes := map (fun p => with_trailing t (mk_node cfg (N.of_nat (fst p)) (snd p))) (combine (seq 1 (N.to_nat n)) extras) in
    run_slabels cfg (length r') (mkCG (mkLG (mkG nodes [] [] []) []) [] [] []) r'
  | _ => []
  end.
