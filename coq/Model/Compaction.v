(* Compaction.v — model of snapshot.go compactLogsWithTrailing / compactLogs / removeOldLogs *)
From RaftModel Require Import Base.
Open Scope N_scope.

(* first = logs.FirstIndex(); result: the DeleteRange issued, if any *)
Definition compact (first snap last trailing : N) : option (N * N) :=
  if last <=? trailing then None
  else let maxLog := N.min snap (last - trailing) in
       if maxLog <? first then None else Some (first, maxLog).

(* removeOldLogs: compactLogsWithTrailing(storeLast, storeLast, 0) *)
Definition remove_old (first storeLast : N) : option (N * N) := compact first storeLast storeLast 0.

(* component 11: first storeLast snap last trailing -> 0 | 1 lo hi *)
Definition run_compact (inp : list N) : list N :=
  match inp with
  | first :: _ :: snap :: last :: trailing :: _ =>
    match compact first snap last trailing with
    | None => [0]
    | Some (lo, hi) => [1; lo; hi]
    end
  | _ => []
  end.
