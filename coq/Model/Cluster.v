(* Cluster.v — several servers composed: the candidate loops (Model/Candidate.v), the RPC handlers
   (Model/Node.v through NodeCodec.step_full, with store failures, crash cuts and restarts) and a
   network that may delay, reorder, duplicate and lose vote requests and lose responses.
   This is the transition system over which election safety is stated (Props/C01.v).

   What the network can do is the model's statement of the transport contract: a RequestVote call
   of one runCandidate invocation to one peer yields AT MOST ONE response to that invocation (the
   response travels back on the call; voteCh is created per electSelf).  Requests may be executed by
   the peer any number of times (duplicates), late (after the candidate moved on) or never. *)
From Coq Require Import List NArith Bool.
From stdpp Require Import gmap.
From RaftModel Require Import Base Config Compaction Commitment Node NodeCodec Candidate Leader.
Open Scope N_scope.

(* one runCandidate invocation *)
Record sess := mkSess {
  se_c : cand;             (* the loop's local state *)
  se_epoch : N;            (* which invocation of this server (its voteCh) *)
  se_req : vreq;           (* the RequestVote it sent *)
  se_asked : list N;       (* the voters it asked (all voters of its latest configuration but itself) *)
  se_got : list N;         (* peers whose response was consumed *)
}.

Record gnode := mkGN { gn_P : params; gn_run : nrun; gn_sess : option sess; gn_next : N (* next epoch *) }.
Definition gn_id (n : gnode) : N := p_self (gn_P n).

(* a response travelling back to an invocation *)
Record resp := mkResp { rp_cand : N; rp_epoch : N; rp_voter : N; rp_reqterm : N; rp_term : N; rp_granted : bool }.

Record gstate := mkG {
  g_nodes : list gnode;
  g_resps : list resp;
  g_leaders : list (N * N);        (* ghost: (term, server) for every transition to Leader *)
  g_grants : list (N * N * N);     (* ghost: (voter, term, candidate) for every granted vote, the own vote included *)
}.

Inductive glabel :=
| GTimeout (i : N)                                   (* heartbeat / election timer fires at i: runCandidate is (re-)entered *)
| GVoteReq (i j : N) (cut : N) (fs : list bool)      (* the RequestVote of i's current invocation is executed by j *)
| GVoteResp (i j : N)                                (* j's response reaches the invocation that sent the request *)
| GInput (j : N) (e : nevent) (cut : N) (fs : list bool).  (* any other RPC (also vote requests from anyone), or a restart, at j *)

Fixpoint find_node (l : list gnode) (i : N) : option gnode :=
  match l with
  | [] => None
  | n :: r => if gn_id n =? i then Some n else find_node r i
  end.

Definition upd_node (l : list gnode) (i : N) (n' : gnode) : list gnode :=
  map (fun n => if gn_id n =? i then n' else n) l.

Fixpoint find_resp (l : list resp) (i ep j : N) : option resp :=
  match l with
  | [] => None
  | r :: t => if (rp_cand r =? i) && (rp_epoch r =? ep) && (rp_voter r =? j) then Some r else find_resp t i ep j
  end.

Definition mem (x : N) (l : list N) : bool := existsb (N.eqb x) l.

(* the loop is left when the handlers changed the role, or the process restarted *)
Definition keep_sess (r : nrun) (se : option sess) : option sess :=
  match r, se with
  | Up s, Some x => if v_role s =? Candidate then Some x else None
  | _, _ => None
  end.

(* the request electSelf built, recomputed from the state after it *)
Definition req_of (P : params) (s : nstate) : vreq :=
  let '(li, lt) := last_entry s in mkVReq (v_term s) (p_self P) (p_self P) li lt (v_transfer s).

Definition peers_of (P : params) (s : nstate) : list N :=
  List.filter (fun v => negb (v =? p_self P)) (voters (v_latest s)).

(* runLeader: setupLeaderState, then the no-op of the new term is dispatched (stored in the leader's
   own log; no store failure here) *)
Definition become_leader (P : params) (s : nstate) : nstate :=
  l_node (fst (fst (fst (dispatch P (leader_setup s) [] [(LogNoop, 0, 0)])))).

(* a handler ran at j and produced observation ob: the ghost grant *)
Definition grant_ghost (j : N) (ob : nobs) : list (N * N * N) :=
  match ob with
  | OVote q _ true => [(j, vq_term q, vq_addr q)]
  | _ => []
  end.

Definition gstep (cfgs : list config) (g : gstate) (l : glabel) : option gstate :=
  match l with
  | GTimeout i =>
    match find_node (g_nodes g) i with
    | Some n =>
      match gn_run n with
      | Up s =>
        (* only elections held under one of the configurations cfgs are part of this system *)
        if negb (existsb (config_eqb (v_latest s)) cfgs) || (v_role s =? Leader) then None   (* a leader has no such timer *)
        else
          let s0 := match gn_sess n with Some _ => set_transfer s false | None => s end in
          let '(x, _) := sess_enter (gn_P n) false s0 in
          match x with
          | SCand s' c =>
            let se := mkSess c (gn_next n) (req_of (gn_P n) s') (peers_of (gn_P n) s') [] in
            Some (mkG (upd_node (g_nodes g) i (mkGN (gn_P n) (Up s') (Some se) (gn_next n + 1)))
                      (g_resps g) (g_leaders g)
                      (if 1 <=? c_granted c then (i, v_term s', i) :: g_grants g else g_grants g))
          | SLeader s' =>
            Some (mkG (upd_node (g_nodes g) i (mkGN (gn_P n) (Up (become_leader (gn_P n) s')) None (gn_next n + 1)))
                      (g_resps g) ((v_term s', i) :: g_leaders g) ((i, v_term s', i) :: g_grants g))
          | SFollower s' =>
            Some (mkG (upd_node (g_nodes g) i (mkGN (gn_P n) (Up s') None (gn_next n + 1))) (g_resps g) (g_leaders g) (g_grants g))
          | SDead s' =>
            Some (mkG (upd_node (g_nodes g) i (mkGN (gn_P n) (Down s') None (gn_next n + 1))) (g_resps g) (g_leaders g) (g_grants g))
          end
      | Down _ => None
      end
    | None => None
    end
  | GVoteReq i j cut fs =>
    match find_node (g_nodes g) i, find_node (g_nodes g) j with
    | Some ni, Some nj =>
      match gn_sess ni with
      | Some se =>
        if negb (mem j (se_asked se)) then None
        else
          let '(r', ob, _) := step_full (gn_P nj) (gn_run nj) (NVote (se_req se)) cut fs in
          let nj' := mkGN (gn_P nj) r' (keep_sess r' (gn_sess nj)) (gn_next nj) in
          let rs := match ob with
                    | OVote _ t gr => [mkResp i (se_epoch se) j (vq_term (se_req se)) t gr]
                    | _ => []
                    end in
          Some (mkG (upd_node (g_nodes g) j nj') (g_resps g ++ rs) (g_leaders g) (grant_ghost j ob ++ g_grants g))
      | None => None
      end
    | _, _ => None
    end
  | GVoteResp i j =>
    match find_node (g_nodes g) i with
    | Some n =>
      match gn_run n, gn_sess n with
      | Up s, Some se =>
        if mem j (se_got se) then None
        else match find_resp (g_resps g) i (se_epoch se) j with
             | Some rp =>
               let '(x, _) := sess_step (gn_P n) false (SCand s (se_c se)) (CVote (mkVR (rp_term rp) (rp_granted rp))) in
               match x with
               | SCand s' c' =>
                 Some (mkG (upd_node (g_nodes g) i (mkGN (gn_P n) (Up s') (Some (mkSess c' (se_epoch se) (se_req se) (se_asked se) (j :: se_got se))) (gn_next n)))
                           (g_resps g) (g_leaders g) (g_grants g))
               | SLeader s' =>
                 Some (mkG (upd_node (g_nodes g) i (mkGN (gn_P n) (Up (become_leader (gn_P n) s')) None (gn_next n)))
                           (g_resps g) ((v_term s', i) :: g_leaders g) (g_grants g))
               | SFollower s' =>
                 Some (mkG (upd_node (g_nodes g) i (mkGN (gn_P n) (Up s') None (gn_next n))) (g_resps g) (g_leaders g) (g_grants g))
               | SDead s' =>
                 Some (mkG (upd_node (g_nodes g) i (mkGN (gn_P n) (Down s') None (gn_next n))) (g_resps g) (g_leaders g) (g_grants g))
               end
             | None => None
             end
      | _, _ => None
      end
    | None => None
    end
  | GInput j e cut fs =>
    match e with
    | NElect | NTimeoutDecision => None     (* electSelf has no caller but runCandidate *)
    | _ =>
      match find_node (g_nodes g) j with
      | Some nj =>
        let '(r', ob, _) := step_full (gn_P nj) (gn_run nj) e cut fs in
        Some (mkG (upd_node (g_nodes g) j (mkGN (gn_P nj) r' (keep_sess r' (gn_sess nj)) (gn_next nj)))
                  (g_resps g) (g_leaders g) (grant_ghost j ob ++ g_grants g))
      | None => None
      end
    end
  end.

Fixpoint grun (cfgs : list config) (g : gstate) (ls : list glabel) : option gstate :=
  match ls with
  | [] => Some g
  | l :: r => match gstep cfgs g l with Some g' => grun cfgs g' r | None => None end
  end.

(* ---------------------------------------------------------------- flat encoding (component 1) *)
(* nodes 1..n, all voters, addresses = ids; every node boots from the same image: configuration
   entry at index 1 (term 1) + `extra` command entries of term 1; node i's stored term is 1.
   input: n ; per node: extra_i ; labels: 1 i | 2 i j | 3 i j | 4 j term cand lastIdx lastTerm (a stray vote request)
                                          | 5 j (restart) | 6 j term leader (an empty AppendEntries)
   output per label: 0 (not enabled) | 1 then per node: role term vterm vcand+1 lastIndex ; then number of leaders so far *)
Definition mk_cfg (n : nat) : config := map (fun i => mkSrv 0 (N.of_nat i) (N.of_nat i)) (seq 1 n).

Definition mk_image (cfg : config) (extra : N) : nstate :=
  let es := mkE 1 1 LogConfiguration 1 :: map (fun k => mkE (N.of_nat k) 1 LogCommand (100 + N.of_nat k)) (seq 2 (N.to_nat extra)) in
  image_of 1 0 0 es 0 [].

Definition mk_node (cfg : config) (i : N) (extra : N) : gnode :=
  let P := mkP i false false false 100 4 (fun _ => cfg) in
  mkGN P (fst (boot P (mk_image cfg extra))) None 0.

Definition enc_gnode (n : gnode) : list N :=
  let s := image (gn_run n) in
  [match gn_run n with Up _ => v_role s | Down _ => 9 end; v_term s; d_vterm s;
   match d_vcand s with Some c => c + 1 | None => 0 end; last_index s].

Definition enc_gstate (g : gstate) : list N :=
  flat_map enc_gnode (g_nodes g) ++ [N.of_nat (length (g_leaders g))].

Definition dec_glabel (l : list N) : option (glabel * list N) :=
  match l with
  | 1 :: i :: r => Some (GTimeout i, r)
  | 2 :: i :: j :: r => Some (GVoteReq i j 0 [], r)
  | 3 :: i :: j :: r => Some (GVoteResp i j, r)
  | 4 :: j :: t :: c :: li :: lt :: r => Some (GInput j (NVote (mkVReq t c c li lt false)) 0 [], r)
  | 5 :: j :: r => Some (GInput j NRestart 0 [], r)
  | 6 :: j :: t :: ld :: r => Some (GInput j (NAppend (mkAReq t ld ld 0 0 [] 0)) 0 [], r)
  | _ => None
  end.

Fixpoint run_glabels (cfg : config) (fuel : nat) (g : gstate) (l : list N) : list N :=
  match fuel with
  | O => []
  | S f =>
    match dec_glabel l with
    | None => []
    | Some (lb, rest) =>
      match gstep [cfg] g lb with
      | Some g' => (1 :: enc_gstate g') ++ run_glabels cfg f g' rest
      | None => 0 :: run_glabels cfg f g rest
      end
    end
  end.

Fixpoint take_extras (n : nat) (l : list N) : list N * list N :=
  match n with
  | O => ([], l)
  | S n' => match l with x :: r => let '(a, b) := take_extras n' r in (x :: a, b) | [] => ([], []) end
  end.

Definition run_cluster (inp : list N) : list N :=
  match inp with
  | n :: r =>
    let cfg := mk_cfg (N.to_nat n) in
    let '(extras, r') := take_extras (N.to_nat n) r in
    let nodes := map (fun p => mk_node cfg (N.of_nat (fst p)) (snd p)) (combine (seq 1 (N.to_nat n)) extras) in
    run_glabels cfg (length r') (mkG nodes [] [] []) r'
  | [] => []
  end.
