(* Futures.v — life cycle of one future of the public API (api.go enqueue selects, the run loops
   of raft.go, runLeader's deferred step-down, runFSM, deferError.Error of future.go), over a TABLE
   of what the loops serve and how each constructor builds its future.  The table is not written
   here: it is generated from the Go source on every run (Model/LoopTable.v, by go/gotables). *)
From Coq Require Import List NArith String Bool.
Import ListNotations.
Open Scope string_scope.
Open Scope N_scope.

Record table := mkT {
  t_loops : list (string * bool * list (string * N * list string));
  t_flushes : list string;
  t_apis : list (string * string * string * bool * string * bool * bool);
  t_caps : list (string * N);
  t_errsel : bool;
  t_stopped_after_wait : bool;
}.

Record api := mkApi {
  a_fn : string; a_fut : string; a_queue : string;
  a_selShutdown : bool; a_escape : string; a_otherEscape : bool; a_inline : bool;
}.
Definition api_of (x : string * string * string * bool * string * bool * bool) : api :=
  let '(fn, fut, q, s, sd, o, i) := x in mkApi fn fut q s sd o i.

Fixpoint lookupN (l : list (string * N)) (k : string) : option N :=
  match l with
  | [] => None
  | (k', v) :: r => if String.eqb k' k then Some v else lookupN r k
  end.

Fixpoint lookupRow (l : list (string * N * list string)) (k : string) : option (N * list string) :=
  match l with
  | [] => None
  | (k', u, a) :: r => if String.eqb k' k then Some (u, a) else lookupRow r k
  end.

Fixpoint find_loop (l : list (string * bool * list (string * N * list string))) (k : string) : option (bool * list (string * N * list string)) :=
  match l with
  | [] => None
  | (k', sh, rows) :: r => if String.eqb k' k then Some (sh, rows) else find_loop r k
  end.

(* does loop `lp` receive from queue q and use the value (respond or hand on)? *)
Definition serves (T : table) (lp q : string) : bool :=
  match find_loop (t_loops T) lp with
  | Some (_, rows) => match lookupRow rows q with Some (u, _) => 1 <=? u | None => false end
  | None => false
  end.

Definition leaves_on_shutdown (T : table) (lp : string) : bool :=
  match find_loop (t_loops T) lp with Some (sh, _) => sh | None => false end.

Definition main_loops : list string := ["runFollower"; "runCandidate"; "leaderLoop"].

(* the goroutine(s) that must serve a queue *)
Definition served_everywhere (T : table) (q : string) : bool :=
  if String.eqb q "userSnapshotCh" then serves T "runSnapshots" q
  else if String.eqb q "fsmSnapshotCh" then serves T "runFSM" q
  else forallb (fun lp => serves T lp q) main_loops.

Definition buffered (T : table) (q : string) : bool :=
  match lookupN (t_caps T) q with Some c => 1 <=? c | None => true (* unknown: assume the worst *) end.

(* futures of these queues become log entries: once committed they travel through the FSM
   goroutine's queue (fsmMutateCh) and are answered by runFSM *)
Definition goes_to_fsm (q : string) : bool :=
  String.eqb q "applyCh" || String.eqb q "configurationChangeCh".

(* futures of these queues can be parked by the leader in a tracked set (inflight / notify) *)
Definition tracked_set (q : string) : option string :=
  if String.eqb q "applyCh" || String.eqb q "configurationChangeCh" then Some "inflight"
  else if String.eqb q "verifyCh" then Some "notify" else None.

Definition flushed (T : table) (q : string) : bool :=
  match tracked_set q with
  | Some s => existsb (String.eqb s) (t_flushes T)
  | None => true
  end.

(* ---------------------------------------------------------------- the life cycle *)
Inductive phase := PCreated | PQueued | PTaken | PTracked | PFsm | PResponded | PReturned.

Record fstate := mkF {
  f_ph : phase;
  f_shut : bool;        (* shutdownCh closed *)
  f_loop : bool;        (* the goroutine serving the queue is still running *)
  f_fsm : bool;         (* runFSM still running *)
}.

Inductive label :=
| LEnqueue      (* the send case of the enqueue select wins *)
| LEscape       (* another case of the enqueue select wins (shutdownCh / timer / default) *)
| LTake         (* a loop receives the future from its queue *)
| LRespond      (* the case body answers it *)
| LTrack        (* the case body parks it in inflight / notify *)
| LFlush        (* runLeader's deferred step-down answers the tracked futures *)
| LCommit       (* the entry commits: the future goes to the FSM goroutine's queue *)
| LFsmAnswer    (* runFSM answers it *)
| LShutdown     (* Shutdown() closes shutdownCh *)
| LLoopExit     (* the serving loop leaves on shutdownCh (after any step-down flush) *)
| LFsmExit.     (* runFSM leaves on shutdownCh *)

Definition init_state : fstate := mkF PCreated false true true.

Definition set_ph (s : fstate) (p : phase) : fstate := mkF p (f_shut s) (f_loop s) (f_fsm s).

Definition fstep (T : table) (a : api) (s : fstate) (l : label) : option fstate :=
  let q := a_queue a in
  match l, f_ph s with
  | LEnqueue, PCreated =>
    if String.eqb q "" then None
    else if buffered T q then Some (set_ph s PQueued)
    else if f_loop s && served_everywhere T q then Some (set_ph s PTaken)   (* rendez-vous *)
    else None
  | LEscape, PCreated =>
    if String.eqb q "" then (if a_inline a then Some (set_ph s PResponded) else None)
    else if (a_selShutdown a && f_shut s) || a_otherEscape a then Some (set_ph s PReturned) else None
  | LTake, PQueued => if f_loop s && served_everywhere T q then Some (set_ph s PTaken) else None
  | LRespond, PTaken => Some (set_ph s PResponded)
  | LTrack, PTaken => match tracked_set q with Some _ => Some (set_ph s PTracked) | None => None end
  | LFlush, PTracked => if flushed T q then Some (set_ph s PResponded) else None
  | LCommit, PTracked => if f_loop s then (if goes_to_fsm q then Some (set_ph s PFsm) else Some (set_ph s PResponded)) else None
  | LFsmAnswer, PFsm => if f_fsm s then Some (set_ph s PResponded) else None
  | LShutdown, _ => Some (mkF (f_ph s) true (f_loop s) (f_fsm s))
  | LLoopExit, ph =>
    if f_shut s && f_loop s then
      match ph with
      | PTaken => None                      (* a case body runs to its end first *)
      | PTracked => if flushed T q then Some (mkF PResponded true false (f_fsm s)) else Some (mkF PTracked true false (f_fsm s))
      | _ => Some (mkF ph true false (f_fsm s))
      end
    else None
  | LFsmExit, _ => if f_shut s && f_fsm s then Some (mkF (f_ph s) true (f_loop s) false) else None
  | _, _ => None
  end.

Fixpoint frun (T : table) (a : api) (s : fstate) (ls : list label) : option fstate :=
  match ls with
  | [] => Some s
  | l :: r => match fstep T a s l with Some s' => frun T a s' r | None => None end
  end.

(* when does the ShutdownCh escape of the future fire?  0 never (no channel, or Error() does not
   select on it); 1 as soon as Shutdown() closed shutdownCh; 2 once every goroutine has exited
   (stoppedCh, closed after waitShutdown()) *)
Definition escape_kind (T : table) (a : api) : N :=
  if negb (t_errsel T) then 0
  else if String.eqb (a_escape a) "shutdownCh" then 1
  else if String.eqb (a_escape a) "stoppedCh" && t_stopped_after_wait T then 2
  else 0.

Definition stopped (s : fstate) : bool := f_shut s && negb (f_loop s) && negb (f_fsm s).

(* the caller's f.Error() returns *)
Definition resolved (T : table) (a : api) (s : fstate) : bool :=
  match f_ph s with
  | PResponded | PReturned => true
  | _ => match escape_kind T a with 1 => f_shut s | 2 => stopped s | _ => false end
  end.

(* the server is winding down: a goroutine that will leave on shutdownCh is still there *)
Definition winding_down (s : fstate) : bool := f_shut s && (f_loop s || f_fsm s).

(* a step that moves the future forward (everything except the shutdown machinery) *)
Definition progress_labels : list label := [LEnqueue; LEscape; LTake; LRespond; LTrack; LFlush; LCommit; LFsmAnswer].

Definition phase_rank (p : phase) : nat :=
  match p with
  | PCreated => 6 | PQueued => 5 | PTaken => 4 | PTracked => 3 | PFsm => 2 | PResponded => 0 | PReturned => 0
  end.

(* can the future still move while the server is in this condition?  While running this needs the
   loops to be scheduled (fairness, a runtime matter); after the goroutines are gone it cannot *)
Definition can_progress (T : table) (a : api) (s : fstate) : bool :=
  existsb (fun l => match fstep T a s l with Some _ => true | None => false end) progress_labels.

(* ---------------------------------------------------------------- what the table must say *)
Definition api_ok (T : table) (a : api) : bool :=
  let q := a_queue a in
  if String.eqb q "" then a_inline a
  else
    a_selShutdown a                                   (* the enqueue select can always escape a dead server *)
    && served_everywhere T q                          (* every loop serves the queue in every state *)
    && flushed T q                                    (* parked futures are answered on step-down *)
    && (negb (buffered T q || goes_to_fsm q) || (1 <=? escape_kind T a))
    (* a future awaited by one of the server's own goroutines must not wait for those goroutines *)
    && negb (String.eqb (a_fn a) "takeSnapshot" && (escape_kind T a =? 2)).
    (* a future that can sit in a buffer or in the FSM queue when the goroutines leave needs the ShutdownCh escape *)

Definition table_ok (T : table) : bool :=
  forallb (fun x => api_ok T (api_of x)) (t_apis T)
  && forallb (fun lp => leaves_on_shutdown T lp) (main_loops ++ ["runSnapshots"; "runFSM"]).

(* the rows that do not satisfy api_ok: names for the report *)
Definition bad_apis (T : table) : list (string * string) :=
  map (fun x => (a_fn (api_of x), a_fut (api_of x))) (filter (fun x => negb (api_ok T (api_of x))) (t_apis T)).

(* ---------------------------------------------------------------- outcome classes (component 17) *)
(* error classes: 0 nil 1 ErrNotLeader 2 ErrLeadershipLost 3 ErrRaftShutdown 4 ErrEnqueueTimeout
   5 ErrCantBootstrap 6 ErrLeadershipTransferInProgress 7 ErrNothingNewToSnapshot 8 other
   9 ErrAbortedByRestore *)
Definition code_of (arg : string) : list N :=
  if String.eqb arg "ErrNotLeader" then [1]
  else if String.eqb arg "nil" then [0]
  else if String.eqb arg "ErrCantBootstrap" then [5]
  else if String.eqb arg "ErrLeadershipTransferInProgress" then [6]
  else [0; 5; 7; 8].      (* a computed error: success or some other error *)

(* API numbering of the cells harness *)
Definition queue_of_api (n : N) : string :=
  match n with
  | 1 | 2 | 10 => "applyCh" | 3 => "verifyCh" | 4 => "configurationChangeCh" | 5 => "bootstrapCh"
  | 6 => "userSnapshotCh" | 7 => "userRestoreCh" | 8 => "leadershipTransferCh" | _ => ""
  end.

Definition loop_of_role (role : N) : string :=
  match role with 1 => "runFollower" | 2 => "runCandidate" | _ => "leaderLoop" end.

Definition table_codes (T : table) (lp q : string) : list N :=
  match find_loop (t_loops T) lp with
  | Some (_, rows) => match lookupRow rows q with Some (_, args) => flat_map code_of args | None => [] end
  | None => []
  end.

(* what the call produces when the server keeps running *)
Definition running_codes (T : table) (api role : N) : list N :=
  (if api =? 10 then [4] else []) ++
  match api with
  | 9 => [0]
  | 6 => [0; 7; 8]
  | _ =>
    if role <=? 2 then table_codes T (loop_of_role role) (queue_of_api api)
    else match api with
         | 5 => table_codes T "leaderLoop" "bootstrapCh"
         | 7 => [0; 8]
         | 8 => [0; 6; 8]
         | _ => [0]
         end
  end.

(* phase: 0 running; 1 racing Shutdown; 2 after a completed Shutdown; 3 leader deposed after the
   call; 4 Shutdown after the call; 5 a user Restore after the call *)
Definition allowed_codes (T : table) (api role phase : N) : list N :=
  match phase with
  | 0 => running_codes T api role
  | 2 => if api =? 9 then [0] else [3]
  | 3 => running_codes T api role ++ [2; 1]
  | 5 => running_codes T api role ++ [9]     (* a user Restore fails what is in flight with ErrAbortedByRestore *)
  | _ => running_codes T api role ++ [3] ++ (if 3 <=? role then [2] else [])
  end.

Definition run_futures (T : table) (inp : list N) : list N :=
  match inp with
  | [api; role; _; phase; code] =>
    if existsb (N.eqb code) (allowed_codes T api role phase) then [code]
    else 1000 :: allowed_codes T api role phase
  | _ => []
  end.
