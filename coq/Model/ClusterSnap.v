(* ClusterSnap.v — Model/ClusterCommit.v plus SNAPSHOT TRANSFER: when the entry a follower needs has
   been compacted away, replicateTo sends the leader's newest snapshot instead (replication.go
   sendLatestSnapshot), the follower's installSnapshot handler (Model/Node.v install_snapshot through
   step_full) stores and restores it, and the answer moves nextIndex past the snapshot and counts
   as a match.  Requests are kept for ever like AppendEntries requests.
   With this layer the composed system contains every log-changing action of the code except
   membership changes and user Restore.  Log Matching and State Machine Safety are NOT theorems of
   this system on this code: known finding F3-ii (stale entries kept BELOW an installed snapshot);
   Props/C04.v holds the refutation, component 104 ties the system to the code and replays it. *)
From Coq Require Import List NArith Bool.
From stdpp Require Import gmap.
From RaftModel Require Import Base Config Compaction Commitment Node NodeCodec Candidate Leader Replicate Cluster ClusterLog ClusterCommit.
Open Scope N_scope.

Record smsg := mkSM { sm_from : N; sm_to : N; sm_req : ireq }.

Record sstate := mkSS {
  ss_c : cgstate;
  ss_msgs : list smsg;                       (* InstallSnapshot requests sent so far *)
  ss_ans : list (nat * (N * bool * bool));   (* answers: request, (term, success, rpc error) *)
  ss_out : list (N * N * nat);               (* (leader, follower) -> the snapshot request its replicateTo call waits for *)
}.

Inductive slabel :=
| SBase (l : clabel)
| SSend (i j last : N)                       (* replicateTo(j, last): an entry it needs is gone -> sendLatestSnapshot *)
| SDeliver (k : nat) (cut : N) (fs : list bool)
| SAck (n : nat)
| SGiveUp (i j : N).

Fixpoint sout_find (l : list (N * N * nat)) (i j : N) : option nat :=
  match l with
  | [] => None
  | (a, b, k) :: r => if (a =? i) && (b =? j) then Some k else sout_find r i j
  end.
Definition sout_del (l : list (N * N * nat)) (i j : N) : list (N * N * nat) :=
  filter (fun x => negb ((fst (fst x) =? i) && (snd (fst x) =? j))) l.

Definition newest (s : nstate) : option snapshot :=
  match list_snaps (d_snaps s) with sn :: _ => Some sn | [] => None end.

(* the snapshot request the replicateTo call of i for j is blocked in - a call of the CURRENT leadership
   of i (a call of an earlier leadership ended with it) *)
Definition sout_cur (g : sstate) (i j : N) : option nat :=
  match sout_find (ss_out g) i j, find_node (g_nodes (lg_g (cg_l (ss_c g)))) i with
  | Some k, Some n =>
    match gn_run n, nth_error (ss_msgs g) k with
    | Up s, Some m => if (v_role s =? Leader) && (v_term s =? iq_term (sm_req m)) then Some k else None
    | _, _ => None
    end
  | _, _ => None
  end.

(* an AppendEntries call and a snapshot call of one replicateTo exclude each other *)
Definition base_ok (g : sstate) (l : clabel) : bool :=
  match l with
  | CBase (LSend i j _ _) => match sout_cur g i j with None => true | Some _ => false end
  | _ => true
  end.

Definition sstep (cfgs : list config) (g : sstate) (l : slabel) : option sstate :=
  let c := ss_c g in
  let nodes := g_nodes (lg_g (cg_l c)) in
  match l with
  | SBase bl =>
    if negb (base_ok g bl) then None else
    match cstep true cfgs c bl with
    | Some c' => Some (mkSS c' (ss_msgs g) (ss_ans g) (ss_out g))
    | None => None
    end
  | SSend i j last =>
    match find_node nodes i, find_lead (cg_lead c) i with
    | Some n, Some ld =>
      match gn_run n with
      | Up s =>
        if negb ((v_role s =? Leader) && negb (i =? j) && (last <=? last_index s)) then None
        else match assoc (ld_out ld) j, sout_cur g i j with
             | None, None =>
               (* setupAppendEntries fails with ErrLogNotFound exactly when setup_send has no request to build *)
               match setup_send (gn_P n) s (next_of ld j) last with
               | SendSnap _ _ =>
                 match newest s with
                 | Some sn =>
                   let q := mkIReq (v_term s) i i (sn_idx sn) (sn_term sn) (sn_cfg sn) (sn_cfgidx sn) (sn_data sn) false in
                   Some (mkSS c (ss_msgs g ++ [mkSM i j q]) (ss_ans g) ((i, j, length (ss_msgs g)) :: sout_del (ss_out g) i j))
                 | None => None
                 end
               | _ => None
               end
             | _, _ => None
             end
      | Down _ => None
      end
    | _, _ => None
    end
  | SDeliver k cut fs =>
    match nth_error (ss_msgs g) k with
    | Some m =>
      match find_node nodes (sm_to m) with
      | Some nj =>
        let '(_, ob, _) := step_full (gn_P nj) (gn_run nj) (NInstall (sm_req m)) cut fs in
        match gstep cfgs (lg_g (cg_l c)) (GInput (sm_to m) (NInstall (sm_req m)) cut fs) with
        | Some g' =>
          Some (mkSS (mkCG (mkLG g' (lg_msgs (cg_l c))) (cg_lead c) (cg_hb c) (cg_ans c))
                     (ss_msgs g)
                     (match ob with
                      | OInstall _ (t, okk, false) => ss_ans g ++ [(k, (t, okk, false))]   (* an rpc error reaches the caller as a failed call *)
                      | _ => ss_ans g
                      end)
                     (ss_out g))
        | None => None
        end
      | None => None
      end
    | None => None
    end
  | SGiveUp i j =>
    match sout_cur g i j with
    | Some _ => Some (mkSS c (ss_msgs g) (ss_ans g) (sout_del (ss_out g) i j))
    | None => None
    end
  | SAck n =>
    match nth_error (ss_ans g) n with
    | None => None
    | Some (k, (rterm, ok, _)) =>
      match nth_error (ss_msgs g) k with
      | None => None
      | Some m =>
        let i := sm_from m in
        let j := sm_to m in
        match find_node nodes i, find_lead (cg_lead c) i with
        | Some n, Some ld =>
          match gn_run n with
          | Up s =>
            if negb ((v_role s =? Leader) && (v_term s =? iq_term (sm_req m))
                     && match sout_cur g i j with Some k' => Nat.eqb k' k | None => false end) then None
            else
              let out' := sout_del (ss_out g) i j in
              if iq_term (sm_req m) <? rterm then
                Some (mkSS (mkCG (mkLG (set_node_run (lg_g (cg_l c)) i n (Up (set_state s Follower))) (lg_msgs (cg_l c)))
                                 (cg_lead c) (cg_hb c) (cg_ans c))
                           (ss_msgs g) (ss_ans g) out')
              else if ok then
                (* nextIndex = snapshot index + 1; commitment.match(follower, snapshot index) *)
                let si := iq_lastIdx (sm_req m) in
                let ld1 := with_next ld j (si + 1) in
                let ls1 := peer_match (mkLS s (ld_cm ld1) (ld_infl ld1)) j si in
                let ld2 := with_cm ld1 (l_cm ls1) (l_inflight ls1) in
                Some (mkSS (mkCG (cg_l c)
                                 (set_lead (cg_lead c) i
                                    (if cm_commit (l_cm ls1) =? cm_commit (ld_cm ld1) then ld2 else with_notified ld2 true))
                                 (cg_hb c) (cg_ans c))
                           (ss_msgs g) (ss_ans g) out')
              else Some (mkSS c (ss_msgs g) (ss_ans g) out')     (* a refusal: failures++ only *)
          | Down _ => None
          end
        | _, _ => None
        end
      end
    end
  end.

Fixpoint srun (cfgs : list config) (g : sstate) (ls : list slabel) : option sstate :=
  match ls with
  | [] => Some g
  | l :: r => match sstep cfgs g l with Some g' => srun cfgs g' r | None => None end
  end.

Definition lg_of (g : sstate) : lgstate := cg_l (ss_c g).

(* ---------------------------------------------------------------- flat encoding (component 104) *)
(* as component 103 plus:  15 i j last (a snapshot request is built by replicateTo(j, last)) | 16 k (the k-th snapshot request is executed
   by its target) | 17 n (the n-th snapshot answer returns to the blocked call) | 18 i j (that call fails)
   dump: as component 103, then number of snapshot requests, number of snapshot answers *)
Definition dec_sslabel (l : list N) : option (slabel * list N) :=
  match l with
  | 15 :: i :: j :: last :: r => Some (SSend i j last, r)
  | 16 :: k :: r => Some (SDeliver (N.to_nat k) 0 [], r)
  | 17 :: n :: r => Some (SAck (N.to_nat n), r)
  | 18 :: i :: j :: r => Some (SGiveUp i j, r)
  | _ => match dec_slabel l with Some (cl, r) => Some (SBase cl, r) | None => None end
  end.

Definition slabel_acks (g : sstate) (l : slabel) : list (N * entry) :=
  match l with SBase cl => step_acks (ss_c g) cl | _ => [] end.

Fixpoint run_sslabels (cfg : config) (fuel : nat) (g : sstate) (l : list N) : list N :=
  match fuel with
  | O => []
  | S f =>
    let '(silent, l1) := match l with 99 :: r => (true, r) | _ => (false, l) end in
    match dec_sslabel l1 with
    | None => []
    | Some (lb, rest) =>
      match sstep [cfg] g lb with
      | Some g' =>
        let acks := filter (fun te => e_ty (snd te) =? LogCommand) (slabel_acks g lb) in
        (if silent then [2]
         else 1 :: enc_sgstate (ss_c g') ++ [N.of_nat (length (ss_msgs g')); N.of_nat (length (ss_ans g'))]
              ++ N.of_nat (length acks) :: flat_map (fun te => [e_idx (snd te); e_data (snd te)]) acks)
        ++ run_sslabels cfg f g' rest
      | None => 0 :: run_sslabels cfg f g rest
      end
    end
  end.

Definition run_clusterinstall (inp : list N) : list N :=
  match inp with
  | t :: n :: r =>
    let cfg := mk_cfg (N.to_nat n) in
    let '(extras, r') := take_extras (N.to_nat n) r in
    let nodes := map (fun p => with_trailing t (mk_node cfg (N.of_nat (fst p)) (snd p))) (combine (seq 1 (N.to_nat n)) extras) in
    run_sslabels cfg (length r') (mkSS (mkCG (mkLG (mkG nodes [] [] []) []) [] [] []) [] [] []) r'
  | _ => []
  end.

(* the state a component-104 input leads to (labels the system cannot take are skipped, as in run_sslabels) *)
Fixpoint run_ss_state (cfg : config) (fuel : nat) (g : sstate) (l : list N) : sstate :=
  match fuel with
  | O => g
  | S f =>
    let l1 := match l with 99 :: r => r | _ => l end in
    match dec_sslabel l1 with
    | None => g
    | Some (lb, rest) =>
      match sstep [cfg] g lb with
      | Some g' => run_ss_state cfg f g' rest
      | None => run_ss_state cfg f g rest
      end
    end
  end.

Definition install_init (t : N) (n : nat) (extras : list N) : sstate :=
  let cfg := mk_cfg n in
  mkSS (mkCG (mkLG (mkG (map (fun p => with_trailing t (mk_node cfg (N.of_nat (fst p)) (snd p))) (combine (seq 1 n) extras)) [] [] []) []) [] [] []) [] [] [].

(* every state reached this way is a state of the system: the labels taken form a run *)
Fixpoint labels_taken (cfg : config) (fuel : nat) (g : sstate) (l : list N) : list slabel :=
  match fuel with
  | O => []
  | S f =>
    let l1 := match l with 99 :: r => r | _ => l end in
    match dec_sslabel l1 with
    | None => []
    | Some (lb, rest) =>
      match sstep [cfg] g lb with
      | Some g' => lb :: labels_taken cfg f g' rest
      | None => labels_taken cfg f g rest
      end
    end
  end.

(* ---------------------------------------------------------------- what can still be stated *)
(* With snapshot transfer a server may keep stale entries AT OR BELOW the index of the snapshot it
   last installed (known finding F3-ii), so Log Matching can only be claimed above the snapshot
   boundaries: two logs that hold an entry of the same term at an index hold the same entry at every
   index up to it that both retain ABOVE both servers' last snapshot index *)
Definition snap_idx_of (n : gnode) : N := v_lastSnapIdx (image (gn_run n)).

Definition log_matching_above_snapshots (g : lgstate) : Prop :=
  forall a b, In a (g_nodes (lg_g g)) -> In b (g_nodes (lg_g g)) ->
  forall i ea eb, log_of a !! i = Some ea -> log_of b !! i = Some eb -> e_term ea = e_term eb ->
  forall k ka kb, k <= i -> snap_idx_of a < k -> snap_idx_of b < k ->
    log_of a !! k = Some ka -> log_of b !! k = Some kb -> ka = kb.
