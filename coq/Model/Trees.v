(* Trees.v — evaluation of the decision trees that go/gotables/trees.go regenerates from the Go
   source on every run (Model/GenTrees.v).  A tree is the complete decision structure of one
   function: conditions (comparisons and connectives are structure; every other sub-expression is an
   ATOM named by its source text), effects in source order (calls, assignments to fields, defers),
   local definitions by pure arithmetic, and the returned expression.  Given a VALUATION of the atoms
   (what a model state says each of them is worth), run_tree executes the function's decisions.
   The theorems of Proofs/GenTreesProofs.v say: under the valuation read off a model state, the
   regenerated tree decides exactly what the hand-written model function decides - for all inputs. *)
From Coq Require Import List String NArith Bool.
From RaftModel Require Import GenTrees.
Import ListNotations.
Open Scope string_scope.

Definition valuation : Type := string -> N.
Definition event : Type := (string * string * string)%type.

Definition upd (v : valuation) (x : string) (n : N) : valuation := fun y => if String.eqb y x then n else v y.

Fixpoint eval_n (v : valuation) (e : expr) : N :=
  match e with
  | EAtom s => v s
  | ENum n => n
  | ENil => 0%N
  | EMin a b => N.min (eval_n v a) (eval_n v b)
  | EMax a b => N.max (eval_n v a) (eval_n v b)
  | EBin op a b =>
    if String.eqb op "+" then (eval_n v a + eval_n v b)%N
    else if String.eqb op "-" then (eval_n v a - eval_n v b)%N      (* callers guard against wrap-around *)
    else 0%N
  | ENot _ => 0%N
  end.

Fixpoint eval_b (v : valuation) (e : expr) : bool :=
  match e with
  | EBin op a b =>
    if String.eqb op "&&" then eval_b v a && eval_b v b
    else if String.eqb op "||" then eval_b v a || eval_b v b
    else if String.eqb op "==" then N.eqb (eval_n v a) (eval_n v b)
    else if String.eqb op "!=" then negb (N.eqb (eval_n v a) (eval_n v b))
    else if String.eqb op "<" then N.ltb (eval_n v a) (eval_n v b)
    else if String.eqb op ">" then N.ltb (eval_n v b) (eval_n v a)
    else if String.eqb op "<=" then N.leb (eval_n v a) (eval_n v b)
    else if String.eqb op ">=" then N.leb (eval_n v b) (eval_n v a)
    else false
  | ENot a => negb (eval_b v a)
  | EAtom s => negb (N.eqb (v s) 0)      (* a boolean atom: non-zero is true *)
  | _ => false
  end.

(* the effects in order, each with the valuation in force when it happens, and the returned expression *)
Fixpoint run_tree (v : valuation) (t : tree) : list (event * valuation) * string :=
  match t with
  | TRet r => ([], r)
  | TEv e k => let '(l, r) := run_tree v k in ((e, v) :: l, r)
  | TLet x e k => run_tree (upd v x (eval_n v e)) k
  | TIf c a b => if eval_b v c then run_tree v a else run_tree v b
  end.

Definition ev_kind (e : event) : string := fst (fst e).
Definition ev_a (e : event) : string := snd (fst e).
Definition ev_b (e : event) : string := snd e.

Definition calls (l : list (event * valuation)) : list string :=
  map (fun x => ev_a (fst x)) (filter (fun x => String.eqb (ev_kind (fst x)) "call") l).
Definition has_assign (l : list (event * valuation)) (lhs rhs : string) : bool :=
  existsb (fun x => String.eqb (ev_kind (fst x)) "assign" && String.eqb (ev_a (fst x)) lhs && String.eqb (ev_b (fst x)) rhs) l.
Definition mem_s (x : string) (l : list string) : bool := existsb (String.eqb x) l.
(* the calls of l that are in the list `of` (e.g. the state-changing methods), in order *)
Definition calls_among (of : list string) (l : list (event * valuation)) : list string :=
  filter (fun c => mem_s c of) (calls l).

(* every atom of a tree's conditions and definitions *)
Fixpoint atoms_e (e : expr) : list string :=
  match e with
  | EAtom s => [s]
  | ENum _ | ENil => []
  | EBin _ a b | EMin a b | EMax a b => atoms_e a ++ atoms_e b
  | ENot a => atoms_e a
  end.
Fixpoint atoms_t (t : tree) : list string :=
  match t with
  | TRet _ => []
  | TEv _ k => atoms_t k
  | TLet x e k => atoms_e e ++ atoms_t k
  | TIf c a b => atoms_e c ++ atoms_t a ++ atoms_t b
  end.
(* a valuation table covers a tree: no atom is valued by default *)
Definition covers (known : list string) (t : tree) : bool := forallb (fun a => mem_s a known) (atoms_t t).

Fixpoint assoc_s (l : list (string * N)) (x : string) : N :=
  match l with
  | [] => 0%N
  | (k, n) :: r => if String.eqb x k then n else assoc_s r x
  end.
Definition val_of (l : list (string * N)) : valuation := assoc_s l.
