(* C03 — Committed entries are permanent (leader completeness, durable acks).
   PARTIAL.  Proved in this file's cone (per-server / per-leadership facts the global argument
   rests on); the global statement "every later leader holds every committed entry" is the
   classical inductive argument over all runs and is NOT proved here - it is checked on real
   histories by the monitors leader-misses-committed-entry, committed-index-reassigned,
   committed-entry-deleted. *)
From Coq Require Import List NArith.
From stdpp Require Import gmap.
From RaftModel Require Import Base Config Commitment Node NodeCodec Leader.
From RaftProofs Require Import CommitmentProofs LeaderProofs AppendProofs VoteProofs.
Open Scope N_scope.

(* current-term rule at the call site: a new leader's commitment starts above everything its log
   held at election, so whatever followers report, it never commits an old-term entry by counting
   replicas (the Figure-8 pattern) - the commit index is 0 or above the election-time last index *)
Theorem C03_commit_only_above_election_last_index : forall s ops,
  let c := cm_run (l_cm (leader_setup s)) ops in
  cm_commit c = 0 \/ last_index s < cm_commit c.
Proof. exact leader_commit_above_election_last. Qed.
Print Assumptions C03_commit_only_above_election_last_index.

(* voters refuse candidates whose log is behind theirs: a vote is cast only after log_ok *)
Theorem C03_vote_requires_up_to_date_log : forall P r ins, wfr r ->
  forall pre e ob post, In (pre, e, ob, post) (run_hist P r ins) ->
  forall T c, live (image post) = Some (T, c) -> live (image pre) <> Some (T, c) -> cast_ok P (image pre) e T c.
Proof.
  intros P r ins Hw pre e ob post Hin T c H1 H2.
  destruct (history_item_good P r ins Hw pre e ob post Hin) as (_ & H & _). apply H; assumption.
Qed.
Print Assumptions C03_vote_requires_up_to_date_log.

(* followers delete entries only from the first index whose stored term differs from the term sent *)
Theorem C03_delete_only_on_conflict : forall P s fs a s' r tr fs',
  cache_ok s -> contig (aq_prevIdx a) (aq_entries a) ->
  append_entries P s fs a = Done s' r tr fs' ->
  forall i x, d_log s !! i = Some x -> d_log s' !! i <> Some x ->
  exists c, first_conflict (d_log s) (aq_entries a) = Some c /\ c <= i.
Proof.
  intros P s fs a s' r tr fs' Hc Hg H i x H1 H2.
  destruct (append_entries_log P s fs a s' r tr fs' Hc Hg H) as [[_ Hf] _]. apply (Hf i x H1 H2).
Qed.
Print Assumptions C03_delete_only_on_conflict.

(* the leader counts itself only after its own StoreLogs succeeded *)
Theorem C03_leader_counts_itself_after_store : forall P ls fs reqs ls' res tr fs',
  dispatch P ls fs reqs = (ls', res, tr, fs') ->
  l_cm ls' <> l_cm ls -> exists es, In (EStore es true) tr.
Proof.
  intros P ls fs reqs ls' res tr fs'. unfold dispatch.
  destruct (do_stage P (l_node ls) (v_commit (l_node ls))) as [s1 trs].
  destruct (do_store P s1 fs _) as [[s2 ok] f2]. destruct ok; simpl; intros H Hne; inversion H; subst.
  - eexists. apply in_app_iff. right. left. reflexivity.
  - contradiction.
Qed.
Print Assumptions C03_leader_counts_itself_after_store.

Example C03_figure8 :
  (* 3 voters; the new leader's log ends at index 4 (old term); both followers report 4: nothing
     commits; once its own entry 5 is on a majority, 5 (and with it 4) commits *)
  let cfg := [mkSrv 0 1 1; mkSrv 0 2 2; mkSrv 0 3 3] in
  let s := mkNS 3 0 None ∅ 0 0 [] 2 3 0 0 4 2 0 0 cfg 1 cfg 1 0 0 false [] (0, 0) in
  map (fun ops => cm_commit (cm_run (l_cm (leader_setup s)) ops))
      [[CMatch 2 4; CMatch 3 4]; [CMatch 1 5; CMatch 2 4; CMatch 3 4]; [CMatch 1 5; CMatch 2 5]] = [0; 0; 5].
Proof. vm_compute. reflexivity. Qed.
