(* C03 — Committed entries are permanent (leader completeness, durable acks).
   ALL RUNS (C03_leader_completeness_all_runs, end of file): in every reachable state of the cluster
   with commitment (Model/ClusterCommit.v) a leader whose term is at least the term of a running
   server holds every entry that server knows to be committed.  PARTIAL: runs without snapshots,
   InstallSnapshot, membership changes and RestoreCommittedLogs; those are checked on real
   histories by the monitors leader-misses-committed-entry, committed-index-reassigned,
   committed-entry-deleted.  The rest of the file: the per-server / per-leadership facts. *)
From Coq Require Import List NArith.
From stdpp Require Import gmap.
From RaftModel Require Import Base Config Commitment Node NodeCodec Leader Cluster ClusterLog ClusterCommit.
From RaftProofs Require Import CommitmentProofs LeaderProofs AppendProofs VoteProofs ClusterCommitSpec ClusterCommitMain ClusterCommitLog ClusterCommitAcks2 ClusterProofs
  ClusterCommitSnapSpec ClusterCommitSnapMain ClusterCommitSnapAcks ClusterCommitSnapCex.
Open Scope N_scope.

(* current-term rule at the call site: a new leader's commitment starts above everything its log
   held at election, so whatever followers report, it never commits an old-term entry by counting
   replicas (the Figure-8 pattern) - the commit index is 0 or above the election-time last index *)
Theorem C03_commit_only_above_election_last_index : forall s ops,
  let c := cm_run (l_cm (leader_setup s)) ops in
  cm_commit c = 0 \/ last_index s < cm_commit c.
Proof. exact leader_commit_above_election_last. Qed.
Print Assumptions C03_commit_only_above_election_last_index.

(* voters refuse candidates whose log is behind theirs: a vote is cast only after log_ok *)
Theorem C03_vote_requires_up_to_date_log : forall P r ins, wfr r ->
  forall pre e ob post, In (pre, e, ob, post) (run_hist P r ins) ->
  forall T c, live (image post) = Some (T, c) -> live (image pre) <> Some (T, c) -> cast_ok P (image pre) e T c.
Proof.
  intros P r ins Hw pre e ob post Hin T c H1 H2.
  destruct (history_item_good P r ins Hw pre e ob post Hin) as (_ & H & _). apply H; assumption.
Qed.
Print Assumptions C03_vote_requires_up_to_date_log.

(* followers delete entries only from the first index whose stored term differs from the term sent *)
Theorem C03_delete_only_on_conflict : forall P s fs a s' r tr fs',
  cache_ok s -> contig (aq_prevIdx a) (aq_entries a) ->
  append_entries P s fs a = Done s' r tr fs' ->
  forall i x, d_log s !! i = Some x -> d_log s' !! i <> Some x ->
  exists c, first_conflict (d_log s) (aq_entries a) = Some c /\ c <= i.
Proof.
  intros P s fs a s' r tr fs' Hc Hg H i x H1 H2.
  destruct (append_entries_log P s fs a s' r tr fs' Hc Hg H) as [[_ Hf] _]. apply (Hf i x H1 H2).
Qed.
Print Assumptions C03_delete_only_on_conflict.

(* the leader counts itself only after its own StoreLogs succeeded *)
Theorem C03_leader_counts_itself_after_store : forall P ls fs reqs ls' res tr fs',
  dispatch P ls fs reqs = (ls', res, tr, fs') ->
  l_cm ls' <> l_cm ls -> exists es, In (EStore es true) tr.
Proof.
  intros P ls fs reqs ls' res tr fs'. unfold dispatch.
  destruct (do_stage P (l_node ls) (v_commit (l_node ls))) as [s1 trs].
  destruct (do_store P s1 fs _) as [[s2 ok] f2]. destruct ok; simpl; intros H Hne; inversion H; subst.
  - eexists. apply in_app_iff. right. left. reflexivity.
  - contradiction.
Qed.
Print Assumptions C03_leader_counts_itself_after_store.

Example C03_figure8 :
  (* 3 voters; the new leader's log ends at index 4 (old term); both followers report 4: nothing
     commits; once its own entry 5 is on a majority, 5 (and with it 4) commits *)
  let cfg := [mkSrv 0 1 1; mkSrv 0 2 2; mkSrv 0 3 3] in
  let s := mkNS 3 0 None ∅ 0 0 [] 2 3 0 0 4 2 0 0 cfg 1 cfg 1 0 0 false [] (0, 0) in
  map (fun ops => cm_commit (cm_run (l_cm (leader_setup s)) ops))
      [[CMatch 2 4; CMatch 3 4]; [CMatch 1 5; CMatch 2 4; CMatch 3 4]; [CMatch 1 5; CMatch 2 5]] = [0; 0; 5].
Proof. vm_compute. reflexivity. Qed.


(* ================= LEADER COMPLETENESS OVER ALL RUNS (Model/ClusterCommit.v) =================
   For EVERY run of the cluster with commitment (as for C02_state_machine_safety_all_runs: elections,
   dispatchLogs, replicateTo from each follower's nextIndex, arbitrary delay / duplication /
   reordering / loss of requests and answers, commitment.match, the leader loop, restarts, store
   failures and crash cuts inside every handler) from a freshly booted cluster, in every reachable
   state: a Leader whose term is at least the term of a running server holds, at the same index,
   every entry that server knows to be committed - committed entries are on every later leader and
   are never re-assigned.  The proof is the classical one (an entry committed by counting matches of
   the leader's own term is on a majority; a later leader was voted by a majority; the up-to-date
   check and Log Matching), carried by an invariant with ghost records of leaderships, acceptances
   and votes, by strong induction on terms. *)
Theorem C03_leader_completeness_all_runs : forall cfg g0 ls g,
  cinit_ok cfg g0 -> Forall label_ok ls -> crun false [cfg] g0 ls = Some g ->
  leader_complete g.
Proof. intros cfg g0 ls g H0 Hl Hr. destruct (state_machine_safety cfg g0 ls g H0 Hl Hr) as (_ & A & _). exact A. Qed.
Print Assumptions C03_leader_completeness_all_runs.


(* DURABLE ACKNOWLEDGEMENTS: an entry whose future a leader of term T answered without error at ANY
   point of the run is, in every later state, held at its index by every Leader of a term >= T, and
   is the entry every running server that knows that index committed holds there: it is never
   overwritten, truncated or re-assigned (same system and side conditions as above). *)
Theorem C03_acknowledged_entries_are_permanent : forall cfg g0 ls g,
  cinit_ok cfg g0 -> Forall label_ok ls -> crun false [cfg] g0 ls = Some g ->
  acks_permanent (run_acks false [cfg] g0 ls) g.
Proof. exact acknowledged_entries_are_permanent. Qed.
Print Assumptions C03_acknowledged_entries_are_permanent.


(* WITH takeSnapshot + compaction (crun true): a later leader holds every committed / acknowledged entry
   in its log OR the index is covered by its own snapshot (with TrailingLogs 0 a leader's whole log can be
   compacted away: C03_compaction_refutes_plain_leader_completeness). *)
Theorem C03_leader_completeness_all_runs_with_snapshots : forall cfg g0 ls g,
  cinit_snap_ok cfg g0 -> Forall label_ok ls -> crun true [cfg] g0 ls = Some g ->
  leader_complete_snap g.
Proof. intros cfg g0 ls g H0 Hl Hr. destruct (state_machine_safety_snapshots cfg g0 ls g H0 Hl Hr) as (_ & A & _). exact A. Qed.
Print Assumptions C03_leader_completeness_all_runs_with_snapshots.

Theorem C03_acknowledged_entries_are_permanent_with_snapshots : forall cfg g0 ls g,
  cinit_snap_ok cfg g0 -> Forall label_ok ls -> crun true [cfg] g0 ls = Some g ->
  acks_permanent_snap (run_acks true [cfg] g0 ls) g.
Proof. exact acknowledged_entries_are_permanent_snapshots. Qed.
Print Assumptions C03_acknowledged_entries_are_permanent_with_snapshots.

Theorem C03_compaction_refutes_plain_leader_completeness : exists cfg g0 ls g,
  cinit_snap_ok cfg g0 /\ Forall label_ok ls /\ crun true [cfg] g0 ls = Some g /\
  ~ leader_complete g /\ leader_complete_snap g /\ log_size g 1 = 0%nat /\ snap_idx g 1 = 3.
Proof. exact compaction_refutes_leader_complete. Qed.
