(* C18 — Leadership notifications are faithful.
   Statements only; proofs in Proofs/NotifyProofs.v and Proofs/AdvLeaderProofs.v.
   Models: Model/Notify.v (runLeader's entry/exit notifications on NotifyCh and the 1-slot leaderCh
   with consumers of any speed; what runLeader sends is read from the table generated from the Go
   source) and Model/Node.v (advertised leader: setState clears it, AppendEntries/InstallSnapshot set
   it after the term update), the latter tied to real servers by the node-sequence correspondence. *)
From Coq Require Import List NArith String Bool.
From stdpp Require Import gmap.
From RaftModel Require Import Base Config Node NodeCodec LoopTable Notify Cluster ClusterLog ClusterCommit.
From RaftProofs Require Import NotifyProofs AdvLeaderProofs ClusterCommitSpec ClusterCommitSnapSpec ClusterLeaderSpec ClusterLeaderMain.
Import ListNotations.
Open Scope N_scope.

(* 0. the code, as translated on this run, sends the new role on leaderCh and then on NotifyCh when
   runLeader is entered, and again (deferred) when it is left; setState clears the advertised leader *)
Theorem C18_table_ok : notes_ok runleader_entry runleader_exit = true /\ setstate_clears_leader = true.
Proof. vm_compute. split; reflexivity. Qed.

Lemma table_notes : runleader_entry = E0 /\ runleader_exit = X0.
Proof. apply notes_ok_eq. exact (proj1 C18_table_ok). Qed.

(* 1. For every sequence of gains and losses of leadership and every consumer speed: what the
   NotifyCh consumer has received is strictly alternating true, false, true, ... - exactly one
   message per transition, in order, none lost or repeated. *)
Theorem C18_notify_alternates : forall ops,
  let s := fst (nrun runleader_entry runleader_exit n_init ops) in
  alt true (n_recv s) /\ n_sent s = (n_recv s ++ n_notify s)%list /\ alt true (n_sent s).
Proof. destruct table_notes as [-> ->]. exact notify_alternates. Qed.
Print Assumptions C18_notify_alternates.

(* 2. At rest (everything sent has been received) the last value delivered says whether the
   server is leader now; a server that never notified is not leader. *)
Theorem C18_at_rest_last_value_is_role : forall ops,
  let s := fst (nrun runleader_entry runleader_exit n_init ops) in
  n_notify s = [] -> n_recv s <> [] -> last (n_recv s) false = n_leader s.
Proof. destruct table_notes as [-> ->]. exact notify_at_rest. Qed.
Print Assumptions C18_at_rest_last_value_is_role.

Theorem C18_never_notified_not_leader : forall ops,
  let s := fst (nrun runleader_entry runleader_exit n_init ops) in
  n_sent s = [] -> n_leader s = false.
Proof. destruct table_notes as [-> ->]. exact notify_none_means_never_leader. Qed.

(* 3. LeaderCh always ends up holding the most recent transition: a value in the channel is the
   current role; an empty channel means no transition yet, or the consumer's last read was it. *)
Theorem C18_leaderch_holds_latest : forall ops,
  let s := fst (nrun runleader_entry runleader_exit n_init ops) in
  match n_lch s with
  | Some v => v = n_leader s
  | None => n_lsent s = [] \/ last (n_lrecv s) false = n_leader s
  end.
Proof. destruct table_notes as [-> ->]. exact leaderch_latest. Qed.
Print Assumptions C18_leaderch_holds_latest.

(* 4. Leader()/LeaderWithID() on a follower: over ANY history of RequestVote, RequestPreVote,
   AppendEntries, InstallSnapshot, TimeoutNow, elections (started from the candidate loop), store
   failures, crash cuts and restarts, a running follower that names a leader names the sender of an
   AppendEntries or InstallSnapshot it received whose term is the follower's current term.  (That
   such a sender really was leader of that term is election safety, C01.) *)
Theorem C18_advertised_leader : forall P img r out ins, boot P img = (r, out) -> elects_ok P r ins ->
  match run_to P r ins with
  | Up s => v_role s = Follower -> v_leader s <> 0 -> In (v_leader s, v_term s) (claims ins)
  | Down _ => True
  end.
Proof. exact advertised_leader_from_boot. Qed.
Print Assumptions C18_advertised_leader.

(* non-vacuity: two leaderships with a slow consumer *)
Example C18_example :
  let '(s, outs) := nrun runleader_entry runleader_exit n_init
                         [NGain; NLose; NGain; NReadLeaderCh; NReadNotify; NReadNotify; NReadNotify; NLose; NReadLeaderCh] in
  outs = [3; 3; 3; 1; 1; 0; 1; 3; 0] /\ n_notify s = [false] /\ n_leader s = false.
Proof. vm_compute. repeat split. Qed.


(* 5. COMPOSED with election safety, over all runs of the cluster with replication, commitment and (sn)
   takeSnapshot (Model/ClusterCommit.v): the leader ANY running server advertises (LeaderWithID) was elected
   leader of that server's current term - "name only a server that really was leader of the follower's current
   term" - and there is one such server per term.  (Statement Proofs/ClusterLeaderSpec.v; freshly booted
   servers advertise nobody: nobody_advertised.  InstallSnapshot senders: Model/ClusterSnap.v, monitored.) *)
Theorem C18_advertised_leader_was_elected_all_runs : forall sn cfg g0 ls g,
  cinit_snap_ok cfg g0 -> nobody_advertised g0 -> List.Forall label_ok ls -> crun sn [cfg] g0 ls = Some g ->
  advertised_leaders_are_leaders g /\ one_leader_per_term g.
Proof.
  intros sn cfg g0 ls g H0 Hn Hl Hr. destruct (leaders_faithful_all_runs sn cfg g0 ls g H0 Hn Hl Hr) as (A & _ & B & _).
  split; assumption.
Qed.
Print Assumptions C18_advertised_leader_was_elected_all_runs.
