(* C17 — Every future resolves; shutdown never strands a caller.
   Statements only; proofs in Proofs/FuturesProofs.v.  Model: Model/Futures.v (life cycle of one
   future: enqueue select, loops, tracked sets, FSM queue, step-down flush, Shutdown, Error()) over
   Model/LoopTable.v, which is GENERATED from the Go source (go/ast) on every run: which queues each
   loop serves, what each API constructor builds, channel capacities, whether Error() selects on
   ShutdownCh.  A change of the code changes the table and these theorems are re-checked. *)
From Coq Require Import List NArith String Bool.
From RaftModel Require Import LoopTable Futures.
From RaftProofs Require Import FuturesProofs.
Import ListNotations.
Open Scope N_scope.

Definition the_table : table := mkT loops stepdown_flushes apis chan_caps error_selects_shutdown stopped_closed_after_wait.

(* 1. The table extracted from the current source satisfies the conditions the theorems need:
   every API enqueue select can escape through shutdownCh; every loop (follower, candidate, leader;
   snapshot and FSM goroutines for their queues) serves the queue and uses the future it receives;
   the tracked sets are answered by runLeader's deferred step-down; a future that can sit in a
   buffered queue or in the FSM queue when the goroutines leave carries the ShutdownCh escape and
   Error() selects on it; every loop leaves on shutdownCh.  (finite table: decided by computation) *)
Theorem C17_table_ok : table_ok the_table = true.
Proof. vm_compute. reflexivity. Qed.
Print Assumptions C17_table_ok.

Lemma the_table_api_ok : forall x, In x (t_apis the_table) -> api_ok the_table (api_of x) = true.
Proof.
  pose proof C17_table_ok as H. unfold table_ok in H. apply andb_prop in H. destruct H as [H _].
  rewrite forallb_forall in H. exact H.
Qed.

(* 2. Whatever happens - any interleaving of the API call, the loops, commits, step-downs,
   Shutdown() and the goroutines leaving - a future of ANY public API is never stranded: in every
   reachable state in which no step can move the future forward any more, and the server is not in
   the middle of stopping (no goroutine that leaves on shutdownCh is still there), the caller's
   Error() returns. *)
Theorem C17_never_stranded : forall x ls s, In x (t_apis the_table) ->
  frun the_table (api_of x) init_state ls = Some s ->
  can_progress the_table (api_of x) s = false -> winding_down s = false ->
  resolved the_table (api_of x) s = true.
Proof. intros x ls s Hin. apply never_stranded. apply the_table_api_ok, Hin. Qed.
Print Assumptions C17_never_stranded.

(* 3. Once the server has shut down (main loop and FSM goroutine gone) every future that left
   the API function is resolved; a call still inside the API function escapes through shutdownCh
   (its enqueue select has that case: part of table_ok). *)
Theorem C17_resolved_after_shutdown : forall x ls s, In x (t_apis the_table) ->
  frun the_table (api_of x) init_state ls = Some s ->
  f_loop s = false -> f_fsm s = false -> f_ph s <> PCreated -> resolved the_table (api_of x) s = true.
Proof. intros x ls s Hin. apply resolved_after_shutdown. apply the_table_api_ok, Hin. Qed.
Print Assumptions C17_resolved_after_shutdown.

(* 4. Bounded: a future takes at most 6 forward steps in any run (rank argument); with fair
   scheduling of the loops (a runtime matter, not modelled) it therefore resolves. *)
Theorem C17_forward_steps_bounded : forall T a ls s s', frun T a s ls = Some s' ->
  (List.length (filter is_progress ls) + phase_rank (f_ph s') <= phase_rank (f_ph s))%nat.
Proof. exact forward_steps_bounded. Qed.
Print Assumptions C17_forward_steps_bounded.

(* 5. The ShutdownCh escape is necessary: for ANY table, a future sent to a buffered queue without
   it is stranded by the schedule "enqueue wins, Shutdown, loops leave" (finding F5 of the pinned
   tree, repaired by a fix: commit; this is the theorem that failed on it). *)
Theorem C17_refuted_without_escape : forall T a, a_queue a <> ""%string ->
  buffered T (a_queue a) = true -> escape_kind T a = 0 ->
  exists s, frun T a init_state [LEnqueue; LShutdown; LLoopExit; LFsmExit] = Some s /\
            resolved T a s = false /\ can_progress T a s = false /\ winding_down s = false.
Proof. exact stranded_without_escape. Qed.

(* non-vacuity: the generated table has the 12 constructor rows and a run that parks an Apply in
   flight, shuts down, and resolves it by the step-down flush *)
Example C17_example_table : List.length (t_apis the_table) = 12%nat /\ bad_apis the_table = [].
Proof. vm_compute. split; reflexivity. Qed.
Example C17_example_run :
  exists s, frun the_table (mkApi "ApplyLog" "logFuture" "applyCh" true "stoppedCh" true false) init_state
                 [LEnqueue; LTake; LTrack; LShutdown; LLoopExit] = Some s /\ f_ph s = PResponded.
Proof. vm_compute. eexists. split; reflexivity. Qed.
