(* C14 — Pre-vote: servers without a quorum do not inflate terms or disrupt.
   Statements only; proofs in Proofs/CandidateProofs.v.  Model: Model/Candidate.v (runCandidate:
   pre-vote round, election round, tallies) over Model/Node.v, tied to the real main loop by the
   scripted-peer correspondence (component 14). *)
From Coq Require Import List NArith.
From stdpp Require Import gmap.
From RaftModel Require Import Base Config Node Candidate.
From RaftProofs Require Import CandidateProofs.
Open Scope N_scope.

(* A candidate with pre-vote enabled (no leadership-transfer flag) in a configuration that needs
   at least two votes: for ANY number of election timeouts and ANY sequence of failed or refused
   pre-vote results, the loop performs no durable write at all (empty trace) - in particular the
   term is never incremented - and it is still a candidate that has not started an election. *)
Theorem C14_isolated_term_constant : forall P s evs,
  v_transfer s = false -> 2 <= quorum_size (v_latest s) ->
  Forall (isolated_ev (v_term s)) evs ->
  let '(x0, tr0) := sess_enter P true s in
  let '(x, tr) := sess_run P true x0 evs in
  tr0 = [] /\ tr = [] /\ exists c, x = SCand (norm s) c /\ c_voting c = false.
Proof. exact isolated_term_constant. Qed.
Print Assumptions C14_isolated_term_constant.

Theorem C14_norm_keeps_everything_durable : forall s,
  d_term (norm s) = d_term s /\ v_term (norm s) = v_term s /\ d_vterm (norm s) = d_vterm s /\
  d_vcand (norm s) = d_vcand s /\ d_log (norm s) = d_log s /\ v_role (norm s) = Candidate.
Proof. exact norm_durable. Qed.

(* the election (term bump) starts only on a GRANTED pre-vote that completes the quorum *)
Theorem C14_election_needs_prevote_quorum : forall P c s fs v s' c' self tr fs',
  on_prevote P c s fs v = Done s' (CStay c' self) tr fs' ->
  c_prevote c = true -> c_pvGranted c < c_needed c -> c_prevote c' = false ->
  c_needed c <= c_pvGranted c + 1 /\ vr_granted v = true.
Proof. exact prevote_needs_quorum. Qed.
Print Assumptions C14_election_needs_prevote_quorum.

Theorem C14_prevote_phase_writes_nothing : forall P c s fs v s' c' self tr fs',
  on_prevote P c s fs v = Done s' (CStay c' self) tr fs' -> c_prevote c' = true -> tr = [] /\ s' = s.
Proof. exact prevote_phase_no_write. Qed.
Print Assumptions C14_prevote_phase_writes_nothing.

(* receivers: a pre-vote request changes nothing (the handler only computes an answer), is refused
   while a leader is known, and is granted only to a log that is not behind; a RequestVote without
   the transfer flag is refused without any state change while a leader is known *)
Theorem C14_prevote_refused_while_leader_known : forall s q,
  v_leader s <> 0 -> v_leader s <> vq_addr q -> request_prevote s q = (v_term s, false).
Proof. exact sticky_prevote. Qed.
Theorem C14_vote_refused_while_leader_known : forall s fs q,
  v_leader s <> 0 -> v_leader s <> vq_addr q -> vq_transfer q = false ->
  request_vote s fs q = Done s (v_term s, false) [] fs.
Proof. exact sticky_vote. Qed.
Theorem C14_prevote_needs_uptodate_log : forall s q,
  snd (request_prevote s q) = true -> log_ok s (vq_lastIdx q) (vq_lastTerm q) = true.
Proof. exact prevote_needs_uptodate_log. Qed.
Print Assumptions C14_vote_refused_while_leader_known.

(* Non-vacuity: 3 voters, self = 1: three rounds of refused / failed pre-votes with timeouts keep
   term 3; one granted pre-vote then starts the election at term 4 and a granted vote wins it. *)
Example C14_nontrivial :
  let cfg := [mkSrv 0 1 1; mkSrv 0 2 2; mkSrv 0 3 3] in
  let P := mkP 1 false false false 100 4 (fun _ => cfg) in
  let s := mkNS 3 0 None ∅ 0 0 [] Follower 3 0 0 1 1 0 0 cfg 1 cfg 1 0 0 false [] (0, 0) in
  let '(x0, _) := sess_enter P true s in
  (let '(x, tr) := sess_run P true x0 [CPre (mkVR 4 false); CTimeout; CPre (mkVR 4 false); CPre (mkVR 3 false); CTimeout] in
   d_term (sess_state x) = 3 /\ tr = []) /\
  (let '(x, tr) := sess_run P true x0 [CPre (mkVR 4 true); CVote (mkVR 4 true)] in
   d_term (sess_state x) = 4 /\ match x with SLeader _ => True | _ => False end /\
   tr = [ESetTerm 4 true; ESetVoteCand 1 true; ESetVoteTerm 4 true]).
Proof. vm_compute. repeat split. Qed.

(* Tie 2 (translator, every run): the decision tree of requestPreVote, regenerated from raft.go
   (Model/GenTrees.v), answers what Model/Node.v request_prevote answers for every state and request, and
   on NO path calls anything but readers (no setState, setCurrentTerm, persistVote, setLastContact, store write):
   "pre-vote handlers change nothing" holds of the source text itself *)
From RaftModel Require Import GenTrees Trees.
From RaftProofs Require Import GenTreesSpec GenTreesProofs.
Theorem C14_regenerated_requestPreVote_is_the_model_and_changes_nothing : request_prevote_tree_agrees.
Proof. exact request_prevote_tree_agrees_holds. Qed.
Print Assumptions C14_regenerated_requestPreVote_is_the_model_and_changes_nothing.
