(* C06 — Vote and term integrity across crashes and store failures.
   Statements only; proofs in Proofs/VoteProofs.v.  The objects are the functions the
   correspondence driver runs (component 6): NodeCodec.step_full over Node.request_vote,
   request_prevote, append_entries, install_snapshot, elect_self, timeout_now, recover, with crash
   cuts between durable writes (cut_image) and a failure oracle for every store call. *)
From Coq Require Import List NArith Lia.
From stdpp Require Import gmap.
From RaftModel Require Import Base Config Node NodeCodec.
From RaftProofs Require Import VoteProofs.
Open Scope N_scope.

(* A server started by NewRaft from ANY durable image whose vote term does not exceed its term
   is well-formed, and stays so: *)
Theorem C06_boot_wellformed : forall P img r out,
  wfd img -> boot P img = (r, out) -> wfr r /\ dproj (image r) = dproj img.
Proof. exact boot_spec. Qed.
Print Assumptions C06_boot_wellformed.

(* For every sequence of events (RequestVote, RequestPreVote, AppendEntries, InstallSnapshot,
   TimeoutNow, electSelf, restart), every failure pattern of the store calls, every crash cut
   between two durable writes of any handler (followed by a restart): the Granted=true
   responses of the whole history name at most one candidate per term. *)
Theorem C06_one_vote_per_term : forall P r ins,
  wfr r -> functional (grants (run_hist P r ins)).
Proof. exact one_vote_per_term. Qed.
Print Assumptions C06_one_vote_per_term.

(* ... and for every single step of every such history:
   - the durable term never decreases (also across crash + restart),
   - a vote is CAST (the durable record becomes a pair (T,c) comparable with requests of the
     current term) only while handling a RequestVote from c in term T that passed the log
     up-to-date check against the voter's last entry and the voter-membership check against its
     latest configuration (when it has one), or as the server's own vote in electSelf,
   - a Granted=true response is sent only when the durable record is exactly (term, candidate),
   - the term in a RequestVote response is at least the server's term. *)
Theorem C06_every_step : forall P r ins, wfr r ->
  forall pre e ob post, In (pre, e, ob, post) (run_hist P r ins) ->
  d_term (image pre) <= d_term (image post) /\
  (forall T c, live (image post) = Some (T, c) -> live (image pre) <> Some (T, c) -> cast_ok P (image pre) e T c) /\
  (forall q t, ob = OVote q t true ->
     d_term (image post) = vq_term q /\ d_vterm (image post) = vq_term q /\ d_vcand (image post) = Some (vq_addr q)) /\
  (forall q t g s, ob = OVote q t g -> pre = Up s -> d_term s <= t).
Proof. exact history_item_good. Qed.
Print Assumptions C06_every_step.

(* pre-vote never changes anything *)
Theorem C06_prevote_no_effect : forall P s q cut fs,
  fst (fst (step_full P (Up s) (NPreVote q) cut fs)) = Up s.
Proof. intros. simpl. destruct (request_prevote s q). reflexivity. Qed.
Print Assumptions C06_prevote_no_effect.

(* Non-vacuity: voters {1,2,3}; server 1 holds (term 3, voted for 2 in 3), log (1,1) (2,1) (3,2).
   B=3 asks at term 4 with an up-to-date log while the LastVoteTerm write fails; then A=2 asks at
   term 4 with an empty log (refused: this is the F1 scenario, now closed); then B again, granted;
   a crash after B's first durable write of a later request and a restart keep the record. *)
Example C06_nontrivial :
  let cfg := [mkSrv 0 1 1; mkSrv 0 2 2; mkSrv 0 3 3] in
  let P := mkP 1 false false false 100 4 (fun _ => cfg) in
  let img := image_of 3 3 3 [mkE 1 1 5 9000; mkE 2 1 0 11; mkE 3 2 0 12] 0 [] in
  let r0 := fst (boot P img) in
  let ins := [ (NVote (mkVReq 4 3 3 10 3 false), 0, [false; false; true]);
               (NVote (mkVReq 4 2 2 0 0 false), 0, []);
               (NVote (mkVReq 4 3 3 10 3 false), 0, []);
               (NVote (mkVReq 5 3 3 10 3 false), 2, []);
               (NVote (mkVReq 5 3 3 10 3 false), 0, []) ] in
  wfr r0 /\
  map (fun h => snd (fst h)) (run_hist P r0 ins)
  = [OVote (mkVReq 4 3 3 10 3 false) 4 false; OVote (mkVReq 4 2 2 0 0 false) 4 false;
     OVote (mkVReq 4 3 3 10 3 false) 4 true; OLost; OVote (mkVReq 5 3 3 10 3 false) 5 true] /\
  grants (run_hist P r0 ins) = [(4, 3); (5, 3)].
Proof.
  cbv zeta. split.
  - match goal with |- wfr (fst (boot ?P ?I)) =>
      destruct (boot P I) as [r out] eqn:E; apply (boot_spec P I r out); [|exact E] end.
    unfold wfd. simpl. lia.
  - vm_compute. split; reflexivity.
Qed.

(* ------------------------------------------------------------------------------------------------
   Tie 2 (translator, every run): the decision trees of requestVote and persistVote are REGENERATED from
   raft.go by go/gotables/trees.go into Model/GenTrees.v (conditions: comparisons and connectives are
   structure, every other sub-expression an atom named by its source text; effects in source order; the
   statements after an `if` continue both branches).  Under the valuation of the atoms read off a model
   state (Proofs/GenTreesSpec.v rv_val / pv_val: each source atom and what the model says it is worth),
   the regenerated code decides exactly what Model/Node.v decides - for ALL states, failure oracles and
   requests.  A change of a guard, of the order of the guards, of an effect or its position in raft.go
   changes the regenerated tree and these theorems stop checking. *)
From RaftModel Require Import GenTrees Trees.
From RaftProofs Require Import GenTreesSpec GenTreesProofs.

(* requestVote: grants exactly when the model grants, answers the model's term, and steps down / persists
   the term / persists the vote / records the contact exactly when the model does, in the model's order;
   no atom of the source is valued by default (covers) *)
Theorem C06_regenerated_requestVote_is_the_model : request_vote_tree_agrees.
Proof. exact request_vote_tree_agrees_holds. Qed.
Print Assumptions C06_regenerated_requestVote_is_the_model.

(* whatever the atoms are worth (every path of the source): resp.Granted = true is assigned only after
   persistVote returned nil on that path, or where the recorded vote of this term names this candidate *)
Theorem C06_regenerated_requestVote_grants_only_after_the_durable_record : vote_granted_only_after_durable_record.
Proof. exact vote_granted_only_after_durable_record_holds. Qed.
Print Assumptions C06_regenerated_requestVote_grants_only_after_the_durable_record.

(* persistVote: the candidate is written first, the term second and only if the first write succeeded;
   nil exactly when both succeeded - the same durable operations in the same order as the model *)
Theorem C06_regenerated_persistVote_is_the_model : persist_vote_tree_agrees.
Proof. exact persist_vote_tree_agrees_holds. Qed.
Print Assumptions C06_regenerated_persistVote_is_the_model.

(* setCurrentTerm, regenerated from raft.go: the in-memory term is set only on the path where the write of
   keyCurrentTerm returned nil (the other path panics): the term a server acts in is the one it recorded durably *)
From RaftProofs Require Import GenTreesMore.
Theorem C06_regenerated_setCurrentTerm_persists_first : set_term_durable_first.
Proof. exact set_term_durable_first_holds. Qed.
Print Assumptions C06_regenerated_setCurrentTerm_persists_first.
