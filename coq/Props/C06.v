(* placeholder until the proofs land *)
From RaftModel Require Import Base Node.
