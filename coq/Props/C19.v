(* C19 — LogCache is transparent to the wrapped LogStore.
   This file holds only the property statements; proofs are in Proofs/LogCacheProofs.v. *)
From Coq Require Import List NArith.
From stdpp Require Import gmap.
From RaftModel Require Import Base LogCache.
From RaftProofs Require Import LogCacheProofs.
Open Scope N_scope.

(* For ANY backend whose StoreLogs is all-or-nothing and whose GetLog is a function of what was
   stored (DeleteRange, FirstIndex, LastIndex and every error are arbitrary), any capacity and
   any operation sequence of any length: the cache's answers are the backend's answers. *)
Theorem C19_logcache_transparent :
  forall (bk : backend), store_atomic bk -> store_writes bk ->
  forall (cap : N) (b0 : B bk) (ops : list lop),
    snd (run cache_step (cache_new cap b0) ops) = snd (run (backend_step bk) b0 ops).
Proof. exact logcache_transparent. Qed.
Print Assumptions C19_logcache_transparent.

(* Instance: the reference map store with injected failures (harness MapLogStore). *)
Theorem C19_logcache_transparent_mapstore :
  forall cap s0 ops,
    snd (run (@cache_step ms_backend) (cache_new cap s0) ops)
    = snd (run (backend_step ms_backend) s0 ops).
Proof. exact logcache_transparent_ms. Qed.
Print Assumptions C19_logcache_transparent_mapstore.

(* The functions the correspondence driver executes agree on every flat input. *)
Theorem C19_driver_functions_agree : forall inp, run_logcache inp = run_barestore inp.
Proof. exact run_logcache_eq_barestore. Qed.
Print Assumptions C19_driver_functions_agree.

(* The atomic-failure hypothesis is not decoration (F6): without it the claim is false. *)
Theorem C19_atomic_failure_needed :
  exists cap s0 ops,
    snd (run (@cache_step leaky_backend) (cache_new cap s0) ops)
    <> snd (run (backend_step leaky_backend) s0 ops).
Proof. exact atomic_failure_needed. Qed.
Print Assumptions C19_atomic_failure_needed.

(* Non-vacuity: a run that stores, truncates, rewrites the same index with another term, wraps
   the ring (cap 2, indices 1 and 3 share a slot) and hits a failing store; the cached run
   really does serve hits from the ring (entry 3 below is a hit) and both agree. *)
Example C19_nontrivial_run :
  let ops := [OStore [mkE 1 1 0 10; mkE 2 1 0 11; mkE 3 1 0 12]; OGet 1; OGet 3;
              ODelete 2 3; OStore [mkE 2 2 0 20]; OGet 2; OStore [mkE 3 2 0 21]; OGet 3;
              OGet 2; OFirst; OLast] in
  let s0 := mkMS ∅ [false; false; false; true] in
  snd (run (@cache_step ms_backend) (@cache_new ms_backend 2 s0) ops)
  = [ROk; REntry (mkE 1 1 0 10); REntry (mkE 3 1 0 12); ROk; ROk; REntry (mkE 2 2 0 20);
     RErr; RErr; REntry (mkE 2 2 0 20); RIdx 1; RIdx 2]
  /\ store_atomic ms_backend /\ store_writes ms_backend.
Proof. split; [vm_compute; reflexivity | split; [exact ms_store_atomic | exact ms_store_writes]]. Qed.
