(* C12 — Convergence: after faults stop the cluster elects, commits and catches up.
   Statements only; proofs in Proofs/CatchupProofs.v, CandidateProofs.v, CommitmentProofs.v.
   PARTIAL: what a theorem can carry here is the deterministic part -
   (a) catch-up makes progress on the follower: after a successful InstallSnapshot (no store
       failure) the AppendEntries that follows it is accepted whatever stale, divergent or compacted
       log the follower held (this is what the "fix:" for F3-i established; the pinned tree refuted it);
   (b) an election can be won: a candidate whose pre-vote and vote requests are granted by a
       quorum becomes leader (candidate-loop model, see C14/C01);
   (c) the leader's no-op commits everything earlier (current-term rule, C05).
   "Within a bounded number of election timeouts" depends on randomized timers and the Go
   scheduler; it is measured on real clusters (scenario family 8), not proved. *)
From Coq Require Import List NArith.
From stdpp Require Import gmap.
From RaftModel Require Import Base Config Node Replicate Converge.
From RaftProofs Require Import CatchupProofs AppendProofs ReplicateProofs ConvergeFollower ConvergeProofs ConvergeCounter.
Open Scope N_scope.

Theorem C12_snapshot_then_append_accepted : forall P s2 rt tr1 q s' r tr fs' a,
  cache_consistent s2 ->
  is_body P s2 rt tr1 [] q = Done s' r tr fs' -> snd (fst r) = true ->
  aq_prevIdx a = iq_lastIdx q -> aq_prevTerm a = iq_lastTerm q ->
  forall s'', last_entry s'' = last_entry s' -> v_lastSnapIdx s'' = v_lastSnapIdx s' ->
              v_lastSnapTerm s'' = v_lastSnapTerm s' ->
  prev_check s'' a = Some true.
Proof. exact snapshot_then_append_accepted. Qed.
Print Assumptions C12_snapshot_then_append_accepted.

Theorem C12_state_after_install : forall P s2 rt tr1 q s' r tr fs',
  cache_consistent s2 -> 0 < iq_lastIdx q ->
  is_body P s2 rt tr1 [] q = Done s' r tr fs' -> snd (fst r) = true ->
  v_lastSnapIdx s' = iq_lastIdx q /\ v_lastSnapTerm s' = iq_lastTerm q /\
  (v_lastLogIdx s' = iq_lastIdx q -> v_lastLogTerm s' = iq_lastTerm q).
Proof. exact is_body_post. Qed.
Print Assumptions C12_state_after_install.


(* ---- the leader side (replication.go replicateTo), Model/Replicate.v: catch-up makes progress
   rather than repeating the same transfer.  A rejected AppendEntries (not a stale-term answer)
   strictly lowers nextIndex while it is above 1 - and to at most the follower's last index + 1 -
   so the same request is never sent again; at 1 the previous entry is (0,0), which the follower's
   previous-entry check always accepts (C04).  An accepted AppendEntries that carried entries raises
   nextIndex to just past what was sent and reports exactly that index to the commitment; a
   successful InstallSnapshot moves nextIndex past the snapshot. *)
Theorem C12_rejection_lowers_next_index : forall term rs snd t lastLog noRetry last pi pt es c,
  snd = SendAE pi pt es c -> t <= term -> 1 < r_next rs ->
  let rs' := fst (round_step term rs snd (FAppend t lastLog false noRetry) last) in
  1 <= r_next rs' /\ r_next rs' < r_next rs /\ r_next rs' <= lastLog + 1.
Proof. exact reject_lowers_next. Qed.
Print Assumptions C12_rejection_lowers_next_index.

Theorem C12_success_raises_next_index : forall P s rs last t lastLog noRetry pi pt es c,
  keys_ok (d_log s) -> setup_send P s (r_next rs) last = SendAE pi pt es c -> es <> [] -> t <= v_term s ->
  let rs' := fst (round_step (v_term s) rs (SendAE pi pt es c) (FAppend t lastLog true noRetry) last) in
  r_next rs < r_next rs' /\ r_next rs' = r_next rs + N.of_nat (length es) /\ r_match rs' = N.max (r_match rs) (r_next rs' - 1) /\ r_failures rs' = 0.
Proof. exact success_raises_next. Qed.
Print Assumptions C12_success_raises_next_index.

Theorem C12_snapshot_moves_next_index : forall term rs idx st t last,
  t <= term -> r_next (fst (round_step term rs (SendSnap idx st) (FSnap t true) last)) = idx + 1.
Proof. exact snapshot_moves_next. Qed.

Theorem C12_request_shape : forall P s next last pi pt es c,
  keys_ok (d_log s) -> setup_send P s next last = SendAE pi pt es c -> es <> [] ->
  (N.of_nat (length es) <= p_maxappend P \/ p_maxappend P = 0) /\ last_idx_of es <= last.
Proof. exact send_shape. Qed.


(* ---- BOTH SIDES COMPOSED (Model/Converge.v: the leader's replicateTo against the follower's
   appendEntries handler, no store failure, no snapshot transfer): whatever log the follower holds -
   stale, divergent, longer or shorter than the leader's, hole-free, subject only to the Log Matching
   premise real histories satisfy - ONE replicateTo call ends after at most next0 + n trips with the
   follower holding the leader's term at every index 1..n, nextIndex = n+1 and n reported to the
   commitment; the handler never panics on the way. *)
Theorem C12_catch_up_converges : forall PL PF sL sF n next0,
  leader_ok PL sL n -> follower_ok (v_term sL) sF -> log_matching_premise sL sF -> 1 <= next0 <= n ->
  exists rs' sF' k,
    cu_run (N.to_nat (next0 + n) + 1) PL PF sL (mkRS next0 0 0) sF n = Some (rs', sF', k) /\
    r_next rs' = n + 1 /\ r_match rs' = n /\
    caught_up sL sF' n /\ follower_wf (v_term sL) sF' /\ n <= v_lastLogIdx sF' /\
    v_applied sF' <= N.max (v_applied sF) (v_commit sL) /\ (k <= N.to_nat (next0 + n))%nat.
Proof. exact catch_up_converges_partial. Qed.
Print Assumptions C12_catch_up_converges.

(* with the leader's commit index and the follower's applied index inside the leader's log, the
   follower's full invariant (follower_ok, incl. lastApplied <= last log index) is re-established *)
Theorem C12_catch_up_converges_bounded : forall PL PF sL sF n next0,
  leader_ok PL sL n -> follower_ok (v_term sL) sF -> log_matching_premise sL sF -> 1 <= next0 <= n ->
  v_commit sL <= n -> v_applied sF <= n ->
  exists rs' sF' k,
    cu_run (N.to_nat (next0 + n) + 1) PL PF sL (mkRS next0 0 0) sF n = Some (rs', sF', k) /\
    r_next rs' = n + 1 /\ r_match rs' = n /\
    caught_up sL sF' n /\ follower_ok (v_term sL) sF' /\ (k <= N.to_nat (next0 + n))%nat.
Proof. exact catch_up_converges_bounded. Qed.
Print Assumptions C12_catch_up_converges_bounded.

(* Non-vacuity, and the F3-i scenario itself: follower log cfg@1, (2,t2) stale; snapshot (2,t3);
   TrailingLogs 0: installed, then AppendEntries prev=(2,t3) with entry 3 succeeds. *)
Example C12_nontrivial :
  let cfg := [mkSrv 0 1 1; mkSrv 0 2 2; mkSrv 0 3 3] in
  let P := mkP 1 false false false 0 4 (fun _ => cfg) in
  let m := log_store ∅ [mkE 1 1 5 9000; mkE 2 2 0 202] in
  let s := mkNS 3 0 None m 0 0 [] 0 3 0 0 2 2 0 0 cfg 1 [] 0 0 0 false [] (0, 0) in
  match install_snapshot P s [] (mkIReq 3 3 3 2 3 cfg 1 [302] false) with
  | Done s' (_, ok, _) _ _ =>
    ok = true /\
    match append_entries P s' [] (mkAReq 3 3 3 2 3 [mkE 3 3 0 303] 3) with
    | Done s'' r _ _ => ar_success r = true /\ d_log s'' !! 3 = Some (mkE 3 3 0 303) /\ v_fsm s'' = [302; 303]
    | Panic _ _ => False
    end
  | Panic _ _ => False
  end.
Proof. vm_compute. repeat split. Qed.
