(* C12 — Convergence: after faults stop the cluster elects, commits and catches up.
   Statements only; proofs in Proofs/CatchupProofs.v, CandidateProofs.v, CommitmentProofs.v.
   PARTIAL: what a theorem can carry here is the deterministic part -
   (a) catch-up makes progress on the follower: after a successful InstallSnapshot (no store
       failure) the AppendEntries that follows it is accepted whatever stale, divergent or compacted
       log the follower held (this is what the "fix:" for F3-i established; the pinned tree refuted it);
   (b) an election can be won: a candidate whose pre-vote and vote requests are granted by a
       quorum becomes leader (candidate-loop model, see C14/C01);
   (c) the leader's no-op commits everything earlier (current-term rule, C05).
   "Within a bounded number of election timeouts" depends on randomized timers and the Go
   scheduler; it is measured on real clusters (scenario family 8), not proved. *)
From Coq Require Import List NArith.
From stdpp Require Import gmap.
From RaftModel Require Import Base Config Node.
From RaftProofs Require Import CatchupProofs AppendProofs.
Open Scope N_scope.

Theorem C12_snapshot_then_append_accepted : forall P s2 rt tr1 q s' r tr fs' a,
  cache_consistent s2 ->
  is_body P s2 rt tr1 [] q = Done s' r tr fs' -> snd (fst r) = true ->
  aq_prevIdx a = iq_lastIdx q -> aq_prevTerm a = iq_lastTerm q ->
  forall s'', last_entry s'' = last_entry s' -> v_lastSnapIdx s'' = v_lastSnapIdx s' ->
              v_lastSnapTerm s'' = v_lastSnapTerm s' ->
  prev_check s'' a = Some true.
Proof. exact snapshot_then_append_accepted. Qed.
Print Assumptions C12_snapshot_then_append_accepted.

Theorem C12_state_after_install : forall P s2 rt tr1 q s' r tr fs',
  cache_consistent s2 -> 0 < iq_lastIdx q ->
  is_body P s2 rt tr1 [] q = Done s' r tr fs' -> snd (fst r) = true ->
  v_lastSnapIdx s' = iq_lastIdx q /\ v_lastSnapTerm s' = iq_lastTerm q /\
  (v_lastLogIdx s' = iq_lastIdx q -> v_lastLogTerm s' = iq_lastTerm q).
Proof. exact is_body_post. Qed.
Print Assumptions C12_state_after_install.

(* Non-vacuity, and the F3-i scenario itself: follower log cfg@1, (2,t2) stale; snapshot (2,t3);
   TrailingLogs 0: installed, then AppendEntries prev=(2,t3) with entry 3 succeeds. *)
Example C12_nontrivial :
  let cfg := [mkSrv 0 1 1; mkSrv 0 2 2; mkSrv 0 3 3] in
  let P := mkP 1 false false false 0 4 (fun _ => cfg) in
  let m := log_store ∅ [mkE 1 1 5 9000; mkE 2 2 0 202] in
  let s := mkNS 3 0 None m 0 0 [] 0 3 0 0 2 2 0 0 cfg 1 [] 0 0 0 false [] in
  match install_snapshot P s [] (mkIReq 3 3 3 2 3 cfg 1 [302] false) with
  | Done s' (_, ok, _) _ _ =>
    ok = true /\
    match append_entries P s' [] (mkAReq 3 3 3 2 3 [mkE 3 3 0 303] 3) with
    | Done s'' r _ _ => ar_success r = true /\ d_log s'' !! 3 = Some (mkE 3 3 0 303) /\ v_fsm s'' = [302; 303]
    | Panic _ _ => False
    end
  | Panic _ _ => False
  end.
Proof. vm_compute. repeat split. Qed.
