(* C10 — Crash recovery restores term, vote, log, configuration and FSM.
   Statements only; proofs in Proofs/RecoverProofs.v, Proofs/VoteProofs.v.  Model: Node.recover
   (NewRaft), the function the driver boots every image with (initial images, clean restarts and
   every crash cut between durable operations, see NodeCodec.finish / cut_image). *)
From Coq Require Import List NArith.
From stdpp Require Import gmap.
From RaftModel Require Import Base Config Node NodeCodec.
From RaftProofs Require Import RecoverProofs VoteProofs.
Open Scope N_scope.

(* For ANY durable image whose log store keeps every entry under its own index: if NewRaft
   returns, the server runs as Follower with exactly the durable state it found (term, vote,
   log, snapshots untouched), its cached tail is the last entry of the log store, its snapshot
   is the newest usable one, and (without RestoreCommittedLogs) its FSM holds exactly that
   snapshot and nothing has been applied. *)
Theorem C10_recover : forall P img s tr, keys_ok (d_log img) -> recover P img = RecOk s tr ->
  durable_eq s img /\
  v_term s = d_term img /\ v_role s = Follower /\
  v_lastLogIdx s = log_last (d_log img) /\
  (if 0 <? log_last (d_log img)
   then exists e, d_log img !! log_last (d_log img) = Some e /\ v_lastLogTerm s = e_term e
   else v_lastLogTerm s = 0) /\
  (match find sn_ok (list_snaps (d_snaps img)) with
   | Some sn => v_lastSnapIdx s = sn_idx sn /\ v_lastSnapTerm s = sn_term sn
   | None => v_lastSnapIdx s = 0 /\ list_snaps (d_snaps img) = []
   end) /\
  (p_rc P = false ->
   match find sn_ok (list_snaps (d_snaps img)) with
   | Some sn => v_fsm s = sn_data sn /\ v_applied s = sn_idx sn /\ tr = [ESetTerm (d_term img) true; ERestore (sn_data sn)]
   | None => v_fsm s = [] /\ v_applied s = 0 /\ tr = [ESetTerm (d_term img) true]
   end).
Proof. exact recover_ok. Qed.
Print Assumptions C10_recover.

(* every store the handlers build keeps entries under their own index *)
Theorem C10_keys_ok_preserved : forall m es lo hi,
  keys_ok m -> keys_ok (log_store m es) /\ keys_ok (log_delete m lo hi).
Proof. intros. split; [apply keys_ok_store|apply keys_ok_delete]; assumption. Qed.

(* the entries replayed into the FSM (RestoreCommittedLogs, and every later commit) are exactly
   log(lastApplied, index] in increasing index order, each once *)
Theorem C10_replay_in_order : forall s idx s' tr,
  process_logs s idx = Some (s', tr) -> v_applied s < idx ->
  exists es,
    length es = N.to_nat (idx - v_applied s) /\
    (forall k, (k < length es)%nat -> d_log s !! (v_applied s + 1 + N.of_nat k) = Some (nth k es (mkE 0 0 0 0))) /\
    tr = flat_map fsm_events (filter handed es) /\
    v_applied s' = idx /\
    v_fsm s' = fold_left fsm_apply (filter handed es) (v_fsm s) /\
    d_log s' = d_log s.
Proof. exact process_logs_stream. Qed.
Print Assumptions C10_replay_in_order.

(* rejoin: a restarted server is well-formed for the vote/term theorems of C06 whatever the image *)
Theorem C10_restart_wellformed : forall P img r out,
  wfd img -> boot P img = (r, out) -> wfr r /\ dproj (image r) = dproj img.
Proof. exact boot_spec. Qed.
Print Assumptions C10_restart_wellformed.

(* KNOWN FINDING F4b (not repaired): with RestoreCommittedLogs, more than 128 batches of
   committed entries block NewRaft for ever.  The faithful model says so: *)
Example C10_refuted_blocks :
  let P := mkP 1 false true true 100 1 (fun _ => [mkSrv 0 1 1]) in
  let es := mkE 1 1 5 9000 :: map (fun i => mkE (N.of_nat i) 2 0 (200 + N.of_nat i)) (seq 2 139) in
  recover P (image_of 3 0 0 es 139 []) = RecBlocks.
Proof. vm_compute. reflexivity. Qed.

(* Non-vacuity: an image with a snapshot at 2, a later unreadable one at 3 (skipped), log 1..5. *)
Example C10_nontrivial :
  let cfg := [mkSrv 0 1 1; mkSrv 0 2 2; mkSrv 0 3 3] in
  let P := mkP 1 false false false 100 4 (fun _ => cfg) in
  let es := [mkE 1 1 5 9000; mkE 2 2 0 202; mkE 3 2 0 203; mkE 4 2 5 9000; mkE 5 3 0 305] in
  let img := image_of 3 3 3 es 0 [mkSnap 2 2 cfg 1 [202] true; mkSnap 3 2 cfg 1 [202; 203] false] in
  match recover P img with
  | RecOk s tr => v_term s = 3 /\ v_lastLogIdx s = 5 /\ v_lastLogTerm s = 3 /\ v_lastSnapIdx s = 2 /\
                  v_fsm s = [202] /\ v_latestIdx s = 4 /\ v_committedIdx s = 1 /\ d_vcand s = Some 2
  | _ => False
  end.
Proof. vm_compute. repeat split. Qed.

(* After the repair of finding F13 (fix: 22eb2ce): a commit index restored from the log store that covers the
   latest configuration leaves that configuration committed, for ANY durable image - so a restarted server that
   leads can open its membership-change gate (config_gate_open needs v_latestIdx = v_committedIdx) *)
From RaftProofs Require Import RecoverF13.
Theorem C10_restart_promotes_a_configuration_covered_by_the_restored_commit_index : forall P img s tr,
  recover P img = RecOk s tr -> 0 < v_commit s -> v_latestIdx s <= v_commit s ->
  v_committedIdx s = v_latestIdx s /\ v_committed s = v_latest s.
Proof. exact recover_promotes_covered_configuration. Qed.
Print Assumptions C10_restart_promotes_a_configuration_covered_by_the_restored_commit_index.
