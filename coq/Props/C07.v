(* C07 — Membership changes: one voter at a time, serialised, non-voters inert.
   Statements only; proofs in Proofs/ConfigProofs.v, Proofs/CommitmentProofs.v. *)
From Coq Require Import List NArith.
From stdpp Require Import gmap.
From RaftModel Require Import Base Config Commitment.
From RaftProofs Require Import ConfigProofs CommitmentProofs.
Open Scope N_scope.

(* every accepted change yields a well-formed configuration (>= 1 voter, unique non-empty ids
   and addresses): any configuration, any size, any request *)
Theorem C07_next_configuration_checked : forall cur idx q new,
  next_config cur idx q = Some new -> check_config new = true.
Proof. exact next_config_checked. Qed.
Print Assumptions C07_next_configuration_checked.

Theorem C07_checked_means : forall c, check_config c = true ->
  NoDup (map s_id c) /\ NoDup (map s_addr c) /\ voters c <> [] /\
  (forall s, In s c -> s_id s <> 0 /\ s_addr s <> 0).
Proof. exact check_config_facts. Qed.
Print Assumptions C07_checked_means.

(* ... and changes the vote (and the membership) of at most one server: the one it names *)
Theorem C07_one_voter_at_a_time : forall cur idx q new,
  next_config cur idx q = Some new ->
  forall x, x <> r_id q -> has_vote new x = has_vote cur x /\ in_config new x = in_config cur x.
Proof. exact next_config_one_voter. Qed.
Print Assumptions C07_one_voter_at_a_time.

(* a stale prevIndex is rejected (nextConfiguration is a function: nothing else happens) *)
Theorem C07_stale_prev_rejected : forall cur idx q,
  r_prev q <> 0 -> r_prev q <> idx -> next_config cur idx q = None.
Proof. exact next_config_stale_prev. Qed.
Print Assumptions C07_stale_prev_rejected.

(* majorities of two successive configurations always share a voter *)
Theorem C07_adjacent_majorities_intersect : forall cur idx q new Q Q',
  check_config cur = true -> next_config cur idx q = Some new ->
  majority (voters cur) Q -> majority (voters new) Q' -> exists x, In x Q /\ In x Q'.
Proof. exact next_config_majorities_intersect. Qed.
Print Assumptions C07_adjacent_majorities_intersect.

(* quorumSize is a strict majority of the voters and does not see non-voters *)
Theorem C07_quorum_size : forall c,
  let n := N.of_nat (length (voters c)) in
  2 * quorum_size c > n /\ (n > 0 -> quorum_size c <= n) /\ 2 * (quorum_size c - 1) <= n.
Proof. exact quorum_size_majority. Qed.
Print Assumptions C07_quorum_size.

Theorem C07_quorum_ignores_nonvoters : forall c s, is_voter s = false ->
  quorum_size (c ++ [s]) = quorum_size c /\ quorum_size (s :: c) = quorum_size c.
Proof. exact quorum_size_ignores_nonvoters. Qed.
Print Assumptions C07_quorum_ignores_nonvoters.

(* commitment never counts a server without a voter slot *)
Theorem C07_commitment_ignores_nonvoters : forall cfg start ops id,
  is_Some (cm_match (cm_run (cm_new cfg start) ops) !! id) <-> In id (voters (cfg_in_force cfg ops)).
Proof. exact only_voters_counted. Qed.
Print Assumptions C07_commitment_ignores_nonvoters.

Example C07_nontrivial :
  let cur := [mkSrv 0 1 1; mkSrv 0 2 2; mkSrv 1 3 3; mkSrv 2 4 4] in
  check_config cur = true /\
  next_config cur 7 (mkReq 3 1 0 7) = Some [mkSrv 0 2 2; mkSrv 1 3 3; mkSrv 2 4 4] /\   (* remove a voter *)
  next_config cur 7 (mkReq 3 1 0 6) = None /\                                          (* stale prev *)
  next_config [mkSrv 0 1 1] 7 (mkReq 3 1 0 0) = None /\                                (* last voter *)
  next_config cur 7 (mkReq 4 4 0 0) = Some [mkSrv 0 1 1; mkSrv 0 2 2; mkSrv 1 3 3; mkSrv 0 4 4]. (* promote *)
Proof. vm_compute. repeat split. Qed.

(* ------------------------------------------------------------------------------------------------
   Serialisation over ALL runs of one leadership (Proofs/LeaderGateSpec.v; proofs LeaderGateA.v,
   LeaderGateProofs.v).  The system is the leader-operation transition system of Model/LeaderCodec.v
   (dispatchLogs, match reports, the commitCh case, appendConfigurationEntry, restoreUserSnapshot,
   verifyLeader in any order, any number, with store failures), tied to the real leader code by
   component 8; leader_run takes an operation only while the role is Leader and a membership change only
   when configurationChangeChIfStable() would return the channel (the regenerated decision tree of that
   function is proved equal to config_gate_open below).
   My first statements were refuted by the prover sub-agent with compiled counterexamples
   (gate_serialises_is_false: dispatchLogs handed a configuration entry directly, which no caller does;
   gate_serialises_is_false_empty_run / own_term_entries_is_false: a start state whose log holds entries
   beyond its own last index).  The corrected statements name those two conditions. *)
From RaftModel Require Import Node Leader LeaderCodec.
From RaftProofs Require Import LeaderGateSpec LeaderGateA LeaderGateProofs.

(* "a leader appends a new configuration only after the previous one is committed and after an entry of
   its own term is committed, so no log ever holds two uncommitted configurations" - the leader's part:
   whenever the gate is open the latest configuration and the first index of this leadership are at or
   below the commit index; at most one configuration entry of this leadership is above the commit index,
   it is the latest configuration, and while it is there the gate is closed *)
Theorem C07_membership_changes_serialised_all_leader_runs :
  forall P tab s0 ops ls vf,
  leader_start_ok s0 ->
  (forall i e, d_log s0 !! i = Some e -> e_ty e = LogConfiguration -> e_idx e <= last_index s0) ->
  forallb no_config_req ops = true ->
  leader_run P tab (leader_setup s0) None ops = Some (ls, vf) ->
  (config_gate_open ls = true ->
     v_latestIdx (l_node ls) <= v_commit (l_node ls) /\ last_index s0 + 1 <= v_commit (l_node ls)) /\
  (length (pending_configs (last_index s0) (l_node ls)) <= 1)%nat /\
  (forall e, In e (pending_configs (last_index s0) (l_node ls)) ->
     e_idx e = v_latestIdx (l_node ls) /\ config_gate_open ls = false).
Proof. exact gate_serialises_corrected_holds. Qed.
Print Assumptions C07_membership_changes_serialised_all_leader_runs.

(* every entry created during the leadership carries the leader's term, which does not change: the first
   index of the leadership being committed IS an entry of its own term being committed *)
Theorem C07_entries_of_a_leadership_carry_its_term :
  forall P tab s0 ops ls vf,
  leader_start_ok s0 ->
  (forall i e, d_log s0 !! i = Some e -> i <= last_index s0) ->
  leader_run P tab (leader_setup s0) None ops = Some (ls, vf) ->
  v_term (l_node ls) = v_term s0 /\
  forall i e, last_index s0 < i -> d_log (l_node ls) !! i = Some e -> e_term e = v_term s0 /\ e_idx e = i.
Proof. exact own_term_entries_corrected_holds. Qed.
Print Assumptions C07_entries_of_a_leadership_carry_its_term.

(* a change taken along any run replaces a configuration that is committed at the leader, by one that
   differs in the vote and membership of at most the server it names, and is well formed *)
Theorem C07_each_change_replaces_a_committed_configuration_by_one_server : changes_one_at_a_time.
Proof. exact changes_one_at_a_time_holds. Qed.
Print Assumptions C07_each_change_replaces_a_committed_configuration_by_one_server.

(* without the gate two configuration entries of one leadership are above the commit index *)
Theorem C07_gate_is_necessary : gate_is_necessary.
Proof. exact gate_is_necessary_holds. Qed.

(* the first statements, kept as refuted *)
Theorem C07_first_statement_needs_dispatch_discipline : ~ gate_serialises.
Proof. exact gate_serialises_is_false. Qed.

(* non-vacuity: a run with two successive membership changes is accepted *)
Example C07_serialisation_nonvacuous := gate_nonvacuous.

(* Tie 2 (translator, every run): the decision tree of configurationChangeChIfStable, regenerated from
   raft.go (Model/GenTrees.v), returns the channel exactly when Model/Leader.v config_gate_open holds, for
   every leader state - so "LConfig only with the gate open" in leader_run above is what leaderLoop does *)
From RaftModel Require Import GenTrees Trees.
From RaftProofs Require Import GenTreesSpec GenTreesProofs.
Theorem C07_regenerated_gate_is_the_model : gate_tree_agrees.
Proof. exact gate_tree_agrees_holds. Qed.
Print Assumptions C07_regenerated_gate_is_the_model.
