(* C07 — Membership changes: one voter at a time, serialised, non-voters inert.
   Statements only; proofs in Proofs/ConfigProofs.v, Proofs/CommitmentProofs.v. *)
From Coq Require Import List NArith.
From stdpp Require Import gmap.
From RaftModel Require Import Base Config Commitment.
From RaftProofs Require Import ConfigProofs CommitmentProofs.
Open Scope N_scope.

(* every accepted change yields a well-formed configuration (>= 1 voter, unique non-empty ids
   and addresses): any configuration, any size, any request *)
Theorem C07_next_configuration_checked : forall cur idx q new,
  next_config cur idx q = Some new -> check_config new = true.
Proof. exact next_config_checked. Qed.
Print Assumptions C07_next_configuration_checked.

Theorem C07_checked_means : forall c, check_config c = true ->
  NoDup (map s_id c) /\ NoDup (map s_addr c) /\ voters c <> [] /\
  (forall s, In s c -> s_id s <> 0 /\ s_addr s <> 0).
Proof. exact check_config_facts. Qed.
Print Assumptions C07_checked_means.

(* ... and changes the vote (and the membership) of at most one server: the one it names *)
Theorem C07_one_voter_at_a_time : forall cur idx q new,
  next_config cur idx q = Some new ->
  forall x, x <> r_id q -> has_vote new x = has_vote cur x /\ in_config new x = in_config cur x.
Proof. exact next_config_one_voter. Qed.
Print Assumptions C07_one_voter_at_a_time.

(* a stale prevIndex is rejected (nextConfiguration is a function: nothing else happens) *)
Theorem C07_stale_prev_rejected : forall cur idx q,
  r_prev q <> 0 -> r_prev q <> idx -> next_config cur idx q = None.
Proof. exact next_config_stale_prev. Qed.
Print Assumptions C07_stale_prev_rejected.

(* majorities of two successive configurations always share a voter *)
Theorem C07_adjacent_majorities_intersect : forall cur idx q new Q Q',
  check_config cur = true -> next_config cur idx q = Some new ->
  majority (voters cur) Q -> majority (voters new) Q' -> exists x, In x Q /\ In x Q'.
Proof. exact next_config_majorities_intersect. Qed.
Print Assumptions C07_adjacent_majorities_intersect.

(* quorumSize is a strict majority of the voters and does not see non-voters *)
Theorem C07_quorum_size : forall c,
  let n := N.of_nat (length (voters c)) in
  2 * quorum_size c > n /\ (n > 0 -> quorum_size c <= n) /\ 2 * (quorum_size c - 1) <= n.
Proof. exact quorum_size_majority. Qed.
Print Assumptions C07_quorum_size.

Theorem C07_quorum_ignores_nonvoters : forall c s, is_voter s = false ->
  quorum_size (c ++ [s]) = quorum_size c /\ quorum_size (s :: c) = quorum_size c.
Proof. exact quorum_size_ignores_nonvoters. Qed.
Print Assumptions C07_quorum_ignores_nonvoters.

(* commitment never counts a server without a voter slot *)
Theorem C07_commitment_ignores_nonvoters : forall cfg start ops id,
  is_Some (cm_match (cm_run (cm_new cfg start) ops) !! id) <-> In id (voters (cfg_in_force cfg ops)).
Proof. exact only_voters_counted. Qed.
Print Assumptions C07_commitment_ignores_nonvoters.

Example C07_nontrivial :
  let cur := [mkSrv 0 1 1; mkSrv 0 2 2; mkSrv 1 3 3; mkSrv 2 4 4] in
  check_config cur = true /\
  next_config cur 7 (mkReq 3 1 0 7) = Some [mkSrv 0 2 2; mkSrv 1 3 3; mkSrv 2 4 4] /\   (* remove a voter *)
  next_config cur 7 (mkReq 3 1 0 6) = None /\                                          (* stale prev *)
  next_config [mkSrv 0 1 1] 7 (mkReq 3 1 0 0) = None /\                                (* last voter *)
  next_config cur 7 (mkReq 4 4 0 0) = Some [mkSrv 0 1 1; mkSrv 0 2 2; mkSrv 1 3 3; mkSrv 0 4 4]. (* promote *)
Proof. vm_compute. repeat split. Qed.
