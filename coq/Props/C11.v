(* C11 — Snapshots and compaction never lose history.
   Statements only; proofs in Proofs/CompactionProofs.v, SnapshotProofs.v (one server) and
   Proofs/ClusterCommitSnap*.v (all runs of the cluster with commitment and takeSnapshot). *)
From Coq Require Import List NArith.
From stdpp Require Import gmap.
From RaftModel Require Import Base Config Compaction Node NodeCodec Cluster ClusterLog ClusterCommit.
From RaftProofs Require Import CompactionProofs SnapshotProofs ClusterCommitSpec ClusterCommitSnapSpec ClusterCommitSnapMain ClusterCoverSpec ClusterCoverMain.
Open Scope N_scope.

(* whatever first/snapshot/last/TrailingLogs: the range deleted starts at the first index, ends at
   or below the snapshot, and leaves at least TrailingLogs entries below the last index *)
Theorem C11_compaction_range : forall f s l t lo hi,
  compact f s l t = Some (lo, hi) -> lo = f /\ hi <= s /\ hi + t <= l /\ f <= hi.
Proof. exact compaction_range. Qed.
Print Assumptions C11_compaction_range.

Theorem C11_compaction_none : forall f s l t,
  compact f s l t = None -> l <= t \/ N.min s (l - t) < f.
Proof. exact compaction_none. Qed.
Print Assumptions C11_compaction_none.

Theorem C11_compaction_max : forall f s l t lo hi,
  compact f s l t = Some (lo, hi) -> hi = N.min s (l - t).
Proof. exact compaction_max. Qed.
Print Assumptions C11_compaction_max.

(* the wholesale reset used on stores that cannot hold gaps removes exactly what the store holds *)
Theorem C11_reset_removes_all : forall f l, 0 < f -> f <= l -> remove_old f l = Some (f, l).
Proof. exact remove_old_all. Qed.
Print Assumptions C11_reset_removes_all.


(* ---- takeSnapshot (Model/Node.v take_snapshot, tied to the real takeSnapshot in node sequences):
   a snapshot that was taken records exactly the FSM goroutine's last index and term, the
   COMMITTED configuration with its index, and the FSM content; its index is at or above the
   committed configuration's index; afterwards the log has lost at most one range, entirely at or
   below the snapshot index and leaving TrailingLogs entries. *)
Theorem C11_snapshot_records_committed_state : forall P s fs s' code tr fs',
  take_snapshot P s fs = Done s' code tr fs' -> code = 0 \/ code = 5 ->
  exists sn, d_snaps s' = d_snaps s ++ [sn] /\
    (sn_idx sn, sn_term sn) = v_fsmLast s /\ sn_cfg sn = v_committed s /\ sn_cfgidx sn = v_committedIdx s /\
    sn_data sn = v_fsm s /\ v_committedIdx s <= sn_idx sn /\ 0 < sn_idx sn /\
    v_lastSnapIdx s' = sn_idx sn /\ v_lastSnapTerm s' = sn_term sn /\
    (d_log s' = d_log s \/
     exists lo hi, d_log s' = log_delete (d_log s) lo hi /\ hi <= sn_idx sn /\
                   (p_trailing P < v_lastLogIdx s -> hi <= v_lastLogIdx s - p_trailing P)).
Proof. exact take_snapshot_records. Qed.
Print Assumptions C11_snapshot_records_committed_state.

Theorem C11_snapshot_refused_or_nothing_new : forall P s fs,
  (fst (v_fsmLast s) = 0 -> take_snapshot P s fs = Done s 2 [] fs) /\
  (fst (v_fsmLast s) <> 0 -> fst (v_fsmLast s) < v_committedIdx s -> take_snapshot P s fs = Done s 3 [] fs).
Proof. exact take_snapshot_refusals. Qed.

Example C11_nontrivial :
  compact 3 10 20 5 = Some (3, 10) /\ compact 3 18 20 5 = Some (3, 15) /\
  compact 3 10 4 5 = None /\ compact 12 10 20 5 = None.
Proof. vm_compute. repeat split. Qed.


(* ALL RUNS of the cluster with commitment and takeSnapshot (Model/ClusterCommit.v, crun true): every
   snapshot stored anywhere (running or stopped server) carries the term of the COMMITTED entry at its
   index - wherever a running server still holds an entry at that index at or below its commit index, the
   terms agree - and two snapshots of one index have one term: "a snapshot's index and term are exactly
   those of the committed history at that index".  (Configuration and FSM content of the snapshot: the
   one-server theorem C11_snapshot_records_committed_state.) *)
Theorem C11_snapshots_are_of_committed_history : forall cfg g0 ls g,
  cinit_snap_ok cfg g0 -> Forall label_ok ls -> crun true [cfg] g0 ls = Some g ->
  snapshots_committed g.
Proof. intros cfg g0 ls g H0 Hl Hr. destruct (state_machine_safety_snapshots cfg g0 ls g H0 Hl Hr) as (_ & _ & _ & A). exact A. Qed.
Print Assumptions C11_snapshots_are_of_committed_history.


(* ALL RUNS, coverage: in the DURABLE state of every server - running, or stopped by a crash cut after any
   durable operation of any handler or of takeSnapshot (image) - every index is at or below the NEWEST
   snapshot of its snapshot store, or present in its log store, or beyond the end of the log store: no hole
   above the newest snapshot and nothing missing between it and the first log entry; and the snapshots of one
   store have increasing indexes (so the newest, which NewRaft restores, is the largest).  Statement:
   Proofs/ClusterCoverSpec.v; proof by a prover sub-agent (Proofs/ClusterCover*.v, on top of the invariant of
   the snapshot system).  Snapshot TRANSFER is not in this system (F3-ii / F12). *)
Theorem C11_no_history_lost_all_runs : forall cfg g0 ls g,
  cinit_snap_ok cfg g0 -> Forall label_ok ls -> crun true [cfg] g0 ls = Some g ->
  no_history_lost g /\ snaps_increasing g.
Proof. exact no_history_lost_all_runs. Qed.
Print Assumptions C11_no_history_lost_all_runs.

(* Tie 2 (translator, every run): the decision tree of compactLogsWithTrailing, regenerated from snapshot.go
   (Model/GenTrees.v: the guards, the local definition maxLog := min(snapIdx, lastLogIdx-trailingLogs) and the
   DeleteRange call), issues exactly the range of Model/Compaction.v compact - at most one DeleteRange, never
   above min(snapshot index, last - trailing) - for all values of first/snapshot/last/trailing *)
From RaftModel Require Import GenTrees Trees.
From RaftProofs Require Import GenTreesSpec GenTreesProofs.
Theorem C11_regenerated_compaction_is_the_model : compaction_tree_agrees.
Proof. exact compaction_tree_agrees_holds. Qed.
Print Assumptions C11_regenerated_compaction_is_the_model.
