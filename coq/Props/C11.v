(* C11 — Snapshots and compaction never lose history (compaction arithmetic).
   Statements only; proofs in Proofs/CompactionProofs.v. *)
From Coq Require Import List NArith.
From RaftModel Require Import Base Compaction.
From RaftProofs Require Import CompactionProofs.
Open Scope N_scope.

(* whatever first/snapshot/last/TrailingLogs: the range deleted starts at the first index, ends at
   or below the snapshot, and leaves at least TrailingLogs entries below the last index *)
Theorem C11_compaction_range : forall f s l t lo hi,
  compact f s l t = Some (lo, hi) -> lo = f /\ hi <= s /\ hi + t <= l /\ f <= hi.
Proof. exact compaction_range. Qed.
Print Assumptions C11_compaction_range.

Theorem C11_compaction_none : forall f s l t,
  compact f s l t = None -> l <= t \/ N.min s (l - t) < f.
Proof. exact compaction_none. Qed.
Print Assumptions C11_compaction_none.

Theorem C11_compaction_max : forall f s l t lo hi,
  compact f s l t = Some (lo, hi) -> hi = N.min s (l - t).
Proof. exact compaction_max. Qed.
Print Assumptions C11_compaction_max.

(* the wholesale reset used on stores that cannot hold gaps removes exactly what the store holds *)
Theorem C11_reset_removes_all : forall f l, 0 < f -> f <= l -> remove_old f l = Some (f, l).
Proof. exact remove_old_all. Qed.
Print Assumptions C11_reset_removes_all.

Example C11_nontrivial :
  compact 3 10 20 5 = Some (3, 10) /\ compact 3 18 20 5 = Some (3, 15) /\
  compact 3 10 4 5 = None /\ compact 12 10 20 5 = None.
Proof. vm_compute. repeat split. Qed.
