(* C05 — Commit only on a majority of voters, current-term rule, monotone.
   Statements only; proofs in Proofs/CommitmentProofs.v. *)
From Coq Require Import List NArith.
From stdpp Require Import gmap.
From RaftModel Require Import Base Config Commitment.
From RaftProofs Require Import CommitmentProofs.
Open Scope N_scope.

(* The index picked from the sorted match indexes (position (n-1)/2) is exactly the largest
   index matched by a strict majority: any number of servers, any values. *)
Theorem C05_quorum_index_spec : forall vals, vals <> [] ->
  let q := quorum_idx_of vals in
  (2 * count_ge q vals > length vals)%nat /\
  (forall i, q < i -> (2 * count_ge i vals <= length vals)%nat).
Proof. exact quorum_index_spec. Qed.
Print Assumptions C05_quorum_index_spec.

(* Any sequence of match reports and configuration changes, any configuration, any start
   index: a non-zero commit index is >= startIndex (current-term rule) and was matched by a
   strict majority of the voter slots in force at the moment it was set. *)
Theorem C05_commit_sound : forall cfg start ops,
  let c := cm_run (cm_new cfg start) ops in
  cm_commit c = 0 \/
  (start <= cm_commit c /\
   exists k, (k <= length ops)%nat /\
     quorum_ok (cm_match (cm_run (cm_new cfg start) (firstn k ops))) (cm_commit c)).
Proof. exact commit_sound. Qed.
Print Assumptions C05_commit_sound.

(* Slots exist exactly for the voters of the configuration in force, one per id. *)
Theorem C05_only_voters_counted : forall cfg start ops id,
  is_Some (cm_match (cm_run (cm_new cfg start) ops) !! id) <-> In id (voters (cfg_in_force cfg ops)).
Proof. exact only_voters_counted. Qed.
Print Assumptions C05_only_voters_counted.

Theorem C05_nonvoter_report_ignored : forall c id idx,
  cm_match c !! id = None -> cm_step c (CMatch id idx) = c.
Proof. exact match_nonvoter_ignored. Qed.
Print Assumptions C05_nonvoter_report_ignored.

(* A slot only ever holds 0 or an index reported for that very server. *)
Theorem C05_slot_values_reported : forall ops c id v,
  cm_match (cm_run c ops) !! id = Some v ->
  v = 0 \/ cm_match c !! id = Some v \/ In (CMatch id v) ops.
Proof. exact slot_values_reported. Qed.
Print Assumptions C05_slot_values_reported.

Theorem C05_monotone : forall c ops, cm_commit c <= cm_commit (cm_run c ops).
Proof. exact commit_run_monotone. Qed.
Print Assumptions C05_monotone.

(* Figure 8: the commit index never moves to an index below startIndex. *)
Theorem C05_current_term_rule : forall c o,
  cm_commit (cm_step c o) <> cm_commit c -> cm_start c <= cm_commit (cm_step c o).
Proof. exact current_term_rule. Qed.
Print Assumptions C05_current_term_rule.

(* Follower: commit' = min(LeaderCommit, index of the request's last entry, lastIndex), only upward. *)
Theorem C05_follower_commit : forall commit lc ln last,
  let c' := follower_commit commit lc ln last in commit <= c' /\ (c' = commit \/ (c' <= lc /\ c' <= ln /\ c' <= last)).
Proof. exact follower_commit_spec. Qed.
Print Assumptions C05_follower_commit.

(* Non-vacuity: 5 servers (3 voters, a non-voter, a staging server); an old-term majority does
   not commit (start = 5), a current-term majority does; the non-voter's report is ignored. *)
Example C05_nontrivial :
  let cfg := [mkSrv 0 1 1; mkSrv 0 2 2; mkSrv 0 3 3; mkSrv 1 4 4; mkSrv 2 5 5] in
  map cm_commit
      [cm_run (cm_new cfg 5) [CMatch 1 4; CMatch 2 4];
       cm_run (cm_new cfg 5) [CMatch 1 5; CMatch 4 9; CMatch 5 9];
       cm_run (cm_new cfg 5) [CMatch 1 5; CMatch 4 9; CMatch 2 6]] = [0; 0; 5].
Proof. vm_compute. reflexivity. Qed.
