(* C05 — Commit only on a majority of voters, current-term rule, monotone.
   Statements only; proofs in Proofs/CommitmentProofs.v (the commitment tracker) and
   Proofs/ClusterQuorum*.v (ALL RUNS of the cluster with commitment, Model/ClusterCommit.v; end of file):
   whatever a running server reports inside its commit index is held identically in the durable log
   store of a strict majority of the voters (or covered by that voter's snapshot), a leader's commit
   index enters the range of its own leadership only when its own-term no-op is on such a majority,
   the commit index never exceeds the last index (C02) and no step lowers it except a step that
   restarts that very server.
   PARTIAL: one configuration (membership changes are outside the composed system: F8 lives there);
   snapshot TRANSFER is outside (F3-ii, F12). *)
From Coq Require Import List NArith.
From stdpp Require Import gmap.
From RaftModel Require Import Base Config Commitment Node NodeCodec Cluster ClusterLog ClusterCommit.
From RaftProofs Require Import CommitmentProofs ClusterCommitSpec ClusterCommitSnapSpec ClusterQuorumSpec ClusterQuorumMonoSpec ClusterQuorumMain.
Open Scope N_scope.

(* The index picked from the sorted match indexes (position (n-1)/2) is exactly the largest
   index matched by a strict majority: any number of servers, any values. *)
Theorem C05_quorum_index_spec : forall vals, vals <> [] ->
  let q := quorum_idx_of vals in
  (2 * count_ge q vals > length vals)%nat /\
  (forall i, q < i -> (2 * count_ge i vals <= length vals)%nat).
Proof. exact quorum_index_spec. Qed.
Print Assumptions C05_quorum_index_spec.

(* Any sequence of match reports and configuration changes, any configuration, any start
   index: a non-zero commit index is >= startIndex (current-term rule) and was matched by a
   strict majority of the voter slots in force at the moment it was set. *)
Theorem C05_commit_sound : forall cfg start ops,
  let c := cm_run (cm_new cfg start) ops in
  cm_commit c = 0 \/
  (start <= cm_commit c /\
   exists k, (k <= length ops)%nat /\
     quorum_ok (cm_match (cm_run (cm_new cfg start) (firstn k ops))) (cm_commit c)).
Proof. exact commit_sound. Qed.
Print Assumptions C05_commit_sound.

(* Slots exist exactly for the voters of the configuration in force, one per id. *)
Theorem C05_only_voters_counted : forall cfg start ops id,
  is_Some (cm_match (cm_run (cm_new cfg start) ops) !! id) <-> In id (voters (cfg_in_force cfg ops)).
Proof. exact only_voters_counted. Qed.
Print Assumptions C05_only_voters_counted.

Theorem C05_nonvoter_report_ignored : forall c id idx,
  cm_match c !! id = None -> cm_step c (CMatch id idx) = c.
Proof. exact match_nonvoter_ignored. Qed.
Print Assumptions C05_nonvoter_report_ignored.

(* A slot only ever holds 0 or an index reported for that very server. *)
Theorem C05_slot_values_reported : forall ops c id v,
  cm_match (cm_run c ops) !! id = Some v ->
  v = 0 \/ cm_match c !! id = Some v \/ In (CMatch id v) ops.
Proof. exact slot_values_reported. Qed.
Print Assumptions C05_slot_values_reported.

Theorem C05_monotone : forall c ops, cm_commit c <= cm_commit (cm_run c ops).
Proof. exact commit_run_monotone. Qed.
Print Assumptions C05_monotone.

(* Figure 8: the commit index never moves to an index below startIndex. *)
Theorem C05_current_term_rule : forall c o,
  cm_commit (cm_step c o) <> cm_commit c -> cm_start c <= cm_commit (cm_step c o).
Proof. exact current_term_rule. Qed.
Print Assumptions C05_current_term_rule.

(* Follower: commit' = min(LeaderCommit, index of the request's last entry, lastIndex), only upward. *)
Theorem C05_follower_commit : forall commit lc ln last,
  let c' := follower_commit commit lc ln last in commit <= c' /\ (c' = commit \/ (c' <= lc /\ c' <= ln /\ c' <= last)).
Proof. exact follower_commit_spec. Qed.
Print Assumptions C05_follower_commit.

(* Non-vacuity: 5 servers (3 voters, a non-voter, a staging server); an old-term majority does
   not commit (start = 5), a current-term majority does; the non-voter's report is ignored. *)
Example C05_nontrivial :
  let cfg := [mkSrv 0 1 1; mkSrv 0 2 2; mkSrv 0 3 3; mkSrv 1 4 4; mkSrv 2 5 5] in
  map cm_commit
      [cm_run (cm_new cfg 5) [CMatch 1 4; CMatch 2 4];
       cm_run (cm_new cfg 5) [CMatch 1 5; CMatch 4 9; CMatch 5 9];
       cm_run (cm_new cfg 5) [CMatch 1 5; CMatch 4 9; CMatch 2 6]] = [0; 0; 5].
Proof. vm_compute. reflexivity. Qed.


(* ================= ALL RUNS of the cluster with commitment (Model/ClusterCommit.v) =================
   Statements: Proofs/ClusterQuorumSpec.v (mine); proofs by a prover sub-agent on top of the invariant of
   State Machine Safety (acceptance records of a majority + Leader Completeness: an acceptor still holds
   what it accepted unless a later leader lacked it, which Leader Completeness excludes). *)

(* every entry inside the commit index of a running server is in the durable log store (running or crashed
   server: image) of each member of a strict majority of the voters, each counted once, nobody else *)
Theorem C05_commit_backed_by_voter_majority_all_runs : forall cfg g0 ls g,
  cinit_ok cfg g0 -> Forall label_ok ls -> crun false [cfg] g0 ls = Some g -> commit_backed cfg g.
Proof. exact commit_backed_all_runs. Qed.
Print Assumptions C05_commit_backed_by_voter_majority_all_runs.

(* with takeSnapshot/compaction anywhere, any time: ... or at or below a snapshot that voter stores *)
Theorem C05_commit_backed_by_voter_majority_all_runs_with_snapshots : forall cfg g0 ls g,
  cinit_snap_ok cfg g0 -> Forall label_ok ls -> crun true [cfg] g0 ls = Some g -> commit_backed_snap cfg g.
Proof. exact commit_backed_all_runs_snapshots. Qed.
Print Assumptions C05_commit_backed_by_voter_majority_all_runs_with_snapshots.

(* current-term rule: a Leader's commit index is below the index of its own no-op (what it had learned as a
   follower), or an entry of ITS term at that index is durably stored by a strict majority of the voters *)
Theorem C05_own_term_rule_all_runs : forall cfg g0 ls g,
  cinit_ok cfg g0 -> Forall label_ok ls -> crun false [cfg] g0 ls = Some g -> own_term_rule cfg g.
Proof. exact own_term_rule_all_runs. Qed.
Print Assumptions C05_own_term_rule_all_runs.
Theorem C05_own_term_rule_all_runs_with_snapshots : forall cfg g0 ls g,
  cinit_snap_ok cfg g0 -> Forall label_ok ls -> crun true [cfg] g0 ls = Some g -> own_term_rule_snap cfg g.
Proof. exact own_term_rule_all_runs_snapshots. Qed.
Print Assumptions C05_own_term_rule_all_runs_with_snapshots.

(* monotone: no step of any run lowers the commit index of a server that runs before and after it, except the
   step that restarts that very server - by the restart label or because the process dies inside the handler
   the step runs there (crash cut reached / panic) and boots again from its durable image within the step
   (NodeCodec.finish).  My first statement forgot the second way of restarting and is REFUTED by the prover
   with a compiled run (C05_commit_monotone_first_statement_is_false). *)
Theorem C05_commit_index_never_decreases_all_runs : forall sn cfg g0 ls g l g',
  cinit_snap_ok cfg g0 -> Forall label_ok ls -> crun sn [cfg] g0 ls = Some g ->
  label_ok l -> cstep sn [cfg] g l = Some g' -> commit_monotone_step_crash g l g'.
Proof. exact commit_monotone_crash_all_runs. Qed.
Print Assumptions C05_commit_index_never_decreases_all_runs.
Theorem C05_commit_monotone_first_statement_is_false :
  ~ (forall sn cfg g0 ls g l g',
       cinit_snap_ok cfg g0 -> Forall label_ok ls -> crun sn [cfg] g0 ls = Some g ->
       label_ok l -> cstep sn [cfg] g l = Some g' -> commit_monotone_step g l g').
Proof. exact commit_monotone_all_runs_is_false. Qed.
