(* C16 — NetworkTransport delivers RPCs faithfully and pipelines in order.
   Statements only; proofs in Proofs/PipelineProofs.v.  Model: Model/Pipeline.v (netPipeline:
   inprogressCh FIFO, one decoder goroutine, in-band handler errors, connection kill), tied to the
   real NetworkTransport by scripted pipelines (component 16).  Field fidelity of every RPC kind is
   the codec law `prefix_roundtrip` below: a HYPOTHESIS here (msgpack is not modelled), checked on
   the implementation by the field-by-field comparison of generated messages (component 1016). *)
From Coq Require Import List NArith.
From RaftModel Require Import Base Pipeline.
From RaftProofs Require Import PipelineProofs.
Open Scope N_scope.

(* For ANY script of sends, handler answers, handler errors and connection kills, in any order and
   depth: a request that resolves with a response resolves with the response to ITS OWN request. *)
Theorem C16_each_response_paired_with_its_own_request : forall ops k t,
  In (k, Some t) (pipe_run ops) -> t = k.
Proof. exact pipeline_pairing. Qed.
Print Assumptions C16_each_response_paired_with_its_own_request.

(* ... and the responses are delivered in send order (the delivered tags are a subsequence of the
   sent tags) *)
Theorem C16_responses_in_send_order : forall ops,
  subseq (successes (pipe_run ops)) (sends_of ops).
Proof. exact pipeline_fifo. Qed.
Print Assumptions C16_responses_in_send_order.

(* a failed exchange yields errors only: nothing sent or still pending when the connection dies
   ever receives a response *)
Theorem C16_no_response_after_connection_failure : forall ops1 ops2,
  successes (pipe_run (ops1 ++ PKill :: ops2)) = successes (pipe_run (ops1 ++ [PKill])).
Proof. exact pipeline_no_success_after_kill. Qed.
Print Assumptions C16_no_response_after_connection_failure.

(* byte level: whatever the codec, if a decoder reads exactly one encoded message off the front of
   a stream, then messages written back to back on a connection are read back whole and in order *)
Theorem C16_stream_of_frames_decodes_in_order : forall (msg : Type) (enc : msg -> list N)
  (dec : list N -> option (msg * list N)),
  (forall m rest, dec (enc m ++ rest) = Some (m, rest)) -> (forall m, enc m <> []) ->
  forall ms, decode_stream msg dec (length ms) (flat_map enc ms) = ms.
Proof. exact stream_roundtrip. Qed.
Print Assumptions C16_stream_of_frames_decodes_in_order.

(* non-vacuity: a pipeline of depth 3, one handler error, a kill with one request outstanding and
   a send after the kill *)
Example C16_example :
  pipe_run [PSend 1; PSend 2; PSend 3; PAnswer; PError; PSend 4; PKill; PSend 5]
  = [(1, Some 1); (2, None); (3, None); (4, None); (5, None)].
Proof. reflexivity. Qed.
