(* C08 — Client-visible outcome of Apply/Barrier is exact (at most once, ordered).
   Statements only; proofs in Proofs/LeaderProofs.v.  Leader-side model: Model/Leader.v, tied to
   the code by the leader-sequence correspondence (component 8, incl. a batching FSM).
   CLUSTER LEVEL (end of file): a future answered without error means the entry is committed at
   exactly that index on the answering leader (C08_acknowledged_means_committed_there), and by
   C03_acknowledged_entries_are_permanent / C02_state_machine_safety_all_runs it stays the entry of
   that index on every later leader and on every server that learns the index committed.
   PARTIAL: "never stored on any server" for the definite failures and exactly-once across restarts
   with snapshots are checked on real histories
   (monitors applied-more-than-once, applied-at-another-index, definitely-failed-command-stored,
   barrier-returned-before-earlier-entry-applied, index-not-above-earlier-acks). *)
From Coq Require Import List NArith.
From stdpp Require Import gmap.
From RaftModel Require Import Base Config Commitment Node NodeCodec Leader Cluster ClusterLog ClusterCommit.
From RaftProofs Require Import LeaderProofs ClusterCommitSpec ClusterCommitAcks2.
Open Scope N_scope.

(* whatever mix of commands, barriers and configurations a batch holds and whichever carry a
   future: each future gets the FSM's response for ITS OWN entry, at that entry's index *)
Theorem C08_response_pairing : forall reqs,
  apply_batch reqs =
  flat_map (fun x => match snd x with
                     | Some fid => [mkFR fid (e_idx (fst x)) E_OK (own_response (fst x))]
                     | None => [] end) reqs.
Proof. exact apply_batch_pairing. Qed.
Print Assumptions C08_response_pairing.

(* dispatch assigns consecutive indices above the leader's last index, in call order *)
Theorem C08_dispatch_indices : forall P ls fs reqs k ty data fid,
  nth_error reqs k = Some (ty, data, fid) ->
  let '(ls', _, _, _) := dispatch P ls fs reqs in
  In (mkE (last_index (l_node ls) + 1 + N.of_nat k) (v_term (l_node ls)) ty data, fid) (l_inflight ls').
Proof. exact dispatch_indices. Qed.
Print Assumptions C08_dispatch_indices.

(* only futures at or below the commit index are answered by the commit processing *)
Theorem C08_only_committed_acknowledged : forall ls ls' tr res,
  leader_commit ls = Some (ls', tr, res) ->
  exists ready, l_inflight ls = ready ++ l_inflight ls' /\
                forall x, In x ready -> e_idx (fst x) <= cm_commit (l_cm ls).
Proof. exact leader_commit_takes_committed. Qed.
Print Assumptions C08_only_committed_acknowledged.

Example C08_nontrivial :
  apply_batch [(mkE 5 2 0 501, Some 11); (mkE 6 2 4 0, Some 12); (mkE 7 2 5 9000, None); (mkE 8 2 0 502, Some 13)]
  = [mkFR 11 5 0 (resp_of 501); mkFR 12 6 0 0; mkFR 13 8 0 (resp_of 502)].
Proof. vm_compute. reflexivity. Qed.


(* CLUSTER LEVEL (Model/ClusterCommit.v): whenever a step of any run answers a future without error,
   the answering server is the Leader of the term recorded, the entry is in its log at its index, and
   that index is at or below its commit index - "committed at exactly the returned index". *)
Theorem C08_acknowledged_means_committed_there : forall cfg g0 ls g l g' T e,
  cinit_ok cfg g0 -> Forall label_ok ls -> crun false [cfg] g0 ls = Some g ->
  cstep false [cfg] g l = Some g' -> In (T, e) (step_acks g l) ->
  exists i n' s', l = CCommit i /\ find_node (cnodes g') i = Some n' /\ gn_run n' = Up s' /\
    v_role s' = Leader /\ v_term s' = T /\ e_idx e <= v_commit s' /\ d_log s' !! e_idx e = Some e.
Proof. exact acks_are_committed_when_answered. Qed.
Print Assumptions C08_acknowledged_means_committed_there.
