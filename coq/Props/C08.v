(* C08 — Client-visible outcome of Apply/Barrier is exact (at most once, ordered).
   Statements only; proofs in Proofs/LeaderProofs.v.  Leader-side model: Model/Leader.v, tied to
   the code by the leader-sequence correspondence (component 8, incl. a batching FSM).
   CLUSTER LEVEL (end of file): a future answered without error means the entry is committed at
   exactly that index on the answering leader (C08_acknowledged_means_committed_there), and by
   C03_acknowledged_entries_are_permanent / C02_state_machine_safety_all_runs it stays the entry of
   that index on every later leader and on every server that learns the index committed.
   ORDER (C08_index_above_everything_acknowledged_before_the_call): cut ANY run of the cluster at a
   dispatchLogs step; whatever any leader of any term acknowledged to a client before that step has a
   smaller index than the entry the step creates, if that entry is ever acknowledged - with and without
   takeSnapshot/compaction.
   DEFINITE FAILURES (C08_rejected_calls_are_never_dispatched): over the control-flow paths that the
   translator go/gotables extracts from raft.go / api.go on every run (Model/LoopTable.v case_paths,
   api_paths; decision procedure Model/Paths.v): a path of a main-loop case that answers the received
   Apply / Barrier / membership / restore future with ErrNotLeader or ErrLeadershipTransferInProgress
   calls nothing but state readers (no dispatchLogs, appendConfigurationEntry, restoreUserSnapshot) and
   hands the future to nobody; outside leaderLoop those queues are ONLY answered ErrNotLeader; ApplyLog /
   Barrier / requestConfigChange return an errorFuture (ErrEnqueueTimeout, ErrRaftShutdown) only on paths
   that did not send the future to a queue.
   PARTIAL: the path enumeration is syntactic (order and presence of calls, not data flow); exactly-once
   across restarts with snapshots is checked on real histories
   (monitors applied-more-than-once, applied-at-another-index, definitely-failed-command-stored,
   barrier-returned-before-earlier-entry-applied, index-not-above-earlier-acks). *)
From Coq Require Import List NArith.
From stdpp Require Import gmap.
From RaftModel Require Import Base Config Commitment Node NodeCodec Leader Cluster ClusterLog ClusterCommit LoopTable Paths.
From RaftProofs Require Import LeaderProofs ClusterCommitSpec ClusterCommitSnapSpec ClusterCommitAcks2 ClusterOrderSpec ClusterOrderMain.
Open Scope N_scope.

(* whatever mix of commands, barriers and configurations a batch holds and whichever carry a
   future: each future gets the FSM's response for ITS OWN entry, at that entry's index *)
Theorem C08_response_pairing : forall reqs,
  apply_batch reqs =
  flat_map (fun x => match snd x with
                     | Some fid => [mkFR fid (e_idx (fst x)) E_OK (own_response (fst x))]
                     | None => [] end) reqs.
Proof. exact apply_batch_pairing. Qed.
Print Assumptions C08_response_pairing.

(* dispatch assigns consecutive indices above the leader's last index, in call order *)
Theorem C08_dispatch_indices : forall P ls fs reqs k ty data fid,
  nth_error reqs k = Some (ty, data, fid) ->
  let '(ls', _, _, _) := dispatch P ls fs reqs in
  In (mkE (last_index (l_node ls) + 1 + N.of_nat k) (v_term (l_node ls)) ty data, fid) (l_inflight ls').
Proof. exact dispatch_indices. Qed.
Print Assumptions C08_dispatch_indices.

(* only futures at or below the commit index are answered by the commit processing *)
Theorem C08_only_committed_acknowledged : forall ls ls' tr res,
  leader_commit ls = Some (ls', tr, res) ->
  exists ready, l_inflight ls = ready ++ l_inflight ls' /\
                forall x, In x ready -> e_idx (fst x) <= cm_commit (l_cm ls).
Proof. exact leader_commit_takes_committed. Qed.
Print Assumptions C08_only_committed_acknowledged.

Example C08_nontrivial :
  apply_batch [(mkE 5 2 0 501, Some 11); (mkE 6 2 4 0, Some 12); (mkE 7 2 5 9000, None); (mkE 8 2 0 502, Some 13)]
  = [mkFR 11 5 0 (resp_of 501); mkFR 12 6 0 0; mkFR 13 8 0 (resp_of 502)].
Proof. vm_compute. reflexivity. Qed.


(* CLUSTER LEVEL (Model/ClusterCommit.v): whenever a step of any run answers a future without error,
   the answering server is the Leader of the term recorded, the entry is in its log at its index, and
   that index is at or below its commit index - "committed at exactly the returned index". *)
Theorem C08_acknowledged_means_committed_there : forall cfg g0 ls g l g' T e,
  cinit_ok cfg g0 -> Forall label_ok ls -> crun false [cfg] g0 ls = Some g ->
  cstep false [cfg] g l = Some g' -> In (T, e) (step_acks g l) ->
  exists i n' s', l = CCommit i /\ find_node (cnodes g') i = Some n' /\ gn_run n' = Up s' /\
    v_role s' = Leader /\ v_term s' = T /\ e_idx e <= v_commit s' /\ d_log s' !! e_idx e = Some e.
Proof. exact acks_are_committed_when_answered. Qed.
Print Assumptions C08_acknowledged_means_committed_there.


(* DEFINITE FAILURES, on the paths regenerated from the Go source on every run (finite table: decided by
   computation): see the header.  rows_present guards against vacuity (the three loops and the three
   storing queues, and the three API constructors, must be found in the source). *)
Theorem C08_rejected_calls_are_never_dispatched : paths_ok = true.
Proof. vm_compute. reflexivity. Qed.
Print Assumptions C08_rejected_calls_are_never_dispatched.

(* what paths_ok says, unfolded for one row: every path of every case on a storing queue *)
Theorem C08_rejected_path_spec : forall lp q ps p,
  In (lp, q, ps) case_paths -> mem q storing_queues = true -> In p ps ->
  existsb is_definite_respond p = true ->
  existsb is_effect_call p = false /\ existsb is_send p = false.
Proof.
  intros lp q ps p Hrow Hq Hp Hd. pose proof C08_rejected_calls_are_never_dispatched as H.
  unfold paths_ok in H. repeat (apply Bool.andb_true_iff in H; destruct H as [H ?]).
  match goal with Hc : forallb case_rejections_ok case_paths = true |- _ => rewrite forallb_forall in Hc; specialize (Hc _ Hrow) end.
  match goal with Hc : case_rejections_ok _ = true |- _ => unfold case_rejections_ok in Hc; rewrite Hq in Hc; rewrite forallb_forall in Hc; specialize (Hc _ Hp);
    unfold rejected_path_ok in Hc; rewrite Hd in Hc end.
  match goal with Hc : _ && _ && _ = true |- _ => repeat (apply Bool.andb_true_iff in Hc; destruct Hc as [Hc ?]) end.
  split; apply Bool.negb_true_iff; assumption.
Qed.
Print Assumptions C08_rejected_path_spec.

Example C08_rejections_exist : rejections_exist = true.
  (* non-vacuity: the follower loop answers applyCh with ErrNotLeader on its only path; the leader loop has a
     rejecting path (transfer in progress) and a dispatching one *)
Proof. vm_compute. reflexivity. Qed.


(* ORDER, over all runs (statement: Proofs/ClusterOrderSpec.v acks_ordered; proof by a prover sub-agent,
   Proofs/ClusterOrderCore.v: both keys are known committed, hence on one branch of the history; were the
   new entry not above the acknowledged one it would have been created before the call - but every entry
   of the leader's term created so far is at or below its last index). *)
Theorem C08_index_above_everything_acknowledged_before_the_call : forall cfg g0,
  cinit_ok cfg g0 -> acks_ordered false cfg g0.
Proof. exact acks_ordered_all_runs. Qed.
Print Assumptions C08_index_above_everything_acknowledged_before_the_call.
Theorem C08_index_above_everything_acknowledged_before_the_call_with_snapshots : forall cfg g0,
  cinit_snap_ok cfg g0 -> acks_ordered true cfg g0.
Proof. exact acks_ordered_all_runs_snapshots. Qed.
Print Assumptions C08_index_above_everything_acknowledged_before_the_call_with_snapshots.
