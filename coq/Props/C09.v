(* C09 — VerifyLeader succeeds only with a fresh majority of voters.
   Statements only; proofs in Proofs/LeaderProofs.v, ConfigProofs.v.
   After the "fix:" commit (F2) the request is registered with voters only.  KNOWN FINDING F2b
   (not repaired): an exchange that was SENT before the call but whose answer is processed after
   the registration is counted - "after the call was made" then holds for the processing of the
   answer, not for the sending of the request.  The theorem below is therefore about WHO is
   counted and HOW MANY; the freshness of each counted exchange is what the monitor checks on real
   histories (signature ...-exchange-sent-before-the-call-counted is the known finding). *)
From Coq Require Import List NArith.
From stdpp Require Import gmap.
From RaftModel Require Import Base Config Node Leader.
From RaftProofs Require Import LeaderProofs ConfigProofs.
Open Scope N_scope.

Theorem C09_registered_with_voters_only : forall P s votes q now peers,
  verify_leader P s = (votes, q, now, peers) ->
  votes = 1 /\ q = quorum_size (v_latest s) /\
  forall p, In p peers -> p <> p_self P /\ has_vote (v_latest s) p = true.
Proof. exact verify_registers_only_voters. Qed.
Print Assumptions C09_registered_with_voters_only.

(* success = the caller's own vote + positive answers of at least quorumSize-1 registered peers,
   no negative answer before; quorumSize is a strict majority of the voters *)
Theorem C09_success_needs_quorum : forall quorum acks votes v,
  verify_session votes quorum acks = (v, Some true) ->
  exists pre post, acks = pre ++ post /\ Forall (fun b => b = true) pre /\
                   v = votes + N.of_nat (length pre) /\ quorum <= v.
Proof. exact verify_session_success. Qed.
Print Assumptions C09_success_needs_quorum.

Theorem C09_quorum_is_strict_majority : forall c,
  let n := N.of_nat (length (voters c)) in 2 * quorum_size c > n.
Proof. intros c. apply quorum_size_majority. Qed.

Example C09_nontrivial :
  let cfg := [mkSrv 0 1 1; mkSrv 0 2 2; mkSrv 0 3 3; mkSrv 1 4 4] in
  let P := mkP 1 false false false 100 4 (fun _ => cfg) in
  let s := mkNS 3 0 None ∅ 0 0 [] 2 3 0 0 4 2 0 0 cfg 1 cfg 1 1 1 false [] (0, 0) in
  verify_leader P s = (1, 2, false, [2; 3]) /\
  verify_session 1 2 [true] = (2, Some true) /\ verify_session 1 2 [false; true] = (1, Some false).
Proof. vm_compute. repeat split. Qed.
