(* C02 — State machine safety (stream part, one server).
   Statements only; proofs in Proofs/RecoverProofs.v.
   PARTIAL: what is proved is the per-server half: whatever commit index is handed to processLogs,
   the FSM receives exactly log(lastApplied, index] in increasing index order, each entry once, and
   a restore (InstallSnapshot / start-up) sets the FSM to the snapshot content and lastApplied to
   the snapshot index, so the next entry handed over is snapshot+1.  That every server's log agrees
   on committed indices (C03/C04 globally) is checked on real cluster histories by the monitors
   (fsm-entries-differ-across-servers, uncommitted-entry-applied, ...), not proved for all runs. *)
From Coq Require Import List NArith.
From stdpp Require Import gmap.
From RaftModel Require Import Base Config Node.
From RaftProofs Require Import RecoverProofs.
Open Scope N_scope.

Theorem C02_fsm_stream_in_order : forall s idx s' tr,
  process_logs s idx = Some (s', tr) -> v_applied s < idx ->
  exists es,
    length es = N.to_nat (idx - v_applied s) /\
    (forall k, (k < length es)%nat -> d_log s !! (v_applied s + 1 + N.of_nat k) = Some (nth k es (mkE 0 0 0 0))) /\
    tr = flat_map fsm_events (filter handed es) /\
    v_applied s' = idx /\
    v_fsm s' = fold_left fsm_apply (filter handed es) (v_fsm s) /\
    d_log s' = d_log s.
Proof. exact process_logs_stream. Qed.
Print Assumptions C02_fsm_stream_in_order.

(* an index at or below lastApplied is never applied again *)
Theorem C02_no_reapply : forall s idx, idx <= v_applied s -> process_logs s idx = Some (s, []).
Proof. exact process_logs_old_index. Qed.
Print Assumptions C02_no_reapply.

(* start-up: FSM = newest usable snapshot, lastApplied = its index *)
Theorem C02_startup_restore : forall P img s tr, keys_ok (d_log img) -> p_rc P = false ->
  recover P img = RecOk s tr ->
  match find sn_ok (list_snaps (d_snaps img)) with
  | Some sn => v_fsm s = sn_data sn /\ v_applied s = sn_idx sn /\ tr = [ESetTerm (d_term img) true; ERestore (sn_data sn)]
  | None => v_fsm s = [] /\ v_applied s = 0 /\ tr = [ESetTerm (d_term img) true]
  end.
Proof. intros P img s tr Hk Hrc H. apply (recover_ok P img s tr Hk H). exact Hrc. Qed.
Print Assumptions C02_startup_restore.

Example C02_nontrivial :
  let m := log_store ∅ [mkE 1 1 5 9000; mkE 2 1 0 102; mkE 3 1 1 0; mkE 4 2 4 0; mkE 5 2 0 205] in
  let s := mkNS 2 0 None m 0 0 [] 0 2 0 1 5 2 0 0 [] 0 [] 0 0 0 false [7] (0, 0) in
  match process_logs s 5 with
  | Some (s', tr) => v_applied s' = 5 /\ v_fsm s' = [7; 102; 205] /\
                     tr = [EApply (mkE 2 1 0 102); EApply (mkE 5 2 0 205)]
  | None => False
  end.
Proof. vm_compute. repeat split. Qed.
