(* C02 — State machine safety.
   Statements only; proofs in Proofs/RecoverProofs.v (one server) and Proofs/ClusterCommit*.v (all
   runs of the cluster with commitment).
   ONE SERVER: whatever commit index is handed to processLogs, the FSM receives exactly
   log(lastApplied, index] in increasing index order, each entry once, and a restore
   (InstallSnapshot / start-up) sets the FSM to the snapshot content and lastApplied to the snapshot
   index, so the next entry handed over is snapshot+1.
   ALL SERVERS, ALL RUNS (C02_state_machine_safety_all_runs): in every reachable state of the cluster
   transition system with commitment (Model/ClusterCommit.v) what two running servers know to be
   committed is the same history, and applied <= commit <= last index at every server - so, with the
   one-server half, every FSM is handed the same entries in the same order and nothing uncommitted.
   PARTIAL: runs without snapshots, InstallSnapshot, membership changes and RestoreCommittedLogs
   (with InstallSnapshot the statement is false on this code: known finding F3-ii); those clauses
   are checked on real cluster histories by the monitors. *)
From Coq Require Import List NArith.
From stdpp Require Import gmap.
From RaftModel Require Import Base Config Node NodeCodec Cluster ClusterLog ClusterCommit.
From RaftProofs Require Import RecoverProofs ClusterCommitSpec ClusterCommitMain ClusterCommitInit ClusterCommitCex
  ClusterCommitSnapSpec ClusterCommitSnapMain ClusterCommitSnapCex.
Open Scope N_scope.

Theorem C02_fsm_stream_in_order : forall s idx s' tr,
  process_logs s idx = Some (s', tr) -> v_applied s < idx ->
  exists es,
    length es = N.to_nat (idx - v_applied s) /\
    (forall k, (k < length es)%nat -> d_log s !! (v_applied s + 1 + N.of_nat k) = Some (nth k es (mkE 0 0 0 0))) /\
    tr = flat_map fsm_events (filter handed es) /\
    v_applied s' = idx /\
    v_fsm s' = fold_left fsm_apply (filter handed es) (v_fsm s) /\
    d_log s' = d_log s.
Proof. exact process_logs_stream. Qed.
Print Assumptions C02_fsm_stream_in_order.

(* an index at or below lastApplied is never applied again *)
Theorem C02_no_reapply : forall s idx, idx <= v_applied s -> process_logs s idx = Some (s, []).
Proof. exact process_logs_old_index. Qed.
Print Assumptions C02_no_reapply.

(* start-up: FSM = newest usable snapshot, lastApplied = its index *)
Theorem C02_startup_restore : forall P img s tr, keys_ok (d_log img) -> p_rc P = false ->
  recover P img = RecOk s tr ->
  match find sn_ok (list_snaps (d_snaps img)) with
  | Some sn => v_fsm s = sn_data sn /\ v_applied s = sn_idx sn /\ tr = [ESetTerm (d_term img) true; ERestore (sn_data sn)]
  | None => v_fsm s = [] /\ v_applied s = 0 /\ tr = [ESetTerm (d_term img) true]
  end.
Proof. intros P img s tr Hk Hrc H. apply (recover_ok P img s tr Hk H). exact Hrc. Qed.
Print Assumptions C02_startup_restore.

Example C02_nontrivial :
  let m := log_store ∅ [mkE 1 1 5 9000; mkE 2 1 0 102; mkE 3 1 1 0; mkE 4 2 4 0; mkE 5 2 0 205] in
  let s := mkNS 2 0 None m 0 0 [] 0 2 0 1 5 2 0 0 [] 0 [] 0 0 0 false [7] (0, 0) in
  match process_logs s 5 with
  | Some (s', tr) => v_applied s' = 5 /\ v_fsm s' = [7; 102; 205] /\
                     tr = [EApply (mkE 2 1 0 102); EApply (mkE 5 2 0 205)]
  | None => False
  end.
Proof. vm_compute. repeat split. Qed.


(* ================= ALL SERVERS, ALL RUNS (Model/ClusterCommit.v) =================
   For EVERY run of the cluster with commitment - elections, dispatchLogs, replicateTo sending from
   each follower's nextIndex (any lastIndex it may have read), requests executed by the followers'
   handlers late, repeatedly, out of order or never, answers returning to the blocked call or lost,
   commitment.match, the leader loop advancing the commit index, restarts, store failures
   (DeleteRange included) and crash cuts inside every handler - from a freshly booted cluster
   (cinit_ok: Proofs/ClusterCommitSpec.v) and as long as no LogConfiguration entry is proposed and
   vote requests are those real candidates sent (label_ok):
     - committed_agree: two running servers hold the SAME entry at every index both know committed;
     - applied_within_commit: lastApplied <= commitIndex <= lastIndex at every running server.
   This holds for the follower rule min(LeaderCommit, index of the last entry of the request) (fix:
   a641560).  For the pinned rule min(LeaderCommit, own last index) the prover produced
   counterexamples, replayed on real servers (finding F11). *)
Theorem C02_state_machine_safety_all_runs : forall cfg g0 ls g,
  cinit_ok cfg g0 -> Forall label_ok ls -> crun false [cfg] g0 ls = Some g ->
  committed_agree g /\ applied_within_commit g.
Proof. intros cfg g0 ls g H0 Hl Hr. destruct (state_machine_safety cfg g0 ls g H0 Hl Hr) as (A & _ & B). split; assumption. Qed.
Print Assumptions C02_state_machine_safety_all_runs.

(* non-vacuity: every state the correspondence driver (component 102) starts from is such an initial state *)
Theorem C02_driver_states_are_initial : forall n extras,
  cinit_ok (mk_cfg n)
    (mkCG (mkLG (mkG (map (fun p => mk_node (mk_cfg n) (N.of_nat (fst p)) (snd p)) (combine (seq 1 n) extras)) [] [] []) []) [] [] []).
Proof. exact mk_nodes_cinit. Qed.

(* the no-stray-vote condition is needed: a forged RequestVote (LeadershipTransfer set, made-up last
   log) obtains a vote, the real request is then re-granted without a log check *)
Theorem C02_forged_vote_request_refutes_safety : exists cfg g0 ls g,
  cinit_ok cfg g0 /\ Forall label_no_config ls /\ crun false [cfg] g0 ls = Some g /\
  ~ committed_agree g /\ ~ leader_complete g.
Proof. exact forged_vote_refutes_safety. Qed.

(* regression of finding F11: the two runs that broke the pinned follower rule (a lastIndex read before
   the leader's no-op; five failing DeleteRange calls) now end without a violation *)
Example C02_F11_runs_now_safe :
  (exists g, crun false [mk_cfg 3] cex_g0 cexB_labels = Some g /\
     (no_violation g [1; 2; 3] [1; 2; 3; 4] && (commit_of g 1 =? 4) && (commit_of g 3 =? 2)) = true) /\
  (exists g, crun false [mk_cfg 3] cexC_g0 cexC_labels = Some g /\
     (no_violation g [1; 2; 3] [1; 2; 3; 4; 5; 6] && (commit_of g 1 =? 6) && (commit_of g 3 =? 5)) = true).
Proof. split; [exact old_rule_cexB_now_safe | exact old_rule_cexC_now_safe]. Qed.


(* THE SAME WITH takeSnapshot + log compaction at any server at any time (crun true; any TrailingLogs,
   failing stores and crash cuts inside takeSnapshot), from a freshly booted cluster whose FSM
   goroutines have handled nothing yet (cinit_snap_ok): committed_agree as before; lastApplied is
   bounded by max(commitIndex, own snapshot index) (a restart restores the snapshot and resets the
   volatile commit index: C02_restart_refutes_applied_le_commit shows the plain bound is false then). *)
Theorem C02_state_machine_safety_all_runs_with_snapshots : forall cfg g0 ls g,
  cinit_snap_ok cfg g0 -> Forall label_ok ls -> crun true [cfg] g0 ls = Some g ->
  committed_agree g /\ applied_within_snap g.
Proof. intros cfg g0 ls g H0 Hl Hr. destruct (state_machine_safety_snapshots cfg g0 ls g H0 Hl Hr) as (A & _ & B & _). split; assumption. Qed.
Print Assumptions C02_state_machine_safety_all_runs_with_snapshots.

Theorem C02_restart_refutes_applied_le_commit : exists cfg g0 ls g,
  cinit_snap_ok cfg g0 /\ Forall label_ok ls /\ crun true [cfg] g0 ls = Some g /\
  ~ applied_within_commit g /\ applied_within_snap g.
Proof. exact restart_from_snapshot_refutes_applied_within_commit. Qed.

(* Tie 2b (translator, every run): on every path of the regenerated appendEntries a failed truncation or a failed
   StoreLogs is never followed by a store or by success (what an FSM is later handed rests on it: round-4 seed C02d) *)
From RaftModel Require Import GenTrees Trees GenTreesAE.
From RaftProofs Require Import GenTreesAESpec.
Theorem C02_regenerated_appendEntries_never_succeeds_over_a_failed_store : append_entries_effects_in_order.
Proof. exact append_entries_effects_in_order_holds. Qed.
Print Assumptions C02_regenerated_appendEntries_never_succeeds_over_a_failed_store.

(* installSnapshot, every path of the regenerated tree: success is never assigned, and the applied index / last snapshot
   are not moved, on a path where the stream delivered another number of bytes than req.Size, where closing the snapshot
   sink failed, or where the FSM's restore reported an error (round-2 seed C02b; removing the `return` after the short
   read breaks this theorem) *)
Theorem C02_regenerated_installSnapshot_succeeds_only_after_a_complete_restore : install_snapshot_success_only_after_a_complete_restore.
Proof. exact install_snapshot_success_only_after_a_complete_restore_holds. Qed.
Print Assumptions C02_regenerated_installSnapshot_succeeds_only_after_a_complete_restore.
