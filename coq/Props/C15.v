(* C15 — FileSnapshotStore is crash-atomic, verified and retains the newest.
   Statements only; proofs in Proofs/FileSnapA..J.v and Proofs/FileSnapProofs.v.
   Model: Model/FileSnap.v (the file-system op program of Create/Write/Close/Cancel/reap, a file
   system with the stated persistence model, crashes, List/Open), vocabulary in Model/FileSnapSpec.v.
   Tie: the op program is compared with the syscalls of the real store under strace; List/Open are
   compared on materialised crash images and explicit (corrupted) images (components 15/1501/1502).

   Persistence model (a trusted statement about the platform, in Model/FileSnap.v): directory
   operations persist in program order (a crash keeps a prefix j of them), any fsync is a barrier
   for the earlier ones (j >= last fsync), a file's content written after its last fsync is
   ARBITRARY after the crash: the theorems hold for every junk function jm, js. *)
From Coq Require Import List NArith Bool.
From RaftModel Require Import FileSnap FileSnapSpec.
From RaftProofs Require Import FileSnapProofs FileSnapOpen.
Import ListNotations.
Open Scope N_scope.

(* For every history of Create/Write/Close/Cancel (any order of terms and indices, any sizes, any
   number of sinks open at once), every unlink order of RemoveAll, every crash point k, every
   surviving directory prefix j allowed by the fsyncs, and every content of the un-synced files: *)

(* 1. whatever List returns opens, with exactly the bytes written to that sink (checksum verified),
      carries the (term, index) it was created with, came from a Close and was renamed before the crash *)
Theorem C15_listed_snapshots_open_with_what_was_written : forall sfirst retain script k j jm js,
  well_formed script ->
  crash_ok (program sfirst retain script) k j = true ->
  forall sid m, In (sid, m) (list_snaps retain (crash_tree (program sfirst retain script) k j jm js)) ->
    open_snap (crash_tree (program sfirst retain script) k j jm js) sid = Some (written script sid) /\
    created_as script sid = Some (mv_term m, mv_index m) /\
    ended script sid = Some true /\
    In (FRename sid) (firstn k (program sfirst retain script)).
Proof. exact listed_opens. Qed.
Print Assumptions C15_listed_snapshots_open_with_what_was_written.

(* 2. newest first, no duplicates, at most retain *)
Theorem C15_list_sorted_and_bounded : forall sfirst retain script k j jm js,
  well_formed script ->
  crash_ok (program sfirst retain script) k j = true ->
  let L := list_snaps retain (crash_tree (program sfirst retain script) k j jm js) in
  sorted_desc L /\ NoDup (map fst L) /\ (length L <= N.to_nat retain)%nat.
Proof. exact listed_sorted. Qed.
Print Assumptions C15_list_sorted_and_bounded.

(* 3. a snapshot whose Close had returned nil is durable and listed - unless retain listed
      snapshots are all newer (retention never removes the newest) *)
Theorem C15_closed_snapshot_is_listed : forall sfirst retain script k j jm js,
  well_formed script ->
  crash_ok (program sfirst retain script) k j = true ->
  let L := list_snaps retain (crash_tree (program sfirst retain script) k j jm js) in
  forall sid t i, close_returned sfirst retain script sid k -> created_as script sid = Some (t, i) ->
    In sid (map fst L) \/
    (length L = N.to_nat retain /\ forall x, In x L -> key_lt (sid, mkMV 1 t i (Some (written script sid))) x = true).
Proof. exact closed_is_listed. Qed.
Print Assumptions C15_closed_snapshot_is_listed.

(* 4. a cancelled snapshot, or one not yet renamed when the crash happened, is never listed *)
Theorem C15_unfinished_snapshot_never_listed : forall sfirst retain script k j jm js,
  well_formed script ->
  crash_ok (program sfirst retain script) k j = true ->
  forall sid, (ended script sid = Some false \/ ~ In (FRename sid) (firstn k (program sfirst retain script))) ->
    ~ In sid (map fst (list_snaps retain (crash_tree (program sfirst retain script) k j jm js))).
Proof. exact unfinished_not_listed. Qed.
Print Assumptions C15_unfinished_snapshot_never_listed.

(* corrupted files (explicit images): Open never returns bytes that differ from what the metadata's
   checksum covers - directly from the definition of open_snap, stated for any file system *)
Theorem C15_open_returns_checksummed_bytes : forall f sid bytes,
  open_snap f sid = Some bytes ->
  exists d x y m, find_final f sid = Some d /\ d_meta d = Some x /\ d_state d = Some y /\
                  mf_c x = MFull m /\ mv_crc m = Some bytes /\ sf_c y = bytes.
Proof. exact open_checksummed. Qed.
Print Assumptions C15_open_returns_checksummed_bytes.

(* non-vacuity: three snapshots, retain 2, a crash in the middle of the reap of the oldest, with
   the platform's unlink order (state.bin first): the half-removed snapshot is not listed *)
Example C15_example :
  let script := [SCreate 1 1 1; SWrite 1 [7]; SClose 1; SCreate 2 1 2; SClose 2; SCreate 3 2 1; SWrite 3 [8; 9]; SClose 3] in
  let ops := program true 2 script in
  crash_ok ops (length ops - 2) (length ops - 2) = true /\
  map fst (list_snaps 2 (crash_tree ops (length ops - 2) (length ops - 2) (jm_code 0) (js_code 0))) = [3; 2] /\
  open_snap (crash_tree ops (length ops - 2) (length ops - 2) (jm_code 0) (js_code 0)) 3 = Some [8; 9].
Proof. vm_compute. repeat split. Qed.

Example C15_example_program :
  program false 1 [SCreate 1 1 1; SWrite 1 [65; 66]; SClose 1]
  = [FMkdir 1; FCreateMeta 1; FWriteMeta 1 (mkMV 1 1 1 None); FSyncMeta 1; FCreateState 1;
     FWriteState 1 [65; 66]; FSyncState 1; FCreateMeta 1; FWriteMeta 1 (mkMV 1 1 1 (Some [65; 66])); FSyncMeta 1;
     FRename 1; FSyncParent].
Proof. reflexivity. Qed.
