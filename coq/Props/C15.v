(* C15 — FileSnapshotStore is crash-atomic, verified and retains the newest.  (statements: see below) *)
From Coq Require Import List NArith Bool.
From RaftModel Require Import FileSnap.
Import ListNotations.
Open Scope N_scope.

Example C15_example_program :
  program false 1 [SCreate 1 1 1; SWrite 1 [65; 66]; SClose 1]
  = [FMkdir 1; FCreateMeta 1; FWriteMeta 1 (mkMV 1 1 1 None); FSyncMeta 1; FCreateState 1;
     FWriteState 1 [65; 66]; FSyncState 1; FCreateMeta 1; FWriteMeta 1 (mkMV 1 1 1 (Some [65; 66])); FSyncMeta 1;
     FRename 1; FSyncParent].
Proof. reflexivity. Qed.
