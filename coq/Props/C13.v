(* C13 — Leader lease: isolated leaders step down promptly, healthy ones stay.
   Statements only; proofs in Proofs/LeaseProofs.v. Time is N nanoseconds. *)
From Coq Require Import List NArith.
From RaftModel Require Import Base Config Lease.
From RaftProofs Require Import LeaseProofs.
Open Scope N_scope.

(* checkLeaderLease steps down exactly when the voters heard from within the lease (the leader
   itself included) are fewer than quorumSize: any configuration, any contact times *)
Theorem C13_check_lease_spec : forall cfg self contacts lease now,
  fst (check_lease cfg self contacts lease now) = true <->
  N.of_nat (length (filter (fresh contacts lease now self) cfg)) < quorum_size cfg.
Proof. exact check_lease_spec. Qed.
Print Assumptions C13_check_lease_spec.

Theorem C13_nonvoters_never_counted : forall contacts lease now self sv,
  is_voter sv = false -> fresh contacts lease now self sv = false.
Proof. exact fresh_ignores_nonvoters. Qed.

(* once the leader hears from too few voters (after t0), EVERY check later than t0 + lease steps
   down - whatever non-voters are on its side *)
Theorem C13_isolated_check_steps_down : forall cfg self contacts lease now t0,
  lost_majority cfg self contacts t0 -> t0 + lease < now ->
  fst (check_lease cfg self contacts lease now) = true.
Proof. exact isolated_check_steps_down. Qed.
Print Assumptions C13_isolated_check_steps_down.

(* checks are scheduled between minCheckInterval and one lease apart (plus scheduling latency
   dmax), so a check that has not stepped down is no later than t0 + lease and the next one comes
   within lease + dmax: step-down within t0 + 2*lease + dmax *)
Theorem C13_no_stepdown_only_early : forall lease dmax cfg self t0 l a,
  min_check_interval <= lease ->
  spaced lease dmax cfg self (a :: l) -> lc_time a <= t0 + lease ->
  (forall c, In c (a :: l) -> lost_majority cfg self (lc_contacts c) t0) ->
  (forall c, In c (a :: l) -> fst (check_lease cfg self (lc_contacts c) lease (lc_time c)) = false) ->
  forall c, In c (a :: l) -> lc_time c <= t0 + lease.
Proof. exact isolated_steps_down_within. Qed.
Print Assumptions C13_no_stepdown_only_early.

Theorem C13_next_check_within_lease : forall lease dmax cfg self a b r,
  min_check_interval <= lease ->
  spaced lease dmax cfg self (a :: b :: r) -> lc_time b <= lc_time a + lease + dmax.
Proof. exact next_check_bound. Qed.
Print Assumptions C13_next_check_within_lease.

Theorem C13_interval_bounds : forall lease maxDiff, min_check_interval <= lease ->
  min_check_interval <= next_interval lease maxDiff /\ next_interval lease maxDiff <= lease.
Proof. exact next_interval_bounds. Qed.

(* a leader whose majority keeps responding within the lease is never deposed by the check *)
Theorem C13_healthy_never_steps_down : forall cfg self contacts lease now,
  quorum_size cfg <= N.of_nat (length (filter (fresh contacts lease now self) cfg)) ->
  fst (check_lease cfg self contacts lease now) = false.
Proof. exact healthy_never_steps_down. Qed.
Print Assumptions C13_healthy_never_steps_down.

Theorem C13_config_bounds : forall h e c l,
  validate_timing h e c l = true -> l <= h /\ h <= e /\ 5 * ms <= l /\ min_check_interval <= 2 * l.
Proof. exact validate_timing_bounds. Qed.
Print Assumptions C13_config_bounds.

(* Non-vacuity: 3 voters + 1 non-voter, lease 100 ms, now = 1 s: voter 2 heard 40 ms ago ->
   stays (maxDiff 40 ms, next check in 60 ms); only the non-voter heard recently -> steps down. *)
Example C13_nontrivial :
  let cfg := [mkSrv 0 1 1; mkSrv 0 2 2; mkSrv 0 3 3; mkSrv 1 4 4] in
  check_lease cfg 1 [(2, 960 * ms); (3, 100 * ms); (4, 1000 * ms)] (100 * ms) (1000 * ms) = (false, 40 * ms) /\
  next_interval (100 * ms) (40 * ms) = 60 * ms /\
  check_lease cfg 1 [(2, 800 * ms); (3, 100 * ms); (4, 1000 * ms)] (100 * ms) (1000 * ms) = (true, 0) /\
  lost_majority cfg 1 [(2, 800 * ms); (3, 100 * ms); (4, 1000 * ms)] (850 * ms).
Proof. vm_compute. repeat split. Qed.
