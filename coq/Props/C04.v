(* C04 — Log matching across servers (cluster level, all runs) and AppendEntries consistency
   (handler level).  Statements only; proofs in Proofs/AppendProofs.v and Proofs/ClusterLog*.v. *)
From Coq Require Import List NArith Lia.
From stdpp Require Import gmap.
From RaftModel Require Import Base Config Node NodeCodec Cluster ClusterLog ClusterCommit ClusterSnap.
From RaftProofs Require Import AppendProofs ClusterProofs ClusterLogSpec ClusterLogMain ClusterLogExample
  ClusterLogSnapSpec ClusterLogSnapMain ClusterLogSnapCex ClusterLogSnapExample ClusterSnapCex
  ClusterSnapLMSpec ClusterSnapLMMain ClusterSnapLMCex.
Open Scope N_scope.

(* ================= LOG MATCHING OVER ALL RUNS OF THE CLUSTER (Model/ClusterLog.v) =================
   For EVERY run of the cluster transition system — any number of servers starting from prefixes of
   one history (linit_ok: what a bootstrapped cluster looks like; Proofs/ClusterLogSpec.v), elections
   with vote requests delayed / duplicated / lost, stray vote requests, restarts, TimeoutNow, leaders
   storing entries (dispatchLogs), AppendEntries built by the leader's setupAppendEntries for ANY
   nextIndex and delivered late, repeatedly, out of order or never, heartbeats, a store failure or a
   crash cut at any durable operation of any handler — in every reachable state:
     - two logs that hold an entry of the same term at an index hold the SAME entry (term, type,
       data) at every index up to it that both retain;
     - within one log terms never decrease and every entry is stored under its own index.
   Elections are held under configurations whose majorities intersect (one configuration, or the
   two sides of one membership change).  NOT in this system: InstallSnapshot and user Restore
   (with InstallSnapshot the statement is false on this code: known finding F3-ii). *)
Theorem C04_log_matching_all_runs : forall cfgs g0 ls g,
  quorums_intersect cfgs -> linit_ok g0 -> lrun false cfgs g0 ls = Some g ->
  log_matching g /\ terms_monotone g.
Proof. exact log_matching_no_snapshots. Qed.
Print Assumptions C04_log_matching_all_runs.

(* the same with takeSnapshot + compaction at any server at any time (and crash cuts inside them),
   from states whose commit indices do not exceed a prefix c0 of the history every server holds
   (linit_snap_ok; the commit index only moves through the requests in this system) *)
Theorem C04_log_matching_all_runs_with_snapshots : forall cfgs g0 ls g,
  quorums_intersect cfgs -> linit_snap_ok g0 -> lrun true cfgs g0 ls = Some g ->
  log_matching g /\ terms_monotone g.
Proof. exact log_matching_with_snapshots. Qed.
Print Assumptions C04_log_matching_all_runs_with_snapshots.

(* why the commit condition is there: with an initial commit index that no majority backs, the
   snapshot-boundary acceptance of appendEntries lets two logs agree at an index and differ below
   (five servers, found by the prover, checked by vm_compute).  The condition is what commitment
   guarantees in the real system: nothing at or below a commit index is ever truncated. *)
Theorem C04_log_matching_needs_backed_commit_index :
  exists cfgs g0 ls g,
    quorums_intersect cfgs /\ linit_ok g0 /\ lrun true cfgs g0 ls = Some g /\ ~ log_matching g.
Proof. exact log_matching_with_snapshots_refuted. Qed.

(* non-vacuity: every state the correspondence driver (component 101) starts from satisfies linit_ok;
   a concrete start state satisfies linit_snap_ok and a run from it applies entries and takes a snapshot *)
Theorem C04_driver_states_are_initial : forall n extras,
  linit_ok (mkLG (mkG (map (fun p => mk_node (mk_cfg n) (N.of_nat (fst p)) (snd p)) (combine (seq 1 n) extras)) [] [] []) []).
Proof. exact mk_nodes_linit. Qed.
Example C04_snapshot_runs_exist :
  linit_snap_ok snap_g0 /\
  match lrun true [mk_cfg 3] snap_g0 snap_labels with Some g => took_snapshot g 2 | None => false end = true.
Proof. split; [exact snap_init_ok | exact snapshots_do_happen]. Qed.

(* WITH SNAPSHOT TRANSFER in the system (Model/ClusterSnap.v: sendLatestSnapshot / installSnapshot added to
   the cluster with commitment) Log Matching is FALSE on this code - known finding F3-ii: a server that
   installs a snapshot keeps a stale never-committed entry below the snapshot index in its log store.
   The witness is a script component 104 found on REAL servers (model and servers agreed step by step);
   it runs first in every C04 check. *)
Theorem C04_log_matching_with_snapshot_transfer_refuted :
  exists ls g, srun [mk_cfg 3] f3ii_init ls = Some g /\ ~ log_matching (lg_of g).
Proof. exact log_matching_with_snapshot_transfer_refuted. Qed.

(* what IS true in the system with snapshot transfer, for every run (store failures, crash cuts, requests
   executed late / twice / in reverse order - F12 included): Log Matching and monotone terms hold above the
   largest snapshot index stored anywhere in the cluster.  Nothing per-server can be claimed: the stale
   entries a server keeps below an installed snapshot (F3-ii) are replicated by it when it later leads and
   end up - overwriting committed entries - on servers that never saw a snapshot
   (C04_log_matching_above_own_snapshots_refuted, a 5-server run found by the prover). *)
Theorem C04_log_matching_above_all_snapshots_with_snapshot_transfer : forall cfg g0 ls g,
  sinit_ok cfg g0 -> srun [cfg] g0 ls = Some g ->
  log_matching_above_all_snapshots (lg_of g) /\ terms_monotone_above_all_snapshots (lg_of g).
Proof. exact log_matching_above_all_snapshots_all_runs. Qed.
Print Assumptions C04_log_matching_above_all_snapshots_with_snapshot_transfer.

Theorem C04_log_matching_above_own_snapshots_refuted : exists cfg g0 ls g,
  sinit_ok cfg g0 /\ Forall slabel_ok ls /\ srun [cfg] g0 ls = Some g /\
  ~ log_matching_above_snapshots (lg_of g) /\
  ~ log_matching_above_own_snapshots (lg_of g) /\
  ~ terms_monotone (lg_of g).
Proof. exact log_matching_above_snapshots_refuted. Qed.

(* ================= THE HANDLER (appendEntries) ================= *)

(* For EVERY follower state whose cached last-log index bounds its store and EVERY request with
   consecutive entry indices (any terms, any overlap with the follower's log, any batch boundary,
   any store-failure pattern):
   - nothing at or below the request's previous index changes;
   - an existing entry is removed or replaced only at or above the FIRST index where the stored
     term differs from the term sent;
   - on success, at every index sent the log holds an entry with the term sent: the entry sent,
     or the stored one it duplicates. *)
Theorem C04_append_entries : forall P s fs a s' r tr fs',
  cache_ok s -> contig (aq_prevIdx a) (aq_entries a) ->
  append_entries P s fs a = Done s' r tr fs' ->
  log_ok_fail (aq_prevIdx a) (aq_entries a) (d_log s) (d_log s') /\
  (ar_success r = true -> log_ok_success (aq_prevIdx a) (aq_entries a) (d_log s) (d_log s')).
Proof. exact append_entries_log. Qed.
Print Assumptions C04_append_entries.

(* what log_ok_fail / log_ok_success say, spelled out *)
Theorem C04_meaning_fail : forall prev es m m', log_ok_fail prev es m m' ->
  (forall i, i <= prev -> m' !! i = m !! i) /\
  (forall i x, m !! i = Some x -> m' !! i <> Some x -> exists c, first_conflict m es = Some c /\ c <= i).
Proof. intros prev es m m' [H1 H2]. auto. Qed.
Theorem C04_meaning_success : forall prev es m m', log_ok_success prev es m m' ->
  forall e, In e es -> exists e', m' !! e_idx e = Some e' /\ e_term e' = e_term e /\ (e' = e \/ m !! e_idx e = Some e').
Proof. intros prev es m m' [_ H]. exact H. Qed.

(* success implies the previous entry matched *)
Theorem C04_success_prev_matched : forall P s fs a s' r tr fs',
  append_entries P s fs a = Done s' r tr fs' -> ar_success r = true -> 0 < aq_prevIdx a ->
  (aq_prevIdx a = fst (last_entry s) /\ aq_prevTerm a = snd (last_entry s)) \/
  (aq_prevIdx a = v_lastSnapIdx s /\ aq_prevTerm a = v_lastSnapTerm s) \/
  (exists pe, d_log s !! aq_prevIdx a = Some pe /\ e_term pe = aq_prevTerm a).
Proof. exact append_success_prev. Qed.
Print Assumptions C04_success_prev_matched.

(* Non-vacuity: follower log terms [1;1;2;2], leader sends prev=(2,1) entries (3,t3) (4,t3) (5,t3):
   conflict at 3, suffix 3..4 removed, three entries stored, success. *)
Example C04_nontrivial :
  let P := mkP 1 false false false 100 4 (fun _ => []) in
  let m := log_store ∅ [mkE 1 1 0 101; mkE 2 1 0 102; mkE 3 2 0 203; mkE 4 2 0 204] in
  let s := mkNS 3 0 None m 0 0 [] 0 3 0 0 4 2 0 0 [] 0 [] 0 0 0 false [] (0, 0) in
  let a := mkAReq 3 3 3 2 1 [mkE 3 3 0 303; mkE 4 3 0 304; mkE 5 3 0 305] 0 in
  cache_ok s /\ contig (aq_prevIdx a) (aq_entries a) /\
  first_conflict m (aq_entries a) = Some 3 /\
  match append_entries P s [] a with
  | Done s' r tr _ => ar_success r = true /\ tr = [EDelete 3 4 true; EStore (aq_entries a) true] /\
                      d_log s' !! 2 = Some (mkE 2 1 0 102) /\ d_log s' !! 4 = Some (mkE 4 3 0 304)
  | Panic _ _ => False
  end.
Proof.
  cbv zeta. split.
  - intros i Hi. simpl in Hi. change (log_store ∅ [mkE 1 1 0 101; mkE 2 1 0 102; mkE 3 2 0 203; mkE 4 2 0 204] !! i = None).
    rewrite log_store_lookup.
    destruct (find_last i _) eqn:F; [|apply lookup_empty].
    apply find_last_In in F. destruct F as [F1 F2]. simpl in F1.
    destruct F1 as [<-|[<-|[<-|[<-|[]]]]]; simpl in F2; lia.
  - split; [simpl; repeat split; reflexivity|]. vm_compute. repeat split; reflexivity.
Qed.

(* Tie 2b (translator, every run): the decision tree of appendEntries regenerated from raft.go (Model/GenTreesAE.v,
   loops expanded "body once or not at all"). Over EVERY path of the source: entries are deleted only on a path that took
   the branch `entry.Term != storeEntry.Term`; on a path where that DeleteRange or StoreLogs failed nothing is stored
   afterwards and success is never assigned; once resp.Success = true is assigned no store operation follows; and the
   tree does contain these effects and conditions (Proofs/GenTreesAESpec.v). Order and presence of effects, not data. *)
From RaftModel Require Import GenTrees Trees GenTreesAE.
From RaftProofs Require Import GenTreesAESpec.
Theorem C04_regenerated_appendEntries_deletes_only_at_a_conflict_and_never_succeeds_over_a_failed_store : append_entries_effects_in_order.
Proof. exact append_entries_effects_in_order_holds. Qed.
Print Assumptions C04_regenerated_appendEntries_deletes_only_at_a_conflict_and_never_succeeds_over_a_failed_store.
