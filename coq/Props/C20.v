(* C20 — User Restore replaces the state of the whole cluster (leader side).
   Statements only; proofs in Proofs/LeaderProofs.v, CatchupProofs.v.
   PARTIAL: that every follower eventually holds the restored state is convergence (C12): the
   follower-side step "after the restore snapshot is installed the following AppendEntries is
   accepted" is proved (C12); the bound is runtime. *)
From Coq Require Import List NArith.
From stdpp Require Import gmap.
From RaftModel Require Import Base Config Commitment Node Leader LoopTable Paths.
From RaftProofs Require Import LeaderProofs.
Open Scope N_scope.

Theorem C20_restore_leader : forall P ls fs mi data so ls' res tr fs',
  restore_user P ls fs mi data so = (ls', 0, res, tr, fs') ->
  let s := l_node ls in let s' := l_node ls' in
  v_fsm s' = data /\
  v_lastLogIdx s' = N.max mi (last_index s) + 1 /\ mi < v_lastLogIdx s' /\ last_index s < v_lastLogIdx s' /\
  last_index s' = v_lastLogIdx s' /\ v_applied s' = v_lastLogIdx s' /\ v_lastSnapIdx s' = v_lastLogIdx s' /\
  l_inflight ls' = [] /\
  res = map (fun x => mkFR (snd x) (e_idx (fst x)) E_ABORTED 0) (l_inflight ls) /\
  (exists sn, last (d_snaps s') sn = sn /\ In sn (d_snaps s') /\ sn_idx sn = v_lastLogIdx s' /\
              sn_data sn = data /\ sn_cfg sn = v_latest s /\ sn_cfgidx sn = v_latestIdx s) /\
  v_committedIdx s = v_latestIdx s.
Proof. exact restore_user_ok. Qed.
Print Assumptions C20_restore_leader.

Theorem C20_refused_while_configuration_uncommitted : forall P ls fs mi data so,
  v_committedIdx (l_node ls) <> v_latestIdx (l_node ls) ->
  restore_user P ls fs mi data so = (ls, 1, [], [], fs).
Proof. exact restore_refused_uncommitted_config. Qed.
Print Assumptions C20_refused_while_configuration_uncommitted.

Theorem C20_later_entries_above : forall P ls fs mi data so ls' res tr fs' reqs fs2 k ty d fid,
  restore_user P ls fs mi data so = (ls', 0, res, tr, fs') ->
  nth_error reqs k = Some (ty, d, fid) ->
  let '(ls'', _, _, _) := dispatch P ls' fs2 reqs in
  exists e, In (e, fid) (l_inflight ls'') /\ mi < e_idx e /\ last_index (l_node ls) < e_idx e.
Proof. exact dispatch_after_restore_above. Qed.
Print Assumptions C20_later_entries_above.

Example C20_nontrivial :
  let cfg := [mkSrv 0 1 1; mkSrv 0 2 2; mkSrv 0 3 3] in
  let P := mkP 1 false false false 100 4 (fun _ => cfg) in
  let s := mkNS 3 0 None ∅ 0 0 [] 2 3 0 0 4 2 0 0 cfg 1 cfg 1 1 1 false [7] (0, 0) in
  let ls := mkLS s (cm_new cfg 5) [(mkE 5 3 0 501, 11); (mkE 6 3 0 502, 12)] in
  match restore_user P ls [] 10 [901; 902] true with
  | (ls', code, res, tr, _) =>
    code = 0 /\ v_fsm (l_node ls') = [901; 902] /\ v_lastLogIdx (l_node ls') = 11 /\
    res = [mkFR 11 5 E_ABORTED 0; mkFR 12 6 E_ABORTED 0] /\ l_inflight ls' = []
  end.
Proof. vm_compute. repeat split. Qed.


(* "Restore is refused while a leadership transfer is in progress": on the control-flow paths regenerated
   from leaderLoop's userRestoreCh case (Model/LoopTable.v, decision procedure Model/Paths.v) the branch
   taken when getLeadershipTransferInProgress() holds answers ErrLeadershipTransferInProgress and calls
   nothing else; every other path runs restoreUserSnapshot (whose own refusal while a membership change is
   uncommitted is C20_restore_refused_during_config_change). *)
Theorem C20_restore_refused_during_leadership_transfer : restore_case_ok = true.
Proof. vm_compute. reflexivity. Qed.
Print Assumptions C20_restore_refused_during_leadership_transfer.
